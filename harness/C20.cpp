// C20 correspondence harness: explicit integrators, step-size controller, Hermite interpolation; accuracy
// predicates for every error-controlled integrator (incl. Verlet and CPodes) on analytic problems.
//
// A custom SimTK::System (no multibody code) implements   y' = M y + sum_k C_k t^k   (kind "lin") or the
// pendulum q'' = -g sin q (kind "pend") with state y = (q[nq], u[nq], z[nz]), qdot = u (N = I), no constraints.
//
// Records (model side: lean/Drivers/C20.lean running lean/SimbodyModel/C20.lean at Float):
//   I traj  <method> <rhs...> t0 y0 h nsteps              fixed step (setFixedStepSize), every internal step returned
//   O traj  t_k y_k ... for each step                     -> model replays the whole trajectory
//   I vstep <method> <useInf> <rhs...> acc t0 y0 hcur tMax umin umax
//   O vstep t1 y1 hLast hNext nFail                       -> one call of takeOneStep: attemptDAEStep, calcErrorNorm (RMS/inf,
//                                                            relative scaling), adjustStepSize, retries, user limits, tMax limiting
//   I istep <method> <useInf> <rhs...> acc t0 y0 hcur umin umax tReport
//   O istep tAdv yAdv tReturned yReturned nSteps          -> steps until tReport is passed, then createInterpolatedState
//                                                            (interpolateOrder3; linear for the Euler variants)
//   I acc ladder|order|interp <method> <problem...>       implementation-only records (O acc 1) carrying the P lines
//   <rhs...> = kind nq nz deg M[ny*ny] C[ny*(deg+1)]      (kind 0 = lin, 1 = pend with M[0] = g)
// P lines: global error / accuracy (and per step), tightening accuracy x100 never makes it worse, fixed-step
// convergence order vs Integrator::getMethodMinOrder(), interpolated report states vs the step states around them.
// --mode replay re-runs exactly the I lines read from stdin (every record carries all its inputs).
#include "SimTKcommon.h"
#include "SimTKmath.h"
#include "SimTKcommon/internal/SystemGuts.h"
#include "hcommon.h"
#include <memory>
#include <algorithm>
#include <functional>
using namespace SimTK;

// ------------------------------------------------------------------------------------------ right-hand side
struct Rhs {
    int kind = 0, nq = 0, nz = 0, deg = 0;
    std::vector<double> M, C;
    int ny() const { return 2 * nq + nz; }
    // exactly this arithmetic order is mirrored by the Lean driver
    void eval(double t, const double* y, double* yd) const {
        const int n = ny();
        if (kind == 1) { yd[0] = y[1]; yd[1] = -(M[0] * std::sin(y[0])); return; }
        for (int i = 0; i < n; ++i) {
            double s = 0;
            for (int j = 0; j < n; ++j) s += M[i * n + j] * y[j];
            double p = C[i * (deg + 1) + deg];
            for (int k = deg - 1; k >= 0; --k) p = p * t + C[i * (deg + 1) + k];
            yd[i] = s + p;
        }
    }
    void emit(vh::Line& L) const {
        L.i(kind).i(nq).i(nz).i(deg);
        for (double x : M) L.d(x);
        for (double x : C) L.d(x);
    }
};

class OdeGuts : public System::Guts {
public:
    Rhs rhs;
    SubsystemIndex sub;
    OdeGuts* cloneImpl() const override { return new OdeGuts(*this); }
    int realizeTopologyImpl(State& s) const override {
        if (rhs.nq > 0) { s.allocateQ(sub, Vector(rhs.nq, Real(0))); s.allocateU(sub, Vector(rhs.nq, Real(0))); }
        if (rhs.nz > 0) s.allocateZ(sub, Vector(rhs.nz, Real(0)));
        System::Guts::realizeTopologyImpl(s);
        return 0;
    }
    int realizeModelImpl(State& s) const override { System::Guts::realizeModelImpl(s); return 0; }
    int realizeInstanceImpl(const State& s) const override { System::Guts::realizeInstanceImpl(s); return 0; }
    int realizeVelocityImpl(const State& s) const override {
        if (rhs.nq > 0) s.updQDot() = s.getU();
        System::Guts::realizeVelocityImpl(s);
        return 0;
    }
    int realizeAccelerationImpl(const State& s) const override {
        const int n = rhs.ny(), nq = rhs.nq, nz = rhs.nz;
        std::vector<double> y(n), yd(n);
        const Vector& Y = s.getY();
        for (int i = 0; i < n; ++i) y[i] = Y[i];
        rhs.eval(s.getTime(), y.data(), yd.data());
        if (nq > 0) {
            Vector& ud = s.updUDot();
            for (int i = 0; i < nq; ++i) ud[i] = yd[nq + i];
            s.updQDotDot() = ud;
        }
        if (nz > 0) { Vector& zd = s.updZDot(); for (int i = 0; i < nz; ++i) zd[i] = yd[2 * nq + i]; }
        System::Guts::realizeAccelerationImpl(s);
        return 0;
    }
    void multiplyByNImpl(const State&, const Vector& u, Vector& dq) const override { dq = u; }
    void multiplyByNTransposeImpl(const State&, const Vector& fq, Vector& fu) const override { fu = fq; }
    void multiplyByNPInvImpl(const State&, const Vector& dq, Vector& u) const override { u = dq; }
    void multiplyByNPInvTransposeImpl(const State&, const Vector& fu, Vector& fq) const override { fq = fu; }
};

class OdeSystem : public System {
public:
    explicit OdeSystem(const Rhs& r) : System() {
        OdeGuts* g = new OdeGuts(); g->rhs = r;
        adoptSystemGuts(g);
        DefaultSystemSubsystem defsub(*this);
        dynamic_cast<OdeGuts&>(updSystemGuts()).sub = defsub.getMySubsystemIndex();
        setHasTimeAdvancedEvents(false);
    }
};

// ------------------------------------------------------------------------------------------ integrators
static std::unique_ptr<Integrator> makeInteg(const std::string& m, const System& sys) {
    if (m == "merson") return std::unique_ptr<Integrator>(new RungeKuttaMersonIntegrator(sys));
    if (m == "rkf") return std::unique_ptr<Integrator>(new RungeKuttaFeldbergIntegrator(sys));
    if (m == "rk3") return std::unique_ptr<Integrator>(new RungeKutta3Integrator(sys));
    if (m == "rk2") return std::unique_ptr<Integrator>(new RungeKutta2Integrator(sys));
    if (m == "euler") return std::unique_ptr<Integrator>(new ExplicitEulerIntegrator(sys));
    if (m == "see2") return std::unique_ptr<Integrator>(new SemiExplicitEuler2Integrator(sys));
    if (m == "see") return std::unique_ptr<Integrator>(new SemiExplicitEulerIntegrator(sys, 0.01));
    if (m == "verlet") return std::unique_ptr<Integrator>(new VerletIntegrator(sys));
    if (m == "cpodes_bdf") return std::unique_ptr<Integrator>(new CPodesIntegrator(sys, CPodes::BDF));
    if (m == "cpodes_adams") return std::unique_ptr<Integrator>(new CPodesIntegrator(sys, CPodes::Adams));
    return nullptr;
}

static State initialState(OdeSystem& sys, double t0, const std::vector<double>& y0) {
    State s = sys.realizeTopology();
    sys.realizeModel(s);
    s.updTime() = t0;
    Vector& Y = s.updY();
    for (int i = 0; i < (int)y0.size(); ++i) Y[i] = y0[i];
    return s;
}
static std::vector<double> toStd(const Vector& v) { std::vector<double> r(v.size()); for (int i = 0; i < v.size(); ++i) r[i] = v[i]; return r; }

// ------------------------------------------------------------------------------------------ common set-up
struct Setup {
    std::string method; int useInf = 0; Rhs rhs; double acc = 1e-3, t0 = 0; std::vector<double> y0;
    double hinit = -1, tFinal = Infinity, umin = -1, umax = -1;
};
static std::unique_ptr<Integrator> start(const Setup& S, OdeSystem& sys, bool everyStep = true) {
    State s = initialState(sys, S.t0, S.y0);
    std::unique_ptr<Integrator> integ = makeInteg(S.method, sys);
    integ->setAccuracy(S.acc);
    if (S.useInf) integ->setUseInfinityNorm(true);
    if (S.hinit > 0) integ->setInitialStepSize(S.hinit);
    if (S.umin > 0) integ->setMinimumStepSize(S.umin);
    if (S.umax > 0) integ->setMaximumStepSize(S.umax);
    if (S.tFinal < Infinity) integ->setFinalTime(S.tFinal);
    integ->setReturnEveryInternalStep(everyStep);
    integ->initialize(s);
    return integ;
}

// ------------------------------------------------------------------------------------------ traj (fixed step)
static void trajCase(const std::string& method, const Rhs& rhs, double t0, const std::vector<double>& y0, double h, int nsteps,
                     const std::string& tag) {
    vh::Line in = vh::I("traj"); in.s(method); rhs.emit(in); in.d(t0);
    for (double x : y0) in.d(x);
    in.d(h).i(nsteps); in.emit();
    vh::Line out = vh::O("traj");
    try {
        OdeSystem sys(rhs);
        Setup S; S.method = method; S.rhs = rhs; S.t0 = t0; S.y0 = y0; S.hinit = S.umin = S.umax = h;
        std::unique_ptr<Integrator> integ = start(S, sys);
        int got = 0, guard = 0;
        while (got < nsteps && guard++ < 10 * nsteps + 10) {
            const int before = integ->getNumStepsTaken();
            integ->stepTo(Infinity);
            if (integ->getNumStepsTaken() > before) {
                ++got;
                const State& a = integ->getAdvancedState();
                out.d(a.getTime());
                for (int i = 0; i < a.getNY(); ++i) out.d(a.getY()[i]);
            }
        }
    } catch (const std::exception& e) { out.s(std::string("EXC")); }
    out.emit();
    vh::D("traj." + method + "." + tag);
}

// ------------------------------------------------------------------------------------------ vstep (one takeOneStep)
static void emitVstepIn(const Setup& S, double hcur, double tMax) {
    vh::Line in = vh::I("vstep"); in.s(S.method).i(S.useInf); S.rhs.emit(in); in.d(S.acc).d(S.t0);
    for (double x : S.y0) in.d(x);
    in.d(hcur).d(tMax).d(S.umin > 0 ? S.umin : -1.0).d(S.umax > 0 ? S.umax : -1.0); in.emit();
}
static void emitVstepOut(double t1, const Vector& y1, double hLast, double hNext, int nFail, const std::string& tag,
                         const std::string& method, int nConvFail = 0) {
    vh::Line out = vh::O("vstep"); out.d(t1);
    for (int i = 0; i < y1.size(); ++i) out.d(y1[i]);
    out.d(hLast).d(hNext).i(nFail); out.emit();
    vh::D("vstep." + method + "." + tag + (nFail ? ".retried" : ".firsttry") + (nConvFail ? ".nonconv" : ""));
}
// fresh integrator at (t0,y0) with step size hcur, tMax = final time: exactly one internal step
static void vstepFresh(Setup S, double hcur, double tMax, const std::string& tag) {
    S.hinit = hcur; S.tFinal = tMax;
    emitVstepIn(S, hcur, tMax);
    try {
        OdeSystem sys(S.rhs);
        std::unique_ptr<Integrator> integ = start(S, sys);
        int guard = 0;
        while (integ->getNumStepsTaken() < 1 && guard++ < 5) integ->stepTo(Infinity);
        emitVstepOut(integ->getAdvancedTime(), integ->getAdvancedState().getY(), integ->getPreviousStepSizeTaken(),
                     integ->getPredictedNextStepSize(), integ->getNumErrorTestFailures(), tag, S.method,
                     integ->getNumConvergenceTestFailures());
    } catch (const std::exception& e) { std::printf("O vstep EXC\n"); }
}
// a whole simulation with report times; every internal step becomes a vstep record
static int simCase(Setup S, const std::vector<double>& reports, bool allowInterp, int maxSteps, const std::string& tag) {
    int steps = 0;
    try {
        OdeSystem sys(S.rhs);
        State s = initialState(sys, S.t0, S.y0);
        std::unique_ptr<Integrator> integ = makeInteg(S.method, sys);
        integ->setAccuracy(S.acc);
        if (S.useInf) integ->setUseInfinityNorm(true);
        if (S.umin > 0) integ->setMinimumStepSize(S.umin);
        if (S.umax > 0) integ->setMaximumStepSize(S.umax);
        if (S.tFinal < Infinity) integ->setFinalTime(S.tFinal);
        integ->setAllowInterpolation(allowInterp);
        integ->setReturnEveryInternalStep(true);
        integ->initialize(s);
        size_t idx = 0; int guard = 0;
        while (steps < maxSteps && guard++ < 20 * maxSteps) {
            const double tr = idx < reports.size() ? reports[idx] : Infinity;
            Setup R = S; R.t0 = integ->getAdvancedTime(); R.y0 = toStd(integ->getAdvancedState().getY());
            const double hcur = integ->getPredictedNextStepSize();
            const int nf0 = integ->getNumErrorTestFailures(), ns0 = integ->getNumStepsTaken();
            const double tMax = allowInterp ? S.tFinal : std::min(tr, S.tFinal);
            Integrator::SuccessfulStepStatus st = integ->stepTo(tr);
            if (st == Integrator::EndOfSimulation) break;
            if (integ->getNumStepsTaken() > ns0) {
                ++steps;
                emitVstepIn(R, hcur, tMax);
                emitVstepOut(integ->getAdvancedTime(), integ->getAdvancedState().getY(), integ->getPreviousStepSizeTaken(),
                             integ->getPredictedNextStepSize(), integ->getNumErrorTestFailures() - nf0,
                             tag + (tMax < R.t0 + 0.95 * hcur ? ".limited" : ""), S.method);
            }
            if (st == Integrator::ReachedReportTime) ++idx;
        }
    } catch (const std::exception& e) { std::printf("I vstep EXC %s\nO vstep EXC\n", S.method.c_str()); }
    return steps;
}

// ------------------------------------------------------------------------------------------ istep (steps + interpolated report)
static void istepCase(Setup S, double hcur, double tReport, const std::string& tag) {
    S.hinit = hcur;
    vh::Line in = vh::I("istep"); in.s(S.method).i(S.useInf); S.rhs.emit(in); in.d(S.acc).d(S.t0);
    for (double x : S.y0) in.d(x);
    in.d(hcur).d(S.umin > 0 ? S.umin : -1.0).d(S.umax > 0 ? S.umax : -1.0).d(tReport); in.emit();
    try {
        OdeSystem sys(S.rhs);
        std::unique_ptr<Integrator> integ = start(S, sys, false);
        int guard = 0; Integrator::SuccessfulStepStatus st = Integrator::StartOfContinuousInterval;
        while (guard++ < 100) { st = integ->stepTo(tReport); if (st == Integrator::ReachedReportTime) break; }
        vh::Line out = vh::O("istep"); out.d(integ->getAdvancedTime());
        const Vector& ya = integ->getAdvancedState().getY();
        for (int i = 0; i < ya.size(); ++i) out.d(ya[i]);
        out.d(integ->getTime());
        const Vector& yr = integ->getState().getY();
        for (int i = 0; i < yr.size(); ++i) out.d(yr[i]);
        out.i(integ->getNumStepsTaken()); out.emit();
        vh::D("istep." + S.method + "." + tag + (integ->getTime() < integ->getAdvancedTime() ? ".interp" : ".exact"));
    } catch (const std::exception& e) { std::printf("O istep EXC\n"); }
}

// ------------------------------------------------------------------------------------------ generators
static Rhs randomLinear(vh::Rng& g, int nq, int nz, int deg, double scale) {
    Rhs r; r.kind = 0; r.nq = nq; r.nz = nz; r.deg = deg;
    const int n = r.ny();
    r.M.assign(n * n, 0.0); r.C.assign(n * (deg + 1), 0.0);
    for (int i = 0; i < n; ++i) {
        if (i < nq) { r.M[i * n + nq + i] = 1.0; continue; }   // qdot = u
        for (int j = 0; j < n; ++j) r.M[i * n + j] = g.signedMag(0.1, 1.0) * scale;
        r.M[i * n + i] = -g.range(0.2, 2.0) * scale;           // mildly stable diagonal
        for (int k = 0; k <= deg; ++k) r.C[i * (deg + 1) + k] = g.signedMag(0.1, 1.0);
    }
    return r;
}
static Rhs pendulum(double grav) { Rhs r; r.kind = 1; r.nq = 1; r.nz = 0; r.deg = 0; r.M = {grav}; r.C = {}; return r; }
static Rhs randomRhs(vh::Rng& g, std::string& tag) {
    if (g.below(6) == 0) { tag = "pend"; return pendulum(g.range(1, 10)); }
    int nq = g.below(3), nz = g.below(3); if (nq + nz == 0) nz = 1 + g.below(3);
    tag = "lin";
    return randomLinear(g, nq, nz, g.below(4), g.below(4) == 0 ? 5.0 : 1.0);
}
static std::vector<double> randomY(vh::Rng& g, int n) {
    std::vector<double> y(n);
    for (auto& x : y) x = g.below(5) == 0 ? g.signedMag(2.0, 20.0) : g.signedMag(0.1, 1.5);   // some |y|>1: relative scaling branch
    return y;
}
static double randomAcc(vh::Rng& g) { return std::pow(10.0, -g.range(1.0, 8.0)); }

// ------------------------------------------------------------------------------------------ accuracy predicates (P lines)
// Problems with analytic solutions; parameters are part of the I line so that every record replays.
struct Problem {
    std::string name; std::vector<double> par;   // par: problem parameters then t0, T, y0...
    Rhs rhs; double t0 = 0, T = 1; std::vector<double> y0;
    void exact(double t, double* y) const {
        const double s = t - t0;
        if (name == "sho") { const double w = par[0], a = y0[0], b = y0[1];
            y[0] = a * std::cos(w * s) + b / w * std::sin(w * s); y[1] = -a * w * std::sin(w * s) + b * std::cos(w * s); }
        else if (name == "spiral") { const double a = par[0], w = par[1], e = std::exp(-a * s), c = std::cos(w * s), sn = std::sin(w * s);
            y[0] = e * (c * y0[0] + sn * y0[1]); y[1] = e * (-sn * y0[0] + c * y0[1]); }
        else if (name == "stiffish") { y[0] = y0[0] * std::exp(-par[0] * s); y[1] = y0[1] * std::exp(-par[1] * s); }
        else if (name == "forced") { const double c0 = par[0], c1 = par[1], c2 = par[2], ga = c2, be = c1 - 2 * ga, al = c0 - be;
            auto pol = [&](double x) { return al + be * x + ga * x * x; };
            y[0] = (y0[0] - pol(t0)) * std::exp(-s) + pol(t); }
        else if (name == "pend") {           // reference: classical RK4 in long double with tiny steps (error << 1e-13)
            long double q = y0[0], u = y0[1]; const long double g = par[0];
            const int n = std::max(1, (int)std::ceil(s / 2e-4)); const long double h = (long double)s / n;
            for (int i = 0; i < n; ++i) {
                long double k1q = u, k1u = -g * sinl(q);
                long double k2q = u + h / 2 * k1u, k2u = -g * sinl(q + h / 2 * k1q);
                long double k3q = u + h / 2 * k2u, k3u = -g * sinl(q + h / 2 * k2q);
                long double k4q = u + h * k3u, k4u = -g * sinl(q + h * k3q);
                q += h / 6 * (k1q + 2 * k2q + 2 * k3q + k4q); u += h / 6 * (k1u + 2 * k2u + 2 * k3u + k4u);
            }
            y[0] = (double)q; y[1] = (double)u; }
    }
    // max_i |d^4 y_i/dt^4 (t)| / scale of the exact solution (for the cubic-Hermite error term h^4/384 * max|y''''|)
    double d4(double t) const {
        std::vector<double> ex(y0.size()); exact(t, ex.data());
        double sc = 1; for (double x : ex) sc = std::max(sc, std::abs(x));
        double m = 0;
        if (name == "sho") { const double w4 = std::pow(par[0], 4); m = w4 * std::max(std::abs(ex[0]), std::abs(ex[1])); }
        else if (name == "spiral") { const double l2 = par[0] * par[0] + par[1] * par[1]; m = l2 * l2 * std::hypot(ex[0], ex[1]); }
        else if (name == "stiffish") { m = std::max(std::pow(par[0], 4) * std::abs(ex[0]), std::pow(par[1], 4) * std::abs(ex[1])); }
        else if (name == "forced") { const double c0 = par[0], c1 = par[1], c2 = par[2], ga = c2, be = c1 - 2 * ga, al = c0 - be;
            m = std::abs((y0[0] - (al + be * t0 + ga * t0 * t0)) * std::exp(-(t - t0))); }
        else { const double g = par[0], q = ex[0], u = ex[1], sq = std::sin(q), cq = std::cos(q);
            const double q4 = g * sq * (g * cq + u * u), q5 = g * u * (cq * (g * cq + u * u) - 3 * g * sq * sq);
            m = std::max(std::abs(q4), std::abs(q5)); }
        return m / sc;
    }
    double err(double t, const Vector& y) const {   // relative-to-scale infinity-norm error
        std::vector<double> ex(y0.size()); exact(t, ex.data());
        double sc = 1, e = 0;
        for (size_t i = 0; i < ex.size(); ++i) { sc = std::max(sc, std::abs(ex[i])); e = std::max(e, std::abs(y[(int)i] - ex[i])); }
        return e / sc;
    }
};
static Problem makeProblem(const std::string& name, const std::vector<double>& par, double t0, double T, const std::vector<double>& y0) {
    Problem P; P.name = name; P.par = par; P.t0 = t0; P.T = T; P.y0 = y0;
    Rhs& r = P.rhs; r.kind = 0; r.deg = 0;
    if (name == "sho") { r.nq = 1; r.nz = 0; r.M = {0, 1, -par[0] * par[0], 0}; r.C = {0, 0}; }
    else if (name == "spiral") { r.nq = 0; r.nz = 2; r.M = {-par[0], par[1], -par[1], -par[0]}; r.C = {0, 0}; }
    else if (name == "stiffish") { r.nq = 0; r.nz = 2; r.M = {-par[0], 0, 0, -par[1]}; r.C = {0, 0}; }
    else if (name == "forced") { r.nq = 0; r.nz = 1; r.deg = 2; r.M = {-1}; r.C = {par[0], par[1], par[2]}; }
    else { r = pendulum(par[0]); }
    return P;
}
static Problem randomProblem(vh::Rng& g, const std::string& name) {
    if (name == "sho") return makeProblem(name, {g.range(0.5, 3)}, g.range(-1, 1), g.range(3, 6), {g.signedMag(0.3, 1.5), g.signedMag(0.3, 1.5)});
    if (name == "spiral") return makeProblem(name, {g.range(0.1, 1), g.range(0.5, 3)}, g.range(-1, 1), g.range(3, 6), {g.signedMag(0.3, 1.5), g.signedMag(0.3, 1.5)});
    if (name == "stiffish") return makeProblem(name, {g.range(20, 60), g.range(0.5, 2)}, 0.0, g.range(1, 2), {g.signedMag(0.3, 1.5), g.signedMag(0.3, 1.5)});
    if (name == "forced") return makeProblem(name, {g.signedMag(0.2, 1), g.signedMag(0.2, 1), g.signedMag(0.2, 1)}, g.range(-1, 1), g.range(2, 4), {g.signedMag(0.3, 1.5)});
    return makeProblem("pend", {g.range(1, 10)}, 0.0, g.range(2, 4), {g.signedMag(0.5, 2.5), g.signedMag(0.0, 1.0)});
}
static void emitProblem(vh::Line& L, const Problem& P) {
    L.s(P.name).i((long long)P.par.size()); for (double x : P.par) L.d(x);
    L.d(P.t0).d(P.T).i((long long)P.y0.size()); for (double x : P.y0) L.d(x);
}
// actual order of each method (used only to choose a step size for the order measurement)
static int nominalOrder(const std::string& m) {
    if (m == "merson" || m == "rkf") return 4;
    if (m == "rk3") return 3;
    if (m == "rk2" || m == "verlet") return 2;
    return 1;
}
// Bounds of the accuracy predicates: ~3x the maximum measured on the clean tree (seeds 1,2,3 quick, thorough seed 1 and
// more thorough-size seeds; table generated by the measurement script described in notes/C20.md).
//   key "<method>.<problem>.<rms|inf>.<loose|tight>" -> bound of global_err/acc   (loose: acc >= 1e-5, tight: acc < 1e-5)
//   key "<method>.<problem>.<rms|inf>.step"          -> bound of global_err/(acc*steps)
//   key "<method>.h4"                                -> bound of interp_err / max(step errs, acc, h^4/384 max|y''''|)
#include <map>
static const std::map<std::string, double>& boundTable() {
    static const std::map<std::string, double> T = {
/*BOUNDS-BEGIN*/
/*BOUNDS-END*/
    };
    return T;
}
static double boundOf(const std::string& key) {
    auto it = boundTable().find(key);
    return it == boundTable().end() ? NAN : it->second;   // an unmeasured cell fails loudly instead of passing silently
}
// global error over [t0,t0+T] at nrep equally spaced report times, default options (interpolation allowed)
static int g_lastSteps = 0;
static double runGlobal(const std::string& method, const Problem& P, double acc, int nrep, double fixedH = -1, bool useInf = false) {
    OdeSystem sys(P.rhs);
    State s = initialState(sys, P.t0, P.y0);
    std::unique_ptr<Integrator> integ = makeInteg(method, sys);
    if (fixedH > 0) { integ->setFixedStepSize(fixedH); integ->setAccuracy(1e-9); }   // accuracy: only Verlet's iteration tolerance
    else integ->setAccuracy(acc);
    if (useInf) integ->setUseInfinityNorm(true);
    integ->initialize(s);
    double worst = 0;
    for (int k = 1; k <= nrep; ++k) {
        const double tr = P.t0 + P.T * k / nrep;
        int guard = 0;
        while (guard++ < 2000000) { Integrator::SuccessfulStepStatus st = integ->stepTo(tr); if (st == Integrator::ReachedReportTime) break; }
        worst = std::max(worst, P.err(integ->getTime(), integ->getState().getY()));
    }
    g_lastSteps = integ->getNumStepsTaken();
    return worst;
}
static void ladderCase(const std::string& method, const Problem& P, const std::vector<double>& accs, bool useInf) {
    vh::Line in = vh::I("acc"); in.s("ladder").s(method); emitProblem(in, P); in.i(useInf ? 1 : 0);
    in.i((long long)accs.size()); for (double a : accs) in.d(a); in.emit();
    std::printf("O acc 1\n");
    const std::string norm = useInf ? "inf" : "rms";
    vh::D("acc.ladder." + method + "." + P.name + "." + norm);
    const std::string key = method + "." + P.name + "." + norm;
    std::vector<double> errs;
    for (double a : accs) {
        double e;
        try { e = runGlobal(method, P, a, 10, -1, useInf); } catch (const std::exception&) { e = NAN; }
        errs.push_back(e);
        char tag[48]; std::snprintf(tag, sizeof tag, "acc.ladder.acc1e%d.%s", (int)std::lround(std::log10(a)), norm.c_str());
        vh::D(tag);
        vh::P("global_err_over_acc", key + ".global_err", e / a, boundOf(key + (a >= 1e-5 ? ".loose" : ".tight")));
        vh::P("global_err_per_step_over_acc", key + ".err_per_step", e / (a * std::max(1, g_lastSteps)), boundOf(key + ".step"));
    }
    for (size_t i = 0; i + 1 < accs.size(); ++i)
        vh::P("tighten_not_worse", key + ".tighten", errs[i + 1] / std::max(errs[i], accs[i + 1]), 3.5);
}
static void orderCase(const std::string& method, const Problem& P, double h) {
    vh::Line in = vh::I("acc"); in.s("order").s(method); emitProblem(in, P); in.d(h); in.emit();
    std::printf("O acc 1\n");
    vh::D("acc.order." + method + "." + P.name);
    // documented order = what the public API reports (Integrator::getMethodMinOrder)
    int pdoc = 0;
    { OdeSystem sys(P.rhs); pdoc = makeInteg(method, sys)->getMethodMinOrder(); }
    // observed order = best of the pairs (h,h/2), (h/2,h/4): a single pair can be spoiled by cancellation
    // between the h^p and h^(p+1) error terms; a method of genuinely lower order is low on both.
    // Pairs whose finer error is at rounding level (< 1e-12) carry no information and are skipped.
    double e1 = NAN, e2 = NAN, e3 = NAN;
    // (errors are maxima over 16 report times.)  A method one order lower shows a deficit of about 1.
    try { e1 = runGlobal(method, P, 0, 16, h); e2 = runGlobal(method, P, 0, 16, h / 2); e3 = runGlobal(method, P, 0, 16, h / 4); }
    catch (const std::exception&) {}
    double pobs = -INFINITY; bool any = false;
    if (!(e2 < 1e-12)) { pobs = std::max(pobs, std::log2(e1 / e2)); any = true; }
    if (!(e3 < 1e-12)) { pobs = std::max(pobs, std::max(std::log2(e2 / e3), std::log2(e1 / e3) / 2)); any = true; }
    // RungeKuttaFeldberg advertises order 5 but propagates its 4th-order solution (theorem rkf_order): own key
    const std::string key = method == "rkf" ? "rkf.minorder5.order" : method + "." + P.name + ".order";
    vh::P("order_deficit", key, any ? pdoc - pobs : 0.0, 0.5);
}
// interpolated report states vs the step states around them
static void interpCase(const std::string& method, const Problem& P, double acc, const std::vector<double>& reports) {
    vh::Line in = vh::I("acc"); in.s("interp").s(method); emitProblem(in, P); in.d(acc).i((long long)reports.size()); for (double r : reports) in.d(r); in.emit();
    std::printf("O acc 1\n");
    vh::D("acc.interp." + method + "." + P.name);
    double worstRatio = 0, worstH4 = 0; int nInterp = 0;
    try {
        OdeSystem sys(P.rhs);
        State s = initialState(sys, P.t0, P.y0);
        std::unique_ptr<Integrator> integ = makeInteg(method, sys);
        integ->setAccuracy(acc);
        integ->setReturnEveryInternalStep(true);
        integ->initialize(s);
        double ePrev = 0, tPrev = P.t0;   // error / time of the step state at the start of the current step
        std::vector<double> pending; // errors of interpolated states inside the current step
        size_t idx = 0; int guard = 0;
        while (idx < reports.size() && guard++ < 2000000) {
            Integrator::SuccessfulStepStatus st = integ->stepTo(reports[idx]);
            if (st == Integrator::EndOfSimulation) break;
            const bool interp = integ->getTime() < integ->getAdvancedTime();
            const double e = P.err(integ->getTime(), integ->getState().getY());
            if (st == Integrator::ReachedReportTime) ++idx;
            if (interp) { pending.push_back(e); continue; }
            // a step state: close the step [tPrev, t]
            const double t = integ->getTime(), h = t - tPrev;
            if (!pending.empty()) {
                const double m4 = std::max(P.d4(tPrev), std::max(P.d4(tPrev + h / 2), P.d4(t)));
                const double hermite = h * h * h * h / 384 * m4;   // error of cubic Hermite interpolation of exact data
                for (double ei : pending) {
                    worstRatio = std::max(worstRatio, ei / std::max(std::max(ePrev, e), acc));
                    worstH4 = std::max(worstH4, ei / std::max(std::max(std::max(ePrev, e), acc), hermite));
                    ++nInterp;
                }
            }
            pending.clear(); ePrev = e; tPrev = t;
        }
    } catch (const std::exception&) { worstRatio = worstH4 = NAN; }
    // the property's literal clause; cubic Hermite (3rd order) under the two 4th-order methods: own (known) keys
    const std::string key = (method == "rkf" || method == "merson") ? method + ".hermite.interp" : method + "." + P.name + ".interp";
    vh::P("interp_vs_steps", key, worstRatio, 4);
    // enforced for every method incl. rkf/merson: an interpolated state may be worse than its neighbours only by the
    // interpolation error of cubic Hermite itself, h^4/384 max|y''''|
    vh::P("interp_vs_steps_or_hermite_h4", method + "." + P.name + ".interp_h4", worstH4, boundOf(method + ".h4"));
}
static const char* PROBLEMS[] = {"sho", "spiral", "stiffish", "forced", "pend"};
static const char* ACCM[] = {"merson", "rkf", "rk3", "rk2", "verlet", "cpodes_bdf", "cpodes_adams", "euler", "see2"};
static long accuracyCase(vh::Rng& g, bool thorough) {
    const int kind = g.below(4);
    std::string pn = PROBLEMS[g.below(5)];
    if (kind == 2 && pn == "stiffish") pn = "spiral";   // order needs h*k << 1 and errors above rounding: not on the stiff decay
    Problem P = randomProblem(g, pn);
    if (kind <= 1) {
        const std::string m = ACCM[g.below(9)];
        // four accuracies two decades apart starting at 1e-2 or 1e-3: every ladder spans 1e-2..1e-8 or 1e-3..1e-9
        const int e0 = 2 + g.below(2);
        std::vector<double> accs; for (int k = 0; k < 4; ++k) accs.push_back(std::pow(10.0, -(e0 + 2 * k)));
        if ((m == "euler" || m == "see2") && !thorough) accs.resize(3);   // first-order methods: 1e-8/1e-9 only in the guaranteed block
        ladderCase(m, P, accs, g.coin());
        return 4;
    } else if (kind == 2) {
        const char* fm[] = {"merson", "rkf", "rk3", "rk2", "verlet", "euler", "see", "see2"};
        const std::string m = fm[g.below(8)];
        const int p = nominalOrder(m);
        // 4th-order methods integrate the polynomial part of "forced" exactly and its small transient to ~1e-12 already
        // at moderate h: no asymptotic regime above rounding level -> measure them on the oscillator instead
        if (p >= 4 && P.name == "forced") P = randomProblem(g, "sho");
        orderCase(m, P, p >= 4 ? 0.05 : p == 3 ? 0.02 : p == 2 ? 0.01 : 0.002);
        return 2;
    } else {
        const std::string m = ACCM[g.below(7)];
        const double acc = std::pow(10.0, -(double)(2 + g.below(m == "rk2" || m == "verlet" ? 4 : 6)));
        std::vector<double> reports; double t = P.t0;
        while (true) { t += g.range(0.01, 0.25); if (t >= P.t0 + P.T) break; reports.push_back(t); }
        interpCase(m, P, acc, reports);
        return 2;
    }
}
static void replayAccuracy(const std::string& what, const std::vector<std::string>& tk) {
    size_t i = 0;
    auto nx = [&]() { return tk.at(i++); };
    try {
        const std::string method = nx(), pname = nx();
        int np = std::stoi(nx()); std::vector<double> par(np); for (auto& x : par) x = vh::unhex(nx());
        const double t0 = vh::unhex(nx()), T = vh::unhex(nx());
        int ny = std::stoi(nx()); std::vector<double> y0(ny); for (auto& x : y0) x = vh::unhex(nx());
        Problem P = makeProblem(pname, par, t0, T, y0);
        if (what == "ladder") { int ui = std::stoi(nx()); int n = std::stoi(nx()); std::vector<double> a(n); for (auto& x : a) x = vh::unhex(nx()); ladderCase(method, P, a, ui != 0); }
        else if (what == "order") { orderCase(method, P, vh::unhex(nx())); }
        else if (what == "interp") { double acc = vh::unhex(nx()); int n = std::stoi(nx()); std::vector<double> r(n); for (auto& x : r) x = vh::unhex(nx()); interpCase(method, P, acc, r); }
    } catch (const std::exception&) {}
}

// ------------------------------------------------------------------------------------------ replay
static bool parseRhs(std::istringstream& is, Rhs& r) {
    if (!(is >> r.kind >> r.nq >> r.nz >> r.deg)) return false;
    const int n = r.ny(); std::string t;
    const int nM = r.kind == 1 ? 1 : n * n, nC = r.kind == 1 ? 0 : n * (r.deg + 1);
    r.M.resize(nM); r.C.resize(nC);
    for (auto& x : r.M) { if (!(is >> t)) return false; x = vh::unhex(t); }
    for (auto& x : r.C) { if (!(is >> t)) return false; x = vh::unhex(t); }
    return true;
}
static void replay() {
    std::string line;
    char buf[1 << 16];
    while (std::fgets(buf, sizeof buf, stdin)) {
        std::istringstream is(buf); std::string k, fn; is >> k >> fn;
        if (k != "I") continue;
        auto rd = [&]() { std::string t; is >> t; return vh::unhex(t); };
        if (fn == "traj") {
            std::string m; is >> m; Rhs r; if (!parseRhs(is, r)) continue;
            double t0 = rd(); std::vector<double> y0(r.ny()); for (auto& x : y0) x = rd();
            double h = rd(); int n; is >> n;
            trajCase(m, r, t0, y0, h, n, "replay");
        } else if (fn == "vstep") {
            Setup S; is >> S.method >> S.useInf; if (!parseRhs(is, S.rhs)) continue;
            S.acc = rd(); S.t0 = rd(); S.y0.resize(S.rhs.ny()); for (auto& x : S.y0) x = rd();
            double hcur = rd(), tMax = rd(); S.umin = rd(); S.umax = rd();
            vstepFresh(S, hcur, tMax, "replay");
        } else if (fn == "istep") {
            Setup S; is >> S.method >> S.useInf; if (!parseRhs(is, S.rhs)) continue;
            S.acc = rd(); S.t0 = rd(); S.y0.resize(S.rhs.ny()); for (auto& x : S.y0) x = rd();
            double hcur = rd(); S.umin = rd(); S.umax = rd(); double tr = rd();
            istepCase(S, hcur, tr, "replay");
        } else if (fn == "acc") {
            std::string what; is >> what; std::vector<std::string> rest; std::string t; while (is >> t) rest.push_back(t);
            replayAccuracy(what, rest);
        }
    }
}

int main(int argc, char** argv) {
    vh::Args args(argc, argv);
    if (args.mode == "replay") { replay(); return 0; }
    vh::Rng g(args.seed * 7919 + 20);
    const char* ctl[] = {"merson", "rkf", "rk3", "rk2", "euler", "see2", "verlet"};      // error-controlled, modelled
    const char* all[] = {"merson", "rkf", "rk3", "rk2", "euler", "see2", "see", "verlet"};
    const int NCTL = 7, NALL = 8;
    const bool thorough = args.n > 2000;
    // deterministic witnesses (independent of the seed) of the two findings documented in notes/C20.md
    {
        orderCase("rkf", makeProblem("sho", {2.0}, 0.0, 4.0, {1.0, 0.5}), 0.05);
        std::vector<double> rep; for (int i = 1; i < 60; ++i) rep.push_back(0.05 * i - 0.013);
        interpCase("rkf", makeProblem("pend", {9.81}, 0.0, 3.0, {2.0, 0.0}), 1e-7, rep);
        interpCase("merson", makeProblem("spiral", {0.3, 2.5}, 0.0, 3.0, {1.0, 0.5}), 1e-9, rep);
    }
    // guaranteed share: every error-controlled integrator sees the whole range 1e-2..1e-9 in every run, alternating
    // RMS / infinity norm and rotating the problem with the seed
    for (int i = 0; i < 9; ++i) {
        const std::string m = ACCM[i];
        Problem P = randomProblem(g, PROBLEMS[(i + args.seed) % 5]);
        const int e0 = 2 + (int)((i + args.seed / 5) % 2);
        std::vector<double> accs; for (int k = 0; k < 4; ++k) accs.push_back(std::pow(10.0, -(e0 + 2 * k)));
        ladderCase(m, P, accs, (i + args.seed) % 2 == 0);
    }
    // records are counted in units of "cases"; a simulation contributes several vstep records
    long produced = 0;
    while (produced < args.n) {
        const int stream = g.below(10);
        std::string tag; Rhs r = randomRhs(g, tag);
        std::vector<double> y0 = randomY(g, r.ny());
        const double t0 = g.below(3) == 0 ? 0.0 : g.range(-2, 2);
        if (stream <= 2) {                                   // fixed-step trajectories, all 7 modelled methods
            trajCase(all[g.below(NALL)], r, t0, y0, g.range(0.005, 0.2), 1 + g.below(8), tag);
            produced += 1;
        } else if (stream <= 3) {                            // simulations: realistic accept/reject/limited mix
            Setup S; S.method = ctl[g.below(NCTL)]; S.useInf = g.below(3) == 0; S.rhs = r; S.acc = randomAcc(g); S.t0 = t0; S.y0 = y0;
            if (S.method == "euler" || S.method == "see2") S.acc = std::pow(10.0, -g.range(1.0, 4.0));
            if (g.below(4) == 0) S.umax = g.range(0.02, 0.3);
            if (g.below(6) == 0) S.umin = g.range(1e-4, 1e-2);
            if (S.umin > 0 && S.umax > 0 && S.umin > S.umax) std::swap(S.umin, S.umax);
            if (g.below(4) == 0) S.tFinal = t0 + g.range(0.05, 1.0);
            std::vector<double> reports; double t = t0;
            const int nr = g.below(6); for (int i = 0; i < nr; ++i) { t += g.range(0.003, 0.3); reports.push_back(t); }
            const int ms = 3 + g.below(6);
            produced += 1 + simCase(S, reports, g.coin(), ms, tag);
        } else if (stream <= 5) {                            // single steps from arbitrary step sizes: many retries / growth
            Setup S; S.method = ctl[g.below(NCTL)]; S.useInf = g.below(3) == 0; S.rhs = r; S.acc = randomAcc(g); S.t0 = t0; S.y0 = y0;
            const double hcur = std::pow(10.0, -g.range(0.3, 3.5));
            if (g.below(5) == 0) S.umax = hcur * g.range(1.0, 3.0);
            if (g.below(8) == 0) S.umin = hcur * g.range(0.05, 1.0);
            const int lim = g.below(4);
            const double tMax = lim == 0 ? t0 + hcur * g.range(0.1, 0.94) : lim == 1 ? t0 + hcur * g.range(0.96, 1.0009) :
                                lim == 2 ? t0 + hcur * g.range(1.002, 3.0) : (double)Infinity;
            vstepFresh(S, hcur, tMax, tag + ".fresh");
            produced += 1;
        } else if (stream <= 8) {                            // interpolated report inside a step
            Setup S; S.method = all[g.below(NALL)]; S.useInf = 0; S.rhs = r; S.acc = randomAcc(g); S.t0 = t0; S.y0 = y0;
            const double hcur = S.method == "see" ? g.range(0.01, 0.2) : std::pow(10.0, -g.range(0.8, 2.5));
            if (S.method == "see") { S.umin = S.umax = hcur; }
            const double tr = t0 + hcur * (g.below(6) == 0 ? g.range(1.0, 3.5) : g.range(0.02, 0.98));
            istepCase(S, hcur, tr, tag);
            produced += 1;
        } else {
            produced += accuracyCase(g, thorough);
        }
    }
    return 0;
}
