// C20 correspondence harness: explicit integrators, step-size controller, Hermite interpolation; accuracy
// predicates for every error-controlled integrator (incl. Verlet and CPodes) on analytic problems.
//
// A custom SimTK::System (no multibody code) implements   y' = M y + sum_k C_k t^k   (kind "lin") or the
// pendulum q'' = -g sin q (kind "pend") with state y = (q[nq], u[nq], z[nz]), qdot = u (N = I), no constraints.
//
// Records (model side: lean/Drivers/C20.lean running lean/SimbodyModel/C20.lean at Float):
//   I traj  <method> <rhs...> t0 y0 h nsteps              fixed step (setFixedStepSize), every internal step returned
//   O traj  t_k y_k ... for each step                     -> model replays the whole trajectory
//   I vstep <method> <useInf> <rhs...> acc t0 y0 hcur tMax umin umax
//   O vstep t1 y1 hLast hNext nFail                       -> one call of takeOneStep: attemptDAEStep, calcErrorNorm (RMS/inf,
//                                                            relative scaling), adjustStepSize, retries, user limits, tMax limiting
//   I istep <method> <useInf> <rhs...> acc t0 y0 hcur umin umax tReport
//   O istep tAdv yAdv tReturned yReturned nSteps          -> steps until tReport is passed, then createInterpolatedState
//                                                            (interpolateOrder3; linear for the Euler variants)
//   I acc ladder|order|interp <method> <problem...>       implementation-only records (O acc 1) carrying the P lines
//   <rhs...> = kind nq nz deg M[ny*ny] C[ny*(deg+1)]      (kind 0 = lin, 1 = pend with M[0] = g)
// P lines: global error / accuracy (and per step), tightening accuracy x100 never makes it worse, fixed-step
// convergence order vs Integrator::getMethodMinOrder(), interpolated report states vs the step states around them.
// --mode replay re-runs exactly the I lines read from stdin (every record carries all its inputs).
#include "SimTKcommon.h"
#include "SimTKmath.h"
#include "SimTKcommon/internal/SystemGuts.h"
#include "hcommon.h"
#include <memory>
#include <algorithm>
#include <functional>
using namespace SimTK;

// ------------------------------------------------------------------------------------------ right-hand side
struct Rhs {
    int kind = 0, nq = 0, nz = 0, deg = 0;
    std::vector<double> M, C;
    int ny() const { return 2 * nq + nz; }
    // exactly this arithmetic order is mirrored by the Lean driver
    void eval(double t, const double* y, double* yd) const {
        const int n = ny();
        if (kind == 1) { yd[0] = y[1]; yd[1] = -(M[0] * std::sin(y[0])); return; }
        for (int i = 0; i < n; ++i) {
            double s = 0;
            for (int j = 0; j < n; ++j) s += M[i * n + j] * y[j];
            double p = C[i * (deg + 1) + deg];
            for (int k = deg - 1; k >= 0; --k) p = p * t + C[i * (deg + 1) + k];
            yd[i] = s + p;
        }
    }
    void emit(vh::Line& L) const {
        L.i(kind).i(nq).i(nz).i(deg);
        for (double x : M) L.d(x);
        for (double x : C) L.d(x);
    }
};

class OdeGuts : public System::Guts {
public:
    Rhs rhs;
    SubsystemIndex sub;
    OdeGuts* cloneImpl() const override { return new OdeGuts(*this); }
    int realizeTopologyImpl(State& s) const override {
        if (rhs.nq > 0) { s.allocateQ(sub, Vector(rhs.nq, Real(0))); s.allocateU(sub, Vector(rhs.nq, Real(0))); }
        if (rhs.nz > 0) s.allocateZ(sub, Vector(rhs.nz, Real(0)));
        System::Guts::realizeTopologyImpl(s);
        return 0;
    }
    int realizeModelImpl(State& s) const override { System::Guts::realizeModelImpl(s); return 0; }
    int realizeInstanceImpl(const State& s) const override { System::Guts::realizeInstanceImpl(s); return 0; }
    int realizeVelocityImpl(const State& s) const override {
        if (rhs.nq > 0) s.updQDot() = s.getU();
        System::Guts::realizeVelocityImpl(s);
        return 0;
    }
    int realizeAccelerationImpl(const State& s) const override {
        const int n = rhs.ny(), nq = rhs.nq, nz = rhs.nz;
        std::vector<double> y(n), yd(n);
        const Vector& Y = s.getY();
        for (int i = 0; i < n; ++i) y[i] = Y[i];
        rhs.eval(s.getTime(), y.data(), yd.data());
        if (nq > 0) {
            Vector& ud = s.updUDot();
            for (int i = 0; i < nq; ++i) ud[i] = yd[nq + i];
            s.updQDotDot() = ud;
        }
        if (nz > 0) { Vector& zd = s.updZDot(); for (int i = 0; i < nz; ++i) zd[i] = yd[2 * nq + i]; }
        System::Guts::realizeAccelerationImpl(s);
        return 0;
    }
    void multiplyByNImpl(const State&, const Vector& u, Vector& dq) const override { dq = u; }
    void multiplyByNTransposeImpl(const State&, const Vector& fq, Vector& fu) const override { fu = fq; }
    void multiplyByNPInvImpl(const State&, const Vector& dq, Vector& u) const override { u = dq; }
    void multiplyByNPInvTransposeImpl(const State&, const Vector& fu, Vector& fq) const override { fq = fu; }
};

class OdeSystem : public System {
public:
    explicit OdeSystem(const Rhs& r) : System() {
        OdeGuts* g = new OdeGuts(); g->rhs = r;
        adoptSystemGuts(g);
        DefaultSystemSubsystem defsub(*this);
        dynamic_cast<OdeGuts&>(updSystemGuts()).sub = defsub.getMySubsystemIndex();
        setHasTimeAdvancedEvents(false);
    }
};

// ------------------------------------------------------------------------------------------ integrators
static std::unique_ptr<Integrator> makeInteg(const std::string& m, const System& sys) {
    if (m == "merson") return std::unique_ptr<Integrator>(new RungeKuttaMersonIntegrator(sys));
    if (m == "rkf") return std::unique_ptr<Integrator>(new RungeKuttaFeldbergIntegrator(sys));
    if (m == "rk3") return std::unique_ptr<Integrator>(new RungeKutta3Integrator(sys));
    if (m == "rk2") return std::unique_ptr<Integrator>(new RungeKutta2Integrator(sys));
    if (m == "euler") return std::unique_ptr<Integrator>(new ExplicitEulerIntegrator(sys));
    if (m == "see2") return std::unique_ptr<Integrator>(new SemiExplicitEuler2Integrator(sys));
    if (m == "see") return std::unique_ptr<Integrator>(new SemiExplicitEulerIntegrator(sys, 0.01));
    if (m == "verlet") return std::unique_ptr<Integrator>(new VerletIntegrator(sys));
    if (m == "cpodes_bdf") return std::unique_ptr<Integrator>(new CPodesIntegrator(sys, CPodes::BDF));
    if (m == "cpodes_adams") return std::unique_ptr<Integrator>(new CPodesIntegrator(sys, CPodes::Adams));
    return nullptr;
}

static State initialState(OdeSystem& sys, double t0, const std::vector<double>& y0) {
    State s = sys.realizeTopology();
    sys.realizeModel(s);
    s.updTime() = t0;
    Vector& Y = s.updY();
    for (int i = 0; i < (int)y0.size(); ++i) Y[i] = y0[i];
    return s;
}
static std::vector<double> toStd(const Vector& v) { std::vector<double> r(v.size()); for (int i = 0; i < v.size(); ++i) r[i] = v[i]; return r; }

// ------------------------------------------------------------------------------------------ common set-up
struct Setup {
    std::string method; int useInf = 0; Rhs rhs; double acc = 1e-3, t0 = 0; std::vector<double> y0;
    double hinit = -1, tFinal = Infinity, umin = -1, umax = -1;
};
static std::unique_ptr<Integrator> start(const Setup& S, OdeSystem& sys, bool everyStep = true) {
    State s = initialState(sys, S.t0, S.y0);
    std::unique_ptr<Integrator> integ = makeInteg(S.method, sys);
    integ->setAccuracy(S.acc);
    if (S.useInf) integ->setUseInfinityNorm(true);
    if (S.hinit > 0) integ->setInitialStepSize(S.hinit);
    if (S.umin > 0) integ->setMinimumStepSize(S.umin);
    if (S.umax > 0) integ->setMaximumStepSize(S.umax);
    if (S.tFinal < Infinity) integ->setFinalTime(S.tFinal);
    integ->setReturnEveryInternalStep(everyStep);
    integ->initialize(s);
    return integ;
}

// ------------------------------------------------------------------------------------------ traj (fixed step)
static void trajCase(const std::string& method, const Rhs& rhs, double t0, const std::vector<double>& y0, double h, int nsteps,
                     const std::string& tag) {
    vh::Line in = vh::I("traj"); in.s(method); rhs.emit(in); in.d(t0);
    for (double x : y0) in.d(x);
    in.d(h).i(nsteps); in.emit();
    vh::Line out = vh::O("traj");
    try {
        OdeSystem sys(rhs);
        Setup S; S.method = method; S.rhs = rhs; S.t0 = t0; S.y0 = y0; S.hinit = S.umin = S.umax = h;
        std::unique_ptr<Integrator> integ = start(S, sys);
        int got = 0, guard = 0;
        while (got < nsteps && guard++ < 10 * nsteps + 10) {
            const int before = integ->getNumStepsTaken();
            integ->stepTo(Infinity);
            if (integ->getNumStepsTaken() > before) {
                ++got;
                const State& a = integ->getAdvancedState();
                out.d(a.getTime());
                for (int i = 0; i < a.getNY(); ++i) out.d(a.getY()[i]);
            }
        }
    } catch (const std::exception& e) { out.s(std::string("EXC")); }
    out.emit();
    vh::D("traj." + method + "." + tag);
}

// ------------------------------------------------------------------------------------------ vstep (one takeOneStep)
static void emitVstepIn(const Setup& S, double hcur, double tMax) {
    vh::Line in = vh::I("vstep"); in.s(S.method).i(S.useInf); S.rhs.emit(in); in.d(S.acc).d(S.t0);
    for (double x : S.y0) in.d(x);
    in.d(hcur).d(tMax).d(S.umin > 0 ? S.umin : -1.0).d(S.umax > 0 ? S.umax : -1.0); in.emit();
}
static void emitVstepOut(double t1, const Vector& y1, double hLast, double hNext, int nFail, const std::string& tag,
                         const std::string& method, int nConvFail = 0) {
    vh::Line out = vh::O("vstep"); out.d(t1);
    for (int i = 0; i < y1.size(); ++i) out.d(y1[i]);
    out.d(hLast).d(hNext).i(nFail); out.emit();
    vh::D("vstep." + method + "." + tag + (nFail ? ".retried" : ".firsttry") + (nConvFail ? ".nonconv" : ""));
}
// fresh integrator at (t0,y0) with step size hcur, tMax = final time: exactly one internal step
static void vstepFresh(Setup S, double hcur, double tMax, const std::string& tag) {
    S.hinit = hcur; S.tFinal = tMax;
    emitVstepIn(S, hcur, tMax);
    try {
        OdeSystem sys(S.rhs);
        std::unique_ptr<Integrator> integ = start(S, sys);
        int guard = 0;
        while (integ->getNumStepsTaken() < 1 && guard++ < 5) integ->stepTo(Infinity);
        emitVstepOut(integ->getAdvancedTime(), integ->getAdvancedState().getY(), integ->getPreviousStepSizeTaken(),
                     integ->getPredictedNextStepSize(), integ->getNumErrorTestFailures(), tag, S.method,
                     integ->getNumConvergenceTestFailures());
    } catch (const std::exception& e) { std::printf("O vstep EXC\n"); }
}
// a whole simulation with report times; every internal step becomes a vstep record
static int simCase(Setup S, const std::vector<double>& reports, bool allowInterp, int maxSteps, const std::string& tag) {
    int steps = 0;
    try {
        OdeSystem sys(S.rhs);
        State s = initialState(sys, S.t0, S.y0);
        std::unique_ptr<Integrator> integ = makeInteg(S.method, sys);
        integ->setAccuracy(S.acc);
        if (S.useInf) integ->setUseInfinityNorm(true);
        if (S.umin > 0) integ->setMinimumStepSize(S.umin);
        if (S.umax > 0) integ->setMaximumStepSize(S.umax);
        if (S.tFinal < Infinity) integ->setFinalTime(S.tFinal);
        integ->setAllowInterpolation(allowInterp);
        integ->setReturnEveryInternalStep(true);
        integ->initialize(s);
        size_t idx = 0; int guard = 0;
        while (steps < maxSteps && guard++ < 20 * maxSteps) {
            const double tr = idx < reports.size() ? reports[idx] : Infinity;
            Setup R = S; R.t0 = integ->getAdvancedTime(); R.y0 = toStd(integ->getAdvancedState().getY());
            const double hcur = integ->getPredictedNextStepSize();
            const int nf0 = integ->getNumErrorTestFailures(), ns0 = integ->getNumStepsTaken();
            const double tMax = allowInterp ? S.tFinal : std::min(tr, S.tFinal);
            Integrator::SuccessfulStepStatus st = integ->stepTo(tr);
            if (st == Integrator::EndOfSimulation) break;
            if (integ->getNumStepsTaken() > ns0) {
                ++steps;
                emitVstepIn(R, hcur, tMax);
                emitVstepOut(integ->getAdvancedTime(), integ->getAdvancedState().getY(), integ->getPreviousStepSizeTaken(),
                             integ->getPredictedNextStepSize(), integ->getNumErrorTestFailures() - nf0,
                             tag + (tMax < R.t0 + 0.95 * hcur ? ".limited" : ""), S.method);
            }
            if (st == Integrator::ReachedReportTime) ++idx;
        }
    } catch (const std::exception& e) { std::printf("I vstep EXC %s\nO vstep EXC\n", S.method.c_str()); }
    return steps;
}

// ------------------------------------------------------------------------------------------ istep (steps + interpolated report)
static void istepCase(Setup S, double hcur, double tReport, const std::string& tag) {
    S.hinit = hcur;
    vh::Line in = vh::I("istep"); in.s(S.method).i(S.useInf); S.rhs.emit(in); in.d(S.acc).d(S.t0);
    for (double x : S.y0) in.d(x);
    in.d(hcur).d(S.umin > 0 ? S.umin : -1.0).d(S.umax > 0 ? S.umax : -1.0).d(tReport); in.emit();
    try {
        OdeSystem sys(S.rhs);
        std::unique_ptr<Integrator> integ = start(S, sys, false);
        int guard = 0; Integrator::SuccessfulStepStatus st = Integrator::StartOfContinuousInterval;
        while (guard++ < 100) { st = integ->stepTo(tReport); if (st == Integrator::ReachedReportTime) break; }
        vh::Line out = vh::O("istep"); out.d(integ->getAdvancedTime());
        const Vector& ya = integ->getAdvancedState().getY();
        for (int i = 0; i < ya.size(); ++i) out.d(ya[i]);
        out.d(integ->getTime());
        const Vector& yr = integ->getState().getY();
        for (int i = 0; i < yr.size(); ++i) out.d(yr[i]);
        out.i(integ->getNumStepsTaken()); out.emit();
        vh::D("istep." + S.method + "." + tag + (integ->getTime() < integ->getAdvancedTime() ? ".interp" : ".exact"));
    } catch (const std::exception& e) { std::printf("O istep EXC\n"); }
}

// ------------------------------------------------------------------------------------------ generators
static Rhs randomLinear(vh::Rng& g, int nq, int nz, int deg, double scale) {
    Rhs r; r.kind = 0; r.nq = nq; r.nz = nz; r.deg = deg;
    const int n = r.ny();
    r.M.assign(n * n, 0.0); r.C.assign(n * (deg + 1), 0.0);
    for (int i = 0; i < n; ++i) {
        if (i < nq) { r.M[i * n + nq + i] = 1.0; continue; }   // qdot = u
        for (int j = 0; j < n; ++j) r.M[i * n + j] = g.signedMag(0.1, 1.0) * scale;
        r.M[i * n + i] = -g.range(0.2, 2.0) * scale;           // mildly stable diagonal
        for (int k = 0; k <= deg; ++k) r.C[i * (deg + 1) + k] = g.signedMag(0.1, 1.0);
    }
    return r;
}
static Rhs pendulum(double grav) { Rhs r; r.kind = 1; r.nq = 1; r.nz = 0; r.deg = 0; r.M = {grav}; r.C = {}; return r; }
static Rhs randomRhs(vh::Rng& g, std::string& tag) {
    if (g.below(6) == 0) { tag = "pend"; return pendulum(g.range(1, 10)); }
    int nq = g.below(3), nz = g.below(3); if (nq + nz == 0) nz = 1 + g.below(3);
    tag = "lin";
    return randomLinear(g, nq, nz, g.below(4), g.below(4) == 0 ? 5.0 : 1.0);
}
static std::vector<double> randomY(vh::Rng& g, int n) {
    std::vector<double> y(n);
    for (auto& x : y) x = g.below(5) == 0 ? g.signedMag(2.0, 20.0) : g.signedMag(0.1, 1.5);   // some |y|>1: relative scaling branch
    return y;
}
static double randomAcc(vh::Rng& g) { return std::pow(10.0, -g.range(1.0, 8.0)); }

// ------------------------------------------------------------------------------------------ accuracy predicates (P lines)
// Problems with analytic solutions; parameters are part of the I line so that every record replays.
struct Problem {
    std::string name; std::vector<double> par;   // par: problem parameters then t0, T, y0...
    Rhs rhs; double t0 = 0, T = 1; std::vector<double> y0;
    void exact(double t, double* y) const {
        const double s = t - t0;
        if (name == "sho") { const double w = par[0], a = y0[0], b = y0[1];
            y[0] = a * std::cos(w * s) + b / w * std::sin(w * s); y[1] = -a * w * std::sin(w * s) + b * std::cos(w * s); }
        else if (name == "spiral") { const double a = par[0], w = par[1], e = std::exp(-a * s), c = std::cos(w * s), sn = std::sin(w * s);
            y[0] = e * (c * y0[0] + sn * y0[1]); y[1] = e * (-sn * y0[0] + c * y0[1]); }
        else if (name == "stiffish") { y[0] = y0[0] * std::exp(-par[0] * s); y[1] = y0[1] * std::exp(-par[1] * s); }
        else if (name == "forced") { const double c0 = par[0], c1 = par[1], c2 = par[2], ga = c2, be = c1 - 2 * ga, al = c0 - be;
            auto pol = [&](double x) { return al + be * x + ga * x * x; };
            y[0] = (y0[0] - pol(t0)) * std::exp(-s) + pol(t); }
        else if (name == "pend") {           // reference: classical RK4 in long double with tiny steps (error << 1e-13)
            long double q = y0[0], u = y0[1]; const long double g = par[0];
            const int n = std::max(1, (int)std::ceil(s / 2e-4)); const long double h = (long double)s / n;
            for (int i = 0; i < n; ++i) {
                long double k1q = u, k1u = -g * sinl(q);
                long double k2q = u + h / 2 * k1u, k2u = -g * sinl(q + h / 2 * k1q);
                long double k3q = u + h / 2 * k2u, k3u = -g * sinl(q + h / 2 * k2q);
                long double k4q = u + h * k3u, k4u = -g * sinl(q + h * k3q);
                q += h / 6 * (k1q + 2 * k2q + 2 * k3q + k4q); u += h / 6 * (k1u + 2 * k2u + 2 * k3u + k4u);
            }
            y[0] = (double)q; y[1] = (double)u; }
    }
    // max_i |d^4 y_i/dt^4 (t)| / scale of the exact solution (for the cubic-Hermite error term h^4/384 * max|y''''|)
    double d4(double t) const {
        std::vector<double> ex(y0.size()); exact(t, ex.data());
        double sc = 1; for (double x : ex) sc = std::max(sc, std::abs(x));
        double m = 0;
        if (name == "sho") { const double w4 = std::pow(par[0], 4); m = w4 * std::max(std::abs(ex[0]), std::abs(ex[1])); }
        else if (name == "spiral") { const double l2 = par[0] * par[0] + par[1] * par[1]; m = l2 * l2 * std::hypot(ex[0], ex[1]); }
        else if (name == "stiffish") { m = std::max(std::pow(par[0], 4) * std::abs(ex[0]), std::pow(par[1], 4) * std::abs(ex[1])); }
        else if (name == "forced") { const double c0 = par[0], c1 = par[1], c2 = par[2], ga = c2, be = c1 - 2 * ga, al = c0 - be;
            m = std::abs((y0[0] - (al + be * t0 + ga * t0 * t0)) * std::exp(-(t - t0))); }
        else { const double g = par[0], q = ex[0], u = ex[1], sq = std::sin(q), cq = std::cos(q);
            const double q4 = g * sq * (g * cq + u * u), q5 = g * u * (cq * (g * cq + u * u) - 3 * g * sq * sq);
            m = std::max(std::abs(q4), std::abs(q5)); }
        return m / sc;
    }
    double err(double t, const Vector& y) const {   // relative-to-scale infinity-norm error
        std::vector<double> ex(y0.size()); exact(t, ex.data());
        double sc = 1, e = 0;
        for (size_t i = 0; i < ex.size(); ++i) { sc = std::max(sc, std::abs(ex[i])); e = std::max(e, std::abs(y[(int)i] - ex[i])); }
        return e / sc;
    }
};
static Problem makeProblem(const std::string& name, const std::vector<double>& par, double t0, double T, const std::vector<double>& y0) {
    Problem P; P.name = name; P.par = par; P.t0 = t0; P.T = T; P.y0 = y0;
    Rhs& r = P.rhs; r.kind = 0; r.deg = 0;
    if (name == "sho") { r.nq = 1; r.nz = 0; r.M = {0, 1, -par[0] * par[0], 0}; r.C = {0, 0}; }
    else if (name == "spiral") { r.nq = 0; r.nz = 2; r.M = {-par[0], par[1], -par[1], -par[0]}; r.C = {0, 0}; }
    else if (name == "stiffish") { r.nq = 0; r.nz = 2; r.M = {-par[0], 0, 0, -par[1]}; r.C = {0, 0}; }
    else if (name == "forced") { r.nq = 0; r.nz = 1; r.deg = 2; r.M = {-1}; r.C = {par[0], par[1], par[2]}; }
    else { r = pendulum(par[0]); }
    return P;
}
static Problem randomProblem(vh::Rng& g, const std::string& name) {
    if (name == "sho") return makeProblem(name, {g.range(0.5, 3)}, g.range(-1, 1), g.range(3, 6), {g.signedMag(0.3, 1.5), g.signedMag(0.3, 1.5)});
    if (name == "spiral") return makeProblem(name, {g.range(0.1, 1), g.range(0.5, 3)}, g.range(-1, 1), g.range(3, 6), {g.signedMag(0.3, 1.5), g.signedMag(0.3, 1.5)});
    if (name == "stiffish") return makeProblem(name, {g.range(20, 60), g.range(0.5, 2)}, 0.0, g.range(1, 2), {g.signedMag(0.3, 1.5), g.signedMag(0.3, 1.5)});
    if (name == "forced") return makeProblem(name, {g.signedMag(0.2, 1), g.signedMag(0.2, 1), g.signedMag(0.2, 1)}, g.range(-1, 1), g.range(2, 4), {g.signedMag(0.3, 1.5)});
    // released from rest at |q0| <= 2.2 rad: librating, energy well below the separatrix (near it the error
    // amplification is unbounded and no accuracy bound would be meaningful)
    return makeProblem("pend", {g.range(1, 10)}, 0.0, g.range(2, 4), {g.signedMag(0.5, 2.2), 0.0});
}
static void emitProblem(vh::Line& L, const Problem& P) {
    L.s(P.name).i((long long)P.par.size()); for (double x : P.par) L.d(x);
    L.d(P.t0).d(P.T).i((long long)P.y0.size()); for (double x : P.y0) L.d(x);
}
// actual order of each method (used only to choose a step size for the order measurement)
static int nominalOrder(const std::string& m) {
    if (m == "merson" || m == "rkf") return 4;
    if (m == "rk3") return 3;
    if (m == "rk2" || m == "verlet") return 2;
    return 1;
}
// Bounds of the accuracy predicates: ~3x the maximum measured on the clean tree (seeds 1,2,3 quick, thorough seed 1 and
// more thorough-size seeds; table generated by the measurement script described in notes/C20.md).
//   key "<method>.<problem>.<rms|inf>.<loose|tight>" -> bound of global_err/acc   (loose: acc >= 1e-5, tight: acc < 1e-5)
//   key "<method>.<problem>.<rms|inf>.step"          -> bound of global_err/(acc*steps)
//   key "<method>.h4"                                -> bound of interp_err / max(step errs, acc, h^4/384 max|y''''|)
#include <map>
static const std::map<std::string, double>& boundTable() {
    static const std::map<std::string, double> T = {
/*BOUNDS-BEGIN*/
        {"cpodes_adams.forced.inf.loose", 3},   // n=100 max=0.719
        {"cpodes_adams.forced.inf.step", 0.14},   // n=200 max=0.0462
        {"cpodes_adams.forced.inf.tight", 7.2},   // n=100 max=2.39
        {"cpodes_adams.forced.rms.loose", 3},   // n=96 max=0.783
        {"cpodes_adams.forced.rms.step", 0.15},   // n=192 max=0.049
        {"cpodes_adams.forced.rms.tight", 7.4},   // n=96 max=2.44
        {"cpodes_adams.h4", 3.5},   // n=370 max=1.16
        {"cpodes_adams.pend.inf.loose", 230},   // n=118 max=74.2
        {"cpodes_adams.pend.inf.step", 2},   // n=236 max=0.639
        {"cpodes_adams.pend.inf.tight", 340},   // n=118 max=112
        {"cpodes_adams.pend.rms.loose", 230},   // n=104 max=76.3
        {"cpodes_adams.pend.rms.step", 2.1},   // n=208 max=0.688
        {"cpodes_adams.pend.rms.tight", 210},   // n=104 max=67
        {"cpodes_adams.sho.inf.loose", 38},   // n=112 max=12.5
        {"cpodes_adams.sho.inf.step", 1.1},   // n=224 max=0.344
        {"cpodes_adams.sho.inf.tight", 230},   // n=112 max=74
        {"cpodes_adams.sho.rms.loose", 56},   // n=98 max=18.4
        {"cpodes_adams.sho.rms.step", 1.1},   // n=196 max=0.359
        {"cpodes_adams.sho.rms.tight", 210},   // n=98 max=67.5
        {"cpodes_adams.spiral.inf.loose", 26},   // n=100 max=8.52
        {"cpodes_adams.spiral.inf.step", 0.43},   // n=200 max=0.142
        {"cpodes_adams.spiral.inf.tight", 48},   // n=100 max=15.8
        {"cpodes_adams.spiral.rms.loose", 26},   // n=144 max=8.48
        {"cpodes_adams.spiral.rms.step", 0.43},   // n=288 max=0.141
        {"cpodes_adams.spiral.rms.tight", 88},   // n=144 max=29.2
        {"cpodes_adams.stiffish.inf.loose", 3},   // n=136 max=0.629
        {"cpodes_adams.stiffish.inf.step", 0.1},   // n=272 max=0.00598
        {"cpodes_adams.stiffish.inf.tight", 4.2},   // n=136 max=1.37
        {"cpodes_adams.stiffish.rms.loose", 3},   // n=132 max=0.482
        {"cpodes_adams.stiffish.rms.step", 0.1},   // n=264 max=0.0102
        {"cpodes_adams.stiffish.rms.tight", 5.2},   // n=132 max=1.71
        {"cpodes_bdf.forced.inf.loose", 42},   // n=98 max=14
        {"cpodes_bdf.forced.inf.step", 1},   // n=196 max=0.333
        {"cpodes_bdf.forced.inf.tight", 47},   // n=98 max=15.4
        {"cpodes_bdf.forced.rms.loose", 19},   // n=102 max=6.31
        {"cpodes_bdf.forced.rms.step", 0.45},   // n=204 max=0.149
        {"cpodes_bdf.forced.rms.tight", 38},   // n=102 max=12.5
        {"cpodes_bdf.h4", 3.7},   // n=369 max=1.22
        {"cpodes_bdf.pend.inf.loose", 270},   // n=104 max=87.7
        {"cpodes_bdf.pend.inf.step", 2.6},   // n=208 max=0.834
        {"cpodes_bdf.pend.inf.tight", 300},   // n=104 max=99.8
        {"cpodes_bdf.pend.rms.loose", 390},   // n=122 max=129
        {"cpodes_bdf.pend.rms.step", 2.8},   // n=244 max=0.917
        {"cpodes_bdf.pend.rms.tight", 410},   // n=122 max=134
        {"cpodes_bdf.sho.inf.loose", 190},   // n=108 max=61
        {"cpodes_bdf.sho.inf.step", 1.5},   // n=216 max=0.499
        {"cpodes_bdf.sho.inf.tight", 470},   // n=108 max=153
        {"cpodes_bdf.sho.rms.loose", 220},   // n=106 max=71.6
        {"cpodes_bdf.sho.rms.step", 1.9},   // n=212 max=0.622
        {"cpodes_bdf.sho.rms.tight", 500},   // n=106 max=166
        {"cpodes_bdf.spiral.inf.loose", 44},   // n=134 max=14.5
        {"cpodes_bdf.spiral.inf.step", 1.1},   // n=268 max=0.336
        {"cpodes_bdf.spiral.inf.tight", 310},   // n=134 max=101
        {"cpodes_bdf.spiral.rms.loose", 160},   // n=86 max=51.7
        {"cpodes_bdf.spiral.rms.step", 1.5},   // n=172 max=0.488
        {"cpodes_bdf.spiral.rms.tight", 220},   // n=86 max=70.3
        {"cpodes_bdf.stiffish.inf.loose", 9},   // n=116 max=2.99
        {"cpodes_bdf.stiffish.inf.step", 0.11},   // n=232 max=0.0336
        {"cpodes_bdf.stiffish.inf.tight", 18},   // n=116 max=5.84
        {"cpodes_bdf.stiffish.rms.loose", 8.2},   // n=94 max=2.72
        {"cpodes_bdf.stiffish.rms.step", 0.1},   // n=188 max=0.0302
        {"cpodes_bdf.stiffish.rms.tight", 15},   // n=94 max=4.7
        {"euler.forced.inf.loose", 680},   // n=118 max=227
        {"euler.forced.inf.step", 1.3},   // n=235 max=0.416
        {"euler.forced.inf.tight", 68000},   // n=117 max=2.24e+04
        {"euler.forced.rms.loose", 590},   // n=112 max=196
        {"euler.forced.rms.step", 1.2},   // n=224 max=0.382
        {"euler.forced.rms.tight", 59000},   // n=112 max=1.96e+04
        {"euler.pend.inf.loose", 35000},   // n=122 max=1.14e+04
        {"euler.pend.inf.step", 15},   // n=244 max=4.73
        {"euler.pend.inf.tight", 3.4e+06},   // n=122 max=1.13e+06
        {"euler.pend.rms.loose", 28000},   // n=124 max=9.13e+03
        {"euler.pend.rms.step", 15},   // n=247 max=4.99
        {"euler.pend.rms.tight", 2.8e+06},   // n=123 max=9.03e+05
        {"euler.sho.inf.loose", 8900},   // n=108 max=2.95e+03
        {"euler.sho.inf.step", 3.4},   // n=214 max=1.12
        {"euler.sho.inf.tight", 880000},   // n=106 max=2.93e+05
        {"euler.sho.rms.loose", 9400},   // n=98 max=3.1e+03
        {"euler.sho.rms.step", 4.4},   // n=194 max=1.45
        {"euler.sho.rms.tight", 920000},   // n=96 max=3.05e+05
        {"euler.spiral.inf.loose", 4700},   // n=106 max=1.55e+03
        {"euler.spiral.inf.step", 2.5},   // n=210 max=0.806
        {"euler.spiral.inf.tight", 470000},   // n=104 max=1.54e+05
        {"euler.spiral.rms.loose", 6300},   // n=116 max=2.07e+03
        {"euler.spiral.rms.step", 3.3},   // n=231 max=1.09
        {"euler.spiral.rms.tight", 620000},   // n=115 max=2.05e+05
        {"euler.stiffish.inf.loose", 310},   // n=108 max=101
        {"euler.stiffish.inf.step", 0.57},   // n=216 max=0.188
        {"euler.stiffish.inf.tight", 31000},   // n=108 max=1.01e+04
        {"euler.stiffish.rms.loose", 390},   // n=130 max=127
        {"euler.stiffish.rms.step", 0.76},   // n=259 max=0.252
        {"euler.stiffish.rms.tight", 39000},   // n=129 max=1.27e+04
        {"merson.forced.inf.loose", 7.1},   // n=104 max=2.35
        {"merson.forced.inf.step", 0.94},   // n=208 max=0.312
        {"merson.forced.inf.tight", 6.3},   // n=104 max=2.07
        {"merson.forced.rms.loose", 8.8},   // n=124 max=2.9
        {"merson.forced.rms.step", 0.98},   // n=248 max=0.326
        {"merson.forced.rms.tight", 8.1},   // n=124 max=2.69
        {"merson.h4", 6.5},   // n=372 max=2.16
        {"merson.pend.inf.loose", 59},   // n=114 max=19.5
        {"merson.pend.inf.step", 5.6},   // n=228 max=1.84
        {"merson.pend.inf.tight", 150},   // n=114 max=49.7
        {"merson.pend.rms.loose", 63},   // n=108 max=20.9
        {"merson.pend.rms.step", 2.7},   // n=216 max=0.869
        {"merson.pend.rms.tight", 73},   // n=108 max=24.1
        {"merson.sho.inf.loose", 190},   // n=112 max=63.2
        {"merson.sho.inf.step", 4.4},   // n=224 max=1.43
        {"merson.sho.inf.tight", 1300},   // n=112 max=404
        {"merson.sho.rms.loose", 160},   // n=140 max=51.3
        {"merson.sho.rms.step", 4.4},   // n=280 max=1.43
        {"merson.sho.rms.tight", 1100},   // n=140 max=343
        {"merson.spiral.inf.loose", 39},   // n=112 max=12.9
        {"merson.spiral.inf.step", 1.7},   // n=224 max=0.547
        {"merson.spiral.inf.tight", 240},   // n=112 max=78.5
        {"merson.spiral.rms.loose", 46},   // n=110 max=15
        {"merson.spiral.rms.step", 1.7},   // n=220 max=0.565
        {"merson.spiral.rms.tight", 290},   // n=110 max=94.8
        {"merson.stiffish.inf.loose", 28},   // n=118 max=9.02
        {"merson.stiffish.inf.step", 2},   // n=236 max=0.645
        {"merson.stiffish.inf.tight", 66},   // n=118 max=22
        {"merson.stiffish.rms.loose", 23},   // n=104 max=7.49
        {"merson.stiffish.rms.step", 1.2},   // n=208 max=0.374
        {"merson.stiffish.rms.tight", 92},   // n=104 max=30.4
        {"rk2.forced.inf.loose", 3},   // n=136 max=0.823
        {"rk2.forced.inf.step", 0.1},   // n=272 max=0.0302
        {"rk2.forced.inf.tight", 4.1},   // n=136 max=1.34
        {"rk2.forced.rms.loose", 3},   // n=84 max=0.813
        {"rk2.forced.rms.step", 0.1},   // n=168 max=0.0267
        {"rk2.forced.rms.tight", 4.3},   // n=84 max=1.42
        {"rk2.h4", 3.1},   // n=344 max=1.02
        {"rk2.pend.inf.loose", 15},   // n=110 max=4.87
        {"rk2.pend.inf.step", 0.19},   // n=220 max=0.0633
        {"rk2.pend.inf.tight", 15},   // n=110 max=4.92
        {"rk2.pend.rms.loose", 17},   // n=144 max=5.61
        {"rk2.pend.rms.step", 0.22},   // n=288 max=0.0725
        {"rk2.pend.rms.tight", 17},   // n=144 max=5.62
        {"rk2.sho.inf.loose", 38},   // n=100 max=12.5
        {"rk2.sho.inf.step", 0.31},   // n=200 max=0.103
        {"rk2.sho.inf.tight", 38},   // n=100 max=12.5
        {"rk2.sho.rms.loose", 28},   // n=90 max=9.25
        {"rk2.sho.rms.step", 0.19},   // n=180 max=0.06
        {"rk2.sho.rms.tight", 28},   // n=90 max=9.26
        {"rk2.spiral.inf.loose", 6.8},   // n=98 max=2.27
        {"rk2.spiral.inf.step", 0.1},   // n=196 max=0.0299
        {"rk2.spiral.inf.tight", 6.9},   // n=98 max=2.27
        {"rk2.spiral.rms.loose", 8},   // n=110 max=2.67
        {"rk2.spiral.rms.step", 0.12},   // n=220 max=0.037
        {"rk2.spiral.rms.tight", 8},   // n=110 max=2.67
        {"rk2.stiffish.inf.loose", 3},   // n=144 max=0.61
        {"rk2.stiffish.inf.step", 0.1},   // n=288 max=0.018
        {"rk2.stiffish.inf.tight", 3},   // n=144 max=0.227
        {"rk2.stiffish.rms.loose", 3},   // n=116 max=0.865
        {"rk2.stiffish.rms.step", 0.1},   // n=232 max=0.0316
        {"rk2.stiffish.rms.tight", 3},   // n=116 max=0.319
        {"rk3.forced.inf.loose", 3},   // n=156 max=0.319
        {"rk3.forced.inf.step", 0.11},   // n=312 max=0.0348
        {"rk3.forced.inf.tight", 3},   // n=156 max=0.484
        {"rk3.forced.rms.loose", 3},   // n=124 max=0.322
        {"rk3.forced.rms.step", 0.14},   // n=248 max=0.046
        {"rk3.forced.rms.tight", 3},   // n=124 max=0.469
        {"rk3.h4", 3.3},   // n=431 max=1.09
        {"rk3.pend.inf.loose", 28},   // n=110 max=9.11
        {"rk3.pend.inf.step", 0.62},   // n=220 max=0.204
        {"rk3.pend.inf.tight", 32},   // n=110 max=10.5
        {"rk3.pend.rms.loose", 32},   // n=134 max=10.4
        {"rk3.pend.rms.step", 0.43},   // n=268 max=0.143
        {"rk3.pend.rms.tight", 33},   // n=134 max=10.8
        {"rk3.sho.inf.loose", 11},   // n=124 max=3.6
        {"rk3.sho.inf.step", 0.25},   // n=248 max=0.0821
        {"rk3.sho.inf.tight", 8.2},   // n=124 max=2.7
        {"rk3.sho.rms.loose", 6.8},   // n=88 max=2.24
        {"rk3.sho.rms.step", 0.26},   // n=176 max=0.0856
        {"rk3.sho.rms.tight", 6.2},   // n=88 max=2.06
        {"rk3.spiral.inf.loose", 5.2},   // n=100 max=1.73
        {"rk3.spiral.inf.step", 0.15},   // n=200 max=0.0478
        {"rk3.spiral.inf.tight", 5.6},   // n=100 max=1.85
        {"rk3.spiral.rms.loose", 4.8},   // n=114 max=1.59
        {"rk3.spiral.rms.step", 0.14},   // n=228 max=0.0448
        {"rk3.spiral.rms.tight", 4.8},   // n=114 max=1.57
        {"rk3.stiffish.inf.loose", 3.9},   // n=110 max=1.28
        {"rk3.stiffish.inf.step", 0.16},   // n=220 max=0.0533
        {"rk3.stiffish.inf.tight", 3},   // n=110 max=0.142
        {"rk3.stiffish.rms.loose", 4.9},   // n=90 max=1.62
        {"rk3.stiffish.rms.step", 0.16},   // n=180 max=0.0508
        {"rk3.stiffish.rms.tight", 3},   // n=90 max=0.2
        {"rkf.forced.inf.loose", 36},   // n=106 max=11.8
        {"rkf.forced.inf.step", 12},   // n=212 max=3.8
        {"rkf.forced.inf.tight", 450},   // n=106 max=148
        {"rkf.forced.rms.loose", 37},   // n=116 max=12.3
        {"rkf.forced.rms.step", 18},   // n=232 max=5.68
        {"rkf.forced.rms.tight", 690},   // n=116 max=227
        {"rkf.h4", 5.7},   // n=429 max=1.9
        {"rkf.pend.inf.loose", 140},   // n=100 max=45.3
        {"rkf.pend.inf.step", 22},   // n=200 max=7.12
        {"rkf.pend.inf.tight", 1400},   // n=100 max=438
        {"rkf.pend.rms.loose", 150},   // n=122 max=48.5
        {"rkf.pend.rms.step", 23},   // n=244 max=7.43
        {"rkf.pend.rms.tight", 960},   // n=122 max=320
        {"rkf.sho.inf.loose", 120},   // n=90 max=39.2
        {"rkf.sho.inf.step", 3.8},   // n=180 max=1.27
        {"rkf.sho.inf.tight", 980},   // n=90 max=324
        {"rkf.sho.rms.loose", 110},   // n=122 max=34.6
        {"rkf.sho.rms.step", 4},   // n=244 max=1.33
        {"rkf.sho.rms.tight", 1100},   // n=122 max=345
        {"rkf.spiral.inf.loose", 39},   // n=116 max=12.8
        {"rkf.spiral.inf.step", 2.2},   // n=232 max=0.732
        {"rkf.spiral.inf.tight", 280},   // n=116 max=90.8
        {"rkf.spiral.rms.loose", 44},   // n=120 max=14.4
        {"rkf.spiral.rms.step", 2.6},   // n=240 max=0.843
        {"rkf.spiral.rms.tight", 360},   // n=120 max=120
        {"rkf.stiffish.inf.loose", 8.6},   // n=104 max=2.84
        {"rkf.stiffish.inf.step", 0.78},   // n=208 max=0.259
        {"rkf.stiffish.inf.tight", 87},   // n=104 max=28.8
        {"rkf.stiffish.rms.loose", 13},   // n=130 max=4.17
        {"rkf.stiffish.rms.step", 1.1},   // n=260 max=0.343
        {"rkf.stiffish.rms.tight", 99},   // n=130 max=32.8
        {"see2.forced.inf.loose", 510},   // n=106 max=167
        {"see2.forced.inf.step", 1.3},   // n=210 max=0.421
        {"see2.forced.inf.tight", 51000},   // n=104 max=1.68e+04
        {"see2.forced.rms.loose", 500},   // n=120 max=164
        {"see2.forced.rms.step", 1.2},   // n=235 max=0.386
        {"see2.forced.rms.tight", 50000},   // n=115 max=1.65e+04
        {"see2.pend.inf.loose", 450},   // n=136 max=148
        {"see2.pend.inf.step", 0.96},   // n=270 max=0.318
        {"see2.pend.inf.tight", 45000},   // n=134 max=1.48e+04
        {"see2.pend.rms.loose", 320},   // n=102 max=105
        {"see2.pend.rms.step", 1.2},   // n=203 max=0.399
        {"see2.pend.rms.tight", 32000},   // n=101 max=1.05e+04
        {"see2.sho.inf.loose", 590},   // n=124 max=194
        {"see2.sho.inf.step", 0.87},   // n=248 max=0.288
        {"see2.sho.inf.tight", 59000},   // n=124 max=1.94e+04
        {"see2.sho.rms.loose", 520},   // n=114 max=170
        {"see2.sho.rms.step", 1.1},   // n=227 max=0.343
        {"see2.sho.rms.tight", 51000},   // n=113 max=1.69e+04
        {"see2.spiral.inf.loose", 2900},   // n=100 max=946
        {"see2.spiral.inf.step", 2.1},   // n=200 max=0.683
        {"see2.spiral.inf.tight", 290000},   // n=100 max=9.43e+04
        {"see2.spiral.rms.loose", 5500},   // n=146 max=1.83e+03
        {"see2.spiral.rms.step", 3},   // n=291 max=0.97
        {"see2.spiral.rms.tight", 550000},   // n=145 max=1.82e+05
        {"see2.stiffish.inf.loose", 230},   // n=122 max=74.2
        {"see2.stiffish.inf.step", 0.53},   // n=239 max=0.174
        {"see2.stiffish.inf.tight", 23000},   // n=117 max=7.51e+03
        {"see2.stiffish.rms.loose", 260},   // n=130 max=85.7
        {"see2.stiffish.rms.step", 0.74},   // n=259 max=0.246
        {"see2.stiffish.rms.tight", 26000},   // n=129 max=8.66e+03
        {"verlet.forced.inf.loose", 40},   // n=120 max=13.1
        {"verlet.forced.inf.step", 0.72},   // n=240 max=0.238
        {"verlet.forced.inf.tight", 1100},   // n=120 max=352
        {"verlet.forced.rms.loose", 43},   // n=122 max=14.3
        {"verlet.forced.rms.step", 0.66},   // n=244 max=0.218
        {"verlet.forced.rms.tight", 1200},   // n=122 max=390
        {"verlet.h4", 3.3},   // n=384 max=1.1
        {"verlet.pend.inf.loose", 210},   // n=106 max=67.3
        {"verlet.pend.inf.step", 1.2},   // n=212 max=0.388
        {"verlet.pend.inf.tight", 3400},   // n=106 max=1.1e+03
        {"verlet.pend.rms.loose", 250},   // n=98 max=81.1
        {"verlet.pend.rms.step", 0.97},   // n=196 max=0.323
        {"verlet.pend.rms.tight", 3900},   // n=98 max=1.3e+03
        {"verlet.sho.inf.loose", 410},   // n=110 max=136
        {"verlet.sho.inf.step", 1.2},   // n=220 max=0.376
        {"verlet.sho.inf.tight", 6000},   // n=110 max=1.98e+03
        {"verlet.sho.rms.loose", 300},   // n=92 max=100
        {"verlet.sho.rms.step", 1.1},   // n=184 max=0.356
        {"verlet.sho.rms.tight", 4000},   // n=92 max=1.31e+03
        {"verlet.spiral.inf.loose", 180},   // n=136 max=59
        {"verlet.spiral.inf.step", 0.6},   // n=272 max=0.199
        {"verlet.spiral.inf.tight", 3900},   // n=136 max=1.27e+03
        {"verlet.spiral.rms.loose", 160},   // n=122 max=50.1
        {"verlet.spiral.rms.step", 0.74},   // n=244 max=0.246
        {"verlet.spiral.rms.tight", 3300},   // n=122 max=1.08e+03
        {"verlet.stiffish.inf.loose", 52},   // n=136 max=17.3
        {"verlet.stiffish.inf.step", 0.77},   // n=272 max=0.254
        {"verlet.stiffish.inf.tight", 1200},   // n=136 max=377
        {"verlet.stiffish.rms.loose", 64},   // n=126 max=21.1
        {"verlet.stiffish.rms.step", 1.2},   // n=252 max=0.398
        {"verlet.stiffish.rms.tight", 1500},   // n=126 max=488
/*BOUNDS-END*/
    };
    return T;
}
static double boundOf(const std::string& key) {
    auto it = boundTable().find(key);
    return it == boundTable().end() ? NAN : it->second;   // an unmeasured cell fails loudly instead of passing silently
}
// global error over [t0,t0+T] at nrep equally spaced report times, default options (interpolation allowed)
static int g_lastSteps = 0;
static double runGlobal(const std::string& method, const Problem& P, double acc, int nrep, double fixedH = -1, bool useInf = false) {
    OdeSystem sys(P.rhs);
    State s = initialState(sys, P.t0, P.y0);
    std::unique_ptr<Integrator> integ = makeInteg(method, sys);
    if (fixedH > 0) { integ->setFixedStepSize(fixedH); integ->setAccuracy(1e-9); }   // accuracy: only Verlet's iteration tolerance
    else integ->setAccuracy(acc);
    if (useInf) integ->setUseInfinityNorm(true);
    integ->initialize(s);
    double worst = 0;
    for (int k = 1; k <= nrep; ++k) {
        const double tr = P.t0 + P.T * k / nrep;
        int guard = 0;
        while (guard++ < 2000000) { Integrator::SuccessfulStepStatus st = integ->stepTo(tr); if (st == Integrator::ReachedReportTime) break; }
        worst = std::max(worst, P.err(integ->getTime(), integ->getState().getY()));
    }
    g_lastSteps = integ->getNumStepsTaken();
    return worst;
}
static void ladderCase(const std::string& method, const Problem& P, const std::vector<double>& accs, bool useInf) {
    vh::Line in = vh::I("acc"); in.s("ladder").s(method); emitProblem(in, P); in.i(useInf ? 1 : 0);
    in.i((long long)accs.size()); for (double a : accs) in.d(a); in.emit();
    std::printf("O acc 1\n");
    const std::string norm = useInf ? "inf" : "rms";
    vh::D("acc.ladder." + method + "." + P.name + "." + norm);
    const std::string key = method + "." + P.name + "." + norm;
    std::vector<double> errs;
    for (double a : accs) {
        double e;
        try { e = runGlobal(method, P, a, 10, -1, useInf); } catch (const std::exception&) { e = NAN; }
        errs.push_back(e);
        char tag[48]; std::snprintf(tag, sizeof tag, "acc.ladder.acc1e%d.%s", (int)std::lround(std::log10(a)), norm.c_str());
        vh::D(tag);
        vh::P("global_err_over_acc", key + ".global_err", e / a, boundOf(key + (a >= 1e-5 ? ".loose" : ".tight")));
        vh::P("global_err_per_step_over_acc", key + ".err_per_step", e / (a * std::max(1, g_lastSteps)), boundOf(key + ".step"));
    }
    for (size_t i = 0; i + 1 < accs.size(); ++i)
        vh::P("tighten_not_worse", key + ".tighten", errs[i + 1] / std::max(errs[i], accs[i + 1]), 3.5);
}
static void orderCase(const std::string& method, const Problem& P, double h) {
    vh::Line in = vh::I("acc"); in.s("order").s(method); emitProblem(in, P); in.d(h); in.emit();
    std::printf("O acc 1\n");
    vh::D("acc.order." + method + "." + P.name);
    // documented order = what the public API reports (Integrator::getMethodMinOrder)
    int pdoc = 0;
    { OdeSystem sys(P.rhs); pdoc = makeInteg(method, sys)->getMethodMinOrder(); }
    // observed order = best over the pairs (h,h/2), (h/2,h/4), (h/4,h/8) and the overall slopes: the h^p and h^(p+1)
    // error terms can cancel near one step size, which spoils at most two adjacent pairs (seen for Merson on a
    // large-amplitude pendulum); a method of genuinely lower order is low on all of them (deficit about 1).
    // Errors are maxima over 16 report times; pairs whose finer error is at rounding level (< 1e-12) are skipped.
    double e[4] = {NAN, NAN, NAN, NAN};
    try { for (int k = 0; k < 4; ++k) e[k] = runGlobal(method, P, 0, 16, h / (1 << k)); } catch (const std::exception&) {}
    double pobs = -INFINITY; bool any = false;
    for (int k = 1; k < 4; ++k) {
        if (e[k] < 1e-12) break;
        any = true;
        pobs = std::max(pobs, std::log2(e[k - 1] / e[k]));
        pobs = std::max(pobs, std::log2(e[0] / e[k]) / k);
    }
    // RungeKuttaFeldberg advertises order 5 but propagates its 4th-order solution (theorem rkf_order): own key
    const std::string key = method == "rkf" ? "rkf.minorder5.order" : method + "." + P.name + ".order";
    vh::P("order_deficit", key, any ? pdoc - pobs : 0.0, 0.5);
}
// interpolated report states vs the step states around them
static void interpCase(const std::string& method, const Problem& P, double acc, const std::vector<double>& reports) {
    vh::Line in = vh::I("acc"); in.s("interp").s(method); emitProblem(in, P); in.d(acc).i((long long)reports.size()); for (double r : reports) in.d(r); in.emit();
    std::printf("O acc 1\n");
    vh::D("acc.interp." + method + "." + P.name);
    double worstRatio = 0, worstH4 = 0; int nInterp = 0;
    try {
        OdeSystem sys(P.rhs);
        State s = initialState(sys, P.t0, P.y0);
        std::unique_ptr<Integrator> integ = makeInteg(method, sys);
        integ->setAccuracy(acc);
        integ->setReturnEveryInternalStep(true);
        integ->initialize(s);
        double ePrev = 0, tPrev = P.t0;   // error / time of the step state at the start of the current step
        std::vector<double> pending; // errors of interpolated states inside the current step
        size_t idx = 0; int guard = 0;
        while (idx < reports.size() && guard++ < 2000000) {
            Integrator::SuccessfulStepStatus st = integ->stepTo(reports[idx]);
            if (st == Integrator::EndOfSimulation) break;
            const bool interp = integ->getTime() < integ->getAdvancedTime();
            const double e = P.err(integ->getTime(), integ->getState().getY());
            if (st == Integrator::ReachedReportTime) ++idx;
            if (interp) { pending.push_back(e); continue; }
            // a step state: close the step [tPrev, t]
            const double t = integ->getTime(), h = t - tPrev;
            if (!pending.empty()) {
                const double m4 = std::max(P.d4(tPrev), std::max(P.d4(tPrev + h / 2), P.d4(t)));
                const double hermite = h * h * h * h / 384 * m4;   // error of cubic Hermite interpolation of exact data
                for (double ei : pending) {
                    worstRatio = std::max(worstRatio, ei / std::max(std::max(ePrev, e), acc));
                    worstH4 = std::max(worstH4, ei / std::max(std::max(std::max(ePrev, e), acc), hermite));
                    ++nInterp;
                }
            }
            pending.clear(); ePrev = e; tPrev = t;
        }
    } catch (const std::exception&) { worstRatio = worstH4 = NAN; }
    // the property's literal clause; cubic Hermite (3rd order) under the two 4th-order methods: own (known) keys
    const std::string key = (method == "rkf" || method == "merson") ? method + ".hermite.interp" : method + "." + P.name + ".interp";
    vh::P("interp_vs_steps", key, worstRatio, 4);
    // enforced for every method incl. rkf/merson: an interpolated state may be worse than its neighbours only by the
    // interpolation error of cubic Hermite itself, h^4/384 max|y''''|
    vh::P("interp_vs_steps_or_hermite_h4", method + "." + P.name + ".interp_h4", worstH4, boundOf(method + ".h4"));
}
static const char* PROBLEMS[] = {"sho", "spiral", "stiffish", "forced", "pend"};
static const char* ACCM[] = {"merson", "rkf", "rk3", "rk2", "verlet", "cpodes_bdf", "cpodes_adams", "euler", "see2"};
static long accuracyCase(vh::Rng& g, bool thorough) {
    const int kind = g.below(4);
    std::string pn = PROBLEMS[g.below(5)];
    if (kind == 2 && pn == "stiffish") pn = "spiral";   // order needs h*k << 1 and errors above rounding: not on the stiff decay
    Problem P = randomProblem(g, pn);
    if (kind <= 1) {
        const std::string m = ACCM[g.below(9)];
        // four accuracies two decades apart starting at 1e-2 or 1e-3: every ladder spans 1e-2..1e-8 or 1e-3..1e-9
        const int e0 = 2 + g.below(2);
        std::vector<double> accs; for (int k = 0; k < 4; ++k) accs.push_back(std::pow(10.0, -(e0 + 2 * k)));
        if ((m == "euler" || m == "see2") && !thorough) accs.resize(3);   // first-order methods: 1e-8/1e-9 only in the guaranteed block
        ladderCase(m, P, accs, g.coin());
        return 4;
    } else if (kind == 2) {
        const char* fm[] = {"merson", "rkf", "rk3", "rk2", "verlet", "euler", "see", "see2"};
        const std::string m = fm[g.below(8)];
        const int p = nominalOrder(m);
        // 4th-order methods integrate the polynomial part of "forced" exactly and its small transient to ~1e-12 already
        // at moderate h: no asymptotic regime above rounding level -> measure them on the oscillator instead
        if (p >= 4 && P.name == "forced") P = randomProblem(g, "sho");
        orderCase(m, P, p >= 4 ? 0.05 : p == 3 ? 0.02 : p == 2 ? 0.01 : 0.002);
        return 2;
    } else {
        const std::string m = ACCM[g.below(7)];
        const double acc = std::pow(10.0, -(double)(2 + g.below(m == "rk2" || m == "verlet" ? 4 : 6)));
        std::vector<double> reports; double t = P.t0;
        while (true) { t += g.range(0.01, 0.25); if (t >= P.t0 + P.T) break; reports.push_back(t); }
        interpCase(m, P, acc, reports);
        return 2;
    }
}
static void replayAccuracy(const std::string& what, const std::vector<std::string>& tk) {
    size_t i = 0;
    auto nx = [&]() { return tk.at(i++); };
    try {
        const std::string method = nx(), pname = nx();
        int np = std::stoi(nx()); std::vector<double> par(np); for (auto& x : par) x = vh::unhex(nx());
        const double t0 = vh::unhex(nx()), T = vh::unhex(nx());
        int ny = std::stoi(nx()); std::vector<double> y0(ny); for (auto& x : y0) x = vh::unhex(nx());
        Problem P = makeProblem(pname, par, t0, T, y0);
        if (what == "ladder") { int ui = std::stoi(nx()); int n = std::stoi(nx()); std::vector<double> a(n); for (auto& x : a) x = vh::unhex(nx()); ladderCase(method, P, a, ui != 0); }
        else if (what == "order") { orderCase(method, P, vh::unhex(nx())); }
        else if (what == "interp") { double acc = vh::unhex(nx()); int n = std::stoi(nx()); std::vector<double> r(n); for (auto& x : r) x = vh::unhex(nx()); interpCase(method, P, acc, r); }
    } catch (const std::exception&) {}
}

// ------------------------------------------------------------------------------------------ replay
static bool parseRhs(std::istringstream& is, Rhs& r) {
    if (!(is >> r.kind >> r.nq >> r.nz >> r.deg)) return false;
    const int n = r.ny(); std::string t;
    const int nM = r.kind == 1 ? 1 : n * n, nC = r.kind == 1 ? 0 : n * (r.deg + 1);
    r.M.resize(nM); r.C.resize(nC);
    for (auto& x : r.M) { if (!(is >> t)) return false; x = vh::unhex(t); }
    for (auto& x : r.C) { if (!(is >> t)) return false; x = vh::unhex(t); }
    return true;
}
static void replay() {
    std::string line;
    char buf[1 << 16];
    while (std::fgets(buf, sizeof buf, stdin)) {
        std::istringstream is(buf); std::string k, fn; is >> k >> fn;
        if (k != "I") continue;
        auto rd = [&]() { std::string t; is >> t; return vh::unhex(t); };
        if (fn == "traj") {
            std::string m; is >> m; Rhs r; if (!parseRhs(is, r)) continue;
            double t0 = rd(); std::vector<double> y0(r.ny()); for (auto& x : y0) x = rd();
            double h = rd(); int n; is >> n;
            trajCase(m, r, t0, y0, h, n, "replay");
        } else if (fn == "vstep") {
            Setup S; is >> S.method >> S.useInf; if (!parseRhs(is, S.rhs)) continue;
            S.acc = rd(); S.t0 = rd(); S.y0.resize(S.rhs.ny()); for (auto& x : S.y0) x = rd();
            double hcur = rd(), tMax = rd(); S.umin = rd(); S.umax = rd();
            vstepFresh(S, hcur, tMax, "replay");
        } else if (fn == "istep") {
            Setup S; is >> S.method >> S.useInf; if (!parseRhs(is, S.rhs)) continue;
            S.acc = rd(); S.t0 = rd(); S.y0.resize(S.rhs.ny()); for (auto& x : S.y0) x = rd();
            double hcur = rd(); S.umin = rd(); S.umax = rd(); double tr = rd();
            istepCase(S, hcur, tr, "replay");
        } else if (fn == "acc") {
            std::string what; is >> what; std::vector<std::string> rest; std::string t; while (is >> t) rest.push_back(t);
            replayAccuracy(what, rest);
        }
    }
}

int main(int argc, char** argv) {
    vh::Args args(argc, argv);
    if (args.mode == "replay") { replay(); return 0; }
    vh::Rng g(args.seed * 7919 + 20);
    const char* ctl[] = {"merson", "rkf", "rk3", "rk2", "euler", "see2", "verlet"};      // error-controlled, modelled
    const char* all[] = {"merson", "rkf", "rk3", "rk2", "euler", "see2", "see", "verlet"};
    const int NCTL = 7, NALL = 8;
    const bool thorough = args.n > 2000;
    // deterministic witnesses (independent of the seed) of the two findings documented in notes/C20.md
    {
        orderCase("rkf", makeProblem("sho", {2.0}, 0.0, 4.0, {1.0, 0.5}), 0.05);
        std::vector<double> rep; for (int i = 1; i < 60; ++i) rep.push_back(0.05 * i - 0.013);
        interpCase("rkf", makeProblem("pend", {9.81}, 0.0, 3.0, {2.0, 0.0}), 1e-7, rep);
        interpCase("merson", makeProblem("spiral", {0.3, 2.5}, 0.0, 3.0, {1.0, 0.5}), 1e-9, rep);
    }
    // guaranteed share: every error-controlled integrator sees the whole range 1e-2..1e-9 in every run, alternating
    // RMS / infinity norm and rotating the problem with the seed
    for (int i = 0; i < 9; ++i) {
        const std::string m = ACCM[i];
        Problem P = randomProblem(g, PROBLEMS[(i + args.seed) % 5]);
        const int e0 = 2 + (int)((i + args.seed / 5) % 2);
        std::vector<double> accs; for (int k = 0; k < 4; ++k) accs.push_back(std::pow(10.0, -(e0 + 2 * k)));
        ladderCase(m, P, accs, (i + args.seed) % 2 == 0);
    }
    // records are counted in units of "cases"; a simulation contributes several vstep records
    long produced = 0;
    while (produced < args.n) {
        const int stream = g.below(10);
        std::string tag; Rhs r = randomRhs(g, tag);
        std::vector<double> y0 = randomY(g, r.ny());
        const double t0 = g.below(3) == 0 ? 0.0 : g.range(-2, 2);
        if (stream <= 2) {                                   // fixed-step trajectories, all 7 modelled methods
            trajCase(all[g.below(NALL)], r, t0, y0, g.range(0.005, 0.2), 1 + g.below(8), tag);
            produced += 1;
        } else if (stream <= 3) {                            // simulations: realistic accept/reject/limited mix
            Setup S; S.method = ctl[g.below(NCTL)]; S.useInf = g.below(3) == 0; S.rhs = r; S.acc = randomAcc(g); S.t0 = t0; S.y0 = y0;
            if (S.method == "euler" || S.method == "see2") S.acc = std::pow(10.0, -g.range(1.0, 4.0));
            if (g.below(4) == 0) S.umax = g.range(0.02, 0.3);
            if (g.below(6) == 0) S.umin = g.range(1e-4, 1e-2);
            if (S.umin > 0 && S.umax > 0 && S.umin > S.umax) std::swap(S.umin, S.umax);
            if (g.below(4) == 0) S.tFinal = t0 + g.range(0.05, 1.0);
            std::vector<double> reports; double t = t0;
            const int nr = g.below(6); for (int i = 0; i < nr; ++i) { t += g.range(0.003, 0.3); reports.push_back(t); }
            const int ms = 3 + g.below(6);
            produced += 1 + simCase(S, reports, g.coin(), ms, tag);
        } else if (stream <= 5) {                            // single steps from arbitrary step sizes: many retries / growth
            Setup S; S.method = ctl[g.below(NCTL)]; S.useInf = g.below(3) == 0; S.rhs = r; S.acc = randomAcc(g); S.t0 = t0; S.y0 = y0;
            const double hcur = std::pow(10.0, -g.range(0.3, 3.5));
            if (g.below(5) == 0) S.umax = hcur * g.range(1.0, 3.0);
            if (g.below(8) == 0) S.umin = hcur * g.range(0.05, 1.0);
            const int lim = g.below(4);
            const double tMax = lim == 0 ? t0 + hcur * g.range(0.1, 0.94) : lim == 1 ? t0 + hcur * g.range(0.96, 1.0009) :
                                lim == 2 ? t0 + hcur * g.range(1.002, 3.0) : (double)Infinity;
            vstepFresh(S, hcur, tMax, tag + ".fresh");
            produced += 1;
        } else if (stream <= 8) {                            // interpolated report inside a step
            Setup S; S.method = all[g.below(NALL)]; S.useInf = 0; S.rhs = r; S.acc = randomAcc(g); S.t0 = t0; S.y0 = y0;
            const double hcur = S.method == "see" ? g.range(0.01, 0.2) : std::pow(10.0, -g.range(0.8, 2.5));
            if (S.method == "see") { S.umin = S.umax = hcur; }
            const double tr = t0 + hcur * (g.below(6) == 0 ? g.range(1.0, 3.5) : g.range(0.02, 0.98));
            istepCase(S, hcur, tr, tag);
            produced += 1;
        } else {
            produced += accuracyCase(g, thorough);
        }
    }
    return 0;
}
