// C11 harness: energy / momentum along integrator trajectories of random multibody models (public API only).
//
// One record per simulated trajectory (regenerable from caseSeed -> --mode replay):
//   I energy|energyF|energyC caseSeed scenario integ accExp nb <body>*nb      (final state of the trajectory)
//     <body> = m p_BC_G[3] I_OB_G[6] r_OB[3] V_GB[6] A_GB[6]
//   O ke / mom / power / momrate      what the implementation reports at that state (see lean/Drivers/C11.lean)
//   D scenario / integrator / accuracy / mobilizers / force elements
//   P ...  trajectory-level predicates (the property itself), normalised so that bound = measured constant x 10
//
// scenarios: 0 conservative, ground-attached tree (gravity, springs)
//            1 conservative with workless constraints (Rod / PointInPlane / Ball)
//            2 free-floating tree, internal forces only (energy AND momentum)
//            3 dissipative (dampers added to 0): energy must not increase
//            4 LinearBushing with damping: energy + reported dissipated energy is constant
//            5 CompliantContactSubsystem (spheres on a half-space, Hunt-Crossley dissipation, no friction): energy + reported
//              dissipated energy is constant
#include "Simbody.h"
#include "hcommon.h"
#include <algorithm>
#include <iostream>
#include <functional>
#include <chrono>
using namespace SimTK;

static Vec3 rv(vh::Rng& r, double s = 1) { return Vec3(r.range(-s, s), r.range(-s, s), r.range(-s, s)); }
static Transform rX(vh::Rng& r, int kind) {
    if (kind == 0) return Transform();
    if (kind == 1) return Transform(rv(r, 0.5));
    Rotation R; R.setRotationToBodyFixedXYZ(rv(r, 2.0));
    return Transform(R, rv(r, 0.5));
}

static const char* INTEG_NAMES[] = {"RungeKuttaMerson", "RungeKuttaFeldberg", "RungeKutta3", "RungeKutta2", "Verlet",
                                    "CPodes", "ExplicitEuler", "SemiExplicitEuler2"};
static const int NINTEG = 8;
static Integrator* makeIntegrator(int k, const System& sys) {
    switch (k) {
    case 0: return new RungeKuttaMersonIntegrator(sys);
    case 1: return new RungeKuttaFeldbergIntegrator(sys);
    case 2: return new RungeKutta3Integrator(sys);
    case 3: return new RungeKutta2Integrator(sys);
    case 4: return new VerletIntegrator(sys);
    case 5: return new CPodesIntegrator(sys);
    case 6: return new ExplicitEulerIntegrator(sys);
    default: return new SemiExplicitEuler2Integrator(sys);
    }
}
// Constants measured on the clean tree PER (integrator, accuracy) cell (see notes/C11.md): worst normalised value, rounded up,
// floored at 1.  Bounds printed in the P lines are these x 10.  Columns = accuracy 1e-3 .. 1e-8.
//   energy            max_t |E(t)-E(0)| / (accuracy * T * scale)        scenarios 0, 2 (unconstrained, conservative)
//   energyConstrained the same with one workless constraint              scenario 1
//   momentum          max(|dP_lin|/p, |dP_ang|/(p L)) / (accuracy * T)   scenario 2 (free-floating, internal forces)
//   monotone          max(E_{i+1}-E_i, E_end-E_0) / (accuracy * T * scale)   scenario 3 (dampers)
//   account           max_t |E+dissipated - (E+dissipated)(0)| / (accuracy * T * scale)   scenarios 4 (bushing), 5 (contact)
// A cell whose bound allows a drift of >= 10 % of the energy (momentum) scale over the run is tagged `uninformative.*`
// (it can only catch blow-ups); the final coverage record requires a minimum number of informative cases per integrator.
enum Metric { M_ENERGY, M_ENERGYC, M_MOMENTUM, M_MONOTONE, M_ACCOUNT, NMETRIC };
static const char* METRIC_NAMES[] = {"energy", "energy.constrained", "momentum", "monotone", "account"};
// BEGIN MEASURED (seeds 1..40 x 300 trajectories, 2026-09-22; per cell: worst value rounded up, n = number of samples)
static const double MEASURED[NINTEG][NMETRIC][6] = {
  /* RungeKuttaMerson */ {
    /* energy   n=49,46,83,108,122,71          */ {3.9, 3.7, 5.3, 6.5, 34, 4.2},
    /* energyC  n=17,20,52,60,51,56            */ {2.8, 2.1, 5.7, 32, 11, 66},
    /* momentum n=23,32,39,53,53,33            */ {2.8, 2.2, 2.3, 2.9, 4.9, 16},
    /* monotone n=22,22,39,69,52,52            */ {1, 1, 1, 3.5, 7.6, 5.6},
    /* account  n=26,40,63,94,100,78           */ {2.9, 3.8, 11, 12, 13, 9.5},
  },
  /* RungeKuttaFeldberg */ {
    /* energy   n=41,39,76,126,121,79          */ {16, 23, 49, 75, 140, 140},
    /* energyC  n=14,16,43,63,65,46            */ {7.6, 5, 26, 28, 85, 120},
    /* momentum n=19,22,34,62,64,39            */ {15, 23, 61, 39, 69, 150},
    /* monotone n=20,25,41,64,59,46            */ {3.1, 4.4, 8.2, 23, 31, 13},
    /* account  n=33,37,52,94,97,75            */ {8.4, 19, 41, 240, 120, 160},
  },
  /* RungeKutta3 */ {
    /* energy   n=33,45,83,122,133,78          */ {1.3, 1.4, 2.7, 4.6, 2.9, 1.9},
    /* energyC  n=25,24,34,68,62,33            */ {2.2, 1.1, 13, 1.5, 4.9, 6.4},
    /* momentum n=12,29,44,67,70,36            */ {1, 1, 1, 1, 1, 1},
    /* monotone n=14,14,38,61,60,39            */ {1, 1, 1, 1, 1, 1},
    /* account  n=35,38,53,71,92,66            */ {1.6, 2.3, 1.8, 5.7, 2.1, 2.2},
  },
  /* RungeKutta2 */ {
    /* energy   n=38,58,91,329,0,0             */ {2.3, 1, 1, 1.2, 0, 0},
    /* energyC  n=13,26,45,179,0,0             */ {1, 1, 1, 1, 0, 0},
    /* momentum n=15,36,41,163,0,0             */ {2, 1, 1, 2.1, 0, 0},
    /* monotone n=15,18,50,177,0,0             */ {1, 1, 1, 1, 0, 0},
    /* account  n=26,36,61,240,0,0             */ {1, 1, 1, 1.1, 0, 0},
  },
  /* Verlet */ {
    /* energy   n=41,46,80,133,121,85          */ {40, 45, 240, 400, 2200, 2000},
    /* energyC  n=21,20,44,55,50,46            */ {16, 29, 110, 480, 420, 760},
    /* momentum n=19,23,34,75,63,46            */ {43, 130, 580, 690, 3000, 4300},
    /* monotone n=18,25,31,46,63,34            */ {1.9, 2.4, 8.5, 160, 110, 130},
    /* account  n=30,40,64,97,92,56            */ {31, 38, 240, 680, 850, 2100},
  },
  /* CPodes */ {
    /* energy   n=22,35,88,129,143,86          */ {6, 6.7, 19, 110, 35, 21},
    /* energyC  n=31,18,50,57,61,38            */ {4.7, 5, 47, 150, 59, 73},
    /* momentum n=11,18,48,62,74,42            */ {6.7, 8.7, 23, 30, 37, 40},
    /* monotone n=16,17,58,74,61,45            */ {4, 1, 2.9, 14, 3.8, 9.2},
    /* account  n=26,35,53,93,79,69            */ {6.9, 13, 20, 29, 29, 46},
  },
  /* ExplicitEuler */ {
    /* energy   n=0,110,210,184,0,0            */ {0, 740, 2900, 6400, 0, 0},
    /* energyC  n=0,51,110,84,0,0              */ {0, 800, 3200, 6200, 0, 0},
    /* momentum n=0,63,121,94,0,0              */ {0, 180, 710, 3100, 0, 0},
    /* monotone n=0,51,102,131,0,0             */ {0, 460, 850, 3100, 0, 0},
    /* account  n=0,67,142,145,0,0             */ {0, 840, 6000, 14000, 0, 0},
  },
  /* SemiExplicitEuler2 */ {
    /* energy   n=0,97,197,194,0,0             */ {0, 440, 1600, 12000, 0, 0},
    /* energyC  n=0,38,118,108,0,0             */ {0, 110, 640, 2000, 0, 0},
    /* momentum n=0,55,97,105,0,0              */ {0, 530, 2700, 17000, 0, 0},
    /* monotone n=0,47,86,110,0,0              */ {0, 18, 250, 320, 0, 0},
    /* account  n=0,81,164,140,0,0             */ {0, 1300, 1500, 2700, 0, 0},
  },
};
static const double CONVERGENCE[NINTEG] = {0.75, 0.75, 0.75, 0.75, 0.75, 0.75, 0.75, 0.75};   // drift must fall by >= 25 % when the accuracy is tightened 100x: theory (global error ~ acc^(p/(p+1))) predicts ratios 0.1 (order 1) .. 0.025 (order 4); worst clean ratio seen 0.37; a drift floor gives ~1
// END MEASURED

struct Model {
    MultibodySystem sys; SimbodyMatterSubsystem matter; GeneralForceSubsystem forces;
    std::vector<MobilizedBody> bodies; std::vector<int> type; std::vector<std::string> tags;
    std::vector<Force::LinearBushing> bushings;
    Model() : matter(sys), forces(sys) {}
};
static const char* MOB[] = {"Pin", "Ball", "Slider", "Universal", "Free", "Cylinder", "Gimbal", "Weld", "LoneParticle", "Planar", "Translation", "Screw"};
static int g_informative[NINTEG][NMETRIC], g_cases[NINTEG], g_converge[NINTEG];

// ---- scenario 6: the dissipative-element zoo.  One element type and one of its regimes per case, on a tiny model whose initial
// conditions drive the coordinate INTO that regime; the regime counts as visited only if the trajectory shows it (D regime.*).
static const char* ZOO[] = {
    "MobilityLinearDamper.moving", "MobilityLinearStop.lower", "MobilityLinearStop.upper", "MobilityLinearStop.both",
    "TwoPointLinearDamper.moving", "LinearBushing.damped", "GlobalDamper.moving", "CompliantContact.Hertz.lowDissipation",
    "HuntCrossleyForce.contact", "SmoothSphereHalfSpace.contact", "ExponentialSpring.contact", "Custom.mobilityDamper",
    "CompliantContact.mesh", "ElasticFoundationForce.contact"};
static const int NZOO = 14;
static const uint64_t ZOO_FLAG = 1ull << 62;
static int g_regime[NZOO];
// worst report-to-report energy increase / scale and worst |E + dissipated - initial| / scale measured on the clean tree
// (see notes/C11.md); bounds are these x 10
// ZOO-CONSTANTS-BEGIN (per class, seeds 1..24 x 100 zoo cases, worst value rounded up, floored at 1e-4 of the energy scale)
static const double ZOO_UP[NZOO] = {0.0001, 0.00025, 0.00017, 0.00052, 0.0001, 0.0001, 0.0001, 0.0025, 0.00046, 0.0001, 0.0001, 0.0001, 0.0026, 0.00087},
    ZOO_ACCOUNT[NZOO] = {0.0001, 0.0001, 0.0001, 0.0001, 0.0001, 0.00034, 0.0001, 0.0072, 0.0001, 0.0001, 0.0001, 0.0001, 0.012, 0.0001};
// ZOO-CONSTANTS-END

class ZooMobilityDamper : public Force::Custom::Implementation {
public:
    ZooMobilityDamper(const MobilizedBody& mb, Real c) : mb(mb), c(c) {}
    void calcForce(const State& st, Vector_<SpatialVec>&, Vector_<Vec3>&, Vector& mobilityForces) const override {
        mb.applyOneMobilityForce(st, MobilizerUIndex(0), -c * mb.getOneU(st, MobilizerUIndex(0)), mobilityForces);
    }
    Real calcPotentialEnergy(const State&) const override { return 0; }
    bool dependsOnlyOnPositions() const override { return false; }
private:
    MobilizedBody mb; Real c;
};

static void runCase(uint64_t caseSeed) {
    vh::Rng r(caseSeed);
    if (std::getenv("C11_TRACE")) std::fprintf(stderr, "case %llu\n", (unsigned long long)caseSeed);
    const bool zoo = (caseSeed & ZOO_FLAG) != 0;
    const int zc = zoo ? (int)((caseSeed >> 40) & 0xff) % NZOO : -1;
    const int scn = zoo ? 6 : r.below(6);
    int integ_ = zoo ? r.below(6) : r.below(NINTEG);                   // zoo: the six higher-order methods
    if (std::getenv("C11_FORCE_INTEG")) integ_ = std::atoi(std::getenv("C11_FORCE_INTEG"));   // debugging aid only
    const int integ = integ_;
    // accuracies 1e-3 .. 1e-8, weighted towards those where the bounds bite; first-order methods 1e-4 .. 1e-6
    static const int ACC_GENERAL[12] = {3, 4, 5, 5, 6, 6, 6, 7, 7, 7, 8, 8};
    static const int ACC_FIRST[5] = {4, 5, 5, 6, 6};
    int accExp = integ >= 6 ? ACC_FIRST[r.below(5)] : ACC_GENERAL[r.below(12)];
    if (zoo) accExp = 5 + r.below(3);                               // zoo: 1e-5 .. 1e-7, where the tolerances bite
    if (integ == 3 && accExp > 6) accExp = 6;                       // RungeKutta2 below 1e-6 costs up to seconds per trajectory
    const int accExp2Max = integ == 6 ? 7 : (integ == 7 || integ == 3) ? 6 : 8;   // SemiExplicitEuler2 and RungeKutta2 are the expensive ones     // tightest accuracy affordable for the second run
    const double acc = std::pow(10.0, -accExp);
    const bool floating = scn == 2;
    const int nb = zoo ? 0 : (scn >= 4) ? 1 + r.below(2) : 1 + r.below(5);

    Model M; MultibodySystem& sys = M.sys; SimbodyMatterSubsystem& matter = M.matter;
    M.bodies.push_back(matter.Ground()); M.type.push_back(-1);
    double Mtot = 0;
    for (int i = 0; i < nb; ++i) {
        int p = r.below((int)M.bodies.size());
        if (floating && i > 0 && p == 0) p = 1;
        if (scn == 5) p = 0;                                       // contact scenario: independent free bodies                     // one base body only: a single floating tree
        Real m = 0; Vec3 com(0); Inertia I(0);
        for (int k = 0; k < 4; ++k) { Vec3 x = rv(r, 0.4); Real mk = r.range(0.2, 1.0); m += mk; com += mk * x; I += Inertia(x, mk); }
        com /= m; Mtot += m;
        Body::Rigid body(MassProperties(m, com, I));
        Transform XPF = rX(r, scn == 5 ? 0 : r.below(3)), XBM = rX(r, scn == 5 ? 0 : r.below(3));
        int type;
        if ((floating && i == 0) || scn >= 4) type = 4;             // Free base; bushing / contact scenarios: Free bodies
        else { type = r.below(11); if (type >= 8) type += 1;        /* 9 Planar, 10 Translation, 11 Screw */ if (type == 6) type = 1;   /* Gimbal: its Euler singularity can be reached along a trajectory */ if (type == 7 && (r.below(3) || scn == 1)) type = 0; if (type == 4 && scn != 2 && r.below(2)) type = 1; }
        MobilizedBody mb;
        MobilizedBody& par = M.bodies[p];
        switch (type) {
        case 0: mb = MobilizedBody::Pin(par, XPF, body, XBM); break;
        case 1: mb = MobilizedBody::Ball(par, XPF, body, XBM); break;
        case 2: mb = MobilizedBody::Slider(par, XPF, body, XBM); break;
        case 3: mb = MobilizedBody::Universal(par, XPF, body, XBM); break;
        case 4: mb = MobilizedBody::Free(par, XPF, body, XBM); break;
        case 5: mb = MobilizedBody::Cylinder(par, XPF, body, XBM); break;
        case 6: mb = MobilizedBody::Gimbal(par, XPF, body, XBM); break;
        case 9: mb = MobilizedBody::Planar(par, XPF, body, XBM); break;
        case 10: mb = MobilizedBody::Translation(par, XPF, body, XBM); break;
        case 11: mb = MobilizedBody::Screw(par, XPF, body, XBM, r.signedMag(0.2, 1.0)); break;
        default: mb = MobilizedBody::Weld(par, XPF, body, XBM); break;
        }
        M.bodies.push_back(mb); M.type.push_back(type); M.tags.push_back(std::string("mob.") + MOB[type]);
    }
    // ---- zoo model
    std::function<void(State&)> zooIC; std::function<bool(const State&)> zooProbe;   // probe: is the regime active in this state?
    std::function<double(const State&)> zooDissipated;
    bool zooLower = false, zooUpper = false; double zooRinit = 0;
    ContactTrackerSubsystem* tracker = nullptr; CompliantContactSubsystem* contact = nullptr; bool contactHigh = false;
    if (zoo) {
        auto rigid = [&]() { Real m = r.range(0.8, 2.5); return Body::Rigid(MassProperties(m, rv(r, 0.15), m * UnitInertia(r.range(0.05, 0.2), r.range(0.05, 0.2), r.range(0.05, 0.2)))); };
        auto addBodyZ = [&](MobilizedBody mb, const char* tag) { M.bodies.push_back(mb); M.type.push_back(0); M.tags.push_back(tag); };
        const bool slider = r.coin();
        auto oneDof = [&]() {
            Transform XPF = rX(r, r.below(3)), XBM = rX(r, r.below(3));
            if (slider) addBodyZ(MobilizedBody::Slider(matter.Ground(), XPF, rigid(), XBM), "mob.Slider");
            else addBodyZ(MobilizedBody::Pin(matter.Ground(), XPF, rigid(), XBM), "mob.Pin");
        };
        auto sphereSetup = [&](double& R) {   // a free sphere (origin = centre) above the plane y = 0, falling
            R = r.range(0.2, 0.4);
            Real m = r.range(0.8, 2.5);
            addBodyZ(MobilizedBody::Free(matter.Ground(), Transform(), Body::Rigid(MassProperties(m, Vec3(0), m * UnitInertia::sphere(R))), Transform()), "mob.Free");
            Force::UniformGravity(M.forces, matter, Vec3(0, -r.range(4, 10), 0));
            const double y0 = R + r.range(0.02, 0.1), vy = -r.range(0.8, 2.0), R0 = R;
            zooIC = [=, &M](State& st) { M.bodies[1].setQToFitTranslation(st, Vec3(0, y0, 0)); M.bodies[1].setUToFitLinearVelocity(st, Vec3(0, vy, 0)); };
            zooProbe = [=, &M](const State& st) { return M.bodies[1].getBodyOriginLocation(st)[1] < R0 && std::abs(M.bodies[1].getBodyOriginVelocity(st)[1]) > 1e-3; };
        };
        const Transform planeUp(Rotation(-Pi / 2, ZAxis), Vec3(0));      // half-space x>0 of its own frame -> y<0 in Ground
        switch (zc) {
        case 0: case 11: {
            oneDof();
            Force::MobilityLinearSpring(M.forces, M.bodies[1], MobilizerQIndex(0), r.range(5, 40), 0);
            if (zc == 0) Force::MobilityLinearDamper(M.forces, M.bodies[1], MobilizerUIndex(0), r.range(0.3, 3));
            else Force::Custom(M.forces, new ZooMobilityDamper(M.bodies[1], r.range(0.3, 3)));
            const double q0 = r.signedMag(0.3, 0.8), u0 = r.signedMag(0.5, 2);
            zooIC = [=, &M](State& st) { M.bodies[1].setOneQ(st, 0, q0); M.bodies[1].setOneU(st, 0, u0); };
            zooProbe = [&M](const State& st) { return std::abs(M.bodies[1].getOneU(st, 0)) > 1e-3; };
            break; }
        case 1: case 2: case 3: {
            oneDof();
            const double qLow = -r.range(0.3, 0.5), qHigh = r.range(0.3, 0.5);
            const double d = zc == 3 ? r.range(0.02, 0.08) : r.range(0.15, 0.8);
            Force::MobilityLinearStop(M.forces, M.bodies[1], MobilizerQIndex(0), r.range(300, 900), d, qLow, qHigh);
            const double q0 = zc == 1 ? qLow + 0.15 : zc == 2 ? qHigh - 0.15 : 0, u0 = zc == 1 ? -r.range(1.5, 3) : r.range(1.5, 3) * (zc == 3 ? 1.5 : 1);
            zooIC = [=, &M](State& st) { M.bodies[1].setOneQ(st, 0, q0); M.bodies[1].setOneU(st, 0, u0); };
            zooProbe = [=, &M, &zooLower, &zooUpper](const State& st) {
                const double q = M.bodies[1].getOneQ(st, 0), qd = M.bodies[1].getOneU(st, 0);
                if (q < qLow && std::abs(qd) > 1e-3) zooLower = true;
                if (q > qHigh && std::abs(qd) > 1e-3) zooUpper = true;
                return zc == 1 ? zooLower : zc == 2 ? zooUpper : (zooLower && zooUpper); };
            break; }
        case 4: {
            oneDof();
            const Vec3 pb = rv(r, 0.3), pg = rv(r, 1.0) + Vec3(0, 1.5, 0);
            Force::TwoPointLinearSpring(M.forces, matter.Ground(), pg, M.bodies[1], pb, r.range(10, 50), r.range(0.5, 1.5));
            Force::TwoPointLinearDamper(M.forces, matter.Ground(), pg, M.bodies[1], pb, r.range(0.5, 4));
            const double u0 = r.signedMag(1, 2.5);
            zooIC = [=, &M](State& st) { M.bodies[1].setOneQ(st, 0, 0.2); M.bodies[1].setOneU(st, 0, u0); };
            zooProbe = [&M](const State& st) { return std::abs(M.bodies[1].getOneU(st, 0)) > 1e-3; };
            break; }
        case 5: {
            Transform XPF = rX(r, r.below(3)), XBM = rX(r, r.below(3));
            addBodyZ(MobilizedBody::Free(matter.Ground(), XPF, rigid(), XBM), "mob.Free");
            Vec6 k, c; for (int j = 0; j < 3; ++j) { k[j] = r.range(40, 120); k[3 + j] = r.range(100, 400); c[j] = r.range(0.5, 4); c[3 + j] = r.range(1, 8); }
            M.bushings.push_back(Force::LinearBushing(M.forces, matter.Ground(), XPF, M.bodies[1], XBM, k, c));
            Vector u0(6); for (int j = 0; j < 6; ++j) u0[j] = r.range(-0.8, 0.8);
            zooIC = [=, &M](State& st) { for (int j = 0; j < 6; ++j) M.bodies[1].setOneU(st, j, u0[j]); };
            zooProbe = [&M](const State& st) { return M.bodies[1].getBodyVelocity(st).norm() > 1e-3; };
            zooDissipated = [&M](const State& st) { return M.bushings[0].getDissipatedEnergy(st); };
            break; }
        case 6: {
            oneDof();
            addBodyZ(MobilizedBody::Pin(M.bodies[1], rX(r, 2), rigid(), rX(r, 1)), "mob.Pin");
            Force::MobilityLinearSpring(M.forces, M.bodies[1], MobilizerQIndex(0), r.range(5, 40), 0);
            Force::MobilityLinearSpring(M.forces, M.bodies[2], MobilizerQIndex(0), r.range(5, 40), 0);
            Force::GlobalDamper(M.forces, matter, r.range(0.2, 2));
            const double u0 = r.signedMag(0.5, 2), u1 = r.signedMag(0.5, 2);
            zooIC = [=, &M](State& st) { M.bodies[1].setOneQ(st, 0, 0.3); M.bodies[1].setOneU(st, 0, u0); M.bodies[2].setOneU(st, 0, u1); };
            zooProbe = [&M](const State& st) { return std::abs(M.bodies[1].getOneU(st, 0)) + std::abs(M.bodies[2].getOneU(st, 0)) > 1e-3; };
            break; }
        case 7: case 12: {   // CompliantContactSubsystem: Hertz sphere (7) or triangle-mesh sphere = elastic foundation (12)
            double R; sphereSetup(R);
            tracker = new ContactTrackerSubsystem(sys); contact = new CompliantContactSubsystem(sys, *tracker);
            contact->setTrackDissipatedEnergy(true);
            const double c = zc == 7 ? r.range(0.01, 0.05) : r.range(0.1, 0.2);   // Hertz: low class only (known yank defect)
            matter.Ground().updBody().addContactSurface(planeUp, ContactSurface(ContactGeometry::HalfSpace(), ContactMaterial(r.range(2e5, 2e6), c, 0, 0, 0)));
            if (zc == 7) M.bodies[1].updBody().addContactSurface(Transform(), ContactSurface(ContactGeometry::Sphere(R), ContactMaterial(r.range(2e5, 2e6), c, 0, 0, 0)));
            else M.bodies[1].updBody().addContactSurface(Transform(), ContactSurface(ContactGeometry::TriangleMesh(PolygonalMesh::createSphereMesh(R, 2)), ContactMaterial(r.range(2e5, 2e6), c, 0, 0, 0), 0.02));
            zooDissipated = [contact](const State& st) { return contact->getDissipatedEnergy(st); };
            break; }
        case 8: case 13: {   // GeneralContactSubsystem: HuntCrossleyForce (8) / ElasticFoundationForce (13)
            double R; sphereSetup(R);
            GeneralContactSubsystem* gc = new GeneralContactSubsystem(sys);
            ContactSetIndex set = gc->createContactSet();
            const double c = r.range(0.1, 0.2);      // rebound speeds here stay below 1/(1.5 c) >= 3.3 m/s
            if (zc == 8) {
                gc->addBody(set, M.bodies[1], ContactGeometry::Sphere(R), Transform());
                gc->addBody(set, matter.Ground(), ContactGeometry::HalfSpace(), planeUp);
                HuntCrossleyForce hc(M.forces, *gc, set);
                hc.setBodyParameters(ContactSurfaceIndex(0), r.range(2e5, 2e6), c, 0, 0, 0);
                hc.setBodyParameters(ContactSurfaceIndex(1), r.range(2e5, 2e6), c, 0, 0, 0);
            } else {
                gc->addBody(set, M.bodies[1], ContactGeometry::TriangleMesh(PolygonalMesh::createSphereMesh(R, 2)), Transform());
                gc->addBody(set, matter.Ground(), ContactGeometry::HalfSpace(), planeUp);
                ElasticFoundationForce ef(M.forces, *gc, set);
                ef.setBodyParameters(ContactSurfaceIndex(0), r.range(2e5, 2e6), c, 0, 0, 0);
            }
            break; }
        case 9: {
            double R; sphereSetup(R); zooRinit = R;
            SmoothSphereHalfSpaceForce ss(M.forces);
            ss.setStiffness(r.range(2e5, 2e6)); ss.setDissipation(r.range(0.2, 0.5)); ss.setStaticFriction(0); ss.setDynamicFriction(0); ss.setViscousFriction(0);
            ss.setContactSphereBody(M.bodies[1]); ss.setContactSphereLocationInBody(Vec3(0)); ss.setContactSphereRadius(R);
            ss.setContactHalfSpaceBody(matter.Ground()); ss.setContactHalfSpaceFrame(planeUp);
            break; }
        default: {  // 10 ExponentialSpringForce: a point of the body against the floor y = 0 (floor frame: z is the normal)
            double R; sphereSetup(R);
            ExponentialSpringParameters ep;   // defaults (viscosity > 0); frictionless
            ExponentialSpringForce es(M.forces, Transform(Rotation(-Pi / 2, XAxis), Vec3(0)), M.bodies[1], Vec3(0, -R, 0), ep);
            break; }
        }
        M.tags.push_back(std::string("zoo.") + ZOO[zc]);
    }
    // ---- optionally a lone particle (RBNodeLoneParticle: Translation on Ground, forward, identity frames, leaf), created
    //      after the other mobilizers (so after any quaternion slots) and tied to the model by a spring.  Its choices
    //      come from a separate stream so the rest of the case is unchanged.
    {
        vh::Rng r2(caseSeed ^ 0x5bd1e995c11ull);
        if ((scn == 0 || scn == 3) && r2.below(3) == 0) {
            Body::Rigid pbody(MassProperties(r2.range(0.3, 1.5), Vec3(0), Inertia(0)));
            MobilizedBody::Translation part(matter.Ground(), Transform(), pbody, Transform());
            M.bodies.push_back(part); M.type.push_back(8); M.tags.push_back("mob.LoneParticle");
            int other = r2.below(nb + 1);
            Force::TwoPointLinearSpring(M.forces, part, Vec3(0), M.bodies[other], Vec3(r2.range(-.4, .4), r2.range(-.4, .4), r2.range(-.4, .4)), r2.range(5, 40), r2.range(0.3, 1.2));
            M.tags.push_back("force.TwoPointLinearSpring");
        }
    }
    const int nbAll = (int)M.bodies.size() - 1;
    // ---- force elements
    if (!floating && scn < 4 && r.below(4) != 0) { Force::UniformGravity(M.forces, matter, rv(r, 6.0), r.range(-1, 1)); M.tags.push_back("force.UniformGravity"); }
    if (!floating && scn < 4 && r.below(4) == 0) { Force::Gravity g(M.forces, matter, UnitVec3(rv(r) + Vec3(0.1, 2, 0.3)), r.range(2, 9)); M.tags.push_back("force.Gravity"); }
    int nsp = 1 + r.below(3);
    for (int k = 0; k < nsp && scn < 4; ++k) {
        int a = r.below(nb + 1), b = r.below(nb + 1);
        if (floating) { a = 1 + r.below(nb); b = 1 + r.below(nb); }
        if (a == b) continue;
        Force::TwoPointLinearSpring(M.forces, M.bodies[a], rv(r, 0.5), M.bodies[b], rv(r, 0.5), r.range(5, 60), r.range(0.2, 1.5));
        M.tags.push_back("force.TwoPointLinearSpring");
        if (scn == 3 && r.coin()) { Force::TwoPointLinearDamper(M.forces, M.bodies[a], rv(r, 0.5), M.bodies[b], rv(r, 0.5), r.range(0.5, 5)); M.tags.push_back("force.TwoPointLinearDamper"); }
    }
    for (int i = 1; i <= nb; ++i) {
        int t = M.type[i];
        bool qdotIsU = (t == 0 || t == 2 || t == 3 || t == 5 || t == 9 || t == 10 || t == 11);          // MobilityLinearSpring acts on q: use it where qdot = u
        if (floating && i == 1) continue;                               // nothing may act between Ground and the floating base
        if (qdotIsU && r.coin() && scn < 4) {
            Force::MobilityLinearSpring(M.forces, M.bodies[i], MobilizerQIndex(0), r.range(2, 30), r.range(-0.5, 0.5));
            M.tags.push_back("force.MobilityLinearSpring");
        }
        if (qdotIsU && (scn == 0 || scn == 3) && r.below(4) == 0) {     // elastic joint stop (no dissipation): conservative, C1 only
            Force::MobilityLinearStop(M.forces, M.bodies[i], MobilizerQIndex(0), r.range(100, 400), 0, -r.range(0.9, 1.3), r.range(0.9, 1.3));
            M.tags.push_back("force.MobilityLinearStop");
        }
        if (scn == 3 && t != 7 && r.coin()) {
            Force::MobilityLinearDamper(M.forces, M.bodies[i], MobilizerUIndex(0), r.range(0.2, 3));
            M.tags.push_back("force.MobilityLinearDamper");
        }
    }
    // sensitivity self-test only (never set by the check): a non-conservative, external mobility force
    if (std::getenv("C11_SELFTEST_INJECT")) Force::MobilityConstantForce(M.forces, M.bodies[1], MobilizerUIndex(0), std::atof(std::getenv("C11_SELFTEST_INJECT")));
    if (scn == 3 && r.below(3) == 0) { Force::GlobalDamper(M.forces, matter, r.range(0.1, 1)); M.tags.push_back("force.GlobalDamper"); }
    if (scn == 4) {
        // each Free body is held to its parent by a stiff bushing (small deflections, far from the Euler singularity)
        for (int i = 1; i <= nb; ++i) {
            Vec6 k, c; for (int j = 0; j < 3; ++j) { k[j] = r.range(40, 120); k[3 + j] = r.range(100, 400); c[j] = r.range(0.5, 4); c[3 + j] = r.range(1, 8); }
            const MobilizedBody& par = M.bodies[i].getParentMobilizedBody();
            M.bushings.push_back(Force::LinearBushing(M.forces, par, M.bodies[i].getDefaultInboardFrame(),
                                                      M.bodies[i], M.bodies[i].getDefaultOutboardFrame(), k, c));
            M.tags.push_back("force.LinearBushing.damped");
        }
    }
    if (scn == 5) {
        // spheres (body origin = centre) falling on the half-space y < 0; Hunt-Crossley dissipation, no friction
        tracker = new ContactTrackerSubsystem(sys); contact = new CompliantContactSubsystem(sys, *tracker);
        contact->setTrackDissipatedEnergy(true);
        Force::UniformGravity(M.forces, matter, Vec3(0, -r.range(4, 10), 0)); M.tags.push_back("force.UniformGravity");
        // dissipation classes: low (separation speeds here stay far below 1/(1.5 c) = 13 m/s) / high (the Hertz "yanking"
        // branch can be taken: known accounting defect, own key, see notes/C11.md)
        contactHigh = r.coin();
        const double cLo = contactHigh ? 0.4 : 0.01, cHi = contactHigh ? 0.9 : 0.05;
        matter.Ground().updBody().addContactSurface(Transform(Rotation(-Pi / 2, ZAxis), Vec3(0)),
            ContactSurface(ContactGeometry::HalfSpace(), ContactMaterial(r.range(2e5, 2e6), r.range(cLo, cHi), 0, 0, 0)));
        for (int i = 1; i <= nb; ++i)
            M.bodies[i].updBody().addContactSurface(Transform(),
                ContactSurface(ContactGeometry::Sphere(r.range(0.2, 0.4)), ContactMaterial(r.range(2e5, 2e6), r.range(cLo, cHi), 0, 0, 0)));
        M.tags.push_back(std::string("force.CompliantContact.HuntCrossley.") + (contactHigh ? "highDissipation" : "lowDissipation"));
    }
    // ---- state
    State s = sys.realizeTopology();
    const bool euler = false;   // Euler-angle charts of Ball/Free can reach their singularity along a trajectory
    matter.setUseEulerAngles(s, euler);
    sys.realizeModel(s);
    auto setState = [&](State& st, vh::Rng rr) {      // note: rr by value -> same numbers every time it is called
        Vector q(st.getNQ()), u(st.getNU());
        double qs = scn == 4 ? 0.15 : 0.8, us = scn == 4 ? 0.6 : 1.0;
        int sphere = 0;
        for (int i = 1; i <= nbAll; ++i) {
            const MobilizedBody& mb = M.bodies[i];
            int q0 = mb.getFirstQIndex(st), n = mb.getNumQ(st), k = 0;
            if (n == 0) continue;
            if (matter.isUsingQuaternion(st, mb.getMobilizedBodyIndex())) {
                Vec4 e(1, rr.range(-qs, qs), rr.range(-qs, qs), rr.range(-qs, qs)); e /= e.norm();
                for (; k < 4; ++k) q[q0 + k] = e[k];
            }
            for (; k < n; ++k) q[q0 + k] = rr.range(-qs, qs);
            if (scn == 5) { q[q0 + n - 3] = 1.2 * sphere++; q[q0 + n - 2] = rr.range(0.45, 1.2); }   // spheres start above the plane, apart in x
        }
        for (int i = 0; i < u.size(); ++i) u[i] = rr.range(-us, us);
        st.updQ() = q; st.updU() = u;
    };
    vh::Rng stateRng(r.next());
    setState(s, stateRng);
    if (zoo && zooIC) zooIC(s);
    // ---- workless constraints, built for the chosen initial configuration
    int ncons = 0;
    if (scn == 1) {
        sys.realize(s, Stage::Position);
        int want = 1;       // one constraint: two random ones are too often (nearly) redundant or singular along the motion
        for (int c = 0; c < want; ++c) {
            int a = r.below(nb + 1), b = 1 + r.below(nb);
            if (a == b) continue;
            Vec3 pa = rv(r, 0.5), pb = rv(r, 0.5);
            int kind = r.below(3);
            Vec3 ga = M.bodies[a].findStationLocationInGround(s, pa), gb = M.bodies[b].findStationLocationInGround(s, pb);
            if (kind == 0 || (gb - ga).norm() < 0.3) {
                if ((gb - ga).norm() < 0.3) continue;
                Constraint::Rod(M.bodies[a], pa, M.bodies[b], pb, (gb - ga).norm()); M.tags.push_back("constraint.Rod");
            } else if (kind == 1) {
                // plane fixed in body a through the follower point's current location
                UnitVec3 n(rv(r) + Vec3(0.2, 0.3, 1.1));
                Vec3 gbInA = M.bodies[a].findStationAtGroundPoint(s, gb);
                Constraint::PointInPlane(M.bodies[a], n, dot(gbInA, n), M.bodies[b], pb); M.tags.push_back("constraint.PointInPlane");
            } else {
                Vec3 gbInA = M.bodies[a].findStationAtGroundPoint(s, gb);
                Constraint::Ball(M.bodies[a], gbInA, M.bodies[b], pb); M.tags.push_back("constraint.Ball");
            }
            ++ncons;
        }
        s = sys.realizeTopology(); matter.setUseEulerAngles(s, euler); sys.realizeModel(s);
        setState(s, stateRng);
        try { sys.project(s, 1e-10); } catch (const std::exception&) { ncons = -1; }
    }
    const std::string kind = scn == 1 ? "energyC" : floating ? "energyF" : "energy";
    if (s.getNU() == 0) {   // nothing can move (all Welds).  (CPodesIntegrator segfaults on a system without states: not C11's subject.)
        vh::Line in0 = vh::I(kind); in0.s(std::to_string((unsigned long long)caseSeed)).i(scn).i(integ).i(accExp).i(0).emit();
        vh::O("ke").d(0).emit(); { vh::Line L = vh::O("mom"); for (int k = 0; k < 6; ++k) L.d(0); L.emit(); }
        if (kind != "energyC") vh::O("power").d(0).emit();
        if (kind != "energyC") { vh::Line L = vh::O(kind == "energyF" ? "momrate+mom" : "momrate"); for (int k = 0; k < 6; ++k) L.d(0); L.emit(); }
        vh::D("skipped.noMobilities");
        return;
    }

    // ---- simulate, sampling energy and momentum at report times
    const double T = zoo ? r.range(0.8, 1.6) : r.range(1.0, 2.5);
    const int NREP = std::getenv("C11_NREP") ? std::atoi(std::getenv("C11_NREP")) : zoo ? 160 : 25;      // zoo: fine sampling, so that short regime visits (a stop contact) are seen
    bool regimeSeen = false; std::vector<double> Eout;   // zoo class 9: energies at out-of-contact instants only
    struct Traj { std::vector<double> E, KE, PE, D; std::vector<SpatialVec> P; State fin; std::string fail; double maxR = 1; int steps = 0; };
    Traj tr1; Traj& tr = tr1; const double zooR = zooRinit;
    auto runSim = [&](double accuracy, Traj& tr, bool wantFinal) {
        std::unique_ptr<Integrator> ig(makeIntegrator(integ, sys));
        ig->setAccuracy(accuracy);
        ig->setInternalStepLimit(100000);        // a trajectory that needs more is skipped (tagged), not judged
        auto sample = [&](const State& st) {
            sys.realize(st, Stage::Dynamics);
            tr.KE.push_back(sys.calcKineticEnergy(st)); tr.PE.push_back(sys.calcPotentialEnergy(st)); tr.E.push_back(sys.calcEnergy(st));
            tr.P.push_back(matter.calcSystemMomentumAboutGroundOrigin(st));
            double d = 0; for (auto& b : M.bushings) d += b.getDissipatedEnergy(st);
            if (contact) d += contact->getDissipatedEnergy(st);
            tr.D.push_back(d);
            if (zoo && zooProbe && zooProbe(st)) regimeSeen = true;
            if (zc == 9 && &tr == &tr1 && M.bodies[1].getBodyOriginLocation(st)[1] > zooR + 0.03) Eout.push_back(tr.E.back());
            if (std::getenv("C11_DUMPY")) std::fprintf(stderr, "   t=%.4f y=%.5f vy=%.4f E=%.6g steps=%d\n", st.getTime(), M.bodies[1].getBodyOriginLocation(st)[1], M.bodies[1].getBodyOriginVelocity(st)[1], tr.E.back(), ig->getNumStepsTaken());
            for (int i = 1; i <= nbAll; ++i) tr.maxR = std::max(tr.maxR, M.bodies[i].getBodyOriginLocation(st).norm());
        };
        try {
            // drive the Integrator directly: TimeStepper swallows ReachedStepLimit
            ig->initialize(s);
            sample(ig->getState());
            for (int i = 1; i <= NREP && tr.fail.empty(); ++i) {
                const double tRep = T * i / NREP;
                for (;;) {
                    Integrator::SuccessfulStepStatus st = ig->stepTo(tRep);
                    if (st == Integrator::ReachedReportTime) break;
                    if (st == Integrator::ReachedStepLimit) { tr.fail = "stepLimit"; break; }
                    if (st == Integrator::EndOfSimulation) { tr.fail = "endOfSimulation"; break; }
                }
                if (tr.fail.empty()) sample(ig->getState());
            }
            tr.steps = ig->getNumStepsTaken();
            if (tr.fail.empty() && wantFinal) { tr.fin = ig->getState(); sys.realize(tr.fin, Stage::Acceleration); }
        } catch (const std::exception& e) { tr.fail = std::string("threw:") + e.what(); }
    };
    if (ncons < 0) tr.fail = "projectFailed"; else runSim(acc, tr, true);
    // second run of the SAME problem at accuracy/100 (conservative scenarios): the drift must come down with the accuracy
    Traj tr2; bool second = tr.fail.empty() && scn <= 2 && accExp + 2 <= accExp2Max;
    if (second) runSim(acc * 1e-2, tr2, false);
    // the ratio is only meaningful if the accuracy actually governed the step size (not the report interval T/25)
    bool reportLimited = second && tr2.fail.empty() && tr2.steps < 1.5 * tr.steps;
    if (reportLimited) second = false;
    const bool failed = !tr.fail.empty(); const std::string failWhat = tr.fail;
    std::vector<double>&E = tr.E, &KEv = tr.KE, &PEv = tr.PE, &Dv = tr.D; std::vector<SpatialVec>& Pv = tr.P;
    const double maxR = tr.maxR; const State& finalState = tr.fin;
    // ---- record
    vh::Line in = vh::I(kind);
    in.s(std::to_string((unsigned long long)caseSeed)).i(scn).i(integ).i(accExp);
    if (failed) {
        in.i(0).emit();
        vh::O("ke").d(0).emit(); { vh::Line L = vh::O("mom"); for (int k = 0; k < 6; ++k) L.d(0); L.emit(); }
        if (kind != "energyC") vh::O("power").d(0).emit();
        if (kind != "energyC") { vh::Line L = vh::O(kind == "energyF" ? "momrate+mom" : "momrate"); for (int k = 0; k < 6; ++k) L.d(0); L.emit(); }
        vh::D(std::string("skipped.") + (ncons < 0 ? "projectFailed" : (failWhat == "stepLimit" ? std::string("stepLimit.") : std::string("integratorThrew.")) + INTEG_NAMES[integ]));
        if (std::getenv("C11_TRACE")) std::fprintf(stderr, "  threw: %s\n", failWhat.c_str());
        return;
    }
    const State& fs = finalState;
    in.i(nbAll);
    double appliedPower = 0; SpatialVec appliedAboutG(Vec3(0), Vec3(0));
    const Vector_<SpatialVec>& Fb = sys.getRigidBodyForces(fs, Stage::Dynamics);
    const Vector& fm = sys.getMobilityForces(fs, Stage::Dynamics);
    for (int i = 1; i <= nbAll; ++i) {
        const MobilizedBody& mb = M.bodies[i];
        const SpatialInertia& SI = mb.getBodySpatialInertiaInGround(fs);
        const Vec3& p = SI.getMassCenter(); const SymMat33& G = SI.getUnitInertia().asSymMat33();
        const Real m = SI.getMass();
        in.d(m).v(p, 3).d(m * G(0, 0)).d(m * G(1, 1)).d(m * G(2, 2)).d(m * G(1, 0)).d(m * G(2, 0)).d(m * G(2, 1));
        const Vec3 rO = mb.getBodyOriginLocation(fs);
        const SpatialVec& V = mb.getBodyVelocity(fs); const SpatialVec& A = mb.getBodyAcceleration(fs);
        in.v(rO, 3).v(V[0], 3).v(V[1], 3).v(A[0], 3).v(A[1], 3);
        const SpatialVec& F = Fb[mb.getMobilizedBodyIndex()];
        appliedPower += dot(V[0], F[0]) + dot(V[1], F[1]);
        appliedAboutG += SpatialVec(F[0] + rO % F[1], F[1]);
    }
    for (int j = 0; j < fs.getNU(); ++j) appliedPower += fm[j] * fs.getU()[j];
    if (kind == "energy") {   // ground-attached: add the reactions of the base mobilizers (momentum_rate theorem)
        Vector_<SpatialVec> reac; matter.calcMobilizerReactionForces(fs, reac);
        for (int i = 1; i <= nbAll; ++i) {
            const MobilizedBody& mb = M.bodies[i];
            if (mb.getParentMobilizedBody().getMobilizedBodyIndex() != 0) continue;
            const SpatialVec& R = reac[mb.getMobilizedBodyIndex()];      // applied to the body at its M frame origin, in Ground
            const Vec3 pM = mb.findStationLocationInGround(fs, mb.getOutboardFrame(fs).p());
            appliedAboutG += SpatialVec(R[0] + pM % R[1], R[1]);
        }
    }
    in.emit();
    std::printf("T 1e-8 1e-9\n");
    vh::O("ke").d(sys.calcKineticEnergy(fs)).emit();
    { SpatialVec P = matter.calcSystemMomentumAboutGroundOrigin(fs); vh::Line L = vh::O("mom"); L.v(P[0], 3).v(P[1], 3); L.emit(); }
    if (kind != "energyC") vh::O("power").d(appliedPower).emit();
    if (kind == "energy") { vh::Line L = vh::O("momrate"); L.v(appliedAboutG[0], 3).v(appliedAboutG[1], 3); L.emit(); }
    if (kind == "energyF") {   // the momentum rate is 0 on both sides: reported on top of the momentum so that the comparison has a scale
        SpatialVec X = appliedAboutG + matter.calcSystemMomentumAboutGroundOrigin(fs);
        vh::Line L = vh::O("momrate+mom"); L.v(X[0], 3).v(X[1], 3); L.emit(); }

    // ---- distribution
    vh::D("scenario." + std::to_string(scn)); vh::D(std::string("integ.") + INTEG_NAMES[integ]); vh::D("acc.1e-" + std::to_string(accExp));
    vh::D(euler ? "angles.euler" : "angles.quaternion");
    for (auto& t : M.tags) vh::D(t);

    if (std::getenv("C11_DUMP")) for (size_t i = 0; i < E.size(); ++i) std::fprintf(stderr, "  t%02d E=%.12g KE=%.6g PE=%.6g D=%.6g |P|=%.6g\n", (int)i, E[i], KEv[i], PEv[i], Dv[i], Pv[i][1].norm());
    if (reportLimited) vh::D(std::string("second_run.stepsLimitedByReports.") + INTEG_NAMES[integ]);
    // ---- trajectory predicates
    const std::string IN = INTEG_NAMES[integ];
    const std::string ACC = ".1e-" + std::to_string(accExp);
    double keMax = 0, peSpan = 0;
    for (size_t i = 0; i < E.size(); ++i) { keMax = std::max(keMax, KEv[i]); peSpan = std::max(peSpan, std::abs(PEv[i] - PEv[0])); }
    const double scale = std::max(keMax + peSpan, 0.1);
    ++g_cases[integ];
    // RungeKuttaFeldberg x stiff one-sided force onset (compliant contact, joint stop) is a known finding (zoo section): such
    // cases are judged with the SAME thresholds but under the listed onset keys (value = fraction of the energy scale)
    bool hasStop = false; for (auto& tg : M.tags) if (tg == "force.MobilityLinearStop") hasStop = true;
    const bool rkfOnset = integ == 1 && (scn == 5 || hasStop);
    if (rkfOnset) vh::D("class.onsetWithRungeKuttaFeldberg");
    auto judge = [&](Metric m, const char* pred, const std::string& key, double value) {
        const double C = std::max(MEASURED[integ][m][accExp - 3], 1.0), bound = 10 * C;
        if (rkfOnset) { vh::P(pred, m == M_ACCOUNT ? "traj.zoo.account.onsetWithRungeKuttaFeldberg" : "traj.zoo.monotone.onsetWithRungeKuttaFeldberg",
                              value * acc * T, bound * acc * T); return; }
        vh::P(pred, key + IN + ACC, value, bound);
        if (bound * acc * T < 0.1) ++g_informative[integ][m];                 // the bound allows < 10 % of the scale over the run
        else vh::D(std::string("uninformative.") + METRIC_NAMES[m] + "." + IN + ACC);
    };
    if (scn <= 2) {
        double drift = 0; for (double e : E) drift = std::max(drift, std::abs(e - E[0]));
        judge(scn == 1 ? M_ENERGYC : M_ENERGY, "energy_drift_le_c_acc_T_scale", scn == 1 ? "traj.energy.constrained." : "traj.energy.", drift / (acc * T * scale));
        if (second && tr2.fail.empty()) {
            // same problem, accuracy/100: an accuracy-independent drift floor (force / potential mismatch, non-workless
            // constraint, wrong inertia ...) shows as a ratio near 1 whatever the integrator's constant
            double drift2 = 0; for (double e : tr2.E) drift2 = std::max(drift2, std::abs(e - tr2.E[0]));
            vh::P("energy_drift_decreases_with_accuracy", rkfOnset ? std::string("traj.zoo.monotone.onsetWithRungeKuttaFeldberg") : "traj.energy.converges." + IN + ACC,
                  drift2 / (drift + 1e-9 * scale), CONVERGENCE[integ]);
            vh::D("second_run." + IN); ++g_converge[integ];
        }
    }
    if (scn == 2) {
        double pl = std::sqrt(2 * keMax * Mtot) + 1e-3, pa = pl * maxR;
        double dl = 0, da = 0;
        for (auto& P : Pv) { da = std::max(da, (P[0] - Pv[0][0]).norm()); dl = std::max(dl, (P[1] - Pv[0][1]).norm()); }
        judge(M_MOMENTUM, "momentum_drift_le_c_acc_T", "traj.momentum.", std::max(dl / pl, da / pa) / (acc * T));
        if (second && tr2.fail.empty()) {
            double dl2 = 0, da2 = 0;
            for (auto& P : tr2.P) { da2 = std::max(da2, (P[0] - tr2.P[0][0]).norm()); dl2 = std::max(dl2, (P[1] - tr2.P[0][1]).norm()); }
            vh::P("momentum_drift_decreases_with_accuracy", "traj.momentum.converges." + IN + ACC,
                  std::max(dl2 / pl, da2 / pa) / (std::max(dl / pl, da / pa) + 1e-9), CONVERGENCE[integ]);
        }
    }
    if (scn == 3) {
        double up = 0; for (size_t i = 1; i < E.size(); ++i) up = std::max(up, E[i] - E[i - 1]);
        judge(M_MONOTONE, "energy_nonincreasing_with_dampers", "traj.monotone.", std::max(up, E.back() - E[0]) / (acc * T * scale));
    }
    if (scn == 6) {
        vh::D(std::string("regime.") + ZOO[zc] + (regimeSeen ? ".active" : ".notVisited"));
        if (regimeSeen) {
            ++g_regime[zc];
            double up = 0, drift = 0;
            // SmoothSphereHalfSpaceForce documents its potential energy as an approximation (tanh-smoothed Hertz force): it is
            // judged on out-of-contact instants only, where the approximation plays no role
            const std::vector<double>& Ej = zc == 9 ? Eout : E;
            for (size_t i = 1; i < Ej.size(); ++i) up = std::max(up, Ej[i] - Ej[i - 1]);
            if (!Ej.empty()) up = std::max(up, Ej.back() - Ej[0]);
            // RungeKuttaFeldberg accepts grossly wrong steps across the onset of a stiff one-sided force (joint stop, compliant contact;
            // notes/C11.md, C20-level finding): those classes integrated with it are judged under their own key
            const bool contactClass = (zc >= 1 && zc <= 3) || zc == 7 || zc == 8 || zc == 9 || zc == 10 || zc == 12 || zc == 13;   // one-sided stiff force onsets: stops and contacts
            const std::string zk = (contactClass && integ == 1) ? std::string("onsetWithRungeKuttaFeldberg") : std::string(ZOO[zc]);
            vh::P("energy_nonincreasing_dissipative_element", std::string("traj.zoo.monotone.") + zk, up / scale, 10 * ZOO_UP[zc]);
            if (zooDissipated || contact) {
                for (size_t i = 0; i < E.size(); ++i) drift = std::max(drift, std::abs(E[i] + Dv[i] - E[0] - Dv[0]));
                vh::P("energy_plus_dissipated_constant", std::string("traj.zoo.account.") + zk, drift / scale, 10 * ZOO_ACCOUNT[zc]);
            }
        }
    } else if (scn >= 4) {
        double drift = 0, up = 0;
        for (size_t i = 0; i < E.size(); ++i) { drift = std::max(drift, std::abs(E[i] + Dv[i] - E[0] - Dv[0])); if (i) up = std::max(up, Dv[i - 1] - Dv[i]); }
        if (scn == 5 && contactHigh) {
            const double C = std::max(MEASURED[integ][M_ACCOUNT][accExp - 3], 1.0);
            vh::P("energy_plus_dissipated_constant", "traj.contact.account.highDissipation", drift / (acc * T * scale) / (10 * C), 1);
        } else
            judge(M_ACCOUNT, "energy_plus_dissipated_constant", scn == 4 ? "traj.bushing.account." : "traj.contact.account.", drift / (acc * T * scale));
        {   // the reported dissipation never decreases (beyond the integration error of that auxiliary state)
            const double C = std::max(MEASURED[integ][M_ACCOUNT][accExp - 3], 1.0);
            if (scn == 5 && contactHigh) vh::P("dissipated_energy_nondecreasing", "traj.contact.account.highDissipation", up / (acc * T * scale) / (10 * C), 1);
            else if (rkfOnset) vh::P("dissipated_energy_nondecreasing", "traj.zoo.account.onsetWithRungeKuttaFeldberg", up / scale, 10 * C * acc * T);
            else vh::P("dissipated_energy_nondecreasing", std::string(scn == 4 ? "traj.bushing.monotone." : "traj.contact.monotone.") + IN + ACC, up / (acc * T * scale), 10 * C);
        }
    }
}

int main(int argc, char** argv) {
    vh::Args a(argc, argv);
    try {
        if (a.mode == "replay") {
            std::string line;
            while (std::getline(std::cin, line)) {
                std::istringstream is(line); std::string k, fn; is >> k >> fn;
                if (k != "I") continue;
                unsigned long long cs; is >> cs; runCase(cs);
            }
            return 0;
        }
        vh::Rng top(a.seed * 1000003ull + 1111);
        for (long c = 0; c < a.n; ++c) {
            auto t0 = std::chrono::steady_clock::now();
            // every 4th case is a zoo case, the element/regime classes taken in turn (class index and flag live in the seed)
            if (c % 4 == 3) runCase(ZOO_FLAG | ((uint64_t)((c / 4) % NZOO) << 40) | (top.next() >> 24));
            else runCase(top.next() >> 2);
            if (std::getenv("C11_TIME")) std::fprintf(stderr, "ms %.1f\n", std::chrono::duration<double, std::milli>(std::chrono::steady_clock::now() - t0).count());
        }
        if (a.n >= 200) {
            // coverage record: every integrator must have been judged by bounds that bite (see `uninformative.*` tags)
            vh::I("coverage").s(std::to_string((unsigned long long)a.seed)).i(a.n).emit();
            vh::O("coverage").i(0).emit();
            for (int k = 0; k < NZOO; ++k) {
                vh::P("regime_visited", std::string("traj.coverage.regime.") + ZOO[k], g_regime[k] > 0 ? 0 : 1, 0);
                std::printf("D regimeCount.%s.%d\n", ZOO[k], g_regime[k]);
            }
            for (int k = 0; k < NINTEG; ++k) {
                // informative = judged by a bound that allows < 10 % of the scale, or by the accuracy-convergence ratio
                int e = g_informative[k][M_ENERGY] + g_informative[k][M_ENERGYC], cv = g_converge[k];
                const int need = a.n >= 1000 ? 10 : 2;
                vh::P("informative_energy_cases", std::string("traj.coverage.energy.") + INTEG_NAMES[k], std::max(0, need - e - cv), 0);
                std::printf("D informative.energy.%s.bound_%d.convergence_%d.of_%d\n", INTEG_NAMES[k], e, cv, g_cases[k]);
            }
        }
    } catch (const std::exception& e) {
        std::fprintf(stderr, "exception: %s\n", e.what());
        return 3;
    }
    return 0;
}
