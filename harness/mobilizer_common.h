// Shared by the mobilizer-family harnesses (C03, C05, C06): case generation, system construction through the
// PUBLIC API only, record printing / parsing.  Record layout (see lean/SimbodyModel/MobilizerIO.lean):
//   I mob <type> <rev> <euler> <axisX> par[8] X_PF[12] X_BM[12] q[7] u[6] station[3] udot[6] vq[7] vu[6]
// (X[12] = rotation row-major, then translation; unused slots 0; all doubles as 16-hex-digit bit patterns).
#ifndef VERIF_MOBILIZER_COMMON_H
#define VERIF_MOBILIZER_COMMON_H
#include "Simbody.h"
#include "hcommon.h"
#include <memory>
#include <algorithm>

namespace mob {
using namespace SimTK;

enum Type { PIN, SLIDER, CYLINDER, BENDSTRETCH, UNIVERSAL, PLANAR, GIMBAL, BUSHING, BALL, FREE, TRANSLATION, SCREW,
            SPHERICAL, ELLIPSOID, LINEORIENTATION, FREELINE, WELD, CANTILEVER, NTYPES };
static const char* const typeName[NTYPES] = {"pin", "slider", "cylinder", "bendstretch", "universal", "planar", "gimbal",
    "bushing", "ball", "free", "translation", "screw", "spherical", "ellipsoid", "lineorientation", "freeline", "weld",
    "cantilever"};
inline int typeOf(const std::string& s) { for (int t = 0; t < NTYPES; ++t) if (s == typeName[t]) return t; return -1; }
inline bool usesQuat(int t) { return t == BALL || t == FREE || t == ELLIPSOID || t == LINEORIENTATION || t == FREELINE; }
inline bool modelled(int) { return true; }
// types whose setUToFitVelocity / setQToFitTranslation the Lean model predicts (Spec.fitU / Spec.fitQtrans)
inline bool hasFitU(int t) { return t == PIN || t == SLIDER || t == CYLINDER || t == SCREW || t == TRANSLATION || t == PLANAR || t == UNIVERSAL
    || t == GIMBAL || t == BUSHING || t == BALL || t == FREE || t == LINEORIENTATION || t == FREELINE; }
inline bool hasFitQtrans(int t) { return t == SLIDER || t == TRANSLATION || t == CYLINDER || t == PLANAR || t == BUSHING || t == FREE || t == FREELINE; }
inline int nuOf(int t) {
    switch (t) { case PIN: case SLIDER: case SCREW: return 1;
                 case CYLINDER: case BENDSTRETCH: case UNIVERSAL: case LINEORIENTATION: return 2;
                 case PLANAR: case GIMBAL: case BALL: case TRANSLATION: case SPHERICAL: case ELLIPSOID: case CANTILEVER: return 3;
                 case FREELINE: return 5; case BUSHING: case FREE: return 6; default: return 0; }
}
inline int nqOf(int t, bool euler) {
    if (t == BALL || t == ELLIPSOID || t == LINEORIENTATION) return euler ? 3 : 4;
    if (t == FREE || t == FREELINE) return euler ? 6 : 7;
    return nuOf(t);
}

struct Case {
    int type = PIN; bool rev = false, euler = false, axisX = false;
    int parent = 0;                 // index of the parent body in a tree record (0 = Ground)
    double par[8] = {0, 0, 0, 0, 0, 0, 0, 0};
    Transform X_PF, X_BM;
    double q[7] = {0, 0, 0, 0, 0, 0, 0}, u[6] = {0, 0, 0, 0, 0, 0};
    Vec3 station = Vec3(0);
    double udot[6] = {0, 0, 0, 0, 0, 0}, vq[7] = {0, 0, 0, 0, 0, 0, 0}, vu[6] = {0, 0, 0, 0, 0, 0};
    int fcIn = 0, fcOut = 0;        // frame classes (0 identity, 1 translation only, 2 general), for the D tag
    bool unitQuat = true;
    int nq() const { return nqOf(type, euler); }
    int nu() const { return nuOf(type); }
    std::string tag() const {
        return std::string(typeName[type]) + ".F" + std::to_string(fcIn) + "M" + std::to_string(fcOut) + (rev ? ".rev" : ".fwd")
             + (euler ? ".euler" : ".quat");
    }
    // option sub-class of the types that have options (counted separately in the evidence)
    std::string optTag() const {
        if (type == 12 /*SPHERICAL*/) return std::string("opt.spherical.az") + (par[2] < 0 ? "-" : "+") + ".ze" + (par[3] < 0 ? "-" : "+")
            + ".r" + (par[4] < 0 ? "-" : "+") + (axisX ? ".axisX" : ".axisZ") + ((par[0] != 0 || par[1] != 0) ? ".offsets" : ".nooffsets");
        if (type == 13 /*ELLIPSOID*/) return (par[0] == par[1] && par[1] == par[2]) ? "opt.ellipsoid.sphere" : "opt.ellipsoid.nonsphere";
        if (type == 11 /*SCREW*/) return par[0] < 0 ? "opt.screw.pitch-" : "opt.screw.pitch+";
        if ((type == 8 || type == 9 || type == 13 || type == 14 || type == 15) && !euler) return unitQuat ? "opt.quat.unit" : "opt.quat.unnormalised";
        return "";
    }
};

inline Rotation randomRotation(vh::Rng& g) {
    Vec4 q; Real n;
    do { for (int i = 0; i < 4; ++i) q[i] = g.range(-1, 1); n = q.norm(); } while (n < 0.2 || n > 1);
    return Rotation(Quaternion(q / n, true));
}
inline Transform randomFrame(vh::Rng& g, int cls) {
    if (cls == 0) return Transform();
    Vec3 p(g.signedMag(0.1, 2), g.signedMag(0.1, 2), g.signedMag(0.1, 2));
    if (cls == 1) return Transform(p);
    return Transform(randomRotation(g), p);
}
// an angle in (-pi,pi) whose cosine is not small (Euler middle angles etc.)
inline double safeAngle(vh::Rng& g) {
    for (;;) { double a = g.range(-3.1, 3.1); if (std::abs(std::cos(a)) >= 0.2) return a; }
}
inline double anyAngle(vh::Rng& g) { return g.range(-3.1, 3.1); }

// structured, well-scaled random coordinates / speeds for one mobilizer
inline void randomState(vh::Rng& g, Case& c) {
    const int t = c.type;
    for (int i = 0; i < 7; ++i) c.q[i] = 0;
    auto len = [&]() { return g.signedMag(0.1, 2); };
    switch (t) {
      case PIN: case SCREW: c.q[0] = anyAngle(g); break;
      case SLIDER: c.q[0] = len(); break;
      case CYLINDER: case BENDSTRETCH: c.q[0] = anyAngle(g); c.q[1] = len(); break;
      case UNIVERSAL: c.q[0] = anyAngle(g); c.q[1] = safeAngle(g); break;
      case PLANAR: c.q[0] = anyAngle(g); c.q[1] = len(); c.q[2] = len(); break;
      case TRANSLATION: c.q[0] = len(); c.q[1] = len(); c.q[2] = len(); break;
      case SPHERICAL: { c.q[0] = anyAngle(g); c.q[2] = len();
          // keep the zenith away from the poles: |sin(ze)| >= 0.2
          for (;;) { c.q[1] = anyAngle(g); double ze = c.par[3] * c.q[1] + c.par[1]; if (std::abs(std::sin(ze)) >= 0.2) break; }
          break; }
      case GIMBAL: case BUSHING: c.q[0] = anyAngle(g); c.q[1] = safeAngle(g); c.q[2] = anyAngle(g);
          if (t == BUSHING) { c.q[3] = len(); c.q[4] = len(); c.q[5] = len(); } break;
      case CANTILEVER: c.q[0] = g.range(-1, 1); c.q[1] = g.range(-1, 1); c.q[2] = g.range(-1, 1); break;
      default: // quaternion-capable types
        if (c.euler) { c.q[0] = anyAngle(g); c.q[1] = safeAngle(g); c.q[2] = anyAngle(g);
                       if (t == FREE || t == FREELINE) { c.q[3] = len(); c.q[4] = len(); c.q[5] = len(); } }
        else { Vec4 e; Real n; do { for (int i = 0; i < 4; ++i) e[i] = g.range(-1, 1); n = e.norm(); } while (n < 0.2 || n > 1);
               e /= n;
               { static int qCount = 0; c.unitQuat = (qCount++ % 4 != 0); (void)g.below(4); }
               if (!c.unitQuat) e *= g.range(0.5, 2);          // unnormalised: the code normalises before rotating
               for (int i = 0; i < 4; ++i) c.q[i] = e[i];
               if (t == FREE || t == FREELINE) { c.q[4] = len(); c.q[5] = len(); c.q[6] = len(); } }
    }
    for (int i = 0; i < 6; ++i) { c.u[i] = i < c.nu() ? g.signedMag(0.1, 2) : 0; c.udot[i] = g.signedMag(0.1, 2);   // all six: C05 uses them as a target velocity
                                  c.vu[i] = i < c.nu() ? g.signedMag(0.1, 2) : 0; }
    for (int i = 0; i < 7; ++i) c.vq[i] = i < c.nq() ? g.signedMag(0.1, 2) : 0;
    c.station = Vec3(g.signedMag(0.1, 2), g.signedMag(0.1, 2), g.signedMag(0.1, 2));
}

inline Case randomCase(vh::Rng& g, int type, int fcIn, int fcOut, bool rev, bool euler) {
    Case c; c.type = type; c.rev = (type == WELD ? false : rev); c.euler = euler; c.fcIn = fcIn; c.fcOut = fcOut;
    c.X_PF = randomFrame(g, fcIn); c.X_BM = randomFrame(g, fcOut);
    if (type == SCREW) c.par[0] = g.signedMag(0.1, 2);
    if (type == ELLIPSOID) { static int ellCount = 0; c.par[0] = g.range(0.3, 2); c.par[1] = g.range(0.3, 2); c.par[2] = g.range(0.3, 2);
                             if (ellCount++ % 4 == 0) c.par[1] = c.par[2] = c.par[0]; }                       // sometimes a sphere
    if (type == CANTILEVER) c.par[0] = g.range(0.5, 3);
    if (type == SPHERICAL) {
        // every sign-flag / axis combination gets a guaranteed share: cycle through the 16 combinations (+ offsets on/off)
        static int sphCount = 0;
        const int k = sphCount++ % 32;
        const bool offsets = (k & 16) != 0;
        c.par[0] = offsets ? g.range(-3, 3) : 0; c.par[1] = offsets ? g.range(-3, 3) : 0;
        c.par[2] = (k & 1) ? -1 : 1; c.par[3] = (k & 2) ? -1 : 1; c.par[4] = (k & 4) ? -1 : 1;
        c.axisX = (k & 8) != 0;
    }
    randomState(g, c);
    return c;
}

// ------------------------------------------------------------------ system construction (public API only)
struct Sys {
    MultibodySystem system;
    SimbodyMatterSubsystem matter;
    std::unique_ptr<GeneralForceSubsystem> forces;   // only when a variant with gravity is requested
    std::vector<MobilizedBody> mobods;     // index i = body i+1 of the record
    State state;
    Sys() : matter(system) {}
};

// variants of a model used by the metamorphic checks (C06)
struct BuildOpts {
    std::vector<bool> flip;          // per body: build with the opposite direction
    std::vector<bool> functionBased; // per body: build the MobilizedBody::FunctionBased mirror instead of the built-in
    bool relocate = false; Transform X_reloc;   // premultiply the inboard frame of every Ground-attached body
    bool gravity = false; Vec3 g = Vec3(0);
};
// types that have a FunctionBased mirror with q, u in the same order (x,y,z rotations then x,y,z translations)
inline bool hasFunctionMirror(int t) {
    return t == PIN || t == SLIDER || t == CYLINDER || t == PLANAR || t == UNIVERSAL || t == GIMBAL || t == BUSHING || t == TRANSLATION;
}
inline MobilizedBody addFunctionMirror(MobilizedBody& parent, const Case& c, const Transform& X_PF, bool rev) {
    Body::Rigid body(MassProperties(1.3, Vec3(0.1, -0.2, 0.15), UnitInertia(1.1, 1.2, 1.3) * 1.3));
    // which coordinate drives which of the six spatial functions (-1: constant zero)
    int slot[6] = {-1, -1, -1, -1, -1, -1};
    switch (c.type) {
      case PIN: slot[2] = 0; break;
      case SLIDER: slot[3] = 0; break;
      case CYLINDER: slot[2] = 0; slot[5] = 1; break;
      case PLANAR: slot[2] = 0; slot[3] = 1; slot[4] = 2; break;
      case UNIVERSAL: slot[0] = 0; slot[1] = 1; break;
      case GIMBAL: slot[0] = 0; slot[1] = 1; slot[2] = 2; break;
      case BUSHING: for (int i = 0; i < 6; ++i) slot[i] = i; break;
      case TRANSLATION: slot[3] = 0; slot[4] = 1; slot[5] = 2; break;
    }
    std::vector<const Function*> fns; std::vector<std::vector<int> > idx;
    for (int i = 0; i < 6; ++i) {
        if (slot[i] < 0) { fns.push_back(new Function::Constant(0, 0)); idx.push_back(std::vector<int>()); }
        else { Vector coef(2); coef[0] = 1; coef[1] = 0; fns.push_back(new Function::Linear(coef)); idx.push_back(std::vector<int>(1, slot[i])); }
    }
    return MobilizedBody::FunctionBased(parent, X_PF, body, c.X_BM, nuOf(c.type), fns, idx,
                                        rev ? MobilizedBody::Reverse : MobilizedBody::Forward);
}

inline MobilizedBody addMobod(MobilizedBody& parent, const Case& c, bool rev) {
    Body::Rigid body(MassProperties(1.3, Vec3(0.1, -0.2, 0.15), UnitInertia(1.1, 1.2, 1.3) * 1.3));
    const MobilizedBody::Direction d = rev ? MobilizedBody::Reverse : MobilizedBody::Forward;
    const Transform &F = c.X_PF, &M = c.X_BM;
    switch (c.type) {
      case PIN: return MobilizedBody::Pin(parent, F, body, M, d);
      case SLIDER: return MobilizedBody::Slider(parent, F, body, M, d);
      case CYLINDER: return MobilizedBody::Cylinder(parent, F, body, M, d);
      case BENDSTRETCH: return MobilizedBody::BendStretch(parent, F, body, M, d);
      case UNIVERSAL: return MobilizedBody::Universal(parent, F, body, M, d);
      case PLANAR: return MobilizedBody::Planar(parent, F, body, M, d);
      case GIMBAL: return MobilizedBody::Gimbal(parent, F, body, M, d);
      case BUSHING: return MobilizedBody::Bushing(parent, F, body, M, d);
      case BALL: return MobilizedBody::Ball(parent, F, body, M, d);
      case FREE: return MobilizedBody::Free(parent, F, body, M, d);
      case TRANSLATION: return MobilizedBody::Translation(parent, F, body, M, d);
      case SCREW: return MobilizedBody::Screw(parent, F, body, M, c.par[0], d);
      case SPHERICAL: return MobilizedBody::SphericalCoords(parent, F, body, M, c.par[0], c.par[2] < 0, c.par[1], c.par[3] < 0,
                                                            c.axisX ? CoordinateAxis(XAxis) : CoordinateAxis(ZAxis), c.par[4] < 0, d);
      case ELLIPSOID: return MobilizedBody::Ellipsoid(parent, F, body, M, Vec3(c.par[0], c.par[1], c.par[2]), d);
      case LINEORIENTATION: return MobilizedBody::LineOrientation(parent, F, body, M, d);
      case FREELINE: return MobilizedBody::FreeLine(parent, F, body, M, d);
      case CANTILEVER: return MobilizedBody::CantileverFreeBeam(parent, F, body, M, c.par[0], d);
      default: return MobilizedBody::Weld(parent, F, body, M);
    }
}

// build the tree described by `cs` (parents by index, 0 = Ground); `flipDir` builds the twin with every direction flipped
inline std::unique_ptr<Sys> build(const std::vector<Case>& cs, bool euler, bool flipDir = false) {
    std::unique_ptr<Sys> S(new Sys);
    for (size_t i = 0; i < cs.size(); ++i) {
        MobilizedBody parent = cs[i].parent == 0 ? MobilizedBody(S->matter.updGround()) : S->mobods[cs[i].parent - 1];
        S->mobods.push_back(addMobod(parent, cs[i], cs[i].type == WELD ? false : (cs[i].rev != flipDir)));
    }
    S->system.realizeTopology();
    S->state = S->system.getDefaultState();
    S->matter.setUseEulerAngles(S->state, euler);
    S->system.realizeModel(S->state);
    return S;
}
inline std::unique_ptr<Sys> buildEx(const std::vector<Case>& cs, bool euler, const BuildOpts& o) {
    std::unique_ptr<Sys> S(new Sys);
    if (o.gravity) { S->forces.reset(new GeneralForceSubsystem(S->system)); Force::UniformGravity(*S->forces, S->matter, o.g); }
    for (size_t i = 0; i < cs.size(); ++i) {
        MobilizedBody parent = cs[i].parent == 0 ? MobilizedBody(S->matter.updGround()) : S->mobods[cs[i].parent - 1];
        Case c = cs[i];
        if (o.relocate && c.parent == 0) c.X_PF = o.X_reloc * c.X_PF;
        const bool flip = i < o.flip.size() && o.flip[i];
        const bool rev = c.type == WELD ? false : (c.rev != flip);
        if (i < o.functionBased.size() && o.functionBased[i] && hasFunctionMirror(c.type))
            S->mobods.push_back(addFunctionMirror(parent, c, c.X_PF, rev));
        else S->mobods.push_back(addMobod(parent, c, rev));
    }
    S->system.realizeTopology();
    S->state = S->system.getDefaultState();
    S->matter.setUseEulerAngles(S->state, euler);
    S->system.realizeModel(S->state);
    return S;
}
inline void setQU(Sys& S, const std::vector<Case>& cs) {
    for (size_t i = 0; i < cs.size(); ++i) {
        const MobilizedBody& m = S.mobods[i];
        for (int k = 0; k < m.getNumQ(S.state); ++k) m.setOneQ(S.state, k, cs[i].q[k]);
        for (int k = 0; k < m.getNumU(S.state); ++k) m.setOneU(S.state, k, cs[i].u[k]);
    }
}

// ------------------------------------------------------------------ records
inline void putX(vh::Line& l, const Transform& X) {
    for (int i = 0; i < 3; ++i) for (int j = 0; j < 3; ++j) l.d(X.R()[i][j]);
    for (int i = 0; i < 3; ++i) l.d(X.p()[i]);
}
inline void putBody(vh::Line& l, const Case& c) {
    l.s(typeName[c.type]).i(c.rev).i(c.euler).i(c.axisX);
    for (int i = 0; i < 8; ++i) l.d(c.par[i]);
    putX(l, c.X_PF); putX(l, c.X_BM);
    for (int i = 0; i < 7; ++i) l.d(c.q[i]);
    for (int i = 0; i < 6; ++i) l.d(c.u[i]);
}
inline void putCase(const std::string& fn, const Case& c) {
    vh::Line l = vh::I(fn); putBody(l, c);
    for (int i = 0; i < 3; ++i) l.d(c.station[i]);
    for (int i = 0; i < 6; ++i) l.d(c.udot[i]);
    for (int i = 0; i < 7; ++i) l.d(c.vq[i]);
    for (int i = 0; i < 6; ++i) l.d(c.vu[i]);
    l.emit();
}
inline Transform getX(const std::vector<double>& v, size_t& k) {
    Mat33 R; for (int i = 0; i < 3; ++i) for (int j = 0; j < 3; ++j) R[i][j] = v[k++];
    Vec3 p; for (int i = 0; i < 3; ++i) p[i] = v[k++];
    return Transform(Rotation(R, true), p);      // trusted: bit-exact replay of what was printed
}
inline int frameClass(const Transform& X) {
    if (X.R() == Mat33(1)) return X.p() == Vec3(0) ? 0 : 1;
    return 2;
}
// parse the tokens after "I <fn>": type rev euler axisX + doubles; returns false on malformed input
inline bool getBody(std::istringstream& is, Case& c, std::vector<double>& v, size_t& k) {
    std::string ty; int rev, euler, ax; if (!(is >> ty >> rev >> euler >> ax)) return false;
    c.type = typeOf(ty); if (c.type < 0) return false;
    c.rev = rev; c.euler = euler; c.axisX = ax;
    v.clear(); std::string t;
    std::streampos pos = is.tellg();
    (void)pos;
    for (int i = 0; i < 45; ++i) { if (!(is >> t)) return false; v.push_back(vh::unhex(t)); }
    k = 0;
    for (int i = 0; i < 8; ++i) c.par[i] = v[k++];
    c.X_PF = getX(v, k); c.X_BM = getX(v, k);
    for (int i = 0; i < 7; ++i) c.q[i] = v[k++];
    for (int i = 0; i < 6; ++i) c.u[i] = v[k++];
    c.fcIn = frameClass(c.X_PF); c.fcOut = frameClass(c.X_BM);
    if (usesQuat(c.type) && !c.euler) { double n2 = 0; for (int i = 0; i < 4; ++i) n2 += c.q[i] * c.q[i]; c.unitQuat = std::abs(n2 - 1) < 1e-12; }
    return true;
}
inline bool getCase(std::istringstream& is, Case& c) {
    std::vector<double> v; size_t k;
    if (!getBody(is, c, v, k)) return false;
    std::vector<double> w; std::string t;
    for (int i = 0; i < 22; ++i) { if (!(is >> t)) return false; w.push_back(vh::unhex(t)); }
    k = 0;
    for (int i = 0; i < 3; ++i) c.station[i] = w[k++];
    for (int i = 0; i < 6; ++i) c.udot[i] = w[k++];
    for (int i = 0; i < 7; ++i) c.vq[i] = w[k++];
    for (int i = 0; i < 6; ++i) c.vu[i] = w[k++];
    return true;
}

inline void outX(const std::string& tag, const Transform& X) { vh::Line l = vh::O(tag); putX(l, X); l.emit(); }
inline void outSV(const std::string& tag, const SpatialVec& V) { vh::O(tag).v(V[0], 3).v(V[1], 3).emit(); }
inline void outVec(const std::string& tag, const Vector& v, int off, int n) {
    vh::Line l = vh::O(tag); for (int i = 0; i < n; ++i) l.d(v[off + i]); l.emit();
}

// ------------------------------------------------------------------ numerics for the implementation-side predicates
inline double maxAbs(const Mat33& M) { double m = 0; for (int i = 0; i < 3; ++i) for (int j = 0; j < 3; ++j) m = std::max(m, std::abs(M[i][j])); return m; }
inline double maxAbs(const Vec3& v) { return std::max(std::abs(v[0]), std::max(std::abs(v[1]), std::abs(v[2]))); }
inline double xfDiff(const Transform& A, const Transform& B) {
    return std::max(maxAbs(Mat33(A.R()) - Mat33(B.R())), maxAbs(A.p() - B.p()) / std::max(1.0, std::max(maxAbs(A.p()), maxAbs(B.p()))));
}
inline double svDiff(const SpatialVec& A, const SpatialVec& B) {
    double s = std::max(1.0, std::max(std::max(maxAbs(A[0]), maxAbs(A[1])), std::max(maxAbs(B[0]), maxAbs(B[1]))));
    return std::max(maxAbs(A[0] - B[0]), maxAbs(A[1] - B[1])) / s;
}
// spatial velocity (w,v) from two poses at t-h and t+h: Rdot R^T = [w]x (antisymmetric part), pdot
inline SpatialVec fdVelocity(const Transform& Xm, const Transform& Xp, double h) {
    Mat33 Rd = (Mat33(Xp.R()) - Mat33(Xm.R())) / (2 * h);
    Mat33 Rmid = (Mat33(Xp.R()) + Mat33(Xm.R())) / 2;
    Mat33 W = Rd * ~Rmid;
    Vec3 w((W[2][1] - W[1][2]) / 2, (W[0][2] - W[2][0]) / 2, (W[1][0] - W[0][1]) / 2);
    return SpatialVec(w, (Xp.p() - Xm.p()) / (2 * h));
}

} // namespace mob
#endif
