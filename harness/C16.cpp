// C16 — realization results depend only on the current state values.
// flow = harness_first.  Every case builds a random multibody system with several force elements, applies a
// random history (variable modifications, parameter setters, enable/disable, Force::Gravity setters,
// realizations to random stages, queries) and, at `check` records, compares (bitwise: value = relative
// difference, bound 1e-12) udot, body forces, mobility forces, PE and KE with a freshly created State given
// the same values: that is the property's own predicate (P lines).  The I lines describe the history in the
// vocabulary of the Lean model (SimbodyModel/C16.lean, force classes named as in Gen/ForceParams.lean); the
// O lines are what the implementation lets us observe of its caches (stage, Force::Gravity::isForceCacheValid
// and getNumEvaluations, calcForce call counts of Custom probe forces, staleness at checks) and are predicted by
// the model.  Case 0 is the dedicated history of finding F4 (key MobilityLinearSpring.param_after_realize.history).
#include "Simbody.h"
#include "hcommon.h"
#include <iostream>
#include <memory>
#include <sstream>
#include <functional>

using namespace SimTK;

namespace {

// Custom probe force: counts calcForce calls; position-only or velocity dependent.
struct Probe : public Force::Custom::Implementation {
    Probe(const MobilizedBody& mobod, bool posOnly, Real c) : mobod(mobod), posOnly(posOnly), c(c) {}
    void calcForce(const State& s, Vector_<SpatialVec>&, Vector_<Vec3>&, Vector& mobilityForces) const override {
        ++calls;
        const Real x = posOnly ? std::sin(mobod.getOneQ(s, 0)) : mobod.getOneU(s, 0);
        mobod.applyOneMobilityForce(s, 0, -c * x, mobilityForces);
    }
    Real calcPotentialEnergy(const State&) const override { return 0; }
    bool dependsOnlyOnPositions() const override { return posOnly; }
    MobilizedBody mobod; bool posOnly; Real c; mutable long calls = 0;
};

enum Kind { K_TPSpring, K_TPDamper, K_TPConst, K_ConstForce, K_ConstTorque, K_GlobalDamper, K_UniformGravity,
            K_Bushing, K_MobSpring, K_MobDamper, K_MobConst, K_MobStop, K_MobDiscrete, K_Discrete, K_Gravity,
            K_ProbePos, K_ProbeVel, K_Thermostat, K_CableSpring, K_ExpSpring };

const char* className(Kind k) {
    switch (k) {
    case K_TPSpring: return "Force::TwoPointLinearSpringImpl";
    case K_TPDamper: return "Force::TwoPointLinearDamperImpl";
    case K_TPConst: return "Force::TwoPointConstantForceImpl";
    case K_ConstForce: return "Force::ConstantForceImpl";
    case K_ConstTorque: return "Force::ConstantTorqueImpl";
    case K_GlobalDamper: return "Force::GlobalDamperImpl";
    case K_UniformGravity: return "Force::UniformGravityImpl";
    case K_Bushing: return "Force::LinearBushingImpl";
    case K_MobSpring: return "Force::MobilityLinearSpringImpl";
    case K_MobDamper: return "Force::MobilityLinearDamperImpl";
    case K_MobConst: return "Force::MobilityConstantForceImpl";
    case K_MobStop: return "Force::MobilityLinearStopImpl";
    case K_MobDiscrete: return "Force::MobilityDiscreteForceImpl";
    case K_Discrete: return "Force::DiscreteForcesImpl";
    case K_Gravity: return "Force::GravityImpl";
    case K_Thermostat: return "Force::ThermostatImpl";
    case K_CableSpring: return "CableSpring::Impl";
    case K_ExpSpring: return "ExponentialSpringForceImpl";
    default: return "Force::CustomImpl";
    }
}
const char* shortName(Kind k) {
    static std::string s; s = className(k);
    if (s.compare(0, 7, "Force::") == 0) s = s.substr(7);
    if (s.size() > 6 && s.compare(s.size() - 6, 6, "::Impl") == 0) s = s.substr(0, s.size() - 6);
    else if (s.size() > 4 && s.compare(s.size() - 4, 4, "Impl") == 0) s = s.substr(0, s.size() - 4);
    return s.c_str();
}

struct FRec {
    Kind kind; ForceIndex ix; int mob = 0;       // mobilized body the element acts on (index into bodies)
    Force::MobilityLinearSpring  mls;  Force::MobilityLinearDamper mld; Force::MobilityConstantForce mcf;
    Force::MobilityLinearStop    stop; Force::MobilityDiscreteForce mdf; Force::DiscreteForces df;
    Force::Gravity grav; Probe* probe = nullptr;
    Force::LinearBushing bush; Force::Thermostat thermo; CableSpring cable; ExponentialSpringForce* expo = nullptr;
};

struct Sys {
    MultibodySystem sys; SimbodyMatterSubsystem matter; GeneralForceSubsystem forces;
    std::vector<MobilizedBody> bodies; std::vector<FRec> fr;
    std::unique_ptr<CableTrackerSubsystem> cables;
    Sys() : matter(sys), forces(sys) {}
};

Vec3 rvec(vh::Rng& r, double lo, double hi) { return Vec3(r.signedMag(lo, hi), r.signedMag(lo, hi), r.signedMag(lo, hi)); }

void addForce(Sys& S, vh::Rng& r, Kind k) {
    FRec f; f.kind = k;
    const int nb = (int)S.bodies.size();
    const int a = r.below(nb); f.mob = a;
    const MobilizedBody& A = S.bodies[a];
    const MobilizedBody& B = (nb > 1 && r.coin()) ? S.bodies[(a + 1) % nb] : (const MobilizedBody&)S.matter.Ground();
    switch (k) {
    case K_TPSpring: { Force::TwoPointLinearSpring x(S.forces, A, rvec(r, .2, .8), B, rvec(r, 1.2, 2), r.range(1, 9), r.range(.3, 1)); f.ix = x.getForceIndex(); break; }
    case K_TPDamper: { Force::TwoPointLinearDamper x(S.forces, A, rvec(r, .2, .8), B, rvec(r, 1.2, 2), r.range(.2, 2)); f.ix = x.getForceIndex(); break; }
    case K_TPConst: { Force::TwoPointConstantForce x(S.forces, A, rvec(r, .2, .8), B, rvec(r, 1.2, 2), r.signedMag(1, 5)); f.ix = x.getForceIndex(); break; }
    case K_ConstForce: { Force::ConstantForce x(S.forces, A, rvec(r, .2, .8), rvec(r, 1, 4)); f.ix = x.getForceIndex(); break; }
    case K_ConstTorque: { Force::ConstantTorque x(S.forces, A, rvec(r, 1, 4)); f.ix = x.getForceIndex(); break; }
    case K_GlobalDamper: { Force::GlobalDamper x(S.forces, S.matter, r.range(.1, 1)); f.ix = x.getForceIndex(); break; }
    case K_UniformGravity: { Force::UniformGravity x(S.forces, S.matter, rvec(r, 1, 9), r.range(-1, 1)); f.ix = x.getForceIndex(); break; }
    case K_Bushing: {
        Vec6 kk, cc; for (int i = 0; i < 6; ++i) { kk[i] = r.range(1, 9); cc[i] = r.range(.1, 1); }
        f.bush = Force::LinearBushing(S.forces, A, Transform(Rotation(r.range(-1, 1), UnitVec3(rvec(r, .3, 1))), rvec(r, .1, .5)),
                               B, Transform(rvec(r, .1, .5)), kk, cc);
        f.ix = f.bush.getForceIndex(); break; }
    case K_Thermostat: { f.thermo = Force::Thermostat(S.forces, S.matter, 1.0, r.range(.5, 2), r.range(.3, 1), 0); f.ix = f.thermo.getForceIndex(); break; }
    case K_CableSpring: {
        if (!S.cables) S.cables.reset(new CableTrackerSubsystem(S.sys));
        CablePath path(*S.cables, A, rvec(r, .2, .6), S.matter.Ground(), rvec(r, 1.5, 2.5));
        f.cable = CableSpring(S.forces, path, r.range(5, 20), r.range(.2, .8), r.range(.05, .3));
        f.ix = f.cable.getForceIndex(); break; }
    case K_ExpSpring: {
        ExponentialSpringParameters ep;            // wide, soft exponential so that the element acts at any height
        ep.setShapeParameters(0.1, 5.0, 1.0); ep.setInitialMuStatic(0.3); ep.setInitialMuKinetic(0.2);
        f.expo = new ExponentialSpringForce(S.forces, Transform(), A, rvec(r, .1, .4), ep);
        f.ix = f.expo->getForceIndex(); break; }
    case K_MobSpring: { f.mls = Force::MobilityLinearSpring(S.forces, A, MobilizerQIndex(0), r.range(1, 9), r.range(-1, 1)); f.ix = f.mls.getForceIndex(); break; }
    case K_MobDamper: { f.mld = Force::MobilityLinearDamper(S.forces, A, MobilizerUIndex(0), r.range(.2, 2)); f.ix = f.mld.getForceIndex(); break; }
    case K_MobConst: { f.mcf = Force::MobilityConstantForce(S.forces, A, MobilizerUIndex(0), r.signedMag(1, 5)); f.ix = f.mcf.getForceIndex(); break; }
    case K_MobStop: { f.stop = Force::MobilityLinearStop(S.forces, A, MobilizerQIndex(0), r.range(5, 50), r.range(.1, 1), -r.range(.1, .6), r.range(.1, .6)); f.ix = f.stop.getForceIndex(); break; }
    case K_MobDiscrete: { f.mdf = Force::MobilityDiscreteForce(S.forces, A, MobilizerUIndex(0), r.signedMag(1, 5)); f.ix = f.mdf.getForceIndex(); break; }
    case K_Discrete: { f.df = Force::DiscreteForces(S.forces, S.matter); f.ix = f.df.getForceIndex(); break; }
    case K_Gravity: {
        const bool zero = r.below(4) == 0;
        f.grav = Force::Gravity(S.forces, S.matter, UnitVec3(rvec(r, .3, 1)), zero ? 0.0 : r.range(1, 10), r.range(-1, 1));
        f.ix = f.grav.getForceIndex(); break; }
    case K_ProbePos: case K_ProbeVel: {
        f.probe = new Probe(A, k == K_ProbePos, r.range(.5, 3));
        Force::Custom x(S.forces, f.probe); f.ix = x.getForceIndex(); break; }
    }
    S.fr.push_back(f);
}

int nParams(Kind k) {
    switch (k) { case K_MobSpring: case K_MobDamper: case K_MobConst: case K_MobStop: case K_MobDiscrete: case K_Gravity: return 1;
                 case K_Discrete: return 2; case K_Bushing: return 1; default: return 0; }
}

// observation of the implementation's caches
std::string obs(const Sys& S, const State& s) {
    std::ostringstream os;
    os << (int)s.getSystemStage();
    for (size_t i = 0; i < S.fr.size(); ++i) {
        const FRec& f = S.fr[i];
        if (f.kind == K_Gravity)
            os << " g" << i << '=' << (f.grav.isForceCacheValid(s) ? 1 : 0) << '/' << f.grav.getNumEvaluations();
        if (f.probe) os << " c" << i << '=' << f.probe->calls;
    }
    return os.str();
}

struct Results { Vector udot, mob, zdot; Vector_<SpatialVec> body; Real pe, ke; };

Results collect(const Sys& S, State& s) {
    S.sys.realize(s, Stage::Acceleration);
    Results r; r.udot = s.getUDot(); r.zdot = s.getZDot(); r.mob = S.sys.getMobilityForces(s, Stage::Dynamics);
    r.body = S.sys.getRigidBodyForces(s, Stage::Dynamics);
    r.pe = S.sys.calcPotentialEnergy(s); r.ke = S.sys.calcKineticEnergy(s);
    return r;
}

// zOnly = false: udot, forces, PE, KE;  zOnly = true: the derivatives of the auxiliary states
double relDiff(const Results& a, const Results& b, bool zOnly = false, bool all = false) {
    double scale = 1, d = 0;
    auto acc = [&](double x, double y) {
        if (std::isnan(x) || std::isnan(y)) { if (!(std::isnan(x) && std::isnan(y))) d = INFINITY; return; }
        scale = std::max(scale, std::max(std::fabs(x), std::fabs(y))); d = std::max(d, std::fabs(x - y)); };
    if (zOnly || all) for (int i = 0; i < a.zdot.size(); ++i) acc(a.zdot[i], b.zdot[i]);
    if (!zOnly || all) {
        for (int i = 0; i < a.udot.size(); ++i) acc(a.udot[i], b.udot[i]);
        for (int i = 0; i < a.mob.size(); ++i) acc(a.mob[i], b.mob[i]);
        for (int i = 0; i < a.body.size(); ++i) for (int j = 0; j < 2; ++j) for (int k = 0; k < 3; ++k) acc(a.body[i][j][k], b.body[i][j][k]);
        acc(a.pe, b.pe); acc(a.ke, b.ke);
    }
    return d / scale;
}

// a freshly created State given the same values, through the same public API
State freshLike(const Sys& S, const State& s) {
    State f = S.sys.getDefaultState();
    f.setTime(s.getTime()); f.setQ(s.getQ()); f.setU(s.getU()); f.setZ(s.getZ());
    for (const FRec& r : S.fr) {
        S.forces.setForceIsDisabled(f, r.ix, S.forces.isForceDisabled(s, r.ix));
        switch (r.kind) {
        case K_MobSpring: r.mls.setStiffness(f, r.mls.getStiffness(s)); r.mls.setQZero(f, r.mls.getQZero(s)); break;
        case K_MobDamper: r.mld.setDamping(f, r.mld.getDamping(s)); break;
        case K_MobConst: r.mcf.setForce(f, r.mcf.getForce(s)); break;
        case K_MobStop: r.stop.setMaterialProperties(f, r.stop.getStiffness(s), r.stop.getDissipation(s));
                        r.stop.setBounds(f, r.stop.getLowerBound(s), r.stop.getUpperBound(s)); break;
        case K_MobDiscrete: r.mdf.setMobilityForce(f, r.mdf.getMobilityForce(s)); break;
        case K_Discrete: r.df.setAllMobilityForces(f, r.df.getAllMobilityForces(s));
                         r.df.setAllBodyForces(f, r.df.getAllBodyForces(s)); break;
        case K_Gravity:
            r.grav.setMagnitude(f, r.grav.getMagnitude(s)); r.grav.setDownDirection(f, r.grav.getDownDirection(s));
            r.grav.setZeroHeight(f, r.grav.getZeroHeight(s));
            for (MobilizedBodyIndex b(1); b < S.matter.getNumBodies(); ++b)
                r.grav.setBodyIsExcluded(f, b, r.grav.getBodyIsExcluded(s, b));
            break;
        case K_Bushing: r.bush.setStiffness(f, r.bush.getStiffness(s)); r.bush.setDamping(f, r.bush.getDamping(s));
                        r.bush.setFrameOnBody1(f, r.bush.getFrameOnBody1(s)); r.bush.setFrameOnBody2(f, r.bush.getFrameOnBody2(s)); break;
        case K_Thermostat: r.thermo.setBathTemperature(f, r.thermo.getBathTemperature(s));
                           r.thermo.setRelaxationTime(f, r.thermo.getRelaxationTime(s)); break;
        case K_CableSpring: r.cable.setStiffness(f, r.cable.getStiffness(s)); r.cable.setSlackLength(f, r.cable.getSlackLength(s));
                            r.cable.setDissipationCoef(f, r.cable.getDissipationCoef(s)); break;
        case K_ExpSpring: r.expo->setMuStatic(f, r.expo->getMuStatic(s)); r.expo->setMuKinetic(f, r.expo->getMuKinetic(s)); break;
        default: break;
        }
    }
    return f;
}

void emitModel(const Sys& S, const State& s) {
    vh::Line l = vh::I("model");
    l.i((long long)S.fr.size());
    for (const FRec& f : S.fr) {
        l.s(className(f.kind)).i(f.kind == K_ProbePos ? 1 : 0).i(S.forces.isForceDisabled(s, f.ix) ? 0 : 1)
         .i(f.kind == K_Gravity && f.grav.getMagnitude(s) == 0 ? 1 : 0);
    }
    l.emit();
    std::printf("O obs %s\n", obs(S, s).c_str());
}

Results doCheck(const Sys& S, State& s, const std::string& key) {
    std::puts("I check");
    Results a = collect(S, s);
    State f = freshLike(S, s);
    Results b = collect(S, f);
    const double d = relDiff(a, b), dz = relDiff(a, b, true);
    std::printf("O obs %s stale=%d\n", obs(S, s).c_str(), d > 1e-12 ? 1 : 0);
    vh::P("sameAsFreshState", key, d, 1e-12);
    if (a.zdot.size()) {
        // derivatives of auxiliary states; in random cases a difference is attributed to a disabled z-owning element if there is one
        std::string zkey = key.substr(0, key.size() - 8) + ".zdot.history";
        if (key.find(".param_after_realize.") == std::string::npos)
            for (const FRec& f : S.fr)
                if ((f.kind == K_Bushing || f.kind == K_CableSpring || f.kind == K_Thermostat) && S.forces.isForceDisabled(s, f.ix))
                    zkey = "zdot_of_disabled_element.history";
        vh::P("sameZDotAsFreshState", zkey, dz, 1e-12);
    }
    return a;
}

void buildBodies(Sys& S, vh::Rng& r, int nb) {
    MobilizedBody parent = S.matter.Ground();
    for (int i = 0; i < nb; ++i) {
        const Vec3 com = rvec(r, .1, .6);
        Body::Rigid body(MassProperties(r.range(.5, 3), com, UnitInertia(r.range(.5, 2), r.range(.5, 2), r.range(.5, 2)).shiftFromCentroid(-com)));
        const Transform Xp(Rotation(r.range(-1, 1), UnitVec3(rvec(r, .3, 1))), rvec(r, .2, 1));
        const Transform Xb(rvec(r, .1, .5));
        if (r.below(3) == 0) { MobilizedBody::Slider m(parent, Xp, body, Xb); S.bodies.push_back(m); }
        else { MobilizedBody::Pin m(parent, Xp, body, Xb); S.bodies.push_back(m); }
        if (r.coin()) parent = S.bodies.back();
    }
}

// the dedicated history of finding F4
void caseF4(vh::Rng& r) {
    Sys S; buildBodies(S, r, 1);
    addForce(S, r, K_MobSpring);
    S.sys.realizeTopology();
    State s = S.sys.getDefaultState();
    emitModel(S, s);
    vh::D("subject=MobilityLinearSpring.f4");
    long tok = 100;
    s.updQ()[0] = 0.7; std::printf("I setQ %ld\nO obs %s\n", ++tok, obs(S, s).c_str());
    S.sys.realize(s, Stage::Acceleration); std::printf("I realize 8\nO obs %s\n", obs(S, s).c_str());
    S.fr[0].mls.setStiffness(s, 10 * S.fr[0].mls.getStiffness(s));
    S.fr[0].mls.setQZero(s, S.fr[0].mls.getQZero(s) + 0.5);
    std::printf("I setParam 0 0 %ld\nO obs %s\n", ++tok, obs(S, s).c_str());
    doCheck(S, s, "MobilityLinearSpring.param_after_realize.history");
}


// ---------------------------------------------------------------------------------------------------------
// Directed histories: for every force type and every public State-level setter
//     realize(Acceleration) -> change exactly that parameter -> realize(Acceleration)
// compared with a fresh State, each under its own key  <Force>.<setter>.param_after_realize.history
typedef std::function<std::string(Sys&, FRec&, State&, vh::Rng&)> Change;     // returns the model operation

void directedCase(vh::Rng& r, Kind k, const char* setter, Change change,
                  std::function<void(Sys&, FRec&)> prepare = nullptr,
                  std::function<void(Sys&, FRec&, State&)> before = nullptr) {
    Sys S; buildBodies(S, r, 2);
    addForce(S, r, k);
    if (prepare) prepare(S, S.fr[0]);
    S.sys.realizeTopology();
    State s = S.sys.getDefaultState();
    emitModel(S, s);
    vh::D(std::string("directed=") + shortName(k) + "." + setter);
    long tok = 100;
    for (int i = 0; i < s.getNQ(); ++i) s.updQ()[i] = r.signedMag(.7, 1.1);
    std::printf("I setQ %ld\nO obs %s\n", ++tok, obs(S, s).c_str());
    for (int i = 0; i < s.getNU(); ++i) s.updU()[i] = r.signedMag(.3, 1);
    std::printf("I setU %ld\nO obs %s\n", ++tok, obs(S, s).c_str());
    if (before) before(S, S.fr[0], s);
    const Results res0 = collect(S, s);
    std::printf("I realize 8\nO obs %s\n", obs(S, s).c_str());
    const std::string mop = change(S, S.fr[0], s, r);
    std::printf("I %s\nO obs %s\n", mop.c_str(), obs(S, s).c_str());
    const Results after = doCheck(S, s, std::string(shortName(k)) + "." + setter + ".param_after_realize.history");
    // the change must matter (otherwise a stale cache could not be seen): recorded in the path distribution
    vh::D(relDiff(res0, after, false, true) > 1e-9 ? "directed_effect=visible" : std::string("directed_effect=NONE:") + shortName(k) + "." + setter);
}

std::string P0(int j, long tok) { return "setParam 0 " + std::to_string(j) + " " + std::to_string(tok); }
std::string G0(long tok, bool zero) { return "gravSet 0 0 " + std::to_string(tok) + (zero ? " 1" : " 0"); }

void directedCases(vh::Rng& r) {
    // mobility elements
    directedCase(r, K_MobSpring, "setStiffness", [](Sys&, FRec& f, State& s, vh::Rng&) { f.mls.setStiffness(s, 10 * f.mls.getStiffness(s)); return P0(0, 201); });
    directedCase(r, K_MobSpring, "setQZero", [](Sys&, FRec& f, State& s, vh::Rng&) { f.mls.setQZero(s, f.mls.getQZero(s) + 0.5); return P0(0, 201); });
    directedCase(r, K_MobDamper, "setDamping", [](Sys&, FRec& f, State& s, vh::Rng&) { f.mld.setDamping(s, 5 * f.mld.getDamping(s)); return P0(0, 201); });
    directedCase(r, K_MobConst, "setForce", [](Sys&, FRec& f, State& s, vh::Rng&) { f.mcf.setForce(s, f.mcf.getForce(s) + 3); return P0(0, 201); });
    directedCase(r, K_MobStop, "setMaterialProperties", [](Sys&, FRec& f, State& s, vh::Rng&) { f.stop.setMaterialProperties(s, 3 * f.stop.getStiffness(s), 2 * f.stop.getDissipation(s)); return P0(0, 201); });
    directedCase(r, K_MobStop, "setBounds", [](Sys&, FRec& f, State& s, vh::Rng&) { f.stop.setBounds(s, -.05, .05); return P0(0, 201); });
    directedCase(r, K_MobDiscrete, "setMobilityForce", [](Sys&, FRec& f, State& s, vh::Rng&) { f.mdf.setMobilityForce(s, f.mdf.getMobilityForce(s) + 2); return P0(0, 201); });
    // discrete forces
    directedCase(r, K_Discrete, "setOneMobilityForce", [](Sys& S, FRec& f, State& s, vh::Rng&) { f.df.setOneMobilityForce(s, S.bodies[0], MobilizerUIndex(0), 2.5); return P0(0, 201); });
    directedCase(r, K_Discrete, "setOneBodyForce", [](Sys& S, FRec& f, State& s, vh::Rng&) { f.df.setOneBodyForce(s, S.bodies[1], SpatialVec(Vec3(1, 2, 3), Vec3(-2, 1, .5))); return P0(1, 201); });
    directedCase(r, K_Discrete, "setAllMobilityForces", [](Sys& S, FRec& f, State& s, vh::Rng&) { f.df.setAllMobilityForces(s, Vector(S.matter.getNumMobilities(), 1.5)); return P0(0, 201); });
    directedCase(r, K_Discrete, "setAllBodyForces", [](Sys& S, FRec& f, State& s, vh::Rng&) { f.df.setAllBodyForces(s, Vector_<SpatialVec>(S.matter.getNumBodies(), SpatialVec(Vec3(.5, 1, -1), Vec3(1, -1, 2)))); return P0(1, 201); });
    directedCase(r, K_Discrete, "addForceToBodyPoint", [](Sys& S, FRec& f, State& s, vh::Rng&) { f.df.addForceToBodyPoint(s, S.bodies[0], Vec3(.3, .2, .1), Vec3(1, -2, 1.5)); return P0(1, 201); },
                 nullptr, [](Sys& S, FRec& f, State& s) { f.df.setOneBodyForce(s, S.bodies[0], SpatialVec(Vec3(0), Vec3(0))); std::printf("I setParam 0 1 150\nO obs %s\n", obs(S, s).c_str()); });
    directedCase(r, K_Discrete, "clearAllForces", [](Sys&, FRec& f, State& s, vh::Rng&) { f.df.clearAllMobilityForces(s); return P0(0, 201); },
                 nullptr, [](Sys& S, FRec& f, State& s) { f.df.setOneMobilityForce(s, S.bodies[0], MobilizerUIndex(0), 4.0); std::printf("I setParam 0 0 150\nO obs %s\n", obs(S, s).c_str()); });
    directedCase(r, K_Discrete, "clearAllBodyForces", [](Sys&, FRec& f, State& s, vh::Rng&) { f.df.clearAllBodyForces(s); return P0(1, 201); },
                 nullptr, [](Sys& S, FRec& f, State& s) { f.df.setOneBodyForce(s, S.bodies[0], SpatialVec(Vec3(1, 1, 1), Vec3(2, 0, 1))); std::printf("I setParam 0 1 150\nO obs %s\n", obs(S, s).c_str()); });
    // linear bushing (own lazy cache entries at Position / Velocity; parameters in an Instance-stage variable)
    directedCase(r, K_Bushing, "setStiffness", [](Sys&, FRec& f, State& s, vh::Rng&) { f.bush.setStiffness(s, 3 * f.bush.getStiffness(s)); return P0(0, 201); });
    directedCase(r, K_Bushing, "setDamping", [](Sys&, FRec& f, State& s, vh::Rng&) { f.bush.setDamping(s, 4 * f.bush.getDamping(s)); return P0(0, 201); });
    directedCase(r, K_Bushing, "setFrameOnBody1", [](Sys&, FRec& f, State& s, vh::Rng&) { f.bush.setFrameOnBody1(s, Transform(Rotation(.4, ZAxis), Vec3(.3, -.2, .1))); return P0(0, 201); });
    directedCase(r, K_Bushing, "setFrameOnBody2", [](Sys&, FRec& f, State& s, vh::Rng&) { f.bush.setFrameOnBody2(s, Transform(Rotation(-.3, XAxis), Vec3(-.1, .25, .2))); return P0(0, 201); });
    // thermostat (Instance-stage parameters)
    auto heat = [](Sys& S, FRec&, State& s) { for (int i = 0; i < s.getNZ(); ++i) s.updZ()[i] = .4 + .1 * i; std::printf("I setZ 151\nO obs %s\n", obs(S, s).c_str()); };
    directedCase(r, K_Thermostat, "setBathTemperature", [](Sys&, FRec& f, State& s, vh::Rng&) { f.thermo.setBathTemperature(s, 3 * f.thermo.getBathTemperature(s)); return P0(1, 201); }, nullptr, heat);
    directedCase(r, K_Thermostat, "setRelaxationTime", [](Sys&, FRec& f, State& s, vh::Rng&) { f.thermo.setRelaxationTime(s, 2 * f.thermo.getRelaxationTime(s)); return P0(2, 201); }, nullptr, heat);
    // cable spring
    directedCase(r, K_CableSpring, "setStiffness", [](Sys&, FRec& f, State& s, vh::Rng&) { f.cable.setStiffness(s, 2 * f.cable.getStiffness(s)); return P0(0, 201); });
    directedCase(r, K_CableSpring, "setSlackLength", [](Sys&, FRec& f, State& s, vh::Rng&) { f.cable.setSlackLength(s, .5 * f.cable.getSlackLength(s)); return P0(0, 201); });
    directedCase(r, K_CableSpring, "setDissipationCoef", [](Sys&, FRec& f, State& s, vh::Rng&) { f.cable.setDissipationCoef(s, 3 * f.cable.getDissipationCoef(s)); return P0(0, 201); });
    // exponential spring (friction coefficients are Dynamics-stage variables)
    directedCase(r, K_ExpSpring, "setMuStatic", [](Sys&, FRec& f, State& s, vh::Rng&) { f.expo->setMuStatic(s, f.expo->getMuStatic(s) + .3); return P0(0, 201); });
    directedCase(r, K_ExpSpring, "setMuKinetic", [](Sys&, FRec& f, State& s, vh::Rng&) { f.expo->setMuKinetic(s, .5 * f.expo->getMuKinetic(s)); return P0(1, 201); });
    // Force::Gravity (defaults: magnitude 9.8 along -Y unless stated)
    auto gravAxis = [](Sys& S, FRec& f) { f.grav.setDefaultDownDirection(UnitVec3(-YAxis)); f.grav.setDefaultMagnitude(9.8); (void)S; };
    auto gravZero = [](Sys&, FRec& f) { f.grav.setDefaultDownDirection(UnitVec3(-YAxis)); f.grav.setDefaultMagnitude(0); };
    directedCase(r, K_Gravity, "setMagnitude", [](Sys&, FRec& f, State& s, vh::Rng&) { f.grav.setMagnitude(s, 3.7); return G0(201, false); }, gravAxis);
    directedCase(r, K_Gravity, "setMagnitude_toZero", [](Sys&, FRec& f, State& s, vh::Rng&) { f.grav.setMagnitude(s, 0); return G0(201, true); }, gravAxis);
    directedCase(r, K_Gravity, "setMagnitude_fromZero", [](Sys&, FRec& f, State& s, vh::Rng&) { f.grav.setMagnitude(s, 6.5); return G0(201, false); }, gravZero);
    directedCase(r, K_Gravity, "setDownDirection", [](Sys&, FRec& f, State& s, vh::Rng&) { f.grav.setDownDirection(s, UnitVec3(XAxis)); return G0(201, false); }, gravAxis);
    directedCase(r, K_Gravity, "setZeroHeight", [](Sys&, FRec& f, State& s, vh::Rng&) { f.grav.setZeroHeight(s, f.grav.getZeroHeight(s) + 1.5); return G0(201, false); }, gravAxis);
    directedCase(r, K_Gravity, "setGravityVector_directionOnly", [](Sys&, FRec& f, State& s, vh::Rng&) { f.grav.setGravityVector(s, Vec3(9.8, 0, 0)); return G0(201, false); }, gravAxis);
    directedCase(r, K_Gravity, "setGravityVector_oppositeDirection", [](Sys&, FRec& f, State& s, vh::Rng&) { f.grav.setGravityVector(s, Vec3(0, 9.8, 0)); return G0(201, false); }, gravAxis);
    directedCase(r, K_Gravity, "setGravityVector_magnitudeOnly", [](Sys&, FRec& f, State& s, vh::Rng&) { f.grav.setGravityVector(s, Vec3(0, -4.9, 0)); return G0(201, false); }, gravAxis);
    directedCase(r, K_Gravity, "setGravityVector_both", [](Sys&, FRec& f, State& s, vh::Rng&) { f.grav.setGravityVector(s, Vec3(1, -2, 3)); return G0(201, false); }, gravAxis);
    directedCase(r, K_Gravity, "setGravityVector_toZero", [](Sys&, FRec& f, State& s, vh::Rng&) { f.grav.setGravityVector(s, Vec3(0)); return G0(201, true); }, gravAxis);
    directedCase(r, K_Gravity, "setGravityVector_fromZero", [](Sys&, FRec& f, State& s, vh::Rng&) { f.grav.setGravityVector(s, Vec3(0, 0, -5)); return G0(201, false); }, gravZero);
    directedCase(r, K_Gravity, "setBodyIsExcluded_true", [](Sys&, FRec& f, State& s, vh::Rng&) { f.grav.setBodyIsExcluded(s, MobilizedBodyIndex(1), true); return G0(201, false); }, gravAxis);
    directedCase(r, K_Gravity, "setBodyIsExcluded_false", [](Sys&, FRec& f, State& s, vh::Rng&) { f.grav.setBodyIsExcluded(s, MobilizedBodyIndex(2), false); return G0(201, false); },
                 [](Sys&, FRec& f) { f.grav.setDefaultDownDirection(UnitVec3(-YAxis)); f.grav.setDefaultMagnitude(9.8); f.grav.setDefaultBodyIsExcluded(MobilizedBodyIndex(2), true); });
    // enable / disable of every element type (also the ones whose parameters are construction-time constants)
    static const Kind all[] = { K_TPSpring, K_TPDamper, K_TPConst, K_ConstForce, K_ConstTorque, K_GlobalDamper, K_UniformGravity,
        K_Bushing, K_MobSpring, K_MobDamper, K_MobConst, K_MobStop, K_MobDiscrete, K_Discrete, K_Gravity, K_ProbePos, K_ProbeVel,
        K_Thermostat, K_CableSpring, K_ExpSpring };
    auto activate = [](Sys& S, FRec& f, State& s) {        // make elements that are inert by default act
        if (f.kind == K_Discrete) { f.df.setOneMobilityForce(s, S.bodies[0], MobilizerUIndex(0), 3.0); std::printf("I setParam 0 0 150\nO obs %s\n", obs(S, s).c_str()); }
        if (f.kind == K_Thermostat) { for (int i = 0; i < s.getNZ(); ++i) s.updZ()[i] = .4 + .1 * i; std::printf("I setZ 151\nO obs %s\n", obs(S, s).c_str()); }
    };
    for (Kind k : all) {
        directedCase(r, k, "disable", [](Sys& S, FRec& f, State& s, vh::Rng&) { S.forces.getForce(f.ix).disable(s); return std::string("setEnabled 0 0"); }, nullptr, activate);
        directedCase(r, k, "enable_afterDisabledByDefault", [](Sys& S, FRec& f, State& s, vh::Rng&) { S.forces.getForce(f.ix).enable(s); return std::string("setEnabled 0 1"); },
                     [](Sys& S, FRec& f) { S.forces.updForce(f.ix).setDisabledByDefault(true); }, activate);
    }
}

void randomCase(vh::Rng& r) {
    Sys S; buildBodies(S, r, 1 + r.below(3));
    static const Kind subjects[] = { K_MobSpring, K_MobDamper, K_MobConst, K_MobStop, K_MobDiscrete, K_Discrete, K_Gravity, K_Bushing };
    static const Kind background[] = { K_TPSpring, K_TPDamper, K_TPConst, K_ConstForce, K_ConstTorque, K_GlobalDamper, K_UniformGravity, K_Bushing };
    const Kind subj = subjects[r.below(8)];
    std::vector<Kind> kinds;
    const int nsub = 1 + r.below(2);
    for (int i = 0; i < nsub; ++i) kinds.push_back(subj);
    const int nbg = r.below(4);
    for (int i = 0; i < nbg; ++i) kinds.push_back(background[r.below(8)]);
    if (r.coin()) kinds.push_back(K_ProbePos);
    if (r.coin()) kinds.push_back(K_ProbeVel);
    if (subj != K_Gravity && r.below(3) == 0) kinds.push_back(K_Gravity);
    for (size_t i = kinds.size(); i > 1; --i) std::swap(kinds[i - 1], kinds[r.below((int)i)]);   // shuffle
    for (Kind k : kinds) addForce(S, r, k);
    if (r.below(5) == 0) S.forces.updForce(S.fr[r.below((int)S.fr.size())].ix).setDisabledByDefault(true);
    S.sys.realizeTopology();
    State s = S.sys.getDefaultState();
    emitModel(S, s);
    const std::string key = std::string(shortName(subj)) + ".history";
    vh::D(std::string("subject=") + shortName(subj));
    long tok = 100;
    const int nops = 8 + r.below(18);
    auto out = [&](const char* fmt, long a = 0, long b = 0, long c = 0, long d = 0) {
        std::printf("I "); std::printf(fmt, a, b, c, d); std::printf("\nO obs %s\n", obs(S, s).c_str()); };
    for (int op = 0; op < nops; ++op) {
        const int c = r.below(100);
        const int fi = r.below((int)S.fr.size());
        FRec& f = S.fr[fi];
        if (c < 12) { s.updQ()[r.below(s.getNQ())] = r.range(-1, 1); out("setQ %ld", ++tok); }
        else if (c < 20) { s.updU()[r.below(s.getNU())] = r.range(-1, 1); out("setU %ld", ++tok); }
        else if (c < 24) { if (s.getNZ()) { s.updZ()[r.below(s.getNZ())] = r.range(0, 1); out("setZ %ld", ++tok); } }
        else if (c < 28) { s.setTime(r.range(0, 5)); out("setT %ld", ++tok); }
        else if (c < 52) {           // a parameter of an element through its own setter
            switch (f.kind) {
            case K_MobSpring: if (r.coin()) f.mls.setStiffness(s, r.range(1, 9)); else f.mls.setQZero(s, r.range(-1, 1)); out("setParam %ld 0 %ld", fi, ++tok); break;
            case K_MobDamper: f.mld.setDamping(s, r.range(.2, 2)); out("setParam %ld 0 %ld", fi, ++tok); break;
            case K_MobConst: f.mcf.setForce(s, r.signedMag(1, 5)); out("setParam %ld 0 %ld", fi, ++tok); break;
            case K_MobStop: if (r.coin()) f.stop.setMaterialProperties(s, r.range(5, 50), r.range(.1, 1)); else f.stop.setBounds(s, -r.range(.1, .6), r.range(.1, .6)); out("setParam %ld 0 %ld", fi, ++tok); break;
            case K_MobDiscrete: f.mdf.setMobilityForce(s, r.signedMag(1, 5)); out("setParam %ld 0 %ld", fi, ++tok); break;
            case K_Discrete:
                if (r.coin()) { f.df.setOneMobilityForce(s, S.bodies[f.mob], MobilizerUIndex(0), r.signedMag(1, 5)); out("setParam %ld 0 %ld", fi, ++tok); }
                else { f.df.setOneBodyForce(s, S.bodies[f.mob], SpatialVec(rvec(r, 1, 3), rvec(r, 1, 3))); out("setParam %ld 1 %ld", fi, ++tok); }
                break;
            case K_Gravity: {
                const int w = r.below(7);
                const Real g0 = f.grav.getMagnitude(s);
                bool changed = true;
                if (w == 0) { const Real g = r.below(3) == 0 ? 0.0 : r.range(1, 10); changed = g != g0; f.grav.setMagnitude(s, g); }
                else if (w == 1) { const UnitVec3 d(rvec(r, .3, 1)); changed = d != f.grav.getDownDirection(s); f.grav.setDownDirection(s, d); }
                else if (w == 2) { const Real z = r.range(-1, 1); changed = z != f.grav.getZeroHeight(s); f.grav.setZeroHeight(s, z); }
                else if (w == 3) { const Vec3 gv = r.below(3) == 0 ? Vec3(0) : rvec(r, 1, 9);
                    const Real ng = gv.norm(); const UnitVec3 nd = ng > 0 ? UnitVec3(gv / ng, true) : f.grav.getDownDirection(s);
                    changed = (g0 != ng) || (f.grav.getDownDirection(s) != nd); f.grav.setGravityVector(s, gv); }
                else if (w == 4) { const MobilizedBodyIndex b(1 + r.below(S.matter.getNumBodies() - 1)); const bool e = r.coin();
                    changed = e != f.grav.getBodyIsExcluded(s, b); f.grav.setBodyIsExcluded(s, b, e); }
                else if (w == 5) {      // direction-only change with exactly the same magnitude (axis aligned)
                    const int ax = r.below(3); Vec3 gv(0); gv[ax] = r.coin() ? g0 : -g0;
                    const UnitVec3 nd = g0 > 0 ? UnitVec3(gv / g0, true) : f.grav.getDownDirection(s);
                    changed = f.grav.getDownDirection(s) != nd; f.grav.setGravityVector(s, gv); }
                else { changed = false; f.grav.setMagnitude(s, g0); }       // same value: must be a no-op
                if (changed) out("gravSet %ld 0 %ld %ld", fi, ++tok, f.grav.getMagnitude(s) == 0 ? 1 : 0);
                break; }
            default: break;
            }
        }
        else if (c < 62) { const bool en = r.coin(); S.forces.setForceIsDisabled(s, f.ix, !en); out("setEnabled %ld %ld", fi, en ? 1 : 0); }
        else if (c < 82) { const int g = 3 + r.below(7); S.sys.realize(s, Stage(g)); out("realize %ld", g); }
        else if (c < 88) { if (s.getSystemStage() >= Stage::Position && f.kind == K_Gravity) { (void)f.grav.getBodyForces(s); out("gravQuery %ld", fi); } }
        else if (c < 92) { if (s.getSystemStage() >= Stage::Position) { (void)S.sys.calcPotentialEnergy(s); out("peQuery"); } }
        else doCheck(S, s, key);
    }
    doCheck(S, s, key);
}

} // namespace

int main(int argc, char** argv) {
    vh::Args args(argc, argv);
    if (args.mode == "replay") {       // corpus replay is not meaningful for this harness (cases are whole histories)
        std::string line; while (std::getline(std::cin, line)) {}
        return 0;
    }
    vh::Rng r(args.seed * 7919 + 13);
    try {
        caseF4(r);
        directedCases(r);
        for (long i = 0; i < args.n; ++i) randomCase(r);
    } catch (const std::exception& e) {
        std::fprintf(stderr, "C16 harness: exception %s\n", e.what());
        return 3;
    }
    return 0;
}
