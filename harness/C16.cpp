// C16 — realization results depend only on the current state values.
// flow = harness_first.  Every case builds a multibody system with several force elements, applies a history
// (variable modifications, parameter setters, enable/disable, Force::Gravity setters, realizations to random
// stages, queries, explicit requests / invalidations of the matter subsystem's lazy cache entries; in "rich" cases
// also mobilizer locks, constraint enable/disable, the Euler-angle/quaternion option) and, at `check` records,
// compares (value = relative difference, bound 1e-12, i.e. bitwise) udot, body forces, mobility forces, PE, KE, zdot
// -- rich cases: also multipliers, constraint errors, event witness values, body kinematics, composite- and
// articulated-body inertias -- with a freshly created State given the same values: the property's own predicate
// (P lines).  The I lines describe the history in the vocabulary of the Lean model (SimbodyModel/C16.lean, force
// classes named as in Gen/ForceParams.lean); the O lines are what the implementation lets us observe of its
// caches (stage, Force::Gravity::isForceCacheValid and getNumEvaluations, calcForce call counts of Custom probe
// forces, the five is...Realized flags of the matter subsystem, staleness at checks) and are predicted by the model.
// Case 0 is the dedicated history of finding F4 (key MobilityLinearSpring.param_after_realize.history); then the
// directed 3-step histories (one per force type and setter); then the random cases.
#include "Simbody.h"
#include "hcommon.h"
#include <iostream>
#include <memory>
#include <sstream>
#include <functional>
#include <cstring>

using namespace SimTK;

namespace {

// Custom probe force: counts calcForce calls; position-only (optionally also reading time), velocity dependent,
// or with a state parameter of its own (a discrete variable invalidating `paramStage`: Position or Instance for a
// position-only probe, Dynamics otherwise -- the rule the library's own elements have to follow)
struct Probe : public Force::Custom::Implementation {
    Probe(const GeneralForceSubsystem& forces, const MobilizedBody& mobod, bool posOnly, Real c, bool readsTime = false, int paramStage = 0)
        : forces(forces), mobod(mobod), posOnly(posOnly), c(c), readsTime(readsTime), paramStage(paramStage) {}
    void realizeTopology(State& s) const override {
        if (paramStage) paramIx = forces.allocateDiscreteVariable(s, Stage(paramStage), new Value<Real>(c));
    }
    Real coef(const State& s) const { return paramStage ? Value<Real>::downcast(forces.getDiscreteVariable(s, paramIx)).get() : c; }
    void setParam(State& s, Real v) const { Value<Real>::updDowncast(forces.updDiscreteVariable(s, paramIx)).upd() = v; }
    void calcForce(const State& s, Vector_<SpatialVec>&, Vector_<Vec3>&, Vector& mobilityForces) const override {
        ++calls;
        const Real x = posOnly ? std::sin(mobod.getOneQ(s, 0) + (readsTime ? s.getTime() : 0.0)) : mobod.getOneU(s, 0);
        mobod.applyOneMobilityForce(s, 0, -coef(s) * x, mobilityForces);
    }
    Real calcPotentialEnergy(const State&) const override { return 0; }
    bool dependsOnlyOnPositions() const override { return posOnly; }
    const GeneralForceSubsystem& forces; MobilizedBody mobod; bool posOnly; Real c; bool readsTime; int paramStage;
    mutable DiscreteVariableIndex paramIx; mutable long calls = 0;
};

enum Kind { K_TPSpring, K_TPDamper, K_TPConst, K_ConstForce, K_ConstTorque, K_GlobalDamper, K_UniformGravity,
            K_Bushing, K_MobSpring, K_MobDamper, K_MobConst, K_MobStop, K_MobDiscrete, K_Discrete, K_Gravity,
            K_ProbePos, K_ProbeVel, K_Thermostat, K_CableSpring, K_ExpSpring, K_ProbeTime, K_ProbeParam };

const char* className(Kind k) {
    switch (k) {
    case K_TPSpring: return "Force::TwoPointLinearSpringImpl";
    case K_TPDamper: return "Force::TwoPointLinearDamperImpl";
    case K_TPConst: return "Force::TwoPointConstantForceImpl";
    case K_ConstForce: return "Force::ConstantForceImpl";
    case K_ConstTorque: return "Force::ConstantTorqueImpl";
    case K_GlobalDamper: return "Force::GlobalDamperImpl";
    case K_UniformGravity: return "Force::UniformGravityImpl";
    case K_Bushing: return "Force::LinearBushingImpl";
    case K_MobSpring: return "Force::MobilityLinearSpringImpl";
    case K_MobDamper: return "Force::MobilityLinearDamperImpl";
    case K_MobConst: return "Force::MobilityConstantForceImpl";
    case K_MobStop: return "Force::MobilityLinearStopImpl";
    case K_MobDiscrete: return "Force::MobilityDiscreteForceImpl";
    case K_Discrete: return "Force::DiscreteForcesImpl";
    case K_Gravity: return "Force::GravityImpl";
    case K_Thermostat: return "Force::ThermostatImpl";
    case K_CableSpring: return "CableSpring::Impl";
    case K_ExpSpring: return "ExponentialSpringForceImpl";
    default: return "Force::CustomImpl";
    }
}
const char* shortName(Kind k) {
    static std::string s; s = className(k);
    if (k == K_ProbeParam) { s = "CustomWithStateParameter"; return s.c_str(); }
    if (s.compare(0, 7, "Force::") == 0) s = s.substr(7);
    if (s.size() > 6 && s.compare(s.size() - 6, 6, "::Impl") == 0) s = s.substr(0, s.size() - 6);
    else if (s.size() > 4 && s.compare(s.size() - 4, 4, "Impl") == 0) s = s.substr(0, s.size() - 4);
    return s.c_str();
}

struct FRec {
    Kind kind; ForceIndex ix; int mob = 0;       // mobilized body the element acts on (index into bodies)
    Force::MobilityLinearSpring  mls;  Force::MobilityLinearDamper mld; Force::MobilityConstantForce mcf;
    Force::MobilityLinearStop    stop; Force::MobilityDiscreteForce mdf; Force::DiscreteForces df;
    Force::Gravity grav; Probe* probe = nullptr;
    Force::LinearBushing bush; Force::Thermostat thermo; CableSpring cable; ExponentialSpringForce* expo = nullptr;
};

struct Sys {
    MultibodySystem sys; SimbodyMatterSubsystem matter; GeneralForceSubsystem forces;
    std::vector<MobilizedBody> bodies; std::vector<FRec> fr;
    std::unique_ptr<CableTrackerSubsystem> cables;
    std::vector<Constraint> cons;      // "rich" systems: constraints, locks, Euler/quaternion option, event witness
    bool rich = false;
    Sys() : matter(sys), forces(sys) {}
};

// event witness function (evaluated when the System realizes Velocity)
struct Witness : public TriggeredEventHandler {
    explicit Witness(const MobilizedBody& b) : TriggeredEventHandler(Stage::Velocity), b(b) {}
    Real getValue(const State& s) const override { return b.getOneQ(s, 0) + 0.5 * b.getOneU(s, 0) - 0.1 * s.getTime(); }
    void handleEvent(State&, Real, bool&) const override {}
    MobilizedBody b;
};

// the five lazy cache entries of the matter subsystem, in the order of the model's ME.all
const char* const ME_NAMES[5] = { "pk", "cbi", "abi", "vk", "abv" };
bool meValid(const Sys& S, const State& s, int e) {
    switch (e) {
    case 0: return S.matter.isPositionKinematicsRealized(s);
    case 1: return S.matter.isCompositeBodyInertiasRealized(s);
    case 2: return S.matter.isArticulatedBodyInertiasRealized(s);
    case 3: return S.matter.isVelocityKinematicsRealized(s);
    default: return S.matter.isArticulatedBodyVelocityRealized(s);
    }
}

Vec3 rvec(vh::Rng& r, double lo, double hi) { return Vec3(r.signedMag(lo, hi), r.signedMag(lo, hi), r.signedMag(lo, hi)); }

void addForce(Sys& S, vh::Rng& r, Kind k) {
    FRec f; f.kind = k;
    const int nb = (int)S.bodies.size();
    const int a = r.below(nb); f.mob = a;
    const MobilizedBody& A = S.bodies[a];
    const MobilizedBody& B = (nb > 1 && r.coin()) ? S.bodies[(a + 1) % nb] : (const MobilizedBody&)S.matter.Ground();
    switch (k) {
    case K_TPSpring: { Force::TwoPointLinearSpring x(S.forces, A, rvec(r, .2, .8), B, rvec(r, 1.2, 2), r.range(1, 9), r.range(.3, 1)); f.ix = x.getForceIndex(); break; }
    case K_TPDamper: { Force::TwoPointLinearDamper x(S.forces, A, rvec(r, .2, .8), B, rvec(r, 1.2, 2), r.range(.2, 2)); f.ix = x.getForceIndex(); break; }
    case K_TPConst: { Force::TwoPointConstantForce x(S.forces, A, rvec(r, .2, .8), B, rvec(r, 1.2, 2), r.signedMag(1, 5)); f.ix = x.getForceIndex(); break; }
    case K_ConstForce: { Force::ConstantForce x(S.forces, A, rvec(r, .2, .8), rvec(r, 1, 4)); f.ix = x.getForceIndex(); break; }
    case K_ConstTorque: { Force::ConstantTorque x(S.forces, A, rvec(r, 1, 4)); f.ix = x.getForceIndex(); break; }
    case K_GlobalDamper: { Force::GlobalDamper x(S.forces, S.matter, r.range(.1, 1)); f.ix = x.getForceIndex(); break; }
    case K_UniformGravity: { Force::UniformGravity x(S.forces, S.matter, rvec(r, 1, 9), r.range(-1, 1)); f.ix = x.getForceIndex(); break; }
    case K_Bushing: {
        Vec6 kk, cc; for (int i = 0; i < 6; ++i) { kk[i] = r.range(1, 9); cc[i] = r.range(.1, 1); }
        f.bush = Force::LinearBushing(S.forces, A, Transform(Rotation(r.range(-1, 1), UnitVec3(rvec(r, .3, 1))), rvec(r, .1, .5)),
                               B, Transform(rvec(r, .1, .5)), kk, cc);
        f.ix = f.bush.getForceIndex(); break; }
    case K_Thermostat: { f.thermo = Force::Thermostat(S.forces, S.matter, 1.0, r.range(.5, 2), r.range(.3, 1), 0); f.ix = f.thermo.getForceIndex(); break; }
    case K_CableSpring: {
        if (!S.cables) S.cables.reset(new CableTrackerSubsystem(S.sys));
        CablePath path(*S.cables, A, rvec(r, .2, .6), S.matter.Ground(), rvec(r, 1.5, 2.5));
        f.cable = CableSpring(S.forces, path, r.range(5, 20), r.range(.2, .8), r.range(.05, .3));
        f.ix = f.cable.getForceIndex(); break; }
    case K_ExpSpring: {
        ExponentialSpringParameters ep;            // wide, soft exponential so that the element acts at any height
        ep.setShapeParameters(0.1, 5.0, 1.0); ep.setInitialMuStatic(0.3); ep.setInitialMuKinetic(0.2);
        f.expo = new ExponentialSpringForce(S.forces, Transform(), A, rvec(r, .1, .4), ep);
        f.ix = f.expo->getForceIndex(); break; }
    case K_MobSpring: { f.mls = Force::MobilityLinearSpring(S.forces, A, MobilizerQIndex(0), r.range(1, 9), r.range(-1, 1)); f.ix = f.mls.getForceIndex(); break; }
    case K_MobDamper: { f.mld = Force::MobilityLinearDamper(S.forces, A, MobilizerUIndex(0), r.range(.2, 2)); f.ix = f.mld.getForceIndex(); break; }
    case K_MobConst: { f.mcf = Force::MobilityConstantForce(S.forces, A, MobilizerUIndex(0), r.signedMag(1, 5)); f.ix = f.mcf.getForceIndex(); break; }
    case K_MobStop: { f.stop = Force::MobilityLinearStop(S.forces, A, MobilizerQIndex(0), r.range(5, 50), r.range(.1, 1), -r.range(.1, .6), r.range(.1, .6)); f.ix = f.stop.getForceIndex(); break; }
    case K_MobDiscrete: { f.mdf = Force::MobilityDiscreteForce(S.forces, A, MobilizerUIndex(0), r.signedMag(1, 5)); f.ix = f.mdf.getForceIndex(); break; }
    case K_Discrete: { f.df = Force::DiscreteForces(S.forces, S.matter); f.ix = f.df.getForceIndex(); break; }
    case K_Gravity: {
        const bool zero = r.below(4) == 0;
        f.grav = Force::Gravity(S.forces, S.matter, UnitVec3(rvec(r, .3, 1)), zero ? 0.0 : r.range(1, 10), r.range(-1, 1));
        f.ix = f.grav.getForceIndex(); break; }
    case K_ProbePos: case K_ProbeVel: case K_ProbeTime: {
        f.probe = new Probe(S.forces, A, k != K_ProbeVel, r.range(.5, 3), k == K_ProbeTime);
        Force::Custom x(S.forces, f.probe); f.ix = x.getForceIndex(); break; }
    case K_ProbeParam: {
        const bool po = r.coin();
        f.probe = new Probe(S.forces, A, po, r.range(.5, 3), false, po ? (r.coin() ? Stage::Position : Stage::Instance) : Stage::Dynamics);
        Force::Custom x(S.forces, f.probe); f.ix = x.getForceIndex(); break; }
    }
    S.fr.push_back(f);
}

int nParams(Kind k) {
    switch (k) { case K_MobSpring: case K_MobDamper: case K_MobConst: case K_MobStop: case K_MobDiscrete: case K_Gravity: return 1;
                 case K_Discrete: return 2; case K_Bushing: return 1; default: return 0; }
}

// observation of the implementation's caches
std::string obs(const Sys& S, const State& s) {
    std::ostringstream os;
    os << (int)s.getSystemStage();
    for (size_t i = 0; i < S.fr.size(); ++i) {
        const FRec& f = S.fr[i];
        if (f.kind == K_Gravity)
            os << " g" << i << '=' << (f.grav.isForceCacheValid(s) ? 1 : 0) << '/' << f.grav.getNumEvaluations();
        if (f.probe) os << " c" << i << '=' << f.probe->calls;
    }
    os << " m=";
    for (int e = 0; e < 5; ++e) os << (meValid(S, s, e) ? 1 : 0);
    return os.str();
}

struct Results { Vector udot, mob, zdot; Vector_<SpatialVec> body; Real pe, ke;
                 std::vector<double> mult, cerr, wit, kin, lazy; };

void push(std::vector<double>& v, const Vector& x) { for (int i = 0; i < x.size(); ++i) v.push_back(x[i]); }
template <class M> void pushMat(std::vector<double>& v, const M& m) {
    for (int i = 0; i < m.nrow(); ++i) for (int j = 0; j < m.ncol(); ++j) v.push_back(m(i, j)); }

Results collect(const Sys& S, State& s, bool cbi = true) {
    S.sys.realize(s, Stage::Acceleration);
    if (cbi) S.matter.realizeCompositeBodyInertias(s);       // never computed unless asked for
    Results r; r.udot = s.getUDot(); r.zdot = s.getZDot(); r.mob = S.sys.getMobilityForces(s, Stage::Dynamics);
    r.body = S.sys.getRigidBodyForces(s, Stage::Dynamics);
    r.pe = S.sys.calcPotentialEnergy(s); r.ke = S.sys.calcKineticEnergy(s);
    push(r.mult, s.getMultipliers());
    push(r.cerr, s.getQErr()); push(r.cerr, s.getUErr()); push(r.cerr, s.getUDotErr());
    push(r.wit, s.getEventTriggers());
    for (MobilizedBodyIndex b(0); b < S.matter.getNumBodies(); ++b) {
        const MobilizedBody& mb = S.matter.getMobilizedBody(b);
        pushMat(r.kin, mb.getBodyTransform(s).toMat34());
        const SpatialVec V = mb.getBodyVelocity(s), A = mb.getBodyAcceleration(s);
        for (int i = 0; i < 2; ++i) for (int j = 0; j < 3; ++j) { r.kin.push_back(V[i][j]); r.kin.push_back(A[i][j]); }
        if (b > 0 && cbi) {
            const SpatialMat C = S.matter.getCompositeBodyInertia(s, b).toSpatialMat();
            const SpatialMat P = S.matter.getArticulatedBodyInertia(s, b).toSpatialMat();
            for (int i = 0; i < 2; ++i) for (int j = 0; j < 2; ++j) { pushMat(r.lazy, C(i, j)); pushMat(r.lazy, P(i, j)); }
        }
    }
    return r;
}

double relDiffVec(const std::vector<double>& a, const std::vector<double>& b) {
    if (a.size() != b.size()) return INFINITY;
    double scale = 1, d = 0;
    for (size_t i = 0; i < a.size(); ++i) {
        if (std::isnan(a[i]) || std::isnan(b[i])) { if (!(std::isnan(a[i]) && std::isnan(b[i]))) return INFINITY; continue; }
        scale = std::max(scale, std::max(std::fabs(a[i]), std::fabs(b[i]))); d = std::max(d, std::fabs(a[i] - b[i]));
    }
    return d / scale;
}

// zOnly = false: udot, forces, PE, KE;  zOnly = true: the derivatives of the auxiliary states
double relDiff(const Results& a, const Results& b, bool zOnly = false, bool all = false) {
    double scale = 1, d = 0;
    auto acc = [&](double x, double y) {
        if (std::isnan(x) || std::isnan(y)) { if (!(std::isnan(x) && std::isnan(y))) d = INFINITY; return; }
        scale = std::max(scale, std::max(std::fabs(x), std::fabs(y))); d = std::max(d, std::fabs(x - y)); };
    if (zOnly || all) for (int i = 0; i < a.zdot.size(); ++i) acc(a.zdot[i], b.zdot[i]);
    if (!zOnly || all) {
        for (int i = 0; i < a.udot.size(); ++i) acc(a.udot[i], b.udot[i]);
        for (int i = 0; i < a.mob.size(); ++i) acc(a.mob[i], b.mob[i]);
        for (int i = 0; i < a.body.size(); ++i) for (int j = 0; j < 2; ++j) for (int k = 0; k < 3; ++k) acc(a.body[i][j][k], b.body[i][j][k]);
        acc(a.pe, b.pe); acc(a.ke, b.ke);
    }
    return d / scale;
}

// a freshly created State given the same values, through the same public API
State freshLike(const Sys& S, const State& s) {
    State f = S.sys.getDefaultState();
    if (S.rich) {
        if (S.matter.getUseEulerAngles(f) != S.matter.getUseEulerAngles(s)) {
            S.matter.setUseEulerAngles(f, S.matter.getUseEulerAngles(s));
            S.sys.realizeModel(f);
        }
        for (const MobilizedBody& b : S.bodies) {       // lockAt(Position) also writes q and u: before setQ / setU
            const Motion::Level lv = b.getLockLevel(s);
            if (lv == Motion::NoLevel) b.unlock(f); else b.lockAt(f, b.getLockValueAsVector(s), lv);
        }
        for (const Constraint& c : S.cons) { if (c.isDisabled(s)) c.disable(f); else c.enable(f); }
    }
    f.setTime(s.getTime()); f.setQ(s.getQ()); f.setU(s.getU()); f.setZ(s.getZ());
    for (const FRec& r : S.fr) {
        S.forces.setForceIsDisabled(f, r.ix, S.forces.isForceDisabled(s, r.ix));
        switch (r.kind) {
        case K_MobSpring: r.mls.setStiffness(f, r.mls.getStiffness(s)); r.mls.setQZero(f, r.mls.getQZero(s)); break;
        case K_MobDamper: r.mld.setDamping(f, r.mld.getDamping(s)); break;
        case K_MobConst: r.mcf.setForce(f, r.mcf.getForce(s)); break;
        case K_MobStop: r.stop.setMaterialProperties(f, r.stop.getStiffness(s), r.stop.getDissipation(s));
                        r.stop.setBounds(f, r.stop.getLowerBound(s), r.stop.getUpperBound(s)); break;
        case K_MobDiscrete: r.mdf.setMobilityForce(f, r.mdf.getMobilityForce(s)); break;
        case K_Discrete: r.df.setAllMobilityForces(f, r.df.getAllMobilityForces(s));
                         r.df.setAllBodyForces(f, r.df.getAllBodyForces(s)); break;
        case K_Gravity:
            r.grav.setMagnitude(f, r.grav.getMagnitude(s)); r.grav.setDownDirection(f, r.grav.getDownDirection(s));
            r.grav.setZeroHeight(f, r.grav.getZeroHeight(s));
            for (MobilizedBodyIndex b(1); b < S.matter.getNumBodies(); ++b)
                r.grav.setBodyIsExcluded(f, b, r.grav.getBodyIsExcluded(s, b));
            break;
        case K_Bushing: r.bush.setStiffness(f, r.bush.getStiffness(s)); r.bush.setDamping(f, r.bush.getDamping(s));
                        r.bush.setFrameOnBody1(f, r.bush.getFrameOnBody1(s)); r.bush.setFrameOnBody2(f, r.bush.getFrameOnBody2(s)); break;
        case K_Thermostat: r.thermo.setBathTemperature(f, r.thermo.getBathTemperature(s));
                           r.thermo.setRelaxationTime(f, r.thermo.getRelaxationTime(s)); break;
        case K_CableSpring: r.cable.setStiffness(f, r.cable.getStiffness(s)); r.cable.setSlackLength(f, r.cable.getSlackLength(s));
                            r.cable.setDissipationCoef(f, r.cable.getDissipationCoef(s)); break;
        case K_ExpSpring: r.expo->setMuStatic(f, r.expo->getMuStatic(s)); r.expo->setMuKinetic(f, r.expo->getMuKinetic(s)); break;
        case K_ProbeParam: r.probe->setParam(f, r.probe->coef(s)); break;
        default: break;
        }
    }
    return f;
}

void emitModel(const Sys& S, const State& s) {
    vh::Line l = vh::I("model");
    l.i((long long)S.fr.size());
    for (const FRec& f : S.fr) {
        std::string cls = className(f.kind);
        if (f.probe && f.probe->paramStage) cls += "@" + std::to_string(f.probe->paramStage);   // Custom force with a state parameter
        l.s(cls).i(f.probe && f.probe->posOnly ? 1 : 0).i(S.forces.isForceDisabled(s, f.ix) ? 0 : 1)
         .i(f.kind == K_Gravity && f.grav.getMagnitude(s) == 0 ? 1 : 0);
    }
    l.emit();
    std::printf("O obs %s\n", obs(S, s).c_str());
}

Results doCheck(const Sys& S, State& s, const std::string& key) {
    std::puts("I check");
    Results a = collect(S, s);
    State f = freshLike(S, s);
    Results b = collect(S, f);
    const double d = relDiff(a, b);
    double dz = relDiff(a, b, true);
    if (std::isinf(dz)) dz = 2.0;      // NaN on one side only: reported as the largest possible relative difference
    std::printf("O obs %s stale=%d\n", obs(S, s).c_str(), d > 1e-12 ? 1 : 0);
    vh::P("sameAsFreshState", key, d, 1e-12);
    if (a.zdot.size()) {
        // derivatives of auxiliary states; in random cases a difference is attributed to a disabled z-owning element if there is one
        std::string zkey = key.substr(0, key.size() - 8) + ".zdot.history";
        if (key.find(".param_after_realize.") == std::string::npos)
            for (const FRec& f : S.fr)
                if ((f.kind == K_Bushing || f.kind == K_CableSpring || f.kind == K_Thermostat) && S.forces.isForceDisabled(s, f.ix))
                    zkey = "zdot_of_disabled_element.history";
        vh::P("sameZDotAsFreshState", zkey, dz, 1e-12);
    }
    if (S.rich) {
        int nlock = 0, ndis = 0;
        for (const MobilizedBody& mb : S.bodies) nlock += mb.isLocked(s) ? 1 : 0;
        for (const Constraint& c : S.cons) ndis += c.isDisabled(s) ? 1 : 0;
        vh::D(std::string("rich_check=") + (a.mult.empty() ? "nomult" : "mult") + (nlock ? ",locked" : ",free")
              + (ndis ? ",someConstraintDisabled" : ",allConstraintsEnabled") + (S.matter.getUseEulerAngles(s) ? ",euler" : ",quaternion"));
        const std::string base = key.substr(0, key.size() - 8);       // strip ".history"
        vh::P("sameMultipliersAsFreshState", base + ".multipliers.history", relDiffVec(a.mult, b.mult), 1e-12);
        vh::P("sameConstraintErrorsAsFreshState", base + ".constraint_errors.history", relDiffVec(a.cerr, b.cerr), 1e-12);
        vh::P("sameEventWitnessesAsFreshState", base + ".event_witnesses.history", relDiffVec(a.wit, b.wit), 1e-12);
        vh::P("sameKinematicsAsFreshState", base + ".kinematics.history", relDiffVec(a.kin, b.kin), 1e-12);
        vh::P("sameMatterLazyCachesAsFreshState", base + ".matter_lazy_caches.history", relDiffVec(a.lazy, b.lazy), 1e-12);
    }
    return a;
}

void buildBodies(Sys& S, vh::Rng& r, int nb) {
    MobilizedBody parent = S.matter.Ground();
    for (int i = 0; i < nb; ++i) {
        const Vec3 com = rvec(r, .1, .6);
        Body::Rigid body(MassProperties(r.range(.5, 3), com, UnitInertia(r.range(.5, 2), r.range(.5, 2), r.range(.5, 2)).shiftFromCentroid(-com)));
        const Transform Xp(Rotation(r.range(-1, 1), UnitVec3(rvec(r, .3, 1))), rvec(r, .2, 1));
        const Transform Xb(rvec(r, .1, .5));
        if (r.below(3) == 0) { MobilizedBody::Slider m(parent, Xp, body, Xb); S.bodies.push_back(m); }
        else { MobilizedBody::Pin m(parent, Xp, body, Xb); S.bodies.push_back(m); }
        if (r.coin()) parent = S.bodies.back();
    }
}

// the dedicated history of finding F4
void caseF4(vh::Rng& r) {
    Sys S; buildBodies(S, r, 1);
    addForce(S, r, K_MobSpring);
    S.sys.realizeTopology();
    State s = S.sys.getDefaultState();
    emitModel(S, s);
    vh::D("subject=MobilityLinearSpring.f4");
    long tok = 100;
    s.updQ()[0] = 0.7; std::printf("I setQ %ld\nO obs %s\n", ++tok, obs(S, s).c_str());
    S.sys.realize(s, Stage::Acceleration); std::printf("I realize 8\nO obs %s\n", obs(S, s).c_str());
    S.fr[0].mls.setStiffness(s, 10 * S.fr[0].mls.getStiffness(s));
    S.fr[0].mls.setQZero(s, S.fr[0].mls.getQZero(s) + 0.5);
    std::printf("I setParam 0 0 %ld\nO obs %s\n", ++tok, obs(S, s).c_str());
    doCheck(S, s, "MobilityLinearSpring.param_after_realize.history");
}


// ---------------------------------------------------------------------------------------------------------
// Directed histories: for every force type and every public State-level setter
//     realize(Acceleration) -> change exactly that parameter -> realize(Acceleration)
// compared with a fresh State, each under its own key  <Force>.<setter>.param_after_realize.history
typedef std::function<std::string(Sys&, FRec&, State&, vh::Rng&)> Change;     // returns the model operation

void directedCase(vh::Rng& r, Kind k, const char* setter, Change change,
                  std::function<void(Sys&, FRec&)> prepare = nullptr,
                  std::function<void(Sys&, FRec&, State&)> before = nullptr) {
    Sys S; buildBodies(S, r, 2);
    addForce(S, r, k);
    if (prepare) prepare(S, S.fr[0]);
    S.sys.realizeTopology();
    State s = S.sys.getDefaultState();
    emitModel(S, s);
    vh::D(std::string("directed=") + shortName(k) + "." + setter);
    long tok = 100;
    for (int i = 0; i < s.getNQ(); ++i) s.updQ()[i] = r.signedMag(.7, 1.1);
    std::printf("I setQ %ld\nO obs %s\n", ++tok, obs(S, s).c_str());
    for (int i = 0; i < s.getNU(); ++i) s.updU()[i] = r.signedMag(.3, 1);
    std::printf("I setU %ld\nO obs %s\n", ++tok, obs(S, s).c_str());
    if (before) before(S, S.fr[0], s);
    const Results res0 = collect(S, s, false);
    std::printf("I realize 8\nO obs %s\n", obs(S, s).c_str());
    const std::string mop = change(S, S.fr[0], s, r);
    std::printf("I %s\nO obs %s\n", mop.c_str(), obs(S, s).c_str());
    const Results after = doCheck(S, s, std::string(shortName(k)) + "." + setter + ".param_after_realize.history");
    // the change must matter (otherwise a stale cache could not be seen): recorded in the path distribution
    vh::D(relDiff(res0, after, false, true) > 1e-9 ? "directed_effect=visible" : std::string("directed_effect=NONE:") + shortName(k) + "." + setter);
}

std::string P0(int j, long tok) { return "setParam 0 " + std::to_string(j) + " " + std::to_string(tok); }
std::string G0(long tok, bool zero, const char* setter) { return "gravSet 0 0 " + std::to_string(tok) + (zero ? " 1 " : " 0 ") + setter; }

void directedCases(vh::Rng& r) {
    // mobility elements
    directedCase(r, K_MobSpring, "setStiffness", [](Sys&, FRec& f, State& s, vh::Rng&) { f.mls.setStiffness(s, 10 * f.mls.getStiffness(s)); return P0(0, 201); });
    directedCase(r, K_MobSpring, "setQZero", [](Sys&, FRec& f, State& s, vh::Rng&) { f.mls.setQZero(s, f.mls.getQZero(s) + 0.5); return P0(0, 201); });
    directedCase(r, K_MobDamper, "setDamping", [](Sys&, FRec& f, State& s, vh::Rng&) { f.mld.setDamping(s, 5 * f.mld.getDamping(s)); return P0(0, 201); });
    directedCase(r, K_MobConst, "setForce", [](Sys&, FRec& f, State& s, vh::Rng&) { f.mcf.setForce(s, f.mcf.getForce(s) + 3); return P0(0, 201); });
    directedCase(r, K_MobStop, "setMaterialProperties", [](Sys&, FRec& f, State& s, vh::Rng&) { f.stop.setMaterialProperties(s, 3 * f.stop.getStiffness(s), 2 * f.stop.getDissipation(s)); return P0(0, 201); });
    directedCase(r, K_MobStop, "setBounds", [](Sys&, FRec& f, State& s, vh::Rng&) { f.stop.setBounds(s, -.05, .05); return P0(0, 201); });
    directedCase(r, K_MobDiscrete, "setMobilityForce", [](Sys&, FRec& f, State& s, vh::Rng&) { f.mdf.setMobilityForce(s, f.mdf.getMobilityForce(s) + 2); return P0(0, 201); });
    // discrete forces
    directedCase(r, K_Discrete, "setOneMobilityForce", [](Sys& S, FRec& f, State& s, vh::Rng&) { f.df.setOneMobilityForce(s, S.bodies[0], MobilizerUIndex(0), 2.5); return P0(0, 201); });
    directedCase(r, K_Discrete, "setOneBodyForce", [](Sys& S, FRec& f, State& s, vh::Rng&) { f.df.setOneBodyForce(s, S.bodies[1], SpatialVec(Vec3(1, 2, 3), Vec3(-2, 1, .5))); return P0(1, 201); });
    directedCase(r, K_Discrete, "setAllMobilityForces", [](Sys& S, FRec& f, State& s, vh::Rng&) { f.df.setAllMobilityForces(s, Vector(S.matter.getNumMobilities(), 1.5)); return P0(0, 201); });
    directedCase(r, K_Discrete, "setAllBodyForces", [](Sys& S, FRec& f, State& s, vh::Rng&) { f.df.setAllBodyForces(s, Vector_<SpatialVec>(S.matter.getNumBodies(), SpatialVec(Vec3(.5, 1, -1), Vec3(1, -1, 2)))); return P0(1, 201); });
    directedCase(r, K_Discrete, "addForceToBodyPoint", [](Sys& S, FRec& f, State& s, vh::Rng&) { f.df.addForceToBodyPoint(s, S.bodies[0], Vec3(.3, .2, .1), Vec3(1, -2, 1.5)); return P0(1, 201); },
                 nullptr, [](Sys& S, FRec& f, State& s) { f.df.setOneBodyForce(s, S.bodies[0], SpatialVec(Vec3(0), Vec3(0))); std::printf("I setParam 0 1 150\nO obs %s\n", obs(S, s).c_str()); });
    directedCase(r, K_Discrete, "clearAllForces", [](Sys&, FRec& f, State& s, vh::Rng&) { f.df.clearAllMobilityForces(s); return P0(0, 201); },
                 nullptr, [](Sys& S, FRec& f, State& s) { f.df.setOneMobilityForce(s, S.bodies[0], MobilizerUIndex(0), 4.0); std::printf("I setParam 0 0 150\nO obs %s\n", obs(S, s).c_str()); });
    directedCase(r, K_Discrete, "clearAllBodyForces", [](Sys&, FRec& f, State& s, vh::Rng&) { f.df.clearAllBodyForces(s); return P0(1, 201); },
                 nullptr, [](Sys& S, FRec& f, State& s) { f.df.setOneBodyForce(s, S.bodies[0], SpatialVec(Vec3(1, 1, 1), Vec3(2, 0, 1))); std::printf("I setParam 0 1 150\nO obs %s\n", obs(S, s).c_str()); });
    // linear bushing (own lazy cache entries at Position / Velocity; parameters in an Instance-stage variable)
    directedCase(r, K_Bushing, "setStiffness", [](Sys&, FRec& f, State& s, vh::Rng&) { f.bush.setStiffness(s, 3 * f.bush.getStiffness(s)); return P0(0, 201); });
    directedCase(r, K_Bushing, "setDamping", [](Sys&, FRec& f, State& s, vh::Rng&) { f.bush.setDamping(s, 4 * f.bush.getDamping(s)); return P0(0, 201); });
    directedCase(r, K_Bushing, "setFrameOnBody1", [](Sys&, FRec& f, State& s, vh::Rng&) { f.bush.setFrameOnBody1(s, Transform(Rotation(.4, ZAxis), Vec3(.3, -.2, .1))); return P0(0, 201); });
    directedCase(r, K_Bushing, "setFrameOnBody2", [](Sys&, FRec& f, State& s, vh::Rng&) { f.bush.setFrameOnBody2(s, Transform(Rotation(-.3, XAxis), Vec3(-.1, .25, .2))); return P0(0, 201); });
    // thermostat (Instance-stage parameters)
    auto heat = [](Sys& S, FRec&, State& s) { for (int i = 0; i < s.getNZ(); ++i) s.updZ()[i] = .4 + .1 * i; std::printf("I setZ 151\nO obs %s\n", obs(S, s).c_str()); };
    directedCase(r, K_Thermostat, "setBathTemperature", [](Sys&, FRec& f, State& s, vh::Rng&) { f.thermo.setBathTemperature(s, 3 * f.thermo.getBathTemperature(s)); return P0(1, 201); }, nullptr, heat);
    directedCase(r, K_Thermostat, "setRelaxationTime", [](Sys&, FRec& f, State& s, vh::Rng&) { f.thermo.setRelaxationTime(s, 2 * f.thermo.getRelaxationTime(s)); return P0(2, 201); }, nullptr, heat);
    // cable spring
    directedCase(r, K_CableSpring, "setStiffness", [](Sys&, FRec& f, State& s, vh::Rng&) { f.cable.setStiffness(s, 2 * f.cable.getStiffness(s)); return P0(0, 201); });
    directedCase(r, K_CableSpring, "setSlackLength", [](Sys&, FRec& f, State& s, vh::Rng&) { f.cable.setSlackLength(s, .5 * f.cable.getSlackLength(s)); return P0(0, 201); });
    directedCase(r, K_CableSpring, "setDissipationCoef", [](Sys&, FRec& f, State& s, vh::Rng&) { f.cable.setDissipationCoef(s, 3 * f.cable.getDissipationCoef(s)); return P0(0, 201); });
    // exponential spring (friction coefficients are Dynamics-stage variables)
    directedCase(r, K_ExpSpring, "setMuStatic", [](Sys&, FRec& f, State& s, vh::Rng&) { f.expo->setMuStatic(s, f.expo->getMuStatic(s) + .3); return P0(0, 201); });
    directedCase(r, K_ExpSpring, "setMuKinetic", [](Sys&, FRec& f, State& s, vh::Rng&) { f.expo->setMuKinetic(s, .5 * f.expo->getMuKinetic(s)); return P0(1, 201); });
    // Force::Gravity (defaults: magnitude 9.8 along -Y unless stated)
    auto gravAxis = [](Sys& S, FRec& f) { f.grav.setDefaultDownDirection(UnitVec3(-YAxis)); f.grav.setDefaultMagnitude(9.8); (void)S; };
    auto gravZero = [](Sys&, FRec& f) { f.grav.setDefaultDownDirection(UnitVec3(-YAxis)); f.grav.setDefaultMagnitude(0); };
    directedCase(r, K_Gravity, "setMagnitude", [](Sys&, FRec& f, State& s, vh::Rng&) { f.grav.setMagnitude(s, 3.7); return G0(201, false, "setMagnitude"); }, gravAxis);
    directedCase(r, K_Gravity, "setMagnitude_toZero", [](Sys&, FRec& f, State& s, vh::Rng&) { f.grav.setMagnitude(s, 0); return G0(201, true, "setMagnitude"); }, gravAxis);
    directedCase(r, K_Gravity, "setMagnitude_fromZero", [](Sys&, FRec& f, State& s, vh::Rng&) { f.grav.setMagnitude(s, 6.5); return G0(201, false, "setMagnitude"); }, gravZero);
    directedCase(r, K_Gravity, "setDownDirection", [](Sys&, FRec& f, State& s, vh::Rng&) { f.grav.setDownDirection(s, UnitVec3(XAxis)); return G0(201, false, "setDownDirection"); }, gravAxis);
    directedCase(r, K_Gravity, "setZeroHeight", [](Sys&, FRec& f, State& s, vh::Rng&) { f.grav.setZeroHeight(s, f.grav.getZeroHeight(s) + 1.5); return G0(201, false, "setZeroHeight"); }, gravAxis);
    directedCase(r, K_Gravity, "setGravityVector_directionOnly", [](Sys&, FRec& f, State& s, vh::Rng&) { f.grav.setGravityVector(s, Vec3(9.8, 0, 0)); return G0(201, false, "setGravityVector"); }, gravAxis);
    directedCase(r, K_Gravity, "setGravityVector_oppositeDirection", [](Sys&, FRec& f, State& s, vh::Rng&) { f.grav.setGravityVector(s, Vec3(0, 9.8, 0)); return G0(201, false, "setGravityVector"); }, gravAxis);
    directedCase(r, K_Gravity, "setGravityVector_magnitudeOnly", [](Sys&, FRec& f, State& s, vh::Rng&) { f.grav.setGravityVector(s, Vec3(0, -4.9, 0)); return G0(201, false, "setGravityVector"); }, gravAxis);
    directedCase(r, K_Gravity, "setGravityVector_both", [](Sys&, FRec& f, State& s, vh::Rng&) { f.grav.setGravityVector(s, Vec3(1, -2, 3)); return G0(201, false, "setGravityVector"); }, gravAxis);
    directedCase(r, K_Gravity, "setGravityVector_toZero", [](Sys&, FRec& f, State& s, vh::Rng&) { f.grav.setGravityVector(s, Vec3(0)); return G0(201, true, "setGravityVector"); }, gravAxis);
    directedCase(r, K_Gravity, "setGravityVector_fromZero", [](Sys&, FRec& f, State& s, vh::Rng&) { f.grav.setGravityVector(s, Vec3(0, 0, -5)); return G0(201, false, "setGravityVector"); }, gravZero);
    directedCase(r, K_Gravity, "setBodyIsExcluded_true", [](Sys&, FRec& f, State& s, vh::Rng&) { f.grav.setBodyIsExcluded(s, MobilizedBodyIndex(1), true); return G0(201, false, "setBodyIsExcluded"); }, gravAxis);
    directedCase(r, K_Gravity, "setBodyIsExcluded_false", [](Sys&, FRec& f, State& s, vh::Rng&) { f.grav.setBodyIsExcluded(s, MobilizedBodyIndex(2), false); return G0(201, false, "setBodyIsExcluded"); },
                 [](Sys&, FRec& f) { f.grav.setDefaultDownDirection(UnitVec3(-YAxis)); f.grav.setDefaultMagnitude(9.8); f.grav.setDefaultBodyIsExcluded(MobilizedBodyIndex(2), true); });
    // the per-body precalculated entries of the force cache (zero for excluded bodies and at zero magnitude, NaN
    // otherwise): change the exclusion while the magnitude is zero, realize, then raise the magnitude
    auto gravZeroExcl2 = [](Sys&, FRec& f) { f.grav.setDefaultDownDirection(UnitVec3(-YAxis)); f.grav.setDefaultMagnitude(0); f.grav.setDefaultBodyIsExcluded(MobilizedBodyIndex(2), true); };
    directedCase(r, K_Gravity, "setBodyIsExcluded_false_atZeroMagnitude_then_setMagnitude", [](Sys& S, FRec& f, State& s, vh::Rng&) {
        f.grav.setBodyIsExcluded(s, MobilizedBodyIndex(2), false);
        std::printf("I %s\nO obs %s\n", G0(201, true, "setBodyIsExcluded").c_str(), obs(S, s).c_str());
        S.sys.realize(s, Stage::Acceleration); std::printf("I realize 8\nO obs %s\n", obs(S, s).c_str());
        f.grav.setMagnitude(s, 6.5); return G0(202, false, "setMagnitude"); }, gravZeroExcl2);
    directedCase(r, K_Gravity, "setBodyIsExcluded_true_atZeroMagnitude_then_setMagnitude", [](Sys& S, FRec& f, State& s, vh::Rng&) {
        f.grav.setBodyIsExcluded(s, MobilizedBodyIndex(1), true);
        std::printf("I %s\nO obs %s\n", G0(201, true, "setBodyIsExcluded").c_str(), obs(S, s).c_str());
        S.sys.realize(s, Stage::Acceleration); std::printf("I realize 8\nO obs %s\n", obs(S, s).c_str());
        f.grav.setMagnitude(s, 6.5); return G0(202, false, "setMagnitude"); }, gravZero);
    directedCase(r, K_Gravity, "setMagnitude_toZero_then_setBodyIsExcluded_false_then_setMagnitude", [](Sys& S, FRec& f, State& s, vh::Rng&) {
        f.grav.setMagnitude(s, 0);
        std::printf("I %s\nO obs %s\n", G0(201, true, "setMagnitude").c_str(), obs(S, s).c_str());
        f.grav.setBodyIsExcluded(s, MobilizedBodyIndex(2), false);
        std::printf("I %s\nO obs %s\n", G0(202, true, "setBodyIsExcluded").c_str(), obs(S, s).c_str());
        (void)f.grav.getBodyForces(s); std::printf("I gravQuery 0\nO obs %s\n", obs(S, s).c_str());
        f.grav.setMagnitude(s, 4.5); return G0(203, false, "setMagnitude"); },
        [](Sys&, FRec& f) { f.grav.setDefaultDownDirection(UnitVec3(-YAxis)); f.grav.setDefaultMagnitude(9.8); f.grav.setDefaultBodyIsExcluded(MobilizedBodyIndex(2), true); });
    // enable / disable of every element type (also the ones whose parameters are construction-time constants)
    static const Kind all[] = { K_TPSpring, K_TPDamper, K_TPConst, K_ConstForce, K_ConstTorque, K_GlobalDamper, K_UniformGravity,
        K_Bushing, K_MobSpring, K_MobDamper, K_MobConst, K_MobStop, K_MobDiscrete, K_Discrete, K_Gravity, K_ProbePos, K_ProbeVel,
        K_Thermostat, K_CableSpring, K_ExpSpring };
    auto activate = [](Sys& S, FRec& f, State& s) {        // make elements that are inert by default act
        if (f.kind == K_Discrete) { f.df.setOneMobilityForce(s, S.bodies[0], MobilizerUIndex(0), 3.0); std::printf("I setParam 0 0 150\nO obs %s\n", obs(S, s).c_str()); }
        if (f.kind == K_Thermostat) { for (int i = 0; i < s.getNZ(); ++i) s.updZ()[i] = .4 + .1 * i; std::printf("I setZ 151\nO obs %s\n", obs(S, s).c_str()); }
    };
    for (Kind k : all) {
        directedCase(r, k, "disable", [](Sys& S, FRec& f, State& s, vh::Rng&) { S.forces.getForce(f.ix).disable(s); return std::string("setEnabled 0 0"); }, nullptr, activate);
        directedCase(r, k, "enable_afterDisabledByDefault", [](Sys& S, FRec& f, State& s, vh::Rng&) { S.forces.getForce(f.ix).enable(s); return std::string("setEnabled 0 1"); },
                     [](Sys& S, FRec& f) { S.forces.updForce(f.ix).setDisabledByDefault(true); }, activate);
    }
}

void out(const Sys& S, const State& s, const char* fmt, long a = 0, long b = 0, long c = 0, long d = 0) {
    std::printf("I "); std::printf(fmt, a, b, c, d); std::printf("\nO obs %s\n", obs(S, s).c_str());
}

// explicit request for / invalidation of one of the matter subsystem's lazy entries (legal ones only: the
// realizeXxx methods throw unless their prerequisites are realized)
void matterOp(Sys& S, State& s, vh::Rng& r) {
    if (s.getSystemStage() < Stage::Instance) return;
    const int e = r.below(5);
    const SimbodyMatterSubsystem& m = S.matter;
    if (r.below(3)) {
        const bool pk = meValid(S, s, 0);
        switch (e) {
        case 0: m.realizePositionKinematics(s); break;
        case 1: if (!pk) return; m.realizeCompositeBodyInertias(s); break;
        case 2: if (!pk) return; m.realizeArticulatedBodyInertias(s); break;
        case 3: if (!pk) return; m.realizeVelocityKinematics(s); break;
        default: if (!(meValid(S, s, 3) && meValid(S, s, 2))) return; m.realizeArticulatedBodyVelocity(s); break;
        }
        std::printf("I mRealize %s\nO obs %s\n", ME_NAMES[e], obs(S, s).c_str());
        vh::D(std::string("matter_op=realize_") + ME_NAMES[e]);
    } else {
        switch (e) {
        case 0: m.invalidatePositionKinematics(s); break;
        case 1: m.invalidateCompositeBodyInertias(s); break;
        case 2: m.invalidateArticulatedBodyInertias(s); break;
        case 3: m.invalidateVelocityKinematics(s); break;
        default: m.invalidateArticulatedBodyVelocity(s); break;
        }
        std::printf("I mInvalidate %s\nO obs %s\n", ME_NAMES[e], obs(S, s).c_str());
        vh::D(std::string("matter_op=invalidate_") + ME_NAMES[e]);
    }
}

// one operation of the vocabulary shared by all random histories
void genericOp(Sys& S, State& s, vh::Rng& r, long& tok, const std::string& key) {
    const int c = r.below(100);
    const int fi = r.below((int)S.fr.size());
    FRec& f = S.fr[fi];
    if (c < 12) { s.updQ()[r.below(s.getNQ())] = r.range(-1, 1); out(S, s, "setQ %ld", ++tok); }
    else if (c < 20) { s.updU()[r.below(s.getNU())] = r.range(-1, 1); out(S, s, "setU %ld", ++tok); }
    else if (c < 24) { if (s.getNZ()) { s.updZ()[r.below(s.getNZ())] = r.range(0, 1); out(S, s, "setZ %ld", ++tok); } }
    else if (c < 28) { s.setTime(r.range(0, 5)); out(S, s, "setT %ld", ++tok); }
    else if (c < 50) {           // a parameter of an element through its own setter
        switch (f.kind) {
        case K_MobSpring: if (r.coin()) f.mls.setStiffness(s, r.range(1, 9)); else f.mls.setQZero(s, r.range(-1, 1)); out(S, s, "setParam %ld 0 %ld", fi, ++tok); break;
        case K_MobDamper: f.mld.setDamping(s, r.range(.2, 2)); out(S, s, "setParam %ld 0 %ld", fi, ++tok); break;
        case K_MobConst: f.mcf.setForce(s, r.signedMag(1, 5)); out(S, s, "setParam %ld 0 %ld", fi, ++tok); break;
        case K_MobStop: if (r.coin()) f.stop.setMaterialProperties(s, r.range(5, 50), r.range(.1, 1)); else f.stop.setBounds(s, -r.range(.1, .6), r.range(.1, .6)); out(S, s, "setParam %ld 0 %ld", fi, ++tok); break;
        case K_MobDiscrete: f.mdf.setMobilityForce(s, r.signedMag(1, 5)); out(S, s, "setParam %ld 0 %ld", fi, ++tok); break;
        case K_Discrete:
            if (r.coin()) { f.df.setOneMobilityForce(s, S.bodies[f.mob], MobilizerUIndex(0), r.signedMag(1, 5)); out(S, s, "setParam %ld 0 %ld", fi, ++tok); }
            else { f.df.setOneBodyForce(s, S.bodies[f.mob], SpatialVec(rvec(r, 1, 3), rvec(r, 1, 3))); out(S, s, "setParam %ld 1 %ld", fi, ++tok); }
            break;
        case K_Bushing:
            if (r.coin()) f.bush.setStiffness(s, r.range(.5, 2) * f.bush.getStiffness(s)); else f.bush.setDamping(s, r.range(.5, 2) * f.bush.getDamping(s));
            out(S, s, "setParam %ld 0 %ld", fi, ++tok); break;
        case K_Thermostat:
            if (r.coin()) { f.thermo.setBathTemperature(s, r.range(.5, 3)); out(S, s, "setParam %ld 1 %ld", fi, ++tok); }
            else { f.thermo.setRelaxationTime(s, r.range(.3, 2)); out(S, s, "setParam %ld 2 %ld", fi, ++tok); }
            break;
        case K_ProbeParam: f.probe->setParam(s, r.range(.5, 3)); out(S, s, "setParam %ld 0 %ld", fi, ++tok); break;
        case K_Gravity: {
            const int w = r.below(7);
            const Real g0 = f.grav.getMagnitude(s);
            bool changed = true; const char* setter = "setMagnitude";
            if (w == 0) { const Real g = r.below(3) == 0 ? 0.0 : r.range(1, 10); changed = g != g0; f.grav.setMagnitude(s, g); }
            else if (w == 1) { const UnitVec3 d(rvec(r, .3, 1)); changed = d != f.grav.getDownDirection(s); f.grav.setDownDirection(s, d); setter = "setDownDirection"; }
            else if (w == 2) { const Real z = r.range(-1, 1); changed = z != f.grav.getZeroHeight(s); f.grav.setZeroHeight(s, z); setter = "setZeroHeight"; }
            else if (w == 3) { const Vec3 gv = r.below(3) == 0 ? Vec3(0) : rvec(r, 1, 9);
                const Real ng = gv.norm(); const UnitVec3 nd = ng > 0 ? UnitVec3(gv / ng, true) : f.grav.getDownDirection(s);
                changed = (g0 != ng) || (f.grav.getDownDirection(s) != nd); f.grav.setGravityVector(s, gv); setter = "setGravityVector"; }
            else if (w == 4) { const MobilizedBodyIndex b(1 + r.below(S.matter.getNumBodies() - 1)); const bool e = r.coin();
                changed = e != f.grav.getBodyIsExcluded(s, b); f.grav.setBodyIsExcluded(s, b, e); setter = "setBodyIsExcluded"; }
            else if (w == 5) {      // direction-only change with exactly the same magnitude (axis aligned)
                const int ax = r.below(3); Vec3 gv(0); gv[ax] = r.coin() ? g0 : -g0;
                const UnitVec3 nd = g0 > 0 ? UnitVec3(gv / g0, true) : f.grav.getDownDirection(s);
                changed = f.grav.getDownDirection(s) != nd; f.grav.setGravityVector(s, gv); setter = "setGravityVector"; }
            else { changed = false; f.grav.setMagnitude(s, g0); }       // same value: must be a no-op
            if (changed) { std::printf("I gravSet %d 0 %ld %d %s\nO obs %s\n", fi, ++tok, f.grav.getMagnitude(s) == 0 ? 1 : 0, setter, obs(S, s).c_str()); }
            break; }
        default: break;
        }
    }
    else if (c < 60) { const bool en = r.coin(); S.forces.setForceIsDisabled(s, f.ix, !en); out(S, s, "setEnabled %ld %ld", fi, en ? 1 : 0); }
    else if (c < 78) { const int g = 3 + r.below(7); S.sys.realize(s, Stage(g)); out(S, s, "realize %ld", g); }
    else if (c < 83) matterOp(S, s, r);
    else if (c < 88) { if (s.getSystemStage() >= Stage::Position && f.kind == K_Gravity) { (void)f.grav.getBodyForces(s); out(S, s, "gravQuery %ld", fi); } }
    else if (c < 92) { if (s.getSystemStage() >= Stage::Position) { (void)S.sys.calcPotentialEnergy(s); out(S, s, "peQuery"); } }
    else doCheck(S, s, key);
}

void randomCase(vh::Rng& r) {
    Sys S; buildBodies(S, r, 1 + r.below(3));
    static const Kind subjects[] = { K_MobSpring, K_MobDamper, K_MobConst, K_MobStop, K_MobDiscrete, K_Discrete, K_Gravity, K_Bushing,
                                     K_Thermostat, K_ProbeParam };
    static const Kind background[] = { K_TPSpring, K_TPDamper, K_TPConst, K_ConstForce, K_ConstTorque, K_GlobalDamper, K_UniformGravity, K_Bushing };
    const Kind subj = subjects[r.below(10)];
    std::vector<Kind> kinds;
    const int nsub = subj == K_Thermostat ? 1 : 1 + r.below(2);
    for (int i = 0; i < nsub; ++i) kinds.push_back(subj);
    const int nbg = r.below(4);
    for (int i = 0; i < nbg; ++i) kinds.push_back(background[r.below(8)]);
    if (r.coin()) kinds.push_back(K_ProbePos);
    if (r.coin()) kinds.push_back(K_ProbeVel);
    if (r.below(3) == 0) kinds.push_back(K_ProbeTime);
    if (subj != K_Gravity && r.below(3) == 0) kinds.push_back(K_Gravity);
    for (size_t i = kinds.size(); i > 1; --i) std::swap(kinds[i - 1], kinds[r.below((int)i)]);   // shuffle
    for (Kind k : kinds) addForce(S, r, k);
    if (r.below(5) == 0) S.forces.updForce(S.fr[r.below((int)S.fr.size())].ix).setDisabledByDefault(true);
    S.sys.realizeTopology();
    State s = S.sys.getDefaultState();
    emitModel(S, s);
    const std::string key = std::string(shortName(subj)) + ".history";
    vh::D(std::string("subject=") + shortName(subj));
    long tok = 100;
    const int nops = 8 + r.below(18);
    for (int op = 0; op < nops; ++op) genericOp(S, s, r, tok, key);
    doCheck(S, s, key);
}

// ---------------------------------------------------------------------------------------------------------
// "rich" systems: Pin / Slider / Ball / Free mobilizers (Euler-angle / quaternion modelling option), constraints
// that can be enabled and disabled, mobilizer locks, an event witness function; the comparison with the fresh
// State additionally covers multipliers, constraint errors, witness values, body kinematics and the matter
// subsystem's lazily evaluated composite- and articulated-body inertias.
void buildBodiesRich(Sys& S, vh::Rng& r, int nb) {
    MobilizedBody parent = S.matter.Ground();
    for (int i = 0; i < nb; ++i) {
        const Vec3 com = rvec(r, .1, .6);
        Body::Rigid body(MassProperties(r.range(.5, 3), com, UnitInertia(r.range(.5, 2), r.range(.5, 2), r.range(.5, 2)).shiftFromCentroid(-com)));
        const Transform Xp(Rotation(r.range(-1, 1), UnitVec3(rvec(r, .3, 1))), rvec(r, .2, 1));
        const Transform Xb(rvec(r, .1, .5));
        switch (r.below(5)) {
        case 0: { MobilizedBody::Slider m(parent, Xp, body, Xb); S.bodies.push_back(m); break; }
        case 1: { MobilizedBody::Ball m(parent, Xp, body, Xb); S.bodies.push_back(m); break; }
        case 2: { MobilizedBody::Free m(parent, Xp, body, Xb); S.bodies.push_back(m); break; }
        default: { MobilizedBody::Pin m(parent, Xp, body, Xb); S.bodies.push_back(m); break; }
        }
        if (r.coin()) parent = S.bodies.back();
    }
}

void addConstraint(Sys& S, vh::Rng& r) {
    const int nb = (int)S.bodies.size();
    MobilizedBody A = S.bodies[r.below(nb)];
    MobilizedBody G = S.matter.Ground();
    switch (r.below(5)) {
    case 0: S.cons.push_back(Constraint::Rod(A, rvec(r, .1, .4), G, rvec(r, 1, 2), r.range(.8, 2))); break;
    case 1: S.cons.push_back(Constraint::Ball(G, rvec(r, .5, 1.5), A, rvec(r, .1, .4))); break;
    case 2: S.cons.push_back(Constraint::PointInPlane(G, UnitVec3(rvec(r, .3, 1)), r.range(-.5, .5), A, rvec(r, .1, .4))); break;
    case 3: S.cons.push_back(Constraint::ConstantSpeed(A, MobilizerUIndex(0), r.range(-1, 1))); break;
    default: S.cons.push_back(Constraint::ConstantAcceleration(A, MobilizerUIndex(0), r.range(-1, 1))); break;
    }
    if (r.below(3) == 0) S.cons.back().setDisabledByDefault(true);
}

void richOp(Sys& S, State& s, vh::Rng& r, long& tok) {
    const int c = r.below(100);
    if (c < 36) {                  // mobilizer locks (Instance-stage variables; locking positions also writes q and u)
        const MobilizedBody& b = S.bodies[r.below((int)S.bodies.size())];
        const int w = r.below(4);
        const Motion::Level lv = Motion::Level(1 + r.below(3)) == Motion::Level(1) ? Motion::Acceleration
                               : (r.coin() ? Motion::Velocity : Motion::Position);
        if (w == 0) b.lock(s, lv);
        else if (w == 1) { Vector v(lv == Motion::Position ? b.getNumQ(s) : b.getNumU(s)); for (int i = 0; i < v.size(); ++i) v[i] = r.range(-1, 1); b.lockAt(s, v, lv); }
        else b.unlock(s);
        out(S, s, "setInst %ld", ++tok);
        vh::D(std::string("rich_op=") + (w == 0 ? "lock" : w == 1 ? "lockAt" : "unlock"));
        if (w < 2 && lv == Motion::Position) { out(S, s, "setQ %ld", ++tok); out(S, s, "setU %ld", ++tok); }
    } else if (c < 66) {           // enable / disable a constraint
        if (S.cons.empty()) return;
        const Constraint& k = S.cons[r.below((int)S.cons.size())];
        vh::D(k.isDisabled(s) ? "rich_op=constraintEnable" : "rich_op=constraintDisable");
        if (k.isDisabled(s)) k.enable(s); else k.disable(s);
        out(S, s, "setInst %ld", ++tok);
    } else if (c < 78) {           // Euler angles <-> quaternions: a Model-stage variable
        S.matter.setUseEulerAngles(s, !S.matter.getUseEulerAngles(s));
        out(S, s, "setOpt %ld", ++tok);
        vh::D("rich_op=setUseEulerAngles");
        S.sys.realizeModel(s);
        out(S, s, "realize 2");
        // realizeModel re-created the continuous variables and the Instance-stage variables with default values
        s.setTime(r.range(0, 5)); out(S, s, "setT %ld", ++tok);
        for (int i = 0; i < s.getNQ(); ++i) s.updQ()[i] = r.range(-1, 1);
        out(S, s, "setQ %ld", ++tok);
        for (int i = 0; i < s.getNU(); ++i) s.updU()[i] = r.range(-1, 1);
        out(S, s, "setU %ld", ++tok);
        if (s.getNZ()) { for (int i = 0; i < s.getNZ(); ++i) s.updZ()[i] = r.range(0, 1); out(S, s, "setZ %ld", ++tok); }
        out(S, s, "setInst %ld", ++tok);
    } else matterOp(S, s, r);
}

void richCase(vh::Rng& r) {
    Sys S; S.rich = true;
    buildBodiesRich(S, r, 2 + r.below(2));
    static const Kind pool[] = { K_MobSpring, K_MobDamper, K_TPSpring, K_TPDamper, K_Bushing, K_Gravity, K_Gravity, K_GlobalDamper,
                                 K_Discrete, K_ProbePos, K_ProbeVel, K_ProbeTime, K_ConstForce };
    const int nf = 2 + r.below(3);
    for (int i = 0; i < nf; ++i) addForce(S, r, pool[r.below(13)]);
    const int nc = 1 + r.below(2);
    for (int i = 0; i < nc; ++i) addConstraint(S, r);
    if (r.coin()) S.bodies[r.below((int)S.bodies.size())].lockByDefault(r.coin() ? Motion::Position : Motion::Velocity);
    S.sys.addEventHandler(new Witness(S.bodies[0]));
    S.sys.realizeTopology();
    State s = S.sys.getDefaultState();
    emitModel(S, s);
    const std::string key = "constrained.history";
    vh::D("subject=constrained");
    long tok = 100;
    for (int i = 0; i < s.getNQ(); ++i) s.updQ()[i] = r.range(-1, 1);
    out(S, s, "setQ %ld", ++tok);
    for (int i = 0; i < s.getNU(); ++i) s.updU()[i] = r.range(-1, 1);
    out(S, s, "setU %ld", ++tok);
    const int nops = 10 + r.below(18);
    for (int op = 0; op < nops; ++op) { if (r.below(5) < 2) richOp(S, s, r, tok); else genericOp(S, s, r, tok, key); }
    doCheck(S, s, key);
}


// ---------------------------------------------------------------------------------------------------------
// History-independence differential for the MATTER subsystem over the full mobilizer palette.
// One State is taken through a history of {q / u changes through the various public routes, realizations to
// Position / Velocity / Dynamics / Acceleration, explicit invalidateAll(stage), reads}; at the end everything
// readable at the final stage S (body and mobilizer transforms, hinge matrix columns, system Jacobian columns,
// M e_k, MInv e_0, N e_k, composite / articulated inertias, velocities, qdot, Coriolis / gyroscopic terms, inverse
// dynamics residual, forces, udot, qdotdot, accelerations) is compared BIT FOR BIT with a fresh State that was given
// the same values and realized once to S.  Keys  matter.history.<Type>.<order>.bits_equal .

// f(x,y) = a sin x + b x y + c y : a coupled, nonlinear coordinate function for MobilizedBody::FunctionBased
struct Coupled2 : public Function {
    Coupled2(Real a, Real b, Real c) : a(a), b(b), c(c) {}
    Real calcValue(const Vector& x) const override { return a * std::sin(x[0]) + b * x[0] * x[1] + c * x[1]; }
    Real calcDerivative(const Array_<int>& d, const Vector& x) const override {
        int nx = 0, ny = 0; for (int i : d) (i == 0 ? nx : ny)++;
        if (ny == 0) { switch (nx % 4) { case 1: return a * std::cos(x[0]) + (nx == 1 ? b * x[1] : 0);
                                         case 2: return -a * std::sin(x[0]); case 3: return -a * std::cos(x[0]); default: return a * std::sin(x[0]); } }
        if (ny == 1 && nx == 0) return b * x[0] + c;
        if (ny == 1 && nx == 1) return b;
        return 0;
    }
    int getArgumentSize() const override { return 2; }
    int getMaxDerivativeOrder() const override { return 10; }
    Function* clone() const override { return new Coupled2(*this); }
    Real a, b, c;
};
struct Sin1 : public Function {           // f(x) = a sin(w x)
    Sin1(Real a, Real w) : a(a), w(w) {}
    Real calcValue(const Vector& x) const override { return a * std::sin(w * x[0]); }
    Real calcDerivative(const Array_<int>& d, const Vector& x) const override {
        const Real k = a * std::pow(w, (Real)d.size());
        switch (d.size() % 4) { case 1: return k * std::cos(w * x[0]); case 2: return -k * std::sin(w * x[0]);
                                case 3: return -k * std::cos(w * x[0]); default: return k * std::sin(w * x[0]); }
    }
    int getArgumentSize() const override { return 1; }
    int getMaxDerivativeOrder() const override { return 10; }
    Function* clone() const override { return new Sin1(*this); }
    Real a, w;
};

// user-written mobilizer with a q-dependent hinge matrix: polar coordinates in the x-y plane of F
// (q0 = angle about z, q1 = radius); H = [ (0,0,1) , 0 ; q1 (-s,c,0) , (c,s,0) ]
struct PolarMobilizer : public MobilizedBody::Custom::Implementation {
    explicit PolarMobilizer(SimbodyMatterSubsystem& m) : Implementation(m, 2, 2, 0) {}
    Implementation* clone() const override { return new PolarMobilizer(*this); }
    Transform calcMobilizerTransformFromQ(const State&, int, const Real* q) const override {
        return Transform(Rotation(q[0], ZAxis), Vec3(q[1] * std::cos(q[0]), q[1] * std::sin(q[0]), 0)); }
    SpatialVec multiplyByHMatrix(const State& s, int, const Real* u) const override {
        const Vector q = getQ(s); const Real c = std::cos(q[0]), sn = std::sin(q[0]);
        return SpatialVec(Vec3(0, 0, u[0]), u[0] * q[1] * Vec3(-sn, c, 0) + u[1] * Vec3(c, sn, 0)); }
    void multiplyByHTranspose(const State& s, const SpatialVec& F, int, Real* f) const override {
        const Vector q = getQ(s); const Real c = std::cos(q[0]), sn = std::sin(q[0]);
        f[0] = F[0][2] + q[1] * dot(Vec3(-sn, c, 0), F[1]); f[1] = dot(Vec3(c, sn, 0), F[1]); }
    SpatialVec multiplyByHDotMatrix(const State& s, int, const Real* u) const override {
        const Vector q = getQ(s), v = getU(s); const Real c = std::cos(q[0]), sn = std::sin(q[0]);
        const Vec3 h0d = v[1] * Vec3(-sn, c, 0) + q[1] * v[0] * Vec3(-c, -sn, 0), h1d = v[0] * Vec3(-sn, c, 0);
        return SpatialVec(Vec3(0), u[0] * h0d + u[1] * h1d); }
    void multiplyByHDotTranspose(const State& s, const SpatialVec& F, int, Real* f) const override {
        const Vector q = getQ(s), v = getU(s); const Real c = std::cos(q[0]), sn = std::sin(q[0]);
        const Vec3 h0d = v[1] * Vec3(-sn, c, 0) + q[1] * v[0] * Vec3(-c, -sn, 0), h1d = v[0] * Vec3(-sn, c, 0);
        f[0] = dot(h0d, F[1]); f[1] = dot(h1d, F[1]); }
    void setQToFitTransform(const State&, const Transform& X, int, Real* q) const override {
        q[0] = std::atan2(X.p()[1], X.p()[0]); q[1] = std::sqrt(X.p()[0] * X.p()[0] + X.p()[1] * X.p()[1]); }
    void setUToFitVelocity(const State&, const SpatialVec& V, int, Real* u) const override { u[0] = V[0][2]; u[1] = V[1][0]; }
};

enum MType { M_Pin, M_Slider, M_Cylinder, M_BendStretch, M_Universal, M_Planar, M_Gimbal, M_Bushing, M_Ball, M_Free, M_Translation,
             M_Screw, M_SphericalCoords, M_Ellipsoid, M_LineOrientation, M_FreeLine, M_FunctionBased, M_FunctionBasedCoupled, M_Custom, M_NTYPES };
const char* const MTYPE_NAMES[M_NTYPES] = { "Pin", "Slider", "Cylinder", "BendStretch", "Universal", "Planar", "Gimbal", "Bushing", "Ball", "Free",
    "Translation", "Screw", "SphericalCoords", "Ellipsoid", "LineOrientation", "FreeLine", "FunctionBased", "FunctionBasedCoupled", "Custom" };

MobilizedBody addMobilizer(Sys& S, vh::Rng& r, MobilizedBody parent, int t, bool rev) {
    const Vec3 com = rvec(r, .1, .5);
    Body::Rigid body(MassProperties(r.range(.5, 3), com, UnitInertia(r.range(.5, 2), r.range(.5, 2), r.range(.5, 2)).shiftFromCentroid(-com)));
    const Transform F(Rotation(r.range(-1, 1), UnitVec3(rvec(r, .3, 1))), rvec(r, .2, 1));
    const Transform M(Rotation(r.range(-1, 1), UnitVec3(rvec(r, .3, 1))), rvec(r, .1, .5));
    const MobilizedBody::Direction d = rev ? MobilizedBody::Reverse : MobilizedBody::Forward;
    switch (t) {
    case M_Pin: return MobilizedBody::Pin(parent, F, body, M, d);
    case M_Slider: return MobilizedBody::Slider(parent, F, body, M, d);
    case M_Cylinder: return MobilizedBody::Cylinder(parent, F, body, M, d);
    case M_BendStretch: return MobilizedBody::BendStretch(parent, F, body, M, d);
    case M_Universal: return MobilizedBody::Universal(parent, F, body, M, d);
    case M_Planar: return MobilizedBody::Planar(parent, F, body, M, d);
    case M_Gimbal: return MobilizedBody::Gimbal(parent, F, body, M, d);
    case M_Bushing: return MobilizedBody::Bushing(parent, F, body, M, d);
    case M_Ball: return MobilizedBody::Ball(parent, F, body, M, d);
    case M_Free: return MobilizedBody::Free(parent, F, body, M, d);
    case M_Translation: return MobilizedBody::Translation(parent, F, body, M, d);
    case M_Screw: return MobilizedBody::Screw(parent, F, body, M, r.range(.2, 1), d);
    case M_SphericalCoords: return MobilizedBody::SphericalCoords(parent, F, body, M, r.range(-.5, .5), r.coin(), r.range(-.5, .5), r.coin(),
                                                                 r.coin() ? CoordinateAxis(XAxis) : CoordinateAxis(ZAxis), r.coin(), d);
    case M_Ellipsoid: return MobilizedBody::Ellipsoid(parent, F, body, M, Vec3(r.range(.3, 1), r.range(.3, 1), r.range(.3, 1)), d);
    case M_LineOrientation: return MobilizedBody::LineOrientation(parent, F, body, M, d);
    case M_FreeLine: return MobilizedBody::FreeLine(parent, F, body, M, d);
    case M_FunctionBased: case M_FunctionBasedCoupled: {
        // 3 mobilities; spatial functions (body-fixed x,y,z rotations, then x,y,z translations)
        std::vector<const Function*> fn; std::vector<std::vector<int> > ix;
        Vector lin(2); lin[0] = 1; lin[1] = 0;
        fn.push_back(new Function::Linear(lin)); ix.push_back({0});
        fn.push_back(new Function::Linear(lin)); ix.push_back({1});
        if (t == M_FunctionBasedCoupled) { fn.push_back(new Coupled2(r.range(.3, 1), r.range(.3, 1), r.range(-.5, .5))); ix.push_back({0, 1}); }
        else { fn.push_back(new Function::Linear(lin)); ix.push_back({2}); }
        fn.push_back(new Sin1(r.range(.3, 1), r.range(.5, 2))); ix.push_back({t == M_FunctionBasedCoupled ? 2 : 0});
        if (t == M_FunctionBasedCoupled) { fn.push_back(new Coupled2(r.range(.3, 1), r.range(.3, 1), r.range(-.5, .5))); ix.push_back({2, 0}); }
        else { fn.push_back(new Function::Constant(0, 0)); ix.push_back({}); }
        fn.push_back(new Function::Constant(0, 0)); ix.push_back({});
        return MobilizedBody::FunctionBased(parent, F, body, M, 3, fn, ix, d); }
    default: return MobilizedBody::Custom(parent, new PolarMobilizer(S.matter), F, body, M, d);
    }
}

void pushSV(std::vector<double>& v, const SpatialVec& x) { for (int i = 0; i < 2; ++i) for (int j = 0; j < 3; ++j) v.push_back(x[i][j]); }

// everything readable at `stage` (5..8); the composite / articulated inertias must have been realized by the caller
std::vector<double> matterDigest(const Sys& S, const State& s, int stage) {
    std::vector<double> d; const SimbodyMatterSubsystem& m = S.matter;
    const int nb = m.getNumBodies(), nu = s.getNU();
    if (stage >= 5) {
        for (MobilizedBodyIndex b(1); b < nb; ++b) {
            const MobilizedBody& mb = m.getMobilizedBody(b);
            pushMat(d, mb.getBodyTransform(s).toMat34()); pushMat(d, mb.getMobilizerTransform(s).toMat34());
            for (int k = 0; k < mb.getNumU(s); ++k) { pushSV(d, mb.getHCol(s, MobilizerUIndex(k))); pushSV(d, mb.getH_FMCol(s, MobilizerUIndex(k))); }
            const SpatialMat C = m.getCompositeBodyInertia(s, b).toSpatialMat(), P = m.getArticulatedBodyInertia(s, b).toSpatialMat();
            for (int i = 0; i < 2; ++i) for (int j = 0; j < 2; ++j) { pushMat(d, C(i, j)); pushMat(d, P(i, j)); }
        }
        Vector e(nu, 0.0), Me, qd, Mi; Vector_<SpatialVec> Je;
        for (int k = 0; k < nu; ++k) {
            e = 0; e[k] = 1;
            m.multiplyBySystemJacobian(s, e, Je); for (int b = 0; b < Je.size(); ++b) pushSV(d, Je[b]);
            m.multiplyByM(s, e, Me); push(d, Me);
            m.multiplyByN(s, false, e, qd); push(d, qd);
            if (k == 0 || k == nu - 1) { m.multiplyByMInv(s, e, Mi); push(d, Mi); }
        }
        push(d, s.getQErr());
        for (const Constraint& c : S.cons) if (!c.isDisabled(s)) push(d, c.getPositionErrorsAsVector(s));
    }
    if (stage >= 6) {
        for (const Constraint& c : S.cons) if (!c.isDisabled(s)) push(d, c.getVelocityErrorsAsVector(s));
        if (!S.cons.empty()) {
            Vector bias, aerr; m.calcBiasForAccelerationConstraints(s, bias); push(d, bias);
            Vector ud(nu); for (int i = 0; i < nu; ++i) ud[i] = .25 * (i + 1);
            m.calcConstraintAccelerationErrors(s, ud, aerr); push(d, aerr);
            Vector bg; m.calcBiasForMultiplyByG(s, bg); push(d, bg);
        }
        for (MobilizedBodyIndex b(1); b < nb; ++b) {
            const MobilizedBody& mb = m.getMobilizedBody(b);
            pushSV(d, mb.getBodyVelocity(s)); pushSV(d, mb.getMobilizerVelocity(s));
            pushSV(d, m.getTotalCoriolisAcceleration(s, b)); pushSV(d, m.getMobilizerCoriolisAcceleration(s, b)); pushSV(d, m.getGyroscopicForce(s, b));
        }
        push(d, s.getQDot()); push(d, s.getUErr());
        Vector resid; m.calcResidualForceIgnoringConstraints(s, Vector(), Vector_<SpatialVec>(), Vector(), resid); push(d, resid);
    }
    if (stage >= 7) {
        push(d, S.sys.getMobilityForces(s, Stage::Dynamics));
        const Vector_<SpatialVec>& bf = S.sys.getRigidBodyForces(s, Stage::Dynamics); for (int b = 0; b < bf.size(); ++b) pushSV(d, bf[b]);
    }
    if (stage >= 8) {
        push(d, s.getUDot()); push(d, s.getQDotDot()); push(d, s.getUDotErr());
        for (const Constraint& c : S.cons) if (!c.isDisabled(s)) {
            push(d, c.getAccelerationErrorsAsVector(s)); push(d, c.getMultipliersAsVector(s));
            Vector_<SpatialVec> bf; Vector mf; c.getConstraintForcesAsVectors(s, bf, mf);
            for (int b = 0; b < bf.size(); ++b) pushSV(d, bf[b]); push(d, mf);
        }
        for (MobilizedBodyIndex b(1); b < nb; ++b) { pushSV(d, m.getMobilizedBody(b).getBodyAcceleration(s)); pushSV(d, m.getTotalCentrifugalForces(s, b)); }
        // mobilizer reactions (read from the tree acceleration cache), constraint / motion forces, multipliers, system momentum
        Vector_<SpatialVec> reac; m.calcMobilizerReactionForces(s, reac); for (int b = 0; b < reac.size(); ++b) pushSV(d, reac[b]);
        for (MobilizedBodyIndex b(1); b < nb; ++b) {
            const MobilizedBody& mb = m.getMobilizedBody(b);
            pushSV(d, mb.findMobilizerReactionOnBodyAtMInGround(s)); pushSV(d, mb.findMobilizerReactionOnParentAtFInGround(s));
            pushSV(d, mb.findMobilizerReactionOnBodyAtOriginInGround(s));
        }
        push(d, s.getMultipliers());
        Vector_<SpatialVec> cf; Vector cm, mf; m.findConstraintForces(s, cf, cm); for (int b = 0; b < cf.size(); ++b) pushSV(d, cf[b]); push(d, cm);
        m.findMotionForces(s, mf); push(d, mf);
        pushSV(d, m.calcSystemMomentumAboutGroundOrigin(s)); pushSV(d, m.calcSystemCentralMomentum(s));
        const Vec3 c0 = m.calcSystemMassCenterLocationInGround(s), c1 = m.calcSystemMassCenterVelocityInGround(s), c2 = m.calcSystemMassCenterAccelerationInGround(s);
        for (int i = 0; i < 3; ++i) { d.push_back(c0[i]); d.push_back(c1[i]); d.push_back(c2[i]); }
        d.push_back(m.calcKineticEnergy(s));
    }
    return d;
}

// 0 if bit-for-bit equal; otherwise the relative difference (at least the smallest positive double)
double bitsDiff(const std::vector<double>& a, const std::vector<double>& b) {
    if (a.size() != b.size()) return INFINITY;
    if (a.empty() || std::memcmp(a.data(), b.data(), a.size() * sizeof(double)) == 0) return 0;
    return std::max(relDiffVec(a, b), 4.9e-324);
}

struct MatterSys { Sys S; bool euler = false; std::string type; };

void buildMatterForces(Sys& S, vh::Rng& r) {
    addForce(S, r, K_UniformGravity); addForce(S, r, K_GlobalDamper); addForce(S, r, K_MobConst);
}

State matterFresh(const MatterSys& M, const Vector& q, const Vector& u, Real t, int stage, const State* flagsFrom = nullptr) {
    State f = M.S.sys.getDefaultState();
    if (M.euler) { M.S.matter.setUseEulerAngles(f, true); M.S.sys.realizeModel(f); }
    if (flagsFrom) for (const Constraint& c : M.S.cons) { if (c.isDisabled(*flagsFrom)) c.disable(f); else c.enable(f); }
    f.setTime(t); f.setQ(q); f.setU(u);
    M.S.sys.realize(f, Stage(stage));
    M.S.matter.realizeCompositeBodyInertias(f); M.S.matter.realizeArticulatedBodyInertias(f);
    return f;
}

struct MatterRun {          // one State and the bookkeeping of its history
    const MatterSys& M; State s; long tok = 100; vh::Rng& r;
    Vector qPrev, uPrev;      // values before the last change (to tell whether the change mattered)
    MatterRun(const MatterSys& M, vh::Rng& r) : M(M), s(M.S.sys.getDefaultState()), r(r) {
        emitModel(M.S, s);
        if (M.euler) { M.S.matter.setUseEulerAngles(s, true); out(M.S, s, "setOpt %ld", ++tok); M.S.sys.realizeModel(s); out(M.S, s, "realize 2"); }
        Vector q(s.getNQ()), u(s.getNU());
        for (int i = 0; i < q.size(); ++i) q[i] = r.signedMag(.2, 1);
        for (int i = 0; i < u.size(); ++i) u[i] = r.signedMag(.2, 1);
        s.setQ(q); out(M.S, s, "setQ %ld", ++tok);
        s.setU(u); out(M.S, s, "setU %ld", ++tok);
        qPrev = q; uPrev = u;
    }
    void changeQ() {          // through one of the public routes; every coordinate of the subject changes
        qPrev = s.getQ();
        const int route = r.below(4);
        if (route == 0) { Vector q(s.getNQ()); for (int i = 0; i < q.size(); ++i) q[i] = r.signedMag(.2, 1); s.setQ(q); }
        else if (route == 1) { for (int i = 0; i < s.getNQ(); ++i) s.updQ()[i] = r.signedMag(.2, 1); }
        else if (route == 2) { for (const MobilizedBody& b : M.S.bodies) for (int i = 0; i < b.getNumQ(s); ++i) b.setOneQ(s, i, r.signedMag(.2, 1)); }
        else { for (const MobilizedBody& b : M.S.bodies) { Vector v(b.getNumQ(s)); for (int i = 0; i < v.size(); ++i) v[i] = r.signedMag(.2, 1); b.setQFromVector(s, v); } }
        out(M.S, s, "setQ %ld", ++tok);
    }
    void changeU() {
        uPrev = s.getU();
        const int route = r.below(4);
        if (route == 0) { Vector u(s.getNU()); for (int i = 0; i < u.size(); ++i) u[i] = r.signedMag(.2, 1); s.setU(u); }
        else if (route == 1) { for (int i = 0; i < s.getNU(); ++i) s.updU()[i] = r.signedMag(.2, 1); }
        else if (route == 2) { for (const MobilizedBody& b : M.S.bodies) for (int i = 0; i < b.getNumU(s); ++i) b.setOneU(s, i, r.signedMag(.2, 1)); }
        else { for (const MobilizedBody& b : M.S.bodies) { Vector v(b.getNumU(s)); for (int i = 0; i < v.size(); ++i) v[i] = r.signedMag(.2, 1); b.setUFromVector(s, v); } }
        out(M.S, s, "setU %ld", ++tok);
    }
    void realize(int g) { M.S.sys.realize(s, Stage(g)); out(M.S, s, "realize %ld", g); }
    void toggleConstraint() {
        if (M.S.cons.empty()) return;
        const Constraint& c = M.S.cons[r.below((int)M.S.cons.size())];
        if (c.isDisabled(s)) c.enable(s); else c.disable(s);
        out(M.S, s, "setInst %ld", ++tok);
    }
    void invalidate(int g) { s.invalidateAll(Stage(g)); out(M.S, s, "invalAll %ld", g); }
    void askLazy() {          // composite / articulated inertias are only computed on request
        M.S.matter.realizeCompositeBodyInertias(s); out(M.S, s, "mRealize cbi");
        M.S.matter.realizeArticulatedBodyInertias(s); out(M.S, s, "mRealize abi");
    }
    void read() { const int g = (int)s.getSystemStage(); if (g >= 5) { askLazy(); (void)matterDigest(M.S, s, std::min(g, 8)); } }
    // compare with a fresh State at the current stage; returns whether the last change of q / u was visible
    bool finish(const std::string& order) {
        const int g = std::min((int)s.getSystemStage(), 8);
        askLazy();
        const std::vector<double> a = matterDigest(M.S, s, g);
        const State f = matterFresh(M, s.getQ(), s.getU(), s.getTime(), g, &s);
        const std::vector<double> b = matterDigest(M.S, f, g);
        vh::P("sameBitsAsFreshState", "matter.history." + M.type + "." + order + ".bits_equal", bitsDiff(a, b), 0.0);
        const State o = matterFresh(M, qPrev, uPrev, s.getTime(), g, &s);
        const bool visible = bitsDiff(matterDigest(M.S, o, g), b) > 0;
        vh::D("matter_class=" + M.type + "." + order + (visible ? "" : ".NO_EFFECT"));
        return visible;
    }
};

const char* const MATTER_ORDERS[] = { "P_q_P", "P_q_P_V", "V_u_V", "V_q_V", "A_q_P_A", "P_q_A", "A_u_A", "random" };
const int N_MATTER_ORDERS = 8;

bool matterOrder(const MatterSys& M, vh::Rng& r, int order) {
    MatterRun h(M, r);
    switch (order) {
    case 0: h.realize(5); h.changeQ(); h.realize(5); break;
    case 1: h.realize(5); h.changeQ(); h.realize(5); h.realize(6); break;
    case 2: h.realize(6); h.changeU(); h.realize(6); break;
    case 3: h.realize(6); h.changeQ(); h.realize(6); break;
    case 4: h.realize(8); h.changeQ(); h.realize(5); h.realize(8); break;
    case 5: h.realize(5); h.changeQ(); h.realize(8); break;
    case 6: h.realize(8); h.changeU(); h.realize(8); break;
    default: {
        const int nops = 5 + r.below(12);
        for (int i = 0; i < nops; ++i) {
            const int c = r.below(100);
            if (c < 25) h.changeQ(); else if (c < 40) h.changeU(); else if (c < 75) h.realize(5 + r.below(4));
            else if (c < 85) h.invalidate(3 + r.below(6)); else if (c < 93 || M.S.cons.empty()) h.read(); else h.toggleConstraint();
        }
        // end with all constraints enabled (the subject must act), then a last change and realization
        for (const Constraint& k : M.S.cons) if (k.isDisabled(h.s)) { k.enable(h.s); out(M.S, h.s, "setInst %ld", ++h.tok); }
        if (r.coin()) h.changeQ(); else h.changeU();
        if (r.coin()) h.realize(5 + r.below(2));
        h.realize(5 + r.below(4));
        break; }
    }
    return h.finish(MATTER_ORDERS[order]);
}

// every mobilizer type (forward and reversed) as the middle body of a 3-body chain, every order class
void matterDirected(vh::Rng& r) {
    int missing = 0;
    for (int t = 0; t < M_NTYPES; ++t) for (int rev = 0; rev < 2; ++rev) {
        MatterSys M; M.type = std::string(MTYPE_NAMES[t]) + (rev ? "_reversed" : "");
        M.euler = r.coin();
        // neighbours from a small set of plain built-in types, so that a failing key names the culprit (arbitrary
        // combinations are the business of the `mixed` random cases)
        static const int plain[4] = { M_Pin, M_Slider, M_Universal, M_Ball };
        MobilizedBody a = addMobilizer(M.S, r, M.S.matter.Ground(), plain[r.below(4)], r.coin());
        MobilizedBody b = addMobilizer(M.S, r, a, t, rev != 0);
        MobilizedBody c = addMobilizer(M.S, r, b, plain[r.below(4)], r.coin());
        M.S.bodies = { a, b, c };
        buildMatterForces(M.S, r);
        M.S.sys.realizeTopology();
        for (int o = 0; o < N_MATTER_ORDERS; ++o) if (!matterOrder(M, r, o) && o != 7) ++missing;
    }
    // floor: every (type, order) class must have been exercised with a change that is visible in the compared quantities
    vh::P("everyMatterClassExercised", "matter.history.coverage_floor", missing, 0.0);
}

// ---------------------------------------------------------------------------------------------------------
// Operators taking a `const State&` must not disturb what the State reports: realize(Acceleration), call an operator
// with random ("what-if") arguments, then take the digest WITHOUT re-realizing and compare it bit for bit with a
// fresh State that was realized once and saw no operator call.  Keys matter.history.constop.<Operator>.bits_equal .
Vector rvecN(vh::Rng& r, int n) { Vector v(n); for (int i = 0; i < n; ++i) v[i] = r.signedMag(.2, 3); return v; }
Vector_<SpatialVec> rsvN(vh::Rng& r, int n) { Vector_<SpatialVec> v(n); for (int i = 0; i < n; ++i) v[i] = SpatialVec(rvec(r, .2, 3), rvec(r, .2, 3)); return v; }

struct ConstOp { const char* name; std::function<bool(const Sys&, const State&, vh::Rng&)> call; };   // returns false if it could not act

const std::vector<ConstOp>& constOps() {
    static const std::vector<ConstOp> ops = {
        { "calcAccelerationIgnoringConstraints", [](const Sys& S, const State& s, vh::Rng& r) { Vector ud; Vector_<SpatialVec> A;
            S.matter.calcAccelerationIgnoringConstraints(s, rvecN(r, s.getNU()), rsvN(r, S.matter.getNumBodies()), ud, A); return true; } },
        { "calcAcceleration", [](const Sys& S, const State& s, vh::Rng& r) { Vector ud; Vector_<SpatialVec> A;
            S.matter.calcAcceleration(s, rvecN(r, s.getNU()), rsvN(r, S.matter.getNumBodies()), ud, A); return true; } },
        { "multiplyByM", [](const Sys& S, const State& s, vh::Rng& r) { Vector o; S.matter.multiplyByM(s, rvecN(r, s.getNU()), o); return true; } },
        { "multiplyByMInv", [](const Sys& S, const State& s, vh::Rng& r) { Vector o; S.matter.multiplyByMInv(s, rvecN(r, s.getNU()), o); return true; } },
        { "calcM", [](const Sys& S, const State& s, vh::Rng&) { Matrix M; S.matter.calcM(s, M); return true; } },
        { "calcMInv", [](const Sys& S, const State& s, vh::Rng&) { Matrix M; S.matter.calcMInv(s, M); return true; } },
        { "calcProjectedMInv", [](const Sys& S, const State& s, vh::Rng&) { Matrix M; S.matter.calcProjectedMInv(s, M); return s.getNMultipliers() > 0; } },
        { "calcResidualForce", [](const Sys& S, const State& s, vh::Rng& r) { Vector o;
            S.matter.calcResidualForce(s, rvecN(r, s.getNU()), rsvN(r, S.matter.getNumBodies()), rvecN(r, s.getNU()), rvecN(r, s.getNMultipliers()), o); return true; } },
        { "calcResidualForceIgnoringConstraints", [](const Sys& S, const State& s, vh::Rng& r) { Vector o;
            S.matter.calcResidualForceIgnoringConstraints(s, rvecN(r, s.getNU()), rsvN(r, S.matter.getNumBodies()), rvecN(r, s.getNU()), o); return true; } },
        { "multiplyBySystemJacobian", [](const Sys& S, const State& s, vh::Rng& r) { Vector_<SpatialVec> o; S.matter.multiplyBySystemJacobian(s, rvecN(r, s.getNU()), o); return true; } },
        { "multiplyBySystemJacobianTranspose", [](const Sys& S, const State& s, vh::Rng& r) { Vector o; S.matter.multiplyBySystemJacobianTranspose(s, rsvN(r, S.matter.getNumBodies()), o); return true; } },
        { "calcSystemJacobian", [](const Sys& S, const State& s, vh::Rng&) { Matrix J; S.matter.calcSystemJacobian(s, J); return true; } },
        { "calcBiasForSystemJacobian", [](const Sys& S, const State& s, vh::Rng&) { Vector_<SpatialVec> o; S.matter.calcBiasForSystemJacobian(s, o); return true; } },
        { "multiplyByStationJacobian", [](const Sys& S, const State& s, vh::Rng& r) {
            (void)S.matter.multiplyByStationJacobian(s, MobilizedBodyIndex(S.matter.getNumBodies() - 1), rvec(r, .1, .5), rvecN(r, s.getNU())); return true; } },
        { "calcBiasForStationJacobian", [](const Sys& S, const State& s, vh::Rng& r) {
            (void)S.matter.calcBiasForStationJacobian(s, MobilizedBodyIndex(S.matter.getNumBodies() - 1), rvec(r, .1, .5)); return true; } },
        { "calcTreeEquivalentMobilityForces", [](const Sys& S, const State& s, vh::Rng& r) { Vector o; S.matter.calcTreeEquivalentMobilityForces(s, rsvN(r, S.matter.getNumBodies()), o); return true; } },
        { "calcCompositeBodyInertias", [](const Sys& S, const State& s, vh::Rng&) { Array_<SpatialInertia, MobilizedBodyIndex> R; S.matter.calcCompositeBodyInertias(s, R); return true; } },
        { "calcMobilizerReactionForces", [](const Sys& S, const State& s, vh::Rng&) { Vector_<SpatialVec> o; S.matter.calcMobilizerReactionForces(s, o); return true; } },
        { "calcConstraintForcesFromMultipliers", [](const Sys& S, const State& s, vh::Rng& r) { Vector_<SpatialVec> bf; Vector mf;
            S.matter.calcConstraintForcesFromMultipliers(s, rvecN(r, s.getNMultipliers()), bf, mf); return s.getNMultipliers() > 0; } },
        { "multiplyByG", [](const Sys& S, const State& s, vh::Rng& r) { Vector o; S.matter.multiplyByG(s, rvecN(r, s.getNU()), o); return o.size() > 0; } },
        { "multiplyByGTranspose", [](const Sys& S, const State& s, vh::Rng& r) { Vector o; S.matter.multiplyByGTranspose(s, rvecN(r, s.getNMultipliers()), o); return s.getNMultipliers() > 0; } },
        { "calcG", [](const Sys& S, const State& s, vh::Rng&) { Matrix G; S.matter.calcG(s, G); return G.nrow() > 0; } },
        { "calcGTranspose", [](const Sys& S, const State& s, vh::Rng&) { Matrix G; S.matter.calcGTranspose(s, G); return G.ncol() > 0; } },
        { "multiplyByPq", [](const Sys& S, const State& s, vh::Rng& r) { Vector o; S.matter.multiplyByPq(s, rvecN(r, s.getNQ()), o); return true; } },
        { "multiplyByPqTranspose", [](const Sys& S, const State& s, vh::Rng& r) { Vector b, o; S.matter.calcBiasForMultiplyByPq(s, b);
            S.matter.multiplyByPqTranspose(s, rvecN(r, b.size()), o); return true; } },
        { "calcPq", [](const Sys& S, const State& s, vh::Rng&) { Matrix P; S.matter.calcPq(s, P); return true; } },
        { "multiplyByPV", [](const Sys& S, const State& s, vh::Rng& r) { Vector o; S.matter.multiplyByPV(s, rvecN(r, s.getNU()), o); return true; } },
        { "calcBiasForMultiplyByG", [](const Sys& S, const State& s, vh::Rng&) { Vector b; S.matter.calcBiasForMultiplyByG(s, b); return b.size() > 0; } },
        { "calcBiasForAccelerationConstraints", [](const Sys& S, const State& s, vh::Rng&) { Vector b; S.matter.calcBiasForAccelerationConstraints(s, b); return b.size() > 0; } },
        { "calcConstraintAccelerationErrors", [](const Sys& S, const State& s, vh::Rng& r) { Vector o; S.matter.calcConstraintAccelerationErrors(s, rvecN(r, s.getNU()), o); return o.size() > 0; } },
        { "calcBodyAccelerationFromUDot", [](const Sys& S, const State& s, vh::Rng& r) { Vector_<SpatialVec> A; S.matter.calcBodyAccelerationFromUDot(s, rvecN(r, s.getNU()), A); return true; } },
        { "calcQDot", [](const Sys& S, const State& s, vh::Rng& r) { Vector o; S.matter.calcQDot(s, rvecN(r, s.getNU()), o); return true; } },
        { "calcQDotDot", [](const Sys& S, const State& s, vh::Rng& r) { Vector o; S.matter.calcQDotDot(s, rvecN(r, s.getNU()), o); return true; } },
        { "multiplyByN", [](const Sys& S, const State& s, vh::Rng& r) { Vector o; S.matter.multiplyByN(s, false, rvecN(r, s.getNU()), o); S.matter.multiplyByN(s, true, rvecN(r, s.getNQ()), o); return true; } },
        { "multiplyByNInv", [](const Sys& S, const State& s, vh::Rng& r) { Vector o; S.matter.multiplyByNInv(s, false, rvecN(r, s.getNQ()), o); S.matter.multiplyByNInv(s, true, rvecN(r, s.getNU()), o); return true; } },
        { "multiplyByNDot", [](const Sys& S, const State& s, vh::Rng& r) { Vector o; S.matter.multiplyByNDot(s, false, rvecN(r, s.getNU()), o); S.matter.multiplyByNDot(s, true, rvecN(r, s.getNQ()), o); return true; } },
        { "findConstraintForces", [](const Sys& S, const State& s, vh::Rng&) { Vector_<SpatialVec> bf; Vector mf; S.matter.findConstraintForces(s, bf, mf); return true; } },
        { "findMotionForces", [](const Sys& S, const State& s, vh::Rng&) { Vector mf; S.matter.findMotionForces(s, mf); return true; } },
        { "calcKineticEnergy", [](const Sys& S, const State& s, vh::Rng&) { (void)S.matter.calcKineticEnergy(s); return true; } },
        { "calcSystemMomentum", [](const Sys& S, const State& s, vh::Rng&) { (void)S.matter.calcSystemCentralMomentum(s); (void)S.matter.calcSystemMassPropertiesInGround(s); return true; } },
        { "calcPotentialEnergy", [](const Sys& S, const State& s, vh::Rng&) { (void)S.sys.calcPotentialEnergy(s); return true; } },
    };
    return ops;
}

void buildConstOpSystem(MatterSys& M, vh::Rng& r) {
    M.euler = r.coin();
    const int nb = 2 + r.below(3);
    for (int i = 0; i < nb; ++i) {
        MobilizedBody parent = (i == 0 || r.below(4) == 0) ? (MobilizedBody)M.S.matter.Ground() : M.S.bodies[r.below(i)];
        M.S.bodies.push_back(addMobilizer(M.S, r, parent, r.below(M_NTYPES), r.coin()));
    }
    buildMatterForces(M.S, r);
    const int nc = 1 + r.below(2);
    for (int i = 0; i < nc; ++i) { addConstraint(M.S, r); M.S.cons.back().setDisabledByDefault(false); }
    if (r.below(3) == 0) M.S.bodies[r.below(nb)].lockByDefault(r.coin() ? Motion::Velocity : Motion::Acceleration);   // motion forces
    M.S.sys.realizeTopology();
}

// which = index into constOps(), or -1: a random subset (own key)
bool constOpCase(vh::Rng& r, int which) {
    MatterSys M; M.type = "constop";
    buildConstOpSystem(M, r);
    MatterRun h(M, r);
    if (r.coin()) { h.realize(5 + r.below(4)); if (r.coin()) h.changeQ(); else h.changeU(); }
    h.realize(8);
    const std::vector<ConstOp>& ops = constOps();
    bool acted = true; std::string name;
    if (which >= 0) { name = ops[which].name; acted = ops[which].call(M.S, h.s, r); }
    else { name = "random_subset"; const int k = 2 + r.below(6); for (int i = 0; i < k; ++i) { const ConstOp& o = ops[r.below((int)ops.size())]; o.call(M.S, h.s, r); vh::D(std::string("constop_in_subset=") + o.name); } }
    h.askLazy();
    const std::vector<double> a = matterDigest(M.S, h.s, 8);
    const State f = matterFresh(M, h.s.getQ(), h.s.getU(), h.s.getTime(), 8);
    const std::vector<double> b = matterDigest(M.S, f, 8);
    vh::P("sameBitsAsFreshState", "matter.history.constop." + name + ".bits_equal", bitsDiff(a, b), 0.0);
    vh::D("constop=" + name + (acted ? "" : ".NOT_APPLICABLE"));
    return acted;
}

void constOpDirected(vh::Rng& r) {
    const int nops = (int)constOps().size();
    int missing = 0;
    for (int k = 0; k < nops; ++k) {
        int acted = 0;
        for (int rep = 0; rep < 3; ++rep) acted += constOpCase(r, k) ? 1 : 0;
        if (!acted) ++missing;
    }
    for (int rep = 0; rep < 6; ++rep) constOpCase(r, -1);
    // floor: every operator was called at least once on a system where it has something to do
    vh::P("everyConstOperatorExercised", "matter.history.constop.coverage_floor", missing, 0.0);
}

// ---------------------------------------------------------------------------------------------------------
// CONSTRAINT subjects: one small tree (two Free bodies on Ground, a Pin body on the first) with exactly one enabled
// constraint of the given type, the same order classes on ONE State; keys matter.history.constraint.<Type>.<order> .
struct Lin2 : public Function {          // f(x, y) = a x + b y + c x y  (coordinate / speed couplers)
    Lin2(Real a, Real b, Real c) : a(a), b(b), c(c) {}
    Real calcValue(const Vector& x) const override { return a * x[0] + b * x[1] + c * x[0] * x[1]; }
    Real calcDerivative(const Array_<int>& d, const Vector& x) const override {
        if (d.size() == 1) return d[0] == 0 ? a + c * x[1] : b + c * x[0];
        if (d.size() == 2 && d[0] != d[1]) return c;
        return 0; }
    int getArgumentSize() const override { return 2; }
    int getMaxDerivativeOrder() const override { return 10; }
    Function* clone() const override { return new Lin2(*this); }
    Real a, b, c;
};

enum CType { C_Rod, C_Ball, C_Weld, C_PointInPlane, C_PointOnLine, C_ConstantAngle, C_ConstantOrientation, C_NoSlip1D, C_ConstantSpeed,
             C_ConstantAcceleration, C_ConstantCoordinate, C_CoordinateCoupler, C_SpeedCoupler, C_PrescribedMotion, C_PointOnPlaneContact,
             C_SphereOnPlaneContact, C_SphereOnPlaneContactRolling, C_SphereOnSphereContact, C_SphereOnSphereContactRolling,
             C_LineOnLineContact, C_LineOnLineContactRolling, C_NTYPES };
const char* const CTYPE_NAMES[C_NTYPES] = { "Rod", "Ball", "Weld", "PointInPlane", "PointOnLine", "ConstantAngle", "ConstantOrientation", "NoSlip1D",
    "ConstantSpeed", "ConstantAcceleration", "ConstantCoordinate", "CoordinateCoupler", "SpeedCoupler", "PrescribedMotion", "PointOnPlaneContact",
    "SphereOnPlaneContact", "SphereOnPlaneContact_rolling", "SphereOnSphereContact", "SphereOnSphereContact_rolling", "LineOnLineContact",
    "LineOnLineContact_rolling" };

Constraint makeConstraint(Sys& S, vh::Rng& r, int t) {
    MobilizedBody &A = S.bodies[0], &B = S.bodies[1], &C = S.bodies[2];
    MobilizedBody G = S.matter.Ground();
    const Transform X1(Rotation(r.range(-1, 1), UnitVec3(rvec(r, .3, 1))), rvec(r, .1, .4)), X2(Rotation(r.range(-1, 1), UnitVec3(rvec(r, .3, 1))), rvec(r, .1, .4));
    switch (t) {
    case C_Rod: return Constraint::Rod(A, rvec(r, .1, .4), B, rvec(r, .1, .4), r.range(.8, 2));
    case C_Ball: return Constraint::Ball(A, rvec(r, .1, .4), B, rvec(r, .1, .4));
    case C_Weld: return Constraint::Weld(A, X1, B, X2);
    case C_PointInPlane: return Constraint::PointInPlane(A, UnitVec3(rvec(r, .3, 1)), r.range(-.5, .5), B, rvec(r, .1, .4));
    case C_PointOnLine: return Constraint::PointOnLine(A, UnitVec3(rvec(r, .3, 1)), rvec(r, .1, .4), B, rvec(r, .1, .4));
    case C_ConstantAngle: return Constraint::ConstantAngle(A, UnitVec3(rvec(r, .3, 1)), B, UnitVec3(rvec(r, .3, 1)), r.range(.5, 2));
    case C_ConstantOrientation: return Constraint::ConstantOrientation(A, X1.R(), B, X2.R());
    case C_NoSlip1D: return Constraint::NoSlip1D(G, rvec(r, .2, 1), UnitVec3(rvec(r, .3, 1)), A, B);
    case C_ConstantSpeed: return Constraint::ConstantSpeed(A, MobilizerUIndex(r.below(6)), r.range(-1, 1));
    case C_ConstantAcceleration: return Constraint::ConstantAcceleration(A, MobilizerUIndex(r.below(6)), r.range(-1, 1));
    case C_ConstantCoordinate: return Constraint::ConstantCoordinate(C, MobilizerQIndex(0), r.range(-1, 1));
    case C_CoordinateCoupler: return Constraint::CoordinateCoupler(S.matter, new Lin2(r.range(.5, 2), r.range(.5, 2), r.range(.2, 1)),
        std::vector<MobilizedBodyIndex>{ C.getMobilizedBodyIndex(), S.bodies[3].getMobilizedBodyIndex() }, std::vector<MobilizerQIndex>{ MobilizerQIndex(0), MobilizerQIndex(0) });
    case C_SpeedCoupler: return Constraint::SpeedCoupler(S.matter, new Lin2(r.range(.5, 2), r.range(.5, 2), r.range(.2, 1)),
        std::vector<MobilizedBodyIndex>{ A.getMobilizedBodyIndex(), B.getMobilizedBodyIndex() }, std::vector<MobilizerUIndex>{ MobilizerUIndex(r.below(6)), MobilizerUIndex(r.below(6)) });
    case C_PrescribedMotion: return Constraint::PrescribedMotion(S.matter, new Sin1(r.range(.3, 1), r.range(.5, 2)), C.getMobilizedBodyIndex(), MobilizerQIndex(0));
    case C_PointOnPlaneContact: return Constraint::PointOnPlaneContact(A, X1, B, rvec(r, .1, .4));
    case C_SphereOnPlaneContact: case C_SphereOnPlaneContactRolling:
        return Constraint::SphereOnPlaneContact(A, X1, B, rvec(r, .1, .4), r.range(.2, .6), t == C_SphereOnPlaneContactRolling);
    case C_SphereOnSphereContact: case C_SphereOnSphereContactRolling:
        return Constraint::SphereOnSphereContact(A, rvec(r, .1, .4), r.range(.2, .6), B, rvec(r, .1, .4), r.range(.2, .6), t == C_SphereOnSphereContactRolling);
    default: return Constraint::LineOnLineContact(A, X1, r.range(.5, 1.5), B, X2, r.range(.5, 1.5), t == C_LineOnLineContactRolling);
    }
}

void constraintDirected(vh::Rng& r) {
    int missing = 0;
    for (int t = 0; t < C_NTYPES; ++t) {
        MatterSys M; M.type = std::string("constraint.") + CTYPE_NAMES[t];
        M.euler = r.coin();
        MobilizedBody a = addMobilizer(M.S, r, M.S.matter.Ground(), M_Free, false);
        MobilizedBody b = addMobilizer(M.S, r, M.S.matter.Ground(), M_Free, r.coin());
        MobilizedBody c = addMobilizer(M.S, r, a, M_Pin, false);
        MobilizedBody d = addMobilizer(M.S, r, b, M_Slider, false);
        M.S.bodies = { a, b, c, d };
        buildMatterForces(M.S, r);
        M.S.cons.push_back(makeConstraint(M.S, r, t));
        M.S.sys.realizeTopology();
        for (int o = 0; o < N_MATTER_ORDERS; ++o) if (!matterOrder(M, r, o) && o != 7) ++missing;
    }
    vh::P("everyMatterClassExercised", "matter.history.constraint.coverage_floor", missing, 0.0);
}

// random tree from the full palette, random history
void matterRandomCase(vh::Rng& r) {
    MatterSys M; M.type = "mixed"; M.euler = r.coin();
    const int nb = 2 + r.below(3);
    for (int i = 0; i < nb; ++i) {
        MobilizedBody parent = (i == 0 || r.below(4) == 0) ? (MobilizedBody)M.S.matter.Ground() : M.S.bodies[r.below(i)];
        M.S.bodies.push_back(addMobilizer(M.S, r, parent, r.below(M_NTYPES), r.coin()));
    }
    buildMatterForces(M.S, r);
    M.S.sys.realizeTopology();
    vh::D("subject=matter");
    matterOrder(M, r, 7);
}

} // namespace

int main(int argc, char** argv) {
    vh::Args args(argc, argv);
    if (args.mode == "replay") {       // corpus replay is not meaningful for this harness (cases are whole histories)
        std::string line; while (std::getline(std::cin, line)) {}
        return 0;
    }
    vh::Rng r(args.seed * 7919 + 13);
    try {
        caseF4(r);
        directedCases(r);
        matterDirected(r);
        constOpDirected(r);
        constraintDirected(r);
        for (long i = 0; i < args.n; ++i) { if (i % 3 == 2) richCase(r); else if (i % 6 == 1) { if (i % 12 == 1) matterRandomCase(r); else constOpCase(r, -1); } else randomCase(r); }
    } catch (const std::exception& e) {
        std::fprintf(stderr, "C16 harness: exception %s\n", e.what());
        return 3;
    }
    return 0;
}
