// C22 correspondence harness: events are detected, localised and handled in time order.
//
// mode ""     (loc)  every internal step of a FIXED-step, return-every-step run with time-only witness functions is one record
//     I loc <accTs> <signif> <t0> <h> <tMax> <tReport> <n> {kind a b mask window}*n
//     O loc 0                                   no event in the step
//     O loc 1 <tLow> <tHigh> <k> {idx trans est}*k     window + triggered events as the integrator reports them
//   The Lean driver recomputes t1 (0.95/1.001 rule), the first pass, the whole localisation loop (bias, side memory, forced
//   tMid = tReport), the final estimates and the event order with SimbodyModel/C22.lean at Float and must agree to 1e-12.
// mode "e2e"  end-to-end runs, all integrators, variable step, analytic witnesses with KNOWN crossing times:
//     I win <accTs> <signif> <tLow> <tHigh> <n> {mask window eLow eHigh reported trans est}*n   one record per ReachedEventTrigger
//     O win 1          (driver: exact-rational/Float acceptance of the reported set, transitions, order, estimates)
//     P ...            brackets the true crossing, width <= localisation tolerance, state time == tLow, only real monitored
//                      crossings listed, none skipped, time order
// mode "ts"   TimeStepper runs with Periodic/Scheduled/Triggered handlers and reporters:
//     I ts <k> {status nTrig nSched nRep}*k     per TimeStepper::stepTo return (reportAllSignificantStates): what was invoked
//     O ts 1           (driver: tsDispatch(status) agrees with what was invoked)
//     P ...            handlers in nondecreasing time order, scheduled/periodic exactly at their times, triggered at its
//                      localised time, integration restarts from the handler's state
#include "Simbody.h"
#include "hcommon.h"
#include <memory>
#include <iostream>
#include <algorithm>
using namespace SimTK;
using vh::hex;

static const char* INTEG_NAMES[] = {"RungeKuttaMerson", "RungeKuttaFeldberg", "RungeKutta3", "RungeKutta2", "Verlet",
                                    "ExplicitEuler", "SemiExplicitEuler", "SemiExplicitEuler2", "CPodesBDF", "CPodesAdams"};
static const double Inf = Infinity;
static std::string g_tag;   // `seed <mode> <seed> <index>`: lets --mode replay regenerate the session an observation record came from

struct WSpec { int kind; double a, b; int mask; double window; };   // 0: t-a   1: sin(a t + b)   3: (t-a)(t-b)   2: q0-a
static double wval(const WSpec& w, double t, double q0) {
    switch (w.kind) {
        case 0: return t - w.a;
        case 1: return std::sin(w.a * t + w.b);
        case 2: return q0 - w.a;
        default: return (t - w.a) * (t - w.b);
    }
}
struct CallRec { int kind; double t; };   // handler log: kind 0 triggered(idx in a), 1 scheduled list, 2 periodic handler, 3 periodic reporter
static std::vector<CallRec>* g_log = nullptr;

class Witness : public TriggeredEventHandler {
public:
    WSpec w; int idx; bool flipU; bool shiftQ = false;
    Witness(const WSpec& ws, int idx, bool flipU = false)
        : TriggeredEventHandler(ws.kind == 2 ? Stage::Position : Stage::Time), w(ws), idx(idx), flipU(flipU) {
        getTriggerInfo().setTriggerOnRisingSignTransition((ws.mask & 2) != 0);
        getTriggerInfo().setTriggerOnFallingSignTransition((ws.mask & 1) != 0);
        getTriggerInfo().setRequiredLocalizationTimeWindow(ws.window);
    }
    Real getValue(const State& s) const override { return wval(w, s.getTime(), w.kind == 2 ? s.getQ()[0] : 0.0); }
    void handleEvent(State& s, Real, bool&) const override {
        if (g_log) g_log->push_back({100 + idx, s.getTime()});
        if (flipU) s.updU()[0] = -0.5 * s.getU()[0] + 0.25;
        if (shiftQ) s.updQ()[0] += 0.0625;          // a handler that changes a position (lowers the stage to Position)
    }
};
class SchedList : public ScheduledEventHandler {
public:
    std::vector<double> ts; bool terminateAtLast = false;
    Real getNextEventTime(const State& s, bool incl) const override {
        for (double t : ts) if (t > s.getTime() || (incl && t == s.getTime())) return t;
        return Infinity;
    }
    void handleEvent(State& s, Real, bool& term) const override { if (g_log) g_log->push_back({1, s.getTime()}); s.updU()[0] += 0.125;
        if (terminateAtLast && !ts.empty() && s.getTime() == ts.back()) term = true; }
};
class PerH : public PeriodicEventHandler {
public:
    explicit PerH(Real dt) : PeriodicEventHandler(dt) {}
    void handleEvent(State& s, Real, bool&) const override { if (g_log) g_log->push_back({2, s.getTime()}); }
};
class PerR : public PeriodicEventReporter {
public:
    explicit PerR(Real dt) : PeriodicEventReporter(dt) {}
    void handleEvent(const State& s) const override { if (g_log) g_log->push_back({3, s.getTime()}); }
};

struct Built {
    MultibodySystem system; SimbodyMatterSubsystem matter; GeneralForceSubsystem forces;
    std::unique_ptr<Integrator> integ;
    Built() : matter(system), forces(system) {}
};
static void buildOsc(Built& B, double k) {
    Body::Rigid body(MassProperties(1.0, Vec3(0), Inertia(1)));
    MobilizedBody::Slider sl(B.matter.Ground(), Transform(), body, Transform());
    Force::MobilityLinearSpring(B.forces, sl, MobilizerUIndex(0), k, 0.0);
}
static Integrator* makeInteg(int which, const System& sys, double h) {
    switch (which) {
        case 0: return new RungeKuttaMersonIntegrator(sys);
        case 1: return new RungeKuttaFeldbergIntegrator(sys);
        case 2: return new RungeKutta3Integrator(sys);
        case 3: return new RungeKutta2Integrator(sys);
        case 4: return new VerletIntegrator(sys);
        case 5: return new ExplicitEulerIntegrator(sys);
        case 6: return new SemiExplicitEulerIntegrator(sys, h > 0 ? h : 0.01);
        case 7: return new SemiExplicitEuler2Integrator(sys);
        case 8: return new CPodesIntegrator(sys, CPodes::BDF);
        default: return new CPodesIntegrator(sys, CPodes::Adams);
    }
}
static WSpec randomTimeWitness(vh::Rng& r, double t0, double span) {
    WSpec w; w.kind = (int[]){0, 1, 3}[r.below(3)];
    w.mask = 1 + r.below(3);
    w.window = r.below(3) == 0 ? r.range(0.01, 1.0) : 0.1;
    if (w.kind == 0) { w.a = t0 + r.range(0.02, span); w.b = 0; }
    else if (w.kind == 1) { w.a = r.range(1.0, 7.0); w.b = r.range(0.3, 2.8); }
    else { w.a = t0 + r.range(0.05, 0.5 * span); w.b = w.a + r.range(0.2, 0.5 * span); }
    return w;
}
// analytic sign changes of a time-only witness in (lo, hi]: (time, +1 rising / -1 falling)
static std::vector<std::pair<double, int>> crossings(const WSpec& w, double lo, double hi) {
    std::vector<std::pair<double, int>> c;
    if (w.kind == 0) { if (lo < w.a && w.a <= hi) c.push_back({w.a, +1}); }
    else if (w.kind == 3) { if (lo < w.a && w.a <= hi) c.push_back({w.a, -1}); if (lo < w.b && w.b <= hi) c.push_back({w.b, +1}); }
    else if (w.kind == 1) {
        long k0 = (long)std::ceil((w.a * lo + w.b) / Pi) - 1;
        for (long k = k0; ; ++k) {
            double t = (k * Pi - w.b) / w.a;
            if (t > hi) break;
            if (t > lo) c.push_back({t, (k % 2 == 0) ? +1 : -1});
        }
    }
    return c;
}
static double minGap(const WSpec& w) {
    if (w.kind == 1) return Pi / w.a;
    if (w.kind == 3) return w.b - w.a;
    return Inf;
}

// ============================================================ mode loc
static void emitLocRecord(double accTs, double signif, double t0, double h, double tMax, double tReport,
                          const std::vector<WSpec>& ws, bool ev, double tLow, double tHigh,
                          const std::vector<int>& idx, const std::vector<int>& trans, const std::vector<double>& est,
                          const std::string& nm) {
    vh::Line L = vh::I("loc");
    L.d(accTs).d(signif).d(t0).d(h).d(tMax).d(tReport).i((long long)ws.size());
    for (auto& w : ws) L.i(w.kind).d(w.a).d(w.b).i(w.mask).d(w.window);
    L.s(nm).emit();
    std::printf("T 1e-12 0\n");
    if (!ev) { vh::O("loc").i(0).emit(); vh::D(nm + ".loc.noevent"); return; }
    vh::Line O = vh::O("loc");
    O.i(1).d(tLow).d(tHigh).i((long long)idx.size());
    for (size_t i = 0; i < idx.size(); ++i) O.i(idx[i]).i(trans[i]).d(est[i]);
    O.emit();
    vh::D(nm + (idx.size() > 1 ? ".loc.event.multi" : ".loc.event"));
    // the property's own predicates on this window
    double bad = 0;
    if (!(t0 <= tLow && tLow < tHigh)) bad = 1;
    for (double e : est) if (!(tLow < e && e <= tHigh)) bad = std::max(bad, 2.0);
    for (size_t i = 1; i < est.size(); ++i) if (est[i - 1] > est[i]) bad = std::max(bad, 3.0);
    if (tLow < tReport && tReport < tHigh) bad = std::max(bad, 4.0);
    vh::P("window_wellformed", "AbstractIntegratorRep.loc.window_wellformed", bad, 0);
}
static void locSession(vh::Rng& r, int integ) {
    Built B; buildOsc(B, r.range(0.5, 10.0));
    const double t0s = r.below(3) == 0 ? r.range(0.0, 2.0) : 0.0;
    const double h = r.range(0.02, 0.3);
    int nw = 1 + r.below(3);
    std::vector<WSpec> ws;
    for (int i = 0; i < nw; ++i) ws.push_back(randomTimeWitness(r, t0s, 3.0));
    if (nw >= 2 && r.below(4) == 0) { ws[1] = ws[0]; ws[1].mask = 3; }                 // simultaneous events
    if (nw >= 2) { for (int i = 0; i < nw; ++i) ws[i].window = 0.02 * (1 << (2 * ((i + (int)r.below(3)) % 3)));    // DISTINCT per-trigger localisation windows
                   if (ws[0].window == ws[1].window) ws[1].window *= 3; vh::D("class.distinct_windows"); }
    if (r.below(8) == 0) { ws[0].kind = 0; ws[0].a = t0s; }                            // event function zero at the start
    for (int i = 0; i < nw; ++i) B.system.addEventHandler(new Witness(ws[i], i));
    State state = B.system.realizeTopology();
    state.updTime() = t0s; state.updQ()[0] = 1; state.updU()[0] = 0;
    B.integ.reset(makeInteg(integ, B.system, h));
    Integrator& I = *B.integ;
    if (integ != 6) I.setFixedStepSize(h);
    I.setReturnEveryInternalStep(true);
    const double acc = std::pow(10.0, -r.range(1.5, 5.0));
    I.setAccuracy(acc);
    I.initialize(state);
    const double accTs = I.getAccuracyInUse() * B.system.getDefaultTimeScale();
    const double signif = NTraits<Real>::getSignificant();
    Array_<EventTriggerInfo> infos; B.system.calcEventTriggerInfo(I.getAdvancedState(), infos);
    std::vector<int> id2idx(1000, -1);
    for (int i = 0; i < (int)infos.size(); ++i) { int id = infos[i].getEventId(); if (id >= 0 && id < 1000) id2idx[id] = i; }
    bool monotoneIds = true;
    for (int i = 1; i < (int)infos.size(); ++i) if (!(infos[i - 1].getEventId() < infos[i].getEventId())) monotoneIds = false;
    if (!monotoneIds) { std::fprintf(stderr, "event ids not monotone in trigger index\n"); std::exit(3); }
    const std::string nm = INTEG_NAMES[integ];
    const int nsteps = 8 + r.below(25);
    I.stepTo(Inf);   // StartOfContinuousInterval
    for (int s = 0; s < nsteps; ++s) {
        const double t0 = I.getAdvancedTime();
        // a report time inside the step (forces tMid = tReport), at its end, or none
        double tReport = Inf;
        switch (r.below(5)) { case 0: tReport = t0 + h * r.range(0.05, 0.95); break; case 1: tReport = t0 + h; break; default: break; }
        double sched = Inf;
        switch (r.below(8)) { case 0: sched = t0 + h * r.range(0.3, 0.9); break; case 1: sched = t0 + h * r.range(0.96, 1.0009); break;
                              case 2: sched = t0 + h * r.range(1.002, 1.5); break; default: break; }
        const int sb = I.getNumStepsTaken();
        Integrator::SuccessfulStepStatus st = I.stepTo(tReport, sched);
        if (I.getNumStepsTaken() - sb != 1) { --s; if (st == Integrator::EndOfSimulation) break; continue; }   // no step taken by this call
        bool ev = false; double tLow = 0, tHigh = 0; std::vector<int> idx, trans; std::vector<double> est;
        // reveal a hidden event: an interpolated report was served first
        int guard = 0;
        while (st == Integrator::ReachedReportTime && I.isStateInterpolated() && guard++ < 3)
            st = I.stepTo(I.getAdvancedTime(), Inf);
        if (st == Integrator::ReachedEventTrigger) {
            ev = true; Vec2 w = I.getEventWindow(); tLow = w[0]; tHigh = w[1];
            const Array_<EventId>& ids = I.getTriggeredEvents();
            for (int i = 0; i < (int)ids.size(); ++i) {
                idx.push_back(id2idx[(int)ids[i]]); trans.push_back((int)I.getEventTransitionsSeen()[i]);
                est.push_back(I.getEstimatedEventTimes()[i]);
            }
        }
        emitLocRecord(accTs, signif, t0, h, sched, tReport, ws, ev, tLow, tHigh, idx, trans, est, nm);
    }
}

// ============================================================ mode e2e
static void e2eSession(vh::Rng& r, int integ) {
    Built B; const double k = r.range(0.5, 10.0); buildOsc(B, k);
    const double t0s = 0.0, tEnd = r.range(1.0, 4.0);
    int nw = 1 + r.below(3);
    std::vector<WSpec> ws;
    for (int i = 0; i < nw; ++i) ws.push_back(randomTimeWitness(r, t0s, tEnd));
    if (nw >= 2 && r.below(4) == 0) { ws[1] = ws[0]; ws[1].mask = 3; }
    if (nw >= 2) { for (int i = 0; i < nw; ++i) ws[i].window = 0.02 * (1 << (2 * ((i + (int)r.below(3)) % 3)));    // DISTINCT per-trigger localisation windows
                   if (ws[0].window == ws[1].window) ws[1].window *= 3; vh::D("class.distinct_windows"); }
    // a STATE-dependent witness q - c on the oscillator (guaranteed share): its values at probe times come from the interpolated
    // state, so wrong Hermite interpolation / stale eLow,eHigh after the back-up show up here
    const bool stateWit = r.below(2) == 0;
    if (stateWit) { WSpec w; w.kind = 2; w.a = r.range(-0.25, 0.25); w.b = 0; w.mask = 1 + r.below(3); w.window = r.below(2) ? 0.1 : 0.5;
                    ws.push_back(w); nw = (int)ws.size(); vh::D("class.state_witness"); }
    double gap = Inf; for (auto& w : ws) gap = std::min(gap, minGap(w));
    for (int i = 0; i < nw; ++i) B.system.addEventHandler(new Witness(ws[i], i));
    State state = B.system.realizeTopology();
    state.updTime() = t0s; state.updQ()[0] = r.signedMag(0.3, 1.5); state.updU()[0] = r.range(-1, 1);
    const double hfix = r.range(0.005, 0.05);
    B.integ.reset(makeInteg(integ, B.system, std::min(hfix, 0.3 * gap)));
    Integrator& I = *B.integ;
    const bool isCP = integ >= 8;
    const double acc = std::pow(10.0, -r.range(2.0, 6.0));
    I.setAccuracy(acc);
    if (integ != 6) I.setMaximumStepSize(std::min(0.25, 0.3 * gap));     // no witness can cross twice within one step
    if ((r.below(4) == 0 && !isCP) || stateWit) I.setReturnEveryInternalStep(true);   // state witnesses: every step end is seen
    I.initialize(state);
    const double accTs = I.getAccuracyInUse() * B.system.getDefaultTimeScale();
    const double signif = NTraits<Real>::getSignificant();
    Array_<EventTriggerInfo> infos; B.system.calcEventTriggerInfo(I.getAdvancedState(), infos);
    std::vector<int> id2idx(1000, -1);
    // trigger index order: Time-stage witnesses first, then Position-stage ones (the state witness is added last: same order)
    for (int i = 0; i < (int)infos.size(); ++i) { int id = infos[i].getEventId(); if (id >= 0 && id < 1000) id2idx[id] = i; }
    auto sgn = [](double x) { return (x > 0) - (x < 0); };
    std::vector<int> advSign(ws.size(), 0), nChange(ws.size(), 0), nReported(ws.size(), 0);
    for (size_t j = 0; j < ws.size(); ++j) advSign[j] = sgn(wval(ws[j], I.getAdvancedTime(), I.getAdvancedState().getQ()[0]));
    double lastAdv = I.getAdvancedTime();
    const std::string fam = isCP ? "CPodes" : "AbstractIntegratorRep";
    const std::string nm = INTEG_NAMES[integ];
    const double dtr = r.range(0.05, 0.4);
    double rep = t0s + dtr;
    struct Win { double lo, hi; std::vector<int> idx, trans; };
    std::vector<Win> wins;
    double worstState = 0, worstWidth = 0, worstBracket = 0, worstOrder = 0, worstStateBracket = 0;
    int guard = 0;
    while (I.getTime() < tEnd && guard++ < 20000) {
        Integrator::SuccessfulStepStatus st = I.stepTo(std::min(rep, tEnd), Inf);
        if (std::getenv("C22_DEBUG")) std::fprintf(stderr, "call report %.12f -> %d t=%.12f adv=%.12f interp=%d\n", std::min(rep, tEnd), (int)st, I.getTime(), I.getAdvancedTime(), (int)I.isStateInterpolated());
        if (I.getAdvancedTime() != lastAdv) {     // the advanced state moved: the sign of every witness at the new step end
            lastAdv = I.getAdvancedTime();
            for (size_t j = 0; j < ws.size(); ++j) {
                const int sNew = sgn(wval(ws[j], lastAdv, I.getAdvancedState().getQ()[0]));
                if (advSign[j] != 0 && sNew != advSign[j] && (ws[j].mask & (advSign[j] == 1 ? 1 : 2))) { nChange[j]++; if (std::getenv("C22_DEBUG") && ws[j].kind == 2) std::fprintf(stderr, "  CHANGE j=%zu at adv=%.12f sign %d -> %d\n", j, lastAdv, advSign[j], sNew); }
                advSign[j] = sNew;
            }
        }
        if (st == Integrator::ReachedReportTime && I.getTime() >= std::min(rep, tEnd)) { if (rep >= tEnd) break; rep += dtr; }
        if (st != Integrator::ReachedEventTrigger) continue;
        Vec2 w = I.getEventWindow();
        const double tLow = w[0], tHigh = w[1];
        if (I.getTime() != tLow || I.getAdvancedTime() != tHigh) worstState = 1;
        const Array_<EventId>& ids = I.getTriggeredEvents();
        Win W; W.lo = tLow; W.hi = tHigh;
        bool winBracketOK = true;
        double tol = Inf;
        for (int i = 0; i < (int)ids.size(); ++i) {
            const int j = id2idx[(int)ids[i]];
            W.idx.push_back(j); W.trans.push_back((int)I.getEventTransitionsSeen()[i]);
            tol = std::min(tol, accTs * ws[j].window);
            // the trigger really changed sign in a monitored direction across the window
            const double eL = wval(ws[j], tLow, I.getState().getQ()[0]), eH = wval(ws[j], tHigh, I.getAdvancedState().getQ()[0]);
            nReported[j]++;
            const int sL = (eL > 0) - (eL < 0), sH = (eH > 0) - (eH < 0);
            const int tr = (sL == sH || sL == 0) ? 0 : (sL == 1 ? 1 : 2);
            if ((tr & ws[j].mask) == 0 || (int)I.getEventTransitionsSeen()[i] != tr) { winBracketOK = false; if (ws[j].kind == 2) worstStateBracket = 1; else worstBracket = 1; }
            if (i > 0 && I.getEstimatedEventTimes()[i - 1] > I.getEstimatedEventTimes()[i]) worstOrder = 1;
        }
        tol = std::max(tol, signif * std::max(1.0, tHigh + 1.0));
        if (!isCP) worstWidth = std::max(worstWidth, (tHigh - tLow) / tol);
        if (!wins.empty() && wins.back().hi > tLow) worstOrder = 1;
        wins.push_back(W);
        // the record for the driver: everything the integrator exposes about this window
        vh::Line L = vh::I("win");
        L.d(accTs).d(signif).d(tLow).d(tHigh).i((long long)ws.size());
        for (int j = 0; j < (int)ws.size(); ++j) {
            int pos = -1;
            for (int i = 0; i < (int)ids.size(); ++i) if (id2idx[(int)ids[i]] == j) pos = i;
            L.i(ws[j].mask).d(ws[j].window).d(wval(ws[j], tLow, I.getState().getQ()[0])).d(wval(ws[j], tHigh, I.getAdvancedState().getQ()[0])).i(pos);
            L.i(pos >= 0 ? (int)I.getEventTransitionsSeen()[pos] : 0).d(pos >= 0 ? I.getEstimatedEventTimes()[pos] : 0.0);
        }
        L.s(isCP ? "cpodes" : "abstract").s(g_tag);
        L.emit();
        vh::O("win").i(winBracketOK ? 1 : 0).emit();    // the harness's own reading of the trigger values at the two returned states
        vh::D(nm + (ids.size() > 1 ? ".e2e.window.multi" : ".e2e.window"));
        if (r.below(3) == 0) I.reinitialize(Stage::Velocity, false);     // as after a handler that touched the state
    }
    // none skipped / only real crossings: compare with the analytic crossing list
    // only crossings up to the last RETURNED time must have been reported: the advanced state may already sit at the tHigh
    // of a localised event that has not been handed out yet (an interpolated report was served first)
    const double tDone = I.getTime();
    double missed = 0, spurious = 0; int ncross = 0;
    std::vector<std::vector<bool>> used(wins.size());
    for (size_t k2 = 0; k2 < wins.size(); ++k2) used[k2].assign(wins[k2].idx.size(), false);
    for (int j = 0; j < (int)ws.size(); ++j) {
        for (auto& c : crossings(ws[j], t0s, I.getAdvancedTime() + 1e-6)) {
            const int dirBit = c.second > 0 ? 2 : 1;
            if (!(ws[j].mask & dirBit)) continue;
            const bool mustBeReported = c.first <= tDone - 2e-3;   // later ones may legitimately still be pending
            if (mustBeReported) ++ncross;
            bool found = false;
            const double slack = 1e-9 * std::max(1.0, c.first);
            for (size_t k2 = 0; k2 < wins.size() && !found; ++k2)
                for (size_t i = 0; i < wins[k2].idx.size(); ++i)
                    if (wins[k2].idx[i] == j && !used[k2][i] && wins[k2].lo - slack <= c.first && c.first <= wins[k2].hi + slack
                        && wins[k2].trans[i] == dirBit) { used[k2][i] = true; found = true; break; }
            if (!found && mustBeReported) { missed += 1; std::fprintf(stderr, "MISSED witness %d (kind %d a=%.17g b=%.17g mask %d) crossing at %.17g dir %d, integrated to %.17g\n", j, ws[j].kind, ws[j].a, ws[j].b, ws[j].mask, c.first, c.second, tDone); }
        }
    }
    for (size_t k2 = 0; k2 < wins.size(); ++k2) for (size_t i = 0; i < used[k2].size(); ++i) if (!used[k2][i] && ws[wins[k2].idx[i]].kind != 2) spurious += 1;
    // state-dependent witnesses: monitored sign changes between consecutive step ends vs reported events (the last may be pending)
    double stateBad = 0, stateRetrig = 0;
    for (size_t j = 0; j < ws.size(); ++j) if (ws[j].kind == 2) { if (nReported[j] + 1 < nChange[j]) stateBad = nChange[j] - nReported[j];      // a monitored sign change between step ends was never reported
        if (nReported[j] > nChange[j]) stateRetrig = nReported[j] - nChange[j];                                                         // more events than sign changes: the same crossing triggered again
        if (std::getenv("C22_DEBUG")) std::fprintf(stderr, "STATEWIT j=%zu c=%.6g mask=%d reported=%d changes=%d\n", j, ws[j].a, ws[j].mask, nReported[j], nChange[j]); }
    // a session is itself a record (so its P lines have an I line to attach to)
    vh::Line L = vh::I("sess"); L.s(nm).i(ncross).i((long long)wins.size()).s(g_tag); L.emit();
    vh::O("sess").i(1).emit();
    vh::P("returns_before_state_at_tLow", fam + ".e2e.state_at_tLow", worstState, 0);
    vh::P("window_within_localization_tolerance", fam + ".e2e.width", worstWidth, 1.0);
    vh::P("listed_triggers_changed_sign_in_monitored_direction", fam + ".e2e.bracket", worstBracket, 0);
    vh::P("events_and_windows_in_time_order", fam + ".e2e.order", worstOrder, 0);
    vh::P("no_crossing_skipped", fam + ".e2e.missed", missed, 0);
    vh::P("only_real_crossings_listed", fam + ".e2e.spurious", spurious, 0);
    if (stateWit) {
        vh::P("state_witness_sign_changes_all_reported", fam + ".e2e.state_witness", stateBad, 0);
        vh::P("state_witness_crossing_reported_once", fam + ".e2e.state_witness_retrigger", stateRetrig, 0);
        // the trigger evaluated on the HANDED-OUT before-state (tLow) and advanced state (tHigh) changes sign in the reported direction
        vh::P("state_witness_changes_sign_across_returned_states", fam + ".e2e.state_witness_bracket", worstStateBracket, 0);
    }
}

// ============================================================ mode ts
class RepList : public ScheduledEventReporter {
public:
    std::vector<double> ts;
    Real getNextEventTime(const State& s, bool incl) const override {
        for (double t : ts) if (t > s.getTime() || (incl && t == s.getTime())) return t;
        return Infinity;
    }
    void handleEvent(const State& s) const override { if (g_log) g_log->push_back({4, s.getTime()}); }
};
// directed scenario (C19 finding 1 seen through the TimeStepper): a scheduled REPORT time strictly inside the event window.
// pass A finds the window with a regular report grid; pass B adds one report at mid-window.
static void tsDirected(vh::Rng& r) {
    const double k = r.range(0.5, 10.0), a = r.range(0.05, 0.4), dtr = r.range(0.002, 0.01);
    const bool flip = r.coin();
    double wl = 0, wh = 0; bool haveWin = false;
    for (int pass = 0; pass < 2; ++pass) {
        Built B; buildOsc(B, k);
        std::vector<CallRec> log; g_log = &log;
        WSpec w; w.kind = 0; w.a = a; w.b = 0; w.mask = 3; w.window = 0.1;
        B.system.addEventHandler(new Witness(w, 0, flip));
        RepList* rl = new RepList;
        for (int i = 1; i * dtr < a + 0.05; ++i) rl->ts.push_back(i * dtr);
        if (pass == 1) { rl->ts.push_back(wl + 0.5 * (wh - wl)); std::sort(rl->ts.begin(), rl->ts.end()); }
        B.system.addEventReporter(rl);
        State state = B.system.realizeTopology(); state.updQ()[0] = 1; state.updU()[0] = 0;
        B.integ.reset(makeInteg(0, B.system, 0.01));
        B.integ->setAccuracy(1e-3);
        TimeStepper ts(B.system, *B.integ);
        ts.setReportAllSignificantStates(pass == 0);
        ts.initialize(state);
        if (pass == 0) {
            int guard = 0;
            while (ts.getTime() < a + 0.04 && guard++ < 5000) {
                if (ts.stepTo(a + 0.04) == Integrator::ReachedEventTrigger && !haveWin) { Vec2 win = B.integ->getEventWindow(); wl = win[0]; wh = win[1]; haveWin = true; }
            }
            g_log = nullptr;
            if (!haveWin || !(wl < wl + 0.5 * (wh - wl) && wl + 0.5 * (wh - wl) < wh)) return;
            continue;
        }
        ts.stepTo(a + 0.04);
        g_log = nullptr;
        const double tDone = ts.getTime();
        vh::Line L = vh::I("ts"); L.s("RungeKuttaMerson").i(0).s(g_tag); L.emit();
        vh::O("ts").i(1).emit();
        vh::D(flip ? "class.ts.directed.handler_changes_state" : "class.ts.directed.handler_no_change");
        double order = 0; for (size_t i = 1; i < log.size(); ++i) if (log[i - 1].t > log[i].t) order = 1;
        std::vector<double> got, want; for (auto& c : log) if (c.kind == 4) got.push_back(c.t);
        for (double t : rl->ts) if (t <= tDone) want.push_back(t);
        vh::P("handlers_in_time_order", "TimeStepper.directed.report_in_window.order", order, 0);
        vh::P("scheduled_reports_exactly_at_their_times", "TimeStepper.directed.report_in_window.report_exact", got == want ? 0.0 : 1.0, 0);
    }
}

static void tsSession(vh::Rng& r, int integ) {
    Built B; buildOsc(B, r.range(0.5, 10.0));
    const double tEnd = r.range(1.0, 3.0);
    std::vector<CallRec> log; g_log = &log;
    WSpec w; w.kind = 0; w.a = r.range(0.1, 0.9 * tEnd); w.b = 0; w.mask = 3; w.window = 0.1;
    WSpec w2 = randomTimeWitness(r, 0, tEnd); w2.kind = 1; w2.a = r.range(1.0, 4.0); w2.b = r.range(0.3, 2.8); w2.mask = 1 + r.below(3);
    const bool flip = r.coin();
    Witness* w0h = new Witness(w, 0, flip); w0h->shiftQ = r.below(3) == 0;
    const bool changes0 = flip || w0h->shiftQ;
    B.system.addEventHandler(w0h);
    B.system.addEventHandler(new Witness(w2, 1, false));
    SchedList* sl = new SchedList; int ns = 1 + r.below(4);
    for (int i = 0; i < ns; ++i) sl->ts.push_back(r.range(0.05, tEnd));
    std::sort(sl->ts.begin(), sl->ts.end());
    if (r.below(3) == 0 && ns >= 1) sl->ts[0] = 0.25;     // often coincides with the periodic ones below
    std::sort(sl->ts.begin(), sl->ts.end());
    sl->terminateAtLast = r.below(4) == 0;
    B.system.addEventHandler(sl);
    const double pH = (r.below(2) ? 0.25 : r.range(0.1, 0.5)), pR = (r.below(2) ? 0.125 : r.range(0.05, 0.3));
    B.system.addEventHandler(new PerH(pH));
    B.system.addEventReporter(new PerR(pR));
    State state = B.system.realizeTopology();
    state.updQ()[0] = 1; state.updU()[0] = 0;
    B.integ.reset(makeInteg(integ, B.system, 0.01));
    Integrator& I = *B.integ;
    I.setAccuracy(std::pow(10.0, -r.range(2.0, 5.0)));
    if (integ != 6) I.setMaximumStepSize(0.3 * Pi / w2.a);
    TimeStepper ts(B.system, I);
    const bool reportAll = r.below(3) != 0;     // false: the DEFAULT mode, driven by repeated stepTo(t + dt) with small dt
    ts.setReportAllSignificantStates(reportAll);
    const double dtStep = r.below(2) ? r.range(0.002, 0.02) : r.range(0.02, 0.2);
    ts.initialize(state);
    const bool isCP = integ >= 8;
    const std::string fam = isCP ? "TimeStepper.CPodes" : "TimeStepper";
    struct Ret { int status; int nTrig, nSched, nRep; };
    std::vector<Ret> rets;
    double worstRestart = 0; bool pendingCheck = false; double hq = 0, hu = 0, ht = 0;
    int guard = 0;
    const double accTs = 0; (void)accTs;
    while (!I.isSimulationOver() && ts.getTime() < tEnd && guard++ < 100000) {
        const size_t l0 = log.size();
        Integrator::SuccessfulStepStatus st = ts.stepTo(reportAll ? tEnd : std::min(tEnd, ts.getTime() + dtStep));
        if (!reportAll) { if (st == Integrator::EndOfSimulation) break; continue; }
        Ret R{(int)st, 0, 0, 0};
        for (size_t i = l0; i < log.size(); ++i) { if (log[i].kind >= 100) R.nTrig++; else if (log[i].kind == 3) R.nRep++; else R.nSched++; }
        rets.push_back(R);
        if (pendingCheck) {   // first return after a state-changing handler: integration restarts from the handler's state
            if (st != Integrator::StartOfContinuousInterval || ts.getState().getTime() != ht
                || ts.getState().getQ()[0] != hq || ts.getState().getU()[0] != hu) worstRestart = 1;
            pendingCheck = false;
        }
        if (R.nTrig + R.nSched > 0 && (st == Integrator::ReachedEventTrigger || st == Integrator::ReachedScheduledEvent)) {
            const State& a = I.getAdvancedState(); pendingCheck = true; hq = a.getQ()[0]; hu = a.getU()[0]; ht = a.getTime();
            // only handlers that changed the state lead to StartOfContinuousInterval
            bool changed = false;
            for (size_t i = l0; i < log.size(); ++i) if (log[i].kind == 1 || (log[i].kind == 100 && changes0)) changed = true;
            if (!changed) pendingCheck = false;
        }
    }
    g_log = nullptr;
    const double tDone = ts.getTime();
    // ---- record
    vh::Line L = vh::I("ts"); L.s(INTEG_NAMES[integ]).i((long long)rets.size());
    for (auto& R : rets) L.i(R.status).i(R.nTrig).i(R.nSched).i(R.nRep);
    L.s(g_tag).emit();
    vh::O("ts").i(1).emit();
    vh::D(std::string(INTEG_NAMES[integ]) + ".ts");
    vh::D(reportAll ? "class.ts.reportAll" : "class.ts.default_mode");
    if (w0h->shiftQ) vh::D("class.ts.handler_changes_q"); if (sl->terminateAtLast) vh::D("class.ts.terminating_handler");
    // ---- predicates
    double order = 0;
    for (size_t i = 1; i < log.size(); ++i) if (log[i - 1].t > log[i].t) order = 1;
    // scheduled list: exactly at its times, each exactly once, none skipped (up to the time reached)
    double schedBad = 0;
    { std::vector<double> got; for (auto& c : log) if (c.kind == 1) got.push_back(c.t);
      std::vector<double> want; for (double t : sl->ts) if (t <= tDone && (want.empty() || want.back() != t)) want.push_back(t);
      if (got != want) schedBad = 1; }
    auto periodicBad = [&](int kind, double p) {
        std::vector<double> got; for (auto& c : log) if (c.kind == kind) got.push_back(c.t);
        std::vector<double> want; for (long long k = (kind == 3 ? 0 : 1); ; ++k) { double t = k * p; if (t > tDone) break; want.push_back(t); }
        // the periodic HANDLER is asked with includeCurrentTime=true at t=0 as well; accept a leading 0
        if (!got.empty() && got[0] == 0.0 && (want.empty() || want[0] != 0.0)) got.erase(got.begin());
        return got == want ? 0.0 : 1.0;
    };
    const double perHBad = periodicBad(2, pH), perRBad = periodicBad(3, pR);
    // triggered handler of witness 0 (t - a, both directions): exactly once, at a time within the localisation tolerance after a
    double trigBad = 0;
    { std::vector<double> got; for (auto& c : log) if (c.kind == 100) got.push_back(c.t);
      const double tol = I.getAccuracyInUse() * B.system.getDefaultTimeScale() * w.window;
      if (w.a < tDone - 2e-3) { if (got.size() != 1 || !(got[0] >= w.a - 1e-12 && (isCP || got[0] - w.a <= tol))) trigBad = 1; }
      else if (got.size() > 1) trigBad = 1; }
    double termBad = 0;
    if (sl->terminateAtLast && !sl->ts.empty() && sl->ts.back() < tEnd - 1e-9) {
        const double tT = sl->ts.back();
        if (!I.isSimulationOver() || I.getTerminationReason() != Integrator::EventHandlerRequestedTermination) termBad = 1;
        if (ts.getTime() != tT) termBad = std::max(termBad, 2.0);
        for (auto& c : log) if (c.t > tT) termBad = std::max(termBad, 3.0);
    }
    vh::P("terminating_handler_ends_simulation_at_its_time", fam + ".terminate", termBad, 0);
    vh::P("handlers_in_time_order", fam + ".order", order, 0);
    vh::P("scheduled_exactly_at_time", fam + ".scheduled_exact", schedBad, 0);
    vh::P("periodic_handler_exactly_at_times", fam + ".periodic_handler_exact", perHBad, 0);
    vh::P("periodic_reporter_exactly_at_times", fam + ".periodic_reporter_exact", perRBad, 0);
    vh::P("triggered_handler_at_localised_time", fam + ".triggered_at_time", trigBad, 0);
    vh::P("restart_from_handler_state", fam + ".restart_state", worstRestart, 0);
}

// re-run exactly one `I loc` record: same witnesses, same t0 / h / tMax / tReport / accuracy, same integrator
static void replayLoc(const std::vector<std::string>& t) {
    size_t p = 2;
    const double accTs = vh::unhex(t[p++]); p++; const double t0 = vh::unhex(t[p++]), h = vh::unhex(t[p++]),
                 tMax = vh::unhex(t[p++]), tReport = vh::unhex(t[p++]);
    const int n = std::atoi(t[p++].c_str());
    std::vector<WSpec> ws;
    for (int i = 0; i < n; ++i) { WSpec w; w.kind = std::atoi(t[p++].c_str()); w.a = vh::unhex(t[p++]); w.b = vh::unhex(t[p++]);
                                  w.mask = std::atoi(t[p++].c_str()); w.window = vh::unhex(t[p++]); ws.push_back(w); }
    int integ = 0; for (int i = 0; i < 8; ++i) if (p < t.size() && t[p] == INTEG_NAMES[i]) integ = i;
    Built B; buildOsc(B, 2.0);
    for (int i = 0; i < n; ++i) B.system.addEventHandler(new Witness(ws[i], i));
    State state = B.system.realizeTopology();
    state.updTime() = t0; state.updQ()[0] = 1; state.updU()[0] = 0;
    B.integ.reset(makeInteg(integ, B.system, h));
    Integrator& I = *B.integ;
    if (integ != 6) I.setFixedStepSize(h);
    I.setReturnEveryInternalStep(true);
    I.setAccuracy(accTs / B.system.getDefaultTimeScale());
    I.initialize(state);
    Array_<EventTriggerInfo> infos; B.system.calcEventTriggerInfo(I.getAdvancedState(), infos);
    std::vector<int> id2idx(1000, -1);
    for (int i = 0; i < (int)infos.size(); ++i) { int id = infos[i].getEventId(); if (id >= 0 && id < 1000) id2idx[id] = i; }
    I.stepTo(Inf);
    Integrator::SuccessfulStepStatus st = I.stepTo(tReport, tMax);
    bool ev = false; double tLow = 0, tHigh = 0; std::vector<int> idx, trans; std::vector<double> est;
    int guard = 0;
    while (st == Integrator::ReachedReportTime && I.isStateInterpolated() && guard++ < 3) st = I.stepTo(I.getAdvancedTime(), Inf);
    if (st == Integrator::ReachedEventTrigger) {
        ev = true; Vec2 w = I.getEventWindow(); tLow = w[0]; tHigh = w[1];
        const Array_<EventId>& ids = I.getTriggeredEvents();
        for (int i = 0; i < (int)ids.size(); ++i) { idx.push_back(id2idx[(int)ids[i]]); trans.push_back((int)I.getEventTransitionsSeen()[i]);
                                                    est.push_back(I.getEstimatedEventTimes()[i]); }
    }
    emitLocRecord(I.getAccuracyInUse() * B.system.getDefaultTimeScale(), NTraits<Real>::getSignificant(), t0, h, tMax, tReport, ws,
                  ev, tLow, tHigh, idx, trans, est, INTEG_NAMES[integ]);
}

static void runOne(const std::string& mode, unsigned long long seed, long idx) {
    vh::Rng rng(seed * 104729 + 71);
    for (long i = 0; i <= idx; ++i) {
        vh::Rng sub(rng.next());
        if (i < idx) continue;
        g_tag = "seed " + (mode.empty() ? std::string("loc") : mode) + " " + std::to_string(seed) + " " + std::to_string(idx);
        if (mode == "e2e") e2eSession(sub, (int)(i % 10)); else if (mode == "ts") { if (i % 25 == 24) tsDirected(sub); else tsSession(sub, (int)(i % 10)); } else locSession(sub, (int)(i % 8));
    }
}

int main(int argc, char** argv) {
    vh::Args a(argc, argv);
    if (a.mode == "replay") {
        std::string line, last;
        while (std::getline(std::cin, line)) {
            std::istringstream is(line); std::vector<std::string> t; std::string x;
            while (is >> x) t.push_back(x);
            if (t.size() < 3 || t[0] != "I") continue;
            if (t[1] == "loc") { replayLoc(t); continue; }
            for (size_t i = 2; i + 3 < t.size(); ++i)
                if (t[i] == "seed") {
                    const std::string key = t[i + 1] + " " + t[i + 2] + " " + t[i + 3];
                    if (key != last) { last = key; runOne(t[i + 1], std::strtoull(t[i + 2].c_str(), nullptr, 10), std::atol(t[i + 3].c_str())); }
                }
        }
        return 0;
    }
    vh::Rng rng(a.seed * 104729 + 71);
    for (long i = 0; i < a.n; ++i) {
        vh::Rng sub(rng.next());
        g_tag = "seed " + (a.mode.empty() ? std::string("loc") : a.mode) + " " + std::to_string(a.seed) + " " + std::to_string(i);
        if (a.mode == "e2e") e2eSession(sub, (int)(i % 10));
        else if (a.mode == "ts") { if (i % 25 == 24) tsDirected(sub); else tsSession(sub, (int)(i % 10)); }
        else locSession(sub, (int)(i % 8));
    }
    return 0;
}
