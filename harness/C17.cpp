// C17 correspondence harness: GeneralForceSubsystem's parallel force evaluation (CalcForcesParallelTask /
// CalcForcesNonParallelTask, modes All / CachedAndNonCached / NonCached) against an independent serial sum.
//
// Every force element is a Force::Custom::Implementation with chosen shouldBeParallelIfPossible() /
// dependsOnlyOnPositions() flags that adds known INTEGER-valued increments to mobility / body force slots, so the
// totals are exact whatever the summation order.  The increments may depend on the state: a factor (1+qcode) read
// from q[0] (allowed for position-only forces) or (1+ucode) read from u[0], so a stale position-only cache or a
// skipped evaluation changes the total.  One record per realization:
//
//   I cf <threads> <after> <mode> <D> <qcode> <ucode> <nf> { <dbd> <en> <par> <pos> <dep> <nc> { <slot>:<val>:<reps> }*nc }*nf
//        threads      value last given to setNumberOfThreads
//        after        0: that call preceded the last realizeTopology; 1: it FOLLOWED it (executor replaced after the task
//                     class / one-thread downgrade had been decided)
//        mode         0 All, 1 CachedAndNonCached, 2 NonCached  (the caching path the harness steered the subsystem into)
//        D            number of force slots = nu + 6*nbodies;  qcode = round(100 q[0]), ucode = round(10 u[0])
//        the force list = ALL forces of the subsystem in index order:
//        dbd          1 iff setDisabledByDefault(true) before realizeTopology;  en  1 iff enabled in the State now
//        dep          0 constant, 1 value*(1+qcode), 2 value*(1+ucode)
//        slot:val:reps  the force adds `val`(*factor) to slot `slot`, `reps` times (reps > 1 = deliberately slow force)
//   O cf <D integers>      total mobility forces then body forces (moment xyz, force xyz per body) after realize(Dynamics)
//   P total_equals_serial <key> <max |total - independent serial sum over the currently ENABLED forces|> 0
//        key = CalcForces.threads_after_topology.nonparallel_task   setNumberOfThreads(>=2) after realizeTopology on a
//                                                                   subsystem without parallel forces (fixed finding, regression)
//              CalcForces.mode_<M>.lost_update   configuration exposed to the pre-fix unlocked writes of task 0 (F7, regression)
//              CalcForces.mode_<M>.total         otherwise
// modes of the harness: '' generic mixes with enable/disable and thread-count histories;  'f7' the dedicated lost-update
// stream (slow non-parallel force + 6 parallel + one position-only, 8 threads, 30 realizations per caching mode);
// 'f7p' slow PARALLEL and slow parallel position-only forces all hitting the same slots;  'ta' the threads-after-topology
// stream;  'replay'.
// Schedule perturbation: every calcForce call may yield (seeded per case and thread); no hook in /repo is used.
#include "Simbody.h"
#include "hcommon.h"
#include <memory>
#include <thread>
#include <atomic>
using namespace SimTK;

struct Contrib { int slot; long val; long reps; };
struct Spec { bool par, pos, enabled, dbd; int dep; std::vector<Contrib> cs; };   // enabled = current flag in the State

static std::atomic<uint64_t> g_yseed{1};
static void perturb() {
    static thread_local uint64_t rng = 0, seedSeen = 0;
    uint64_t ys = g_yseed.load(std::memory_order_relaxed);
    if (seedSeen != ys) { seedSeen = ys; rng = ys * 0x9E3779B97F4A7C15ull + std::hash<std::thread::id>()(std::this_thread::get_id()); if (!rng) rng = 1; }
    rng ^= rng << 13; rng ^= rng >> 7; rng ^= rng << 17;
    if (((rng >> 40) & 7u) == 0) std::this_thread::yield();
}

struct TestForce : public Force::Custom::Implementation {
    Spec sp; int nu;
    TestForce(const Spec& s, int nu) : sp(s), nu(nu) {}
    void calcForce(const State& st, Vector_<SpatialVec>& bodyForces, Vector_<Vec3>&, Vector& mobilityForces) const override {
        perturb();
        long factor = 1;
        if (sp.dep == 1) factor = 1 + std::lround(st.getQ()[0] * 100.0);
        else if (sp.dep == 2) factor = 1 + std::lround(st.getU()[0] * 10.0);
        for (const Contrib& c : sp.cs) {
            volatile double v = (double)(c.val * factor);
            if (c.slot < nu) { for (long r = 0; r < c.reps; ++r) { mobilityForces[c.slot] += v; if ((r & 0xFFFF) == 0xFFFF) perturb(); } }
            else { int k = c.slot - nu, b = k / 6, comp = k % 6;
                   for (long r = 0; r < c.reps; ++r) { bodyForces[b][comp / 3][comp % 3] += v; if ((r & 0xFFFF) == 0xFFFF) perturb(); } }
        }
        perturb();
    }
    Real calcPotentialEnergy(const State&) const override { return 0; }
    bool dependsOnlyOnPositions() const override { return sp.pos; }
    bool shouldBeParallelIfPossible() const override { return sp.par; }
};

struct Sys {
    MultibodySystem system; SimbodyMatterSubsystem matter; GeneralForceSubsystem forces;
    std::vector<MobilizedBody::Pin> pins; std::vector<ForceIndex> fidx; State state;
    int nu, D;
    // threadsBefore > 0: setNumberOfThreads before realizeTopology; threadsAfter > 0: (also) after it
    Sys(int nb, const std::vector<Spec>& specs, int threadsBefore, int threadsAfter) : matter(system), forces(system) {
        Body::Rigid body(MassProperties(1, Vec3(0, -1, 0), Inertia(1)));
        MobilizedBody parent = matter.Ground();
        for (int b = 0; b < nb; ++b) { pins.emplace_back(parent, Transform(Vec3(0, -1, 0)), body, Transform()); parent = pins.back(); }
        nu = nb; D = nu + 6 * (nb + 1);
        for (const Spec& s : specs) { Force::Custom f(forces, new TestForce(s, nu)); if (s.dbd) f.setDisabledByDefault(true);
                                      fidx.push_back(f.getForceIndex()); }
        if (threadsBefore > 0) forces.setNumberOfThreads(threadsBefore);
        state = system.realizeTopology();
        system.realizeModel(state);
        if (threadsAfter > 0) forces.setNumberOfThreads(threadsAfter);
    }
    void setEnabled(int k, bool en) { forces.setForceIsDisabled(state, fidx[k], !en); }
    std::vector<double> totals() {
        system.realize(state, Stage::Dynamics);
        const Vector& mob = system.getMobilityForces(state, Stage::Dynamics);
        const Vector_<SpatialVec>& bf = system.getRigidBodyForces(state, Stage::Dynamics);
        std::vector<double> t(D, 0.0);
        for (int i = 0; i < nu; ++i) t[i] = mob[i];
        for (int b = 0; b < bf.size(); ++b) for (int c = 0; c < 6; ++c) t[nu + 6 * b + c] = bf[b][c / 3][c % 3];
        return t;
    }
};

static const char* MODE_NAME[] = {"All", "CachedAndNonCached", "NonCached"};

static void emitRecord(int threads, bool after, const std::vector<Spec>& specs, int mode, int D, long qcode, long ucode,
                       const std::vector<double>& tot, const char* tag) {
    bool hasPar = false, exposedForce = false;
    std::vector<double> serial(D, 0.0);
    for (const Spec& s : specs) {
        hasPar = hasPar || s.par;
        if (!s.enabled) continue;
        long factor = s.dep == 1 ? 1 + qcode : s.dep == 2 ? 1 + ucode : 1;
        for (const Contrib& c : s.cs) serial[c.slot] += (double)c.val * (double)factor * (double)c.reps;
        if (!s.par && !(mode == 2 && s.pos)) exposedForce = true;
    }
    vh::Line in = vh::I("cf"); in.i(threads).i(after ? 1 : 0).i(mode).i(D).i(qcode).i(ucode).i((long long)specs.size());
    for (const Spec& s : specs) {
        in.i(s.dbd ? 1 : 0).i(s.enabled ? 1 : 0).i(s.par ? 1 : 0).i(s.pos ? 1 : 0).i(s.dep).i((long long)s.cs.size());
        for (const Contrib& c : s.cs) in.s(std::to_string(c.slot) + ":" + std::to_string(c.val) + ":" + std::to_string(c.reps));
    }
    in.emit();
    vh::Line out = vh::O("cf"); double worst = 0; bool integral = true;
    for (int i = 0; i < D; ++i) {
        double x = tot[i];
        if (!(x == std::floor(x)) || std::fabs(x) > 9e15) integral = false;
        worst = std::max(worst, std::fabs(x - serial[i]));
        if (x != x) worst = NAN;
    }
    for (int i = 0; i < D; ++i) { if (integral) out.i((long long)tot[i]); else out.d(tot[i]); }
    out.emit();
    // executor threads actually in force: a subsystem without parallel forces keeps one thread (downgrade in
    // realizeTopology, and since /repo e709610d also in setNumberOfThreads once the non-parallel task is in use)
    int effThreads = hasPar ? threads : 1;
    bool unsafeNPT = !hasPar && after && threads >= 2;
    bool exposed = effThreads >= 2 && mode != 0 && exposedForce;
    bool lateEnabledPar = false, stateDisabled = false, slow = false;
    for (const Spec& s : specs) { if (s.dbd && s.enabled && s.par) lateEnabledPar = true; if (!s.dbd && !s.enabled) stateDisabled = true;
                                  for (const Contrib& c : s.cs) if (c.reps > 1 && s.enabled) slow = true; }
    vh::D(std::string("cf.") + tag + ".mode_" + MODE_NAME[mode] + (exposed ? ".exposed" : ".safe") + ".threads" + std::to_string(threads));
    vh::D(std::string("cf.threads_set.") + (after ? "after_topology" : "before_topology") + (hasPar ? ".parallel_task" : ".nonparallel_task"));
    if (lateEnabledPar) vh::D("cf.history.parallel_force_disabled_by_default_then_enabled");
    if (stateDisabled) vh::D("cf.history.force_disabled_in_state");
    if (slow) vh::D("cf.slow_force_present");
    std::string key = unsafeNPT ? std::string("CalcForces.threads_after_topology.nonparallel_task")
                                : std::string("CalcForces.mode_") + MODE_NAME[mode] + (exposed ? ".lost_update" : ".total");
    vh::P("total_equals_serial", key, worst, 0);
}

// run realizations on one system.  `ops` is a list of tokens applied before each realization:
//   "p" positions changed, "v" only velocities changed (each triggers a realization),
//   "e<k>" / "d<k>" enable / disable force k in the State, "t<n>" setNumberOfThreads(n) (after topology).
// specs[k].enabled must start as !dbd.
static void runCase(int nb, std::vector<Spec> specs, int threadsBefore, int threadsAfter, const std::vector<std::string>& ops,
                    const char* tag, long q0 = 0, long u0 = 0) {
    Sys S(nb, specs, threadsBefore, threadsAfter);
    bool caching = false; for (const Spec& s : specs) caching = caching || s.pos;
    int threads = threadsAfter > 0 ? threadsAfter : threadsBefore; bool after = threadsAfter > 0;
    bool cacheValid = false; long qcode = q0, ucode = u0, k = 0;
    for (const std::string& op : ops) {
        if (op[0] == 'e' || op[0] == 'd') {
            int f = std::atoi(op.c_str() + 1); bool en = op[0] == 'e';
            if (specs[f].enabled != en) { S.setEnabled(f, en); specs[f].enabled = en; cacheValid = false; }
            continue;
        }
        if (op[0] == 't') { threads = std::atoi(op.c_str() + 1); after = true; S.forces.setNumberOfThreads(threads); continue; }
        ++k;
        // writing q (even to its current value) invalidates Stage::Position and with it the position-only cache, so q is
        // written for 'p' only; 'v' writes u only
        if (op[0] == 'p') { qcode = q0 + k; cacheValid = false; S.pins[0].setOneQ(S.state, 0, 0.01 * (double)qcode); }
        else ucode = u0 + k;
        S.pins[0].setOneU(S.state, 0, 0.1 * (double)ucode);
        int mode = !caching ? 0 : (cacheValid ? 2 : 1);
        std::vector<double> t = S.totals();
        cacheValid = caching;
        emitRecord(threads, after, specs, mode, S.D, qcode, ucode, t, tag);
    }
}
static std::vector<std::string> opsOf(const std::string& kinds) {
    std::vector<std::string> v; for (char c : kinds) v.push_back(std::string(1, c)); return v;
}

static std::vector<Spec> f7Specs() {
    std::vector<Spec> v;
    v.push_back(Spec{false, false, true, false, 0, {Contrib{0, 1, 2000000}}});              // slow, non-parallel, velocity dependent
    for (int i = 0; i < 6; ++i) v.push_back(Spec{true, false, true, false, 0, {Contrib{0, 1000, 1}}});   // parallel forces
    v.push_back(Spec{false, true, true, false, 0, {Contrib{0, 5, 1}}});                       // position-only: switches caching on
    return v;
}
// slow PARALLEL forces (velocity dependent and position-only) plus a slow non-parallel one, all on the same two slots:
// a parallel-force task that wrote the shared result / cache arrays directly would lose updates here
static std::vector<Spec> f7pSpecs() {
    std::vector<Spec> v;
    v.push_back(Spec{false, false, true, false, 0, {Contrib{0, 1, 300000}}});
    for (int i = 0; i < 4; ++i) v.push_back(Spec{true, false, true, false, 0, {Contrib{0, 1, 200000}, Contrib{1, 1, 100000}}});
    for (int i = 0; i < 3; ++i) v.push_back(Spec{true, true, true, false, 0, {Contrib{0, 1, 200000}, Contrib{1, 1, 100000}}});
    v.push_back(Spec{false, true, true, false, 0, {Contrib{1, 1, 200000}}});
    return v;
}

static void replay() {
    char* buf = new char[1 << 20];
    while (std::fgets(buf, 1 << 20, stdin)) {
        std::istringstream is(buf); std::string k, fn; is >> k >> fn;
        if (k != "I" || fn != "cf") continue;
        int threads, after, mode, D, nf; long qcode, ucode; is >> threads >> after >> mode >> D >> qcode >> ucode >> nf;
        std::vector<Spec> specs; std::vector<std::string> ops;
        for (int f = 0; f < nf; ++f) {
            int dbd, en, par, pos, dep, nc; is >> dbd >> en >> par >> pos >> dep >> nc; Spec s{par != 0, pos != 0, dbd == 0, dbd != 0, dep, {}};
            for (int c = 0; c < nc; ++c) { std::string t; is >> t; Contrib cc; long a, b, r;
                if (std::sscanf(t.c_str(), "%ld:%ld:%ld", &a, &b, &r) == 3) { cc.slot = (int)a; cc.val = b; cc.reps = r; s.cs.push_back(cc); } }
            specs.push_back(s);
            if ((en != 0) != s.enabled) ops.push_back(std::string(en ? "e" : "d") + std::to_string(f));   // reach the recorded mask in the State
        }
        // the recorded caching path is reproduced by the invalidation kind: for NonCached the record of interest is the
        // 2nd realization (q unchanged, u changed); q0/u0 are chosen so that the codes of that record match
        ops.push_back("p"); if (mode == 2) ops.push_back("v");
        int nb = (D - 6) / 7;
        runCase(nb, specs, after ? 0 : threads, after ? threads : 0, ops, "replay", qcode - 1, mode == 2 ? ucode - 2 : ucode);
    }
}

int main(int argc, char** argv) {
    vh::Args args(argc, argv);
    if (args.mode == "replay") { replay(); return 0; }
    vh::Rng g(args.seed * 7919 + 17);
    g_yseed = args.seed * 1000003 + 1;
    if (args.mode == "f7") {
        // the dedicated lost-update stream: 30 realizations in NonCached mode, 30 in CachedAndNonCached mode
        runCase(1, f7Specs(), 8, 0, opsOf("p" + std::string(30, 'v')), "f7");
        runCase(1, f7Specs(), 8, 0, opsOf(std::string(30, 'p')), "f7");
        return 0;
    }
    if (args.mode == "f7p") {
        runCase(1, f7pSpecs(), 8, 0, opsOf("p" + std::string(12, 'v')), "f7p");
        runCase(1, f7pSpecs(), 8, 0, opsOf(std::string(12, 'p')), "f7p");
        return 0;
    }
    if (args.mode == "ta") {
        // threads set AFTER realizeTopology: subsystem without parallel forces (non-parallel task) and with them
        for (int rep = 0; rep < 3; ++rep) {
            std::vector<Spec> np; np.push_back(Spec{false, false, true, false, 0, {Contrib{0, 1, 200000}}});
            np.push_back(Spec{false, rep == 1, true, false, 0, {Contrib{0, 7, 1}}});
            runCase(1, np, rep == 2 ? 4 : 0, 8, opsOf(std::string(30, 'v')), "ta");
            std::vector<Spec> wp = np; wp.push_back(Spec{true, false, true, false, 0, {Contrib{0, 1000, 1}}});
            runCase(1, wp, rep == 2 ? 4 : 0, 8, opsOf(std::string(5, 'v')), "ta");
        }
        return 0;
    }
    static const int TH[] = {1, 2, 3, 8, 16, 4, 5, 6, 7, 12, 9, 10, 11, 13, 14, 15};
    long records = 0;
    while (records < args.n) {
        g_yseed = g.next() | 1;
        int nb = 1 + g.below(4), nu = nb, D = nu + 6 * (nb + 1);
        int nf = 1 + g.below(10);
        int flavour = g.below(4);          // 0: no position-only force (mode All); 1: no parallel force; else anything
        // enable/disable HISTORY flavour: 0 nothing disabled by default; 1 ALL parallel forces disabled by default (the
        // subsystem must still pick the parallel task); 2 a random subset disabled by default
        int hist = g.below(3);
        std::vector<Spec> specs;
        for (int f = 0; f < nf; ++f) {
            Spec s; s.par = flavour == 1 ? false : g.below(2) == 0; s.pos = flavour == 0 ? false : g.below(3) == 0;
            s.dbd = hist == 0 ? false : hist == 1 ? s.par : g.below(3) == 0;
            s.enabled = !s.dbd;
            s.dep = g.below(2) == 0 ? 0 : (s.pos ? 1 : 1 + g.below(2));        // position-only forces may depend on q only
            int nc = 1 + g.below(4);
            bool slow = g.below(10) == 0;
            for (int c = 0; c < nc; ++c) s.cs.push_back(Contrib{g.below(D), (long)g.below(2001) - 1000, slow ? 20000 + g.below(80001) : 1});
            specs.push_back(s);
        }
        if (hist == 1 && flavour != 1) { bool any = false; for (auto& s : specs) any = any || s.par;
                                         if (!any) { specs[0].par = true; specs[0].dbd = true; specs[0].enabled = false; } }
        // THREAD-COUNT history: 0 set before topology (3/5), 1 set after topology only, 2 before and again after,
        // plus optional changes between realizations ("t<n>")
        int thist = g.below(5); thist = thist <= 2 ? 0 : thist - 2;
        int tsel = g.below(4) == 0 ? 16 : 5;
        int threads = TH[g.below(tsel)], threads2 = TH[g.below(tsel)];
        int tBefore = thist == 1 ? 0 : threads, tAfter = thist == 0 ? 0 : threads2;
        // realizations separated by random enable/disable toggles in the State and position / velocity-only changes
        std::vector<std::string> ops; int nreal = 3 + g.below(4);
        std::vector<int> order; for (int f = 0; f < nf; ++f) order.push_back(f);
        for (int f = nf - 1; f > 0; --f) std::swap(order[f], order[g.below(f + 1)]);       // random enabling order
        size_t nextEnable = 0; std::vector<bool> cur; for (auto& s : specs) cur.push_back(s.enabled);
        for (int k = 0; k < nreal; ++k) {
            if (k > 0) {
                int ntog = g.below(5) < 2 ? 1 + g.below(2) : 0;      // toggles invalidate the cache: keep a NonCached share
                for (int t = 0; t < ntog; ++t) {
                    int f;
                    // prefer enabling forces that were disabled by default (in random order), else toggle a random one
                    while (nextEnable < order.size() && cur[order[nextEnable]]) ++nextEnable;
                    if (nextEnable < order.size() && g.below(3) != 0) f = order[nextEnable]; else f = g.below(nf);
                    cur[f] = !cur[f];
                    ops.push_back(std::string(cur[f] ? "e" : "d") + std::to_string(f));
                }
                if (g.below(8) == 0) ops.push_back("t" + std::to_string(TH[g.below(tsel)]));   // thread count changed between realizations
            }
            ops.push_back((k == 0 || g.below(3) == 0) ? "p" : "v");
        }
        runCase(nb, specs, tBefore, tAfter, ops, "mix");
        records += nreal;
    }
    return 0;
}
