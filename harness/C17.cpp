// C17 correspondence harness: GeneralForceSubsystem's parallel force evaluation (CalcForcesParallelTask /
// CalcForcesNonParallelTask, modes All / CachedAndNonCached / NonCached) against the serial sum.
//
// Every force element is a Force::Custom::Implementation with chosen shouldBeParallelIfPossible() /
// dependsOnlyOnPositions() flags that adds known INTEGER-valued increments to mobility / body force slots, so the
// totals are exact whatever the summation order.  One record per realization:
//
//   I cf <threads> <mode> <D> <nf> { <dbd> <en> <par> <pos> <nc> { <slot>:<val>:<reps> }*nc }*nf
//        threads      value given to setNumberOfThreads          mode  0 All, 1 CachedAndNonCached, 2 NonCached
//        D            number of force slots = nu + 6*nbodies      the force list = ALL forces of the subsystem in index order
//        dbd          1 iff the force was setDisabledByDefault(true) before realizeTopology
//        en           1 iff the force is enabled in the State at this realization (after the enable/disable history)
//        slot:val:reps  the force adds `val` to slot `slot`, `reps` times (reps > 1 = deliberately slow force)
//   O cf <D integers>      total mobility forces then body forces (moment xyz, force xyz per body) after realize(Dynamics)
//   P total_equals_serial <key> <max |total - independent serial sum over the currently ENABLED forces|> 0
//        key = CalcForces.mode_<M>.lost_update  when the model says the configuration is exposed to the unlocked
//              writes of task 0 (mode != All, >= 2 executor threads, some enabled non-parallel force evaluated), finding F7
//              CalcForces.mode_<M>.total        otherwise
// modes of the harness: '' generic mixes;  'f7' the dedicated lost-update stream (slow non-parallel force + 6 parallel
// forces + one position-only force, 8 threads, 30 realizations per caching mode);  'replay'.
#include "Simbody.h"
#include "hcommon.h"
#include <memory>
using namespace SimTK;

struct Contrib { int slot; long val; long reps; };
struct Spec { bool par, pos, enabled, dbd; std::vector<Contrib> cs; };   // enabled = current flag in the State

struct TestForce : public Force::Custom::Implementation {
    Spec sp; int nu;
    TestForce(const Spec& s, int nu) : sp(s), nu(nu) {}
    void calcForce(const State&, Vector_<SpatialVec>& bodyForces, Vector_<Vec3>&, Vector& mobilityForces) const override {
        for (const Contrib& c : sp.cs) {
            volatile double v = (double)c.val;
            if (c.slot < nu) { for (long r = 0; r < c.reps; ++r) mobilityForces[c.slot] += v; }
            else { int k = c.slot - nu, b = k / 6, comp = k % 6;
                   for (long r = 0; r < c.reps; ++r) bodyForces[b][comp / 3][comp % 3] += v; }
        }
    }
    Real calcPotentialEnergy(const State&) const override { return 0; }
    bool dependsOnlyOnPositions() const override { return sp.pos; }
    bool shouldBeParallelIfPossible() const override { return sp.par; }
};

struct Sys {
    MultibodySystem system; SimbodyMatterSubsystem matter; GeneralForceSubsystem forces;
    std::vector<MobilizedBody::Pin> pins; std::vector<ForceIndex> fidx; State state;
    int nu, D;
    Sys(int nb, const std::vector<Spec>& specs, int threads) : matter(system), forces(system) {
        Body::Rigid body(MassProperties(1, Vec3(0, -1, 0), Inertia(1)));
        MobilizedBody parent = matter.Ground();
        for (int b = 0; b < nb; ++b) { pins.emplace_back(parent, Transform(Vec3(0, -1, 0)), body, Transform()); parent = pins.back(); }
        nu = nb; D = nu + 6 * (nb + 1);
        for (const Spec& s : specs) { Force::Custom f(forces, new TestForce(s, nu)); if (s.dbd) f.setDisabledByDefault(true);
                                      fidx.push_back(f.getForceIndex()); }
        forces.setNumberOfThreads(threads);
        state = system.realizeTopology();
        system.realizeModel(state);
    }
    void setEnabled(int k, bool en) { forces.setForceIsDisabled(state, fidx[k], !en); }
    std::vector<double> totals() {
        system.realize(state, Stage::Dynamics);
        const Vector& mob = system.getMobilityForces(state, Stage::Dynamics);
        const Vector_<SpatialVec>& bf = system.getRigidBodyForces(state, Stage::Dynamics);
        std::vector<double> t(D, 0.0);
        for (int i = 0; i < nu; ++i) t[i] = mob[i];
        for (int b = 0; b < bf.size(); ++b) for (int c = 0; c < 6; ++c) t[nu + 6 * b + c] = bf[b][c / 3][c % 3];
        return t;
    }
};

static const char* MODE_NAME[] = {"All", "CachedAndNonCached", "NonCached"};

static void emitRecord(int threads, const std::vector<Spec>& specs, int mode, int D, const std::vector<double>& tot, const char* tag) {
    bool hasPar = false, exposedForce = false; int nEnabled = 0;
    std::vector<double> serial(D, 0.0);
    for (const Spec& s : specs) {
        hasPar = hasPar || s.par;
        if (!s.enabled) continue;
        ++nEnabled;
        for (const Contrib& c : s.cs) serial[c.slot] += (double)c.val * (double)c.reps;
        if (!s.par && !(mode == 2 && s.pos)) exposedForce = true;
    }
    vh::Line in = vh::I("cf"); in.i(threads).i(mode).i(D).i((long long)specs.size());
    for (const Spec& s : specs) {
        in.i(s.dbd ? 1 : 0).i(s.enabled ? 1 : 0).i(s.par ? 1 : 0).i(s.pos ? 1 : 0).i((long long)s.cs.size());
        for (const Contrib& c : s.cs) in.s(std::to_string(c.slot) + ":" + std::to_string(c.val) + ":" + std::to_string(c.reps));
    }
    in.emit();
    vh::Line out = vh::O("cf"); double worst = 0; bool integral = true;
    for (int i = 0; i < D; ++i) {
        double x = tot[i];
        if (!(x == std::floor(x)) || std::fabs(x) > 9e15) integral = false;
        worst = std::max(worst, std::fabs(x - serial[i]));
        if (x != x) worst = NAN;
    }
    for (int i = 0; i < D; ++i) { if (integral) out.i((long long)tot[i]); else out.d(tot[i]); }
    out.emit();
    int effThreads = hasPar ? threads : 1;
    bool exposed = effThreads >= 2 && mode != 0 && exposedForce;
    bool lateEnabledPar = false, stateDisabled = false;
    for (const Spec& s : specs) { if (s.dbd && s.enabled && s.par) lateEnabledPar = true; if (!s.dbd && !s.enabled) stateDisabled = true; }
    vh::D(std::string("cf.") + tag + ".mode_" + MODE_NAME[mode] + (exposed ? ".exposed" : ".safe") + ".threads" + std::to_string(threads));
    if (lateEnabledPar) vh::D("cf.history.parallel_force_disabled_by_default_then_enabled");
    if (stateDisabled) vh::D("cf.history.force_disabled_in_state");
    vh::P("total_equals_serial", std::string("CalcForces.mode_") + MODE_NAME[mode] + (exposed ? ".lost_update" : ".total"), worst, 0);
}

// run realizations on one system.  `ops` is a list of tokens applied before each realization:
//   "p" positions changed, "v" only velocities changed, "e<k>" / "d<k>" enable / disable force k in the State
// (a token group ends with "p" or "v", which triggers the realization).  specs[k].enabled must start as !dbd.
static void runCase(int nb, std::vector<Spec> specs, int threads, const std::vector<std::string>& ops, const char* tag) {
    Sys S(nb, specs, threads);
    bool caching = false; for (const Spec& s : specs) caching = caching || s.pos;
    bool cacheValid = false; int k = 0;
    for (const std::string& op : ops) {
        if (op[0] == 'e' || op[0] == 'd') {
            int f = std::atoi(op.c_str() + 1); bool en = op[0] == 'e';
            if (specs[f].enabled != en) { S.setEnabled(f, en); specs[f].enabled = en; cacheValid = false; }
            continue;
        }
        ++k;
        if (op[0] == 'p') { S.pins[0].setOneQ(S.state, 0, 0.01 * (double)k); cacheValid = false; }
        else S.pins[0].setOneU(S.state, 0, 0.1 * (double)k);
        int mode = !caching ? 0 : (cacheValid ? 2 : 1);
        std::vector<double> t = S.totals();
        cacheValid = caching;
        emitRecord(threads, specs, mode, S.D, t, tag);
    }
}
static std::vector<std::string> opsOf(const std::string& kinds) {
    std::vector<std::string> v; for (char c : kinds) v.push_back(std::string(1, c)); return v;
}

static std::vector<Spec> f7Specs() {
    std::vector<Spec> v;
    v.push_back(Spec{false, false, true, false, {Contrib{0, 1, 2000000}}});              // slow, non-parallel, velocity dependent
    for (int i = 0; i < 6; ++i) v.push_back(Spec{true, false, true, false, {Contrib{0, 1000, 1}}});   // parallel forces
    v.push_back(Spec{false, true, true, false, {Contrib{0, 5, 1}}});                       // position-only: switches caching on
    return v;
}

static void replay() {
    char* buf = new char[1 << 20];
    while (std::fgets(buf, 1 << 20, stdin)) {
        std::istringstream is(buf); std::string k, fn; is >> k >> fn;
        if (k != "I" || fn != "cf") continue;
        int threads, mode, D, nf; is >> threads >> mode >> D >> nf;
        std::vector<Spec> specs; std::vector<std::string> ops; bool anyPos = false;
        for (int f = 0; f < nf; ++f) {
            int dbd, en, par, pos, nc; is >> dbd >> en >> par >> pos >> nc; Spec s{par != 0, pos != 0, dbd == 0, dbd != 0, {}};
            for (int c = 0; c < nc; ++c) { std::string t; is >> t; Contrib cc; long a, b, r;
                if (std::sscanf(t.c_str(), "%ld:%ld:%ld", &a, &b, &r) == 3) { cc.slot = (int)a; cc.val = b; cc.reps = r; s.cs.push_back(cc); } }
            anyPos = anyPos || s.pos; specs.push_back(s);
            if ((en != 0) != s.enabled) ops.push_back(std::string(en ? "e" : "d") + std::to_string(f));   // reach the recorded mask in the State
        }
        // mode != All with no position-only force listed cannot happen (all forces are listed); the recorded mode is
        // reproduced by the invalidation kind: for NonCached the record of interest is the 2nd realization
        ops.push_back("p"); if (mode == 2) ops.push_back("v");
        int nb = (D - 6) / 7;
        runCase(nb, specs, threads, ops, "replay");
    }
}

int main(int argc, char** argv) {
    vh::Args args(argc, argv);
    if (args.mode == "replay") { replay(); return 0; }
    vh::Rng g(args.seed * 7919 + 17);
    if (args.mode == "f7") {
        // the dedicated lost-update stream: 30 realizations in NonCached mode, 30 in CachedAndNonCached mode
        runCase(1, f7Specs(), 8, opsOf("p" + std::string(30, 'v')), "f7");
        runCase(1, f7Specs(), 8, opsOf(std::string(30, 'p')), "f7");
        return 0;
    }
    static const int TH[] = {1, 2, 3, 8, 16, 4, 5, 6, 7, 12};
    long records = 0;
    while (records < args.n) {
        int nb = 1 + g.below(4), nu = nb, D = nu + 6 * (nb + 1);
        int nf = 1 + g.below(10);
        int flavour = g.below(4);          // 0: no position-only force (mode All); 1: no parallel force; else anything
        // enable/disable HISTORY flavour: 0 nothing disabled by default; 1 ALL parallel forces disabled by default (the
        // subsystem must still pick the parallel task); 2 a random subset disabled by default
        int hist = g.below(3);
        std::vector<Spec> specs;
        for (int f = 0; f < nf; ++f) {
            Spec s; s.par = flavour == 1 ? false : g.below(2) == 0; s.pos = flavour == 0 ? false : g.below(3) == 0;
            s.dbd = hist == 0 ? false : hist == 1 ? s.par : g.below(3) == 0;
            s.enabled = !s.dbd;
            int nc = 1 + g.below(4);
            for (int c = 0; c < nc; ++c) s.cs.push_back(Contrib{g.below(D), (long)g.below(2001) - 1000, 1});
            specs.push_back(s);
        }
        if (hist == 1 && flavour != 1) { bool any = false; for (auto& s : specs) any = any || s.par;
                                         if (!any) { specs[0].par = true; specs[0].dbd = true; specs[0].enabled = false; } }
        int threads = TH[g.below(g.below(4) == 0 ? 10 : 5)];
        // realizations separated by random enable/disable toggles in the State and position / velocity-only changes
        std::vector<std::string> ops; int nreal = 3 + g.below(4);
        std::vector<int> order; for (int f = 0; f < nf; ++f) order.push_back(f);
        for (int f = nf - 1; f > 0; --f) std::swap(order[f], order[g.below(f + 1)]);       // random enabling order
        size_t nextEnable = 0; std::vector<bool> cur; for (auto& s : specs) cur.push_back(s.enabled);
        for (int k = 0; k < nreal; ++k) {
            if (k > 0) {
                int ntog = g.below(3);
                for (int t = 0; t < ntog; ++t) {
                    int f;
                    // prefer enabling forces that were disabled by default (in random order), else toggle a random one
                    while (nextEnable < order.size() && cur[order[nextEnable]]) ++nextEnable;
                    if (nextEnable < order.size() && g.below(3) != 0) f = order[nextEnable]; else f = g.below(nf);
                    cur[f] = !cur[f];
                    ops.push_back(std::string(cur[f] ? "e" : "d") + std::to_string(f));
                }
            }
            ops.push_back((k == 0 || g.below(3) == 0) ? "p" : "v");
        }
        runCase(nb, specs, threads, ops, "mix");
        records += nreal;
    }
    return 0;
}
