// C17 correspondence harness: GeneralForceSubsystem's parallel force evaluation (CalcForcesParallelTask /
// CalcForcesNonParallelTask, modes All / CachedAndNonCached / NonCached) against the serial sum.
//
// Every force element is a Force::Custom::Implementation with chosen shouldBeParallelIfPossible() /
// dependsOnlyOnPositions() flags that adds known INTEGER-valued increments to mobility / body force slots, so the
// totals are exact whatever the summation order.  One record per realization:
//
//   I cf <threads> <hasParallel> <mode> <D> <nf> { <par> <pos> <nc> { <slot>:<val>:<reps> }*nc }*nf
//        threads      value given to setNumberOfThreads          hasParallel  1 iff ANY force of the subsystem (enabled or
//        mode         0 All, 1 CachedAndNonCached, 2 NonCached                not) is parallel (selects the task class)
//        D            number of force slots = nu + 6*nbodies      the force list = the ENABLED forces in index order
//        slot:val:reps  the force adds `val` to slot `slot`, `reps` times (reps > 1 = deliberately slow force)
//   O cf <D integers>      total mobility forces then body forces (moment xyz, force xyz per body) after realize(Dynamics)
//   P total_equals_serial <key> <max |total - serial sum|> 0
//        key = CalcForces.mode_<M>.lost_update  when the model says the configuration is exposed to the unlocked
//              writes of task 0 (mode != All, >= 2 executor threads, some enabled non-parallel force evaluated), finding F7
//              CalcForces.mode_<M>.total        otherwise
// modes of the harness: '' generic mixes;  'f7' the dedicated lost-update stream (slow non-parallel force + 6 parallel
// forces + one position-only force, 8 threads, 30 realizations per caching mode);  'replay'.
#include "Simbody.h"
#include "hcommon.h"
#include <memory>
using namespace SimTK;

struct Contrib { int slot; long val; long reps; };
struct Spec { bool par, pos, enabled; std::vector<Contrib> cs; };

struct TestForce : public Force::Custom::Implementation {
    Spec sp; int nu;
    TestForce(const Spec& s, int nu) : sp(s), nu(nu) {}
    void calcForce(const State&, Vector_<SpatialVec>& bodyForces, Vector_<Vec3>&, Vector& mobilityForces) const override {
        for (const Contrib& c : sp.cs) {
            volatile double v = (double)c.val;
            if (c.slot < nu) { for (long r = 0; r < c.reps; ++r) mobilityForces[c.slot] += v; }
            else { int k = c.slot - nu, b = k / 6, comp = k % 6;
                   for (long r = 0; r < c.reps; ++r) bodyForces[b][comp / 3][comp % 3] += v; }
        }
    }
    Real calcPotentialEnergy(const State&) const override { return 0; }
    bool dependsOnlyOnPositions() const override { return sp.pos; }
    bool shouldBeParallelIfPossible() const override { return sp.par; }
};

struct Sys {
    MultibodySystem system; SimbodyMatterSubsystem matter; GeneralForceSubsystem forces;
    std::vector<MobilizedBody::Pin> pins; std::vector<ForceIndex> fidx; State state;
    int nu, D;
    Sys(int nb, const std::vector<Spec>& specs, int threads) : matter(system), forces(system) {
        Body::Rigid body(MassProperties(1, Vec3(0, -1, 0), Inertia(1)));
        MobilizedBody parent = matter.Ground();
        for (int b = 0; b < nb; ++b) { pins.emplace_back(parent, Transform(Vec3(0, -1, 0)), body, Transform()); parent = pins.back(); }
        nu = nb; D = nu + 6 * (nb + 1);
        for (const Spec& s : specs) { Force::Custom f(forces, new TestForce(s, nu)); fidx.push_back(f.getForceIndex()); }
        forces.setNumberOfThreads(threads);
        state = system.realizeTopology();
        system.realizeModel(state);
        for (size_t k = 0; k < specs.size(); ++k) if (!specs[k].enabled) forces.setForceIsDisabled(state, fidx[k], true);
    }
    std::vector<double> totals() {
        system.realize(state, Stage::Dynamics);
        const Vector& mob = system.getMobilityForces(state, Stage::Dynamics);
        const Vector_<SpatialVec>& bf = system.getRigidBodyForces(state, Stage::Dynamics);
        std::vector<double> t(D, 0.0);
        for (int i = 0; i < nu; ++i) t[i] = mob[i];
        for (int b = 0; b < bf.size(); ++b) for (int c = 0; c < 6; ++c) t[nu + 6 * b + c] = bf[b][c / 3][c % 3];
        return t;
    }
};

static const char* MODE_NAME[] = {"All", "CachedAndNonCached", "NonCached"};

static void emitRecord(int threads, const std::vector<Spec>& specs, int mode, int D, const std::vector<double>& tot, const char* tag) {
    bool hasPar = false, exposedForce = false; int nEnabled = 0;
    std::vector<double> serial(D, 0.0);
    for (const Spec& s : specs) {
        hasPar = hasPar || s.par;
        if (!s.enabled) continue;
        ++nEnabled;
        for (const Contrib& c : s.cs) serial[c.slot] += (double)c.val * (double)c.reps;
        if (!s.par && !(mode == 2 && s.pos)) exposedForce = true;
    }
    vh::Line in = vh::I("cf"); in.i(threads).i(hasPar ? 1 : 0).i(mode).i(D).i(nEnabled);
    for (const Spec& s : specs) {
        if (!s.enabled) continue;
        in.i(s.par ? 1 : 0).i(s.pos ? 1 : 0).i((long long)s.cs.size());
        for (const Contrib& c : s.cs) in.s(std::to_string(c.slot) + ":" + std::to_string(c.val) + ":" + std::to_string(c.reps));
    }
    in.emit();
    vh::Line out = vh::O("cf"); double worst = 0; bool integral = true;
    for (int i = 0; i < D; ++i) {
        double x = tot[i];
        if (!(x == std::floor(x)) || std::fabs(x) > 9e15) integral = false;
        worst = std::max(worst, std::fabs(x - serial[i]));
        if (x != x) worst = NAN;
    }
    for (int i = 0; i < D; ++i) { if (integral) out.i((long long)tot[i]); else out.d(tot[i]); }
    out.emit();
    int effThreads = hasPar ? threads : 1;
    bool exposed = effThreads >= 2 && mode != 0 && exposedForce;
    vh::D(std::string("cf.") + tag + ".mode_" + MODE_NAME[mode] + (exposed ? ".exposed" : ".safe") + ".threads" + std::to_string(threads));
    vh::P("total_equals_serial", std::string("CalcForces.mode_") + MODE_NAME[mode] + (exposed ? ".lost_update" : ".total"), worst, 0);
}

// run `nreal` realizations on one system; kinds[k] = 'v' (only velocities changed) or 'p' (positions changed)
static void runCase(int nb, const std::vector<Spec>& specs, int threads, const std::string& kinds, const char* tag) {
    Sys S(nb, specs, threads);
    bool caching = false; for (const Spec& s : specs) caching = caching || s.pos;
    bool cacheValid = false;
    for (size_t k = 0; k < kinds.size(); ++k) {
        if (kinds[k] == 'p') { S.pins[0].setOneQ(S.state, 0, 0.01 * (double)(k + 1)); cacheValid = false; }
        else S.pins[0].setOneU(S.state, 0, 0.1 * (double)(k + 1));
        int mode = !caching ? 0 : (cacheValid ? 2 : 1);
        std::vector<double> t = S.totals();
        cacheValid = caching;
        emitRecord(threads, specs, mode, S.D, t, tag);
    }
}

static std::vector<Spec> f7Specs() {
    std::vector<Spec> v;
    v.push_back(Spec{false, false, true, {Contrib{0, 1, 2000000}}});              // slow, non-parallel, velocity dependent
    for (int i = 0; i < 6; ++i) v.push_back(Spec{true, false, true, {Contrib{0, 1000, 1}}});   // parallel forces
    v.push_back(Spec{false, true, true, {Contrib{0, 5, 1}}});                       // position-only: switches caching on
    return v;
}

static void replay() {
    char* buf = new char[1 << 20];
    while (std::fgets(buf, 1 << 20, stdin)) {
        std::istringstream is(buf); std::string k, fn; is >> k >> fn;
        if (k != "I" || fn != "cf") continue;
        int threads, hasPar, mode, D, nf; is >> threads >> hasPar >> mode >> D >> nf;
        std::vector<Spec> specs; bool anyPar = false, anyPos = false;
        for (int f = 0; f < nf; ++f) {
            int par, pos, nc; is >> par >> pos >> nc; Spec s{par != 0, pos != 0, true, {}};
            for (int c = 0; c < nc; ++c) { std::string t; is >> t; Contrib cc; long a, b, r;
                if (std::sscanf(t.c_str(), "%ld:%ld:%ld", &a, &b, &r) == 3) { cc.slot = (int)a; cc.val = b; cc.reps = r; s.cs.push_back(cc); } }
            anyPar = anyPar || s.par; anyPos = anyPos || s.pos; specs.push_back(s);
        }
        // a disabled dummy force reproduces the subsystem-wide flags when no enabled force carries them
        if (hasPar && !anyPar) specs.push_back(Spec{true, false, false, {}});
        if (mode != 0 && !anyPos) specs.push_back(Spec{false, true, false, {}});
        int nb = (D - 6) / 7;
        runCase(nb, specs, threads, mode == 2 ? "pv" : "p", "replay");     // for NonCached the record of interest is the 2nd
    }
}

int main(int argc, char** argv) {
    vh::Args args(argc, argv);
    if (args.mode == "replay") { replay(); return 0; }
    vh::Rng g(args.seed * 7919 + 17);
    if (args.mode == "f7") {
        // the dedicated lost-update stream: 30 realizations in NonCached mode, 30 in CachedAndNonCached mode
        runCase(1, f7Specs(), 8, "p" + std::string(30, 'v'), "f7");
        runCase(1, f7Specs(), 8, std::string(30, 'p'), "f7");
        return 0;
    }
    static const int TH[] = {1, 2, 3, 4, 5, 6, 7, 8, 12, 16};
    long records = 0;
    while (records < args.n) {
        int nb = 1 + g.below(4), nu = nb, D = nu + 6 * (nb + 1);
        int nf = 1 + g.below(10);
        int flavour = g.below(4);          // 0: no position-only force (mode All); 1: no parallel force; else anything
        std::vector<Spec> specs;
        for (int f = 0; f < nf; ++f) {
            Spec s; s.par = flavour == 1 ? false : g.below(2) == 0; s.pos = flavour == 0 ? false : g.below(3) == 0;
            s.enabled = g.below(8) != 0;
            int nc = 1 + g.below(4);
            for (int c = 0; c < nc; ++c) s.cs.push_back(Contrib{g.below(D), (long)g.below(2001) - 1000, 1});
            specs.push_back(s);
        }
        int threads = TH[g.below(g.below(6) == 0 ? 10 : 8)];
        std::string kinds; int nreal = 3 + g.below(4);
        for (int k = 0; k < nreal; ++k) kinds += (k == 0 || g.below(3) == 0) ? 'p' : 'v';
        runCase(nb, specs, threads, kinds, "mix");
        records += nreal;
    }
    return 0;
}
