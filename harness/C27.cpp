// C27 correspondence harness: Rotation_, InverseRotation_, Quaternion_, UnitVec, Transform_, InverseTransform_
// in double and float.  Every record is answered by the Lean driver drv_C27 (model: SimbodyModel/Spatial.lean).
//   I <fn>[F] <hex doubles>…      (axis ids / flags travel as the doubles 0,1,2)
//   O <fn>[F] <hex doubles>…      what the library returned
//   D <tag>                       code path / input class
//   P <pred> <key> <value> <bound>  the property's predicates on the library's own outputs:
//        orthonormality residual max|RᵀR-I|, |det R-1|, round-trip residuals of every conversion,
//        agreement of composition / inversion / re-expression with the dense matrix definitions.
#include "SimTKcommon.h"
#include "hcommon.h"
#include <algorithm>
using namespace SimTK;
typedef long double LD;

static const double PI = 3.14159265358979323846;

template <class P> struct H {
    typedef Rotation_<P> Rot;
    typedef Mat<3, 3, P> M33;
    typedef Vec<3, P> V3;
    typedef Vec<4, P> V4;
    typedef Quaternion_<P> Quat;
    typedef UnitVec<P, 1> UV;
    typedef Transform_<P> Xf;
    typedef SymMat<3, P> Sym;

    static bool isF() { return sizeof(P) == 4; }
    static std::string fn(const char* base) { return std::string(base) + (isF() ? "F" : ""); }
    static double eps() { return (double)NTraits<P>::getEps(); }
    static void tol() { if (isF()) std::printf("T 2e-5 2e-6\n"); }
    static P cast(double x) { return (P)x; }

    static void putM(vh::Line& L, const M33& R) { for (int i = 0; i < 3; ++i) for (int j = 0; j < 3; ++j) L.d((double)R[i][j]); }
    static void putV(vh::Line& L, const V3& v) { for (int i = 0; i < 3; ++i) L.d((double)v[i]); }
    static void putQ(vh::Line& L, const V4& v) { for (int i = 0; i < 4; ++i) L.d((double)v[i]); }
    static void putX(vh::Line& L, const Xf& X) { putM(L, X.R().asMat33()); putV(L, X.p()); }

    static double orthoRes(const M33& R) {
        LD worst = 0;
        for (int i = 0; i < 3; ++i) for (int j = 0; j < 3; ++j) {
            LD s = 0; for (int k = 0; k < 3; ++k) s += (LD)R[k][i] * (LD)R[k][j];
            worst = std::max(worst, std::fabs(s - (i == j ? 1.0L : 0.0L)));
        }
        return (double)worst;
    }
    static double detRes(const M33& R) {
        LD d = (LD)R[0][0] * ((LD)R[1][1] * R[2][2] - (LD)R[1][2] * R[2][1]) - (LD)R[0][1] * ((LD)R[1][0] * R[2][2] - (LD)R[1][2] * R[2][0])
             + (LD)R[0][2] * ((LD)R[1][0] * R[2][1] - (LD)R[1][1] * R[2][0]);
        return (double)std::fabs(d - 1.0L);
    }
    static double maxDiff(const M33& A, const M33& B) {
        double w = 0; for (int i = 0; i < 3; ++i) for (int j = 0; j < 3; ++j) w = std::max(w, std::fabs((double)A[i][j] - (double)B[i][j]));
        return (std::isnan(w) ? NAN : w);
    }
    static bool hasNaN(const M33& A) { for (int i = 0; i < 3; ++i) for (int j = 0; j < 3; ++j) if (std::isnan((double)A[i][j])) return true; return false; }
    // the two predicates every Rotation must satisfy
    static void proper(const std::string& key, const M33& R, double mult = 1) {
        vh::P("orthonormal", key + ".ortho", hasNaN(R) ? NAN : orthoRes(R), 64 * eps() * mult);
        vh::P("det_one", key + ".det", hasNaN(R) ? NAN : detRes(R), 64 * eps() * mult);
    }
    static CoordinateAxis AX(int a) { return CoordinateAxis(a); }

    // ------------------------------------------------------------------ constructors from angles
    static void aboutAxis(int a, double t, const std::string& cls) {
        P th = cast(t);
        Rot R(th, AX(a));
        vh::I(fn("aboutAxis")).d(a).d((double)th).emit(); tol();
        vh::Line o = vh::O(fn("aboutAxis")); putM(o, R.asMat33()); o.emit();
        vh::D(fn("aboutAxis") + "." + cls);
        proper(fn("aboutAxis") + "." + cls, R.asMat33());
        // round trip through convertOneAxisRotationToOneAngle
        P back = R.convertOneAxisRotationToOneAngle(AX(a));
        Rot R2(back, AX(a));
        vh::P("roundtrip_one_angle", fn("aboutAxis") + "." + cls + ".rt", maxDiff(R.asMat33(), R2.asMat33()), 64 * eps());
        if (!isF()) {
            vh::Line i2 = vh::I("toOne"); i2.d(a); putM(i2, R.asMat33()); i2.emit();
            vh::O("toOne").d((double)back).emit();
            vh::D("toOne." + cls);
        }
    }
    static void two(bool space, int a1, int a2, double t1, double t2, const std::string& cls, bool emitConv) {
        P th1 = cast(t1), th2 = cast(t2);
        BodyOrSpaceType bs = space ? SpaceRotationSequence : BodyRotationSequence;
        Rot R(bs, th1, AX(a1), th2, AX(a2));
        vh::I(fn("two")).d(space).d(a1).d(a2).d((double)th1).d((double)th2).emit(); tol();
        vh::Line o = vh::O(fn("two")); putM(o, R.asMat33()); o.emit();
        std::string seq = std::string(space ? "space" : "body") + "." + "XYZ"[a1] + "XYZ"[a2];
        vh::D(fn("two") + "." + seq + "." + cls);
        std::string key = fn("two") + "." + seq + "." + cls;
        proper(key, R.asMat33());
        // definition: product of elementary rotations (dense, long double)
        Rot E1(th1, AX(a1)), E2(th2, AX(a2));
        M33 prod = space ? M33(E2.asMat33() * E1.asMat33()) : M33(E1.asMat33() * E2.asMat33());
        vh::P("equals_product_of_elementary_rotations", key + ".def", maxDiff(R.asMat33(), prod), 64 * eps());
        Vec<2, P> back = R.convertTwoAxesRotationToTwoAngles(bs, AX(a1), AX(a2));
        Rot R2(bs, back[0], AX(a1), back[1], AX(a2));
        vh::P("roundtrip_two_angles", key + ".rt", maxDiff(R.asMat33(), R2.asMat33()), 64 * eps());
        if (emitConv) {
            vh::Line i2 = vh::I(fn("toTwo")); i2.d(space).d(a1).d(a2); putM(i2, R.asMat33()); i2.emit(); tol();
            vh::O(fn("toTwo")).d((double)back[0]).d((double)back[1]).emit();
            vh::D(fn("toTwo") + "." + seq + "." + cls);
        }
    }
    static void three(bool space, int a1, int a2, int a3, double t1, double t2, double t3, const std::string& cls, bool emitConv) {
        P th1 = cast(t1), th2 = cast(t2), th3 = cast(t3);
        BodyOrSpaceType bs = space ? SpaceRotationSequence : BodyRotationSequence;
        Rot R(bs, th1, AX(a1), th2, AX(a2), th3, AX(a3));
        vh::I(fn("three")).d(space).d(a1).d(a2).d(a3).d((double)th1).d((double)th2).d((double)th3).emit(); tol();
        vh::Line o = vh::O(fn("three")); putM(o, R.asMat33()); o.emit();
        std::string seq = std::string(space ? "space" : "body") + "." + "XYZ"[a1] + "XYZ"[a2] + "XYZ"[a3];
        std::string key = fn("three") + "." + seq + "." + cls;
        vh::D(key);
        vh::D(fn("three") + ".extraction." + extractionBranch(R.asMat33(), space, a1, a2, a3));
        proper(key, R.asMat33());
        Rot E1(th1, AX(a1)), E2(th2, AX(a2)), E3(th3, AX(a3));
        M33 prod = space ? M33(E3.asMat33() * E2.asMat33() * E1.asMat33()) : M33(E1.asMat33() * E2.asMat33() * E3.asMat33());
        vh::P("equals_product_of_elementary_rotations", key + ".def", maxDiff(R.asMat33(), prod), 64 * eps());
        Vec<3, P> back = R.convertThreeAxesRotationToThreeAngles(bs, AX(a1), AX(a2), AX(a3));
        Rot R2(bs, back[0], AX(a1), back[1], AX(a2), back[2], AX(a3));
        // measured on the clean tree: <= 5 eps everywhere, including the gimbal-lock neighbourhoods (the entries the
        // extraction divides are products that carry only relative error), so no conditioning allowance is made
        vh::P("roundtrip_three_angles", key + ".rt", maxDiff(R.asMat33(), R2.asMat33()), 64 * eps());
        if (emitConv) {
            vh::Line i2 = vh::I(fn("toThree")); i2.d(space).d(a1).d(a2).d(a3); putM(i2, R.asMat33()); i2.emit(); tol();
            vh::O(fn("toThree")).d((double)back[0]).d((double)back[1]).d((double)back[2]).emit();
            vh::D(fn("toThree") + "." + seq + "." + cls);
        }
    }
    // which branch of the three-angle extraction the library takes for sequence (bs,a1,a2,a3) on R (recomputed here for
    // the D tag only: regular / singular with positive or negative test value / degenerate two-angle dispatch)
    static std::string extractionBranch(const M33& m, bool space, int a1, int a2, int a3) {
        if (a1 == a2 || a2 == a3) return "degenerate";
        int i = space ? a3 : a1, j = a2, k3 = space ? a1 : a3;
        bool rev = ((i + 2) % 3) == j; double pm = rev ? -1 : 1;
        if (i == k3) { int k = 3 - i - j;
            double rs = std::sqrt(((double)m[i][j] * m[i][j] + (double)m[i][k] * m[i][k] + (double)m[j][i] * m[j][i] + (double)m[k][i] * m[k][i]) / 2);
            return rs > 4 * Eps ? "iji.regular" : ((double)m[i][i] > 0 ? "iji.singular_pos" : "iji.singular_neg"); }
        double rs = std::sqrt(((double)m[i][i] * m[i][i] + (double)m[i][j] * m[i][j] + (double)m[j][k3] * m[j][k3] + (double)m[k3][k3] * m[k3][k3]) / 2);
        return rs > 4 * Eps ? "ijk.regular" : (pm * (double)m[i][k3] > 0 ? "ijk.singular_pos" : "ijk.singular_neg");
    }
    // extraction from a rotation that was NOT built by the same-sequence constructor (quaternion, product of rotations):
    // its entries carry absolute (not relative) rounding error, so near gimbal lock the individual angles are ill
    // conditioned like eps/|cos th2| (eps/|sin th2| for i-j-i); the rebuilt rotation is compared with the input
    static void extractGeneral(const Rot& R, bool space, int a1, int a2, int a3, const std::string& cls) {
        BodyOrSpaceType bs = space ? SpaceRotationSequence : BodyRotationSequence;
        Vec<3, P> back = R.convertThreeAxesRotationToThreeAngles(bs, AX(a1), AX(a2), AX(a3));
        std::string seq = std::string(space ? "space" : "body") + "." + "XYZ"[a1] + "XYZ"[a2] + "XYZ"[a3];
        std::string br = extractionBranch(R.asMat33(), space, a1, a2, a3);
        vh::Line i2 = vh::I(fn("toThree")); i2.d(space).d(a1).d(a2).d(a3); putM(i2, R.asMat33()); i2.emit();
        const M33& m = R.asMat33();
        // conditioning of the regular branch
        double cond = 1;
        if (br == "ijk.regular" || br == "iji.regular") {
            int i = space ? a3 : a1, j = a2, k3 = space ? a1 : a3;
            if (i == k3) { int k = 3 - i - j; cond = std::sqrt(((double)m[i][j] * m[i][j] + (double)m[i][k] * m[i][k] + (double)m[j][i] * m[j][i] + (double)m[k][i] * m[k][i]) / 2); }
            else cond = std::sqrt(((double)m[i][i] * m[i][i] + (double)m[i][j] * m[i][j] + (double)m[j][k3] * m[j][k3] + (double)m[k3][k3] * m[k3][k3]) / 2);
        }
        double amp = 1.0 / std::max(cond, 1e-12);
        if (isF()) std::printf("T %.3g %.3g\n", std::min(1.0, 2e-5 * amp), std::min(1.0, 2e-6 * amp));
        vh::O(fn("toThree")).d((double)back[0]).d((double)back[1]).d((double)back[2]).emit();
        vh::D(fn("toThree") + ".general." + cls + "." + br);
        vh::D(fn("toThree") + ".general." + seq);
        if (a1 != a2 && a2 != a3) {   // proper Euler sequences represent every rotation: the round trip must close
            Rot R2(bs, back[0], AX(a1), back[1], AX(a2), back[2], AX(a3));
            double err = maxDiff(R.asMat33(), R2.asMat33());
            // (a) conditioning-aware: the regular branch divides entries of size `cond` carrying absolute error eps
            vh::P("roundtrip_three_angles_general", fn("toThree") + ".general." + cls + ".rt", err, (cls == "neargimbal" ? 1024 : 64) * eps() * amp);
            // (b) what the property asks: the conversion round-trips (to at least half the working precision) also in the
            //     gimbal-lock neighbourhood.  The library keeps using the regular formulas until Rsum <= 4*Eps (double
            //     constant, also in float), so for |cos th2| between 4*Eps and ~sqrt(eps) the rebuilt rotation is off by
            //     ~eps/|cos th2|  (a sum/difference formulation would be backward stable) -- reported under its own key
            if (cls == "neargimbal")
                vh::P("roundtrip_three_angles_near_gimbal_lock", fn("toThree") + ".general.neargimbal.rt_halfprecision", err, std::sqrt(eps()));
        }
    }
    static void xyzcs(double t0, double t1, double t2) {
        P c0 = std::cos(cast(t0)), c1 = std::cos(cast(t1)), c2 = std::cos(cast(t2)), s0 = std::sin(cast(t0)), s1 = std::sin(cast(t1)), s2 = std::sin(cast(t2));
        Rot R; R.setRotationToBodyFixedXYZ(V3(c0, c1, c2), V3(s0, s1, s2));
        vh::I(fn("xyzcs")).d(c0).d(c1).d(c2).d(s0).d(s1).d(s2).emit(); tol();
        vh::Line o = vh::O(fn("xyzcs")); putM(o, R.asMat33()); o.emit();
        vh::D(fn("xyzcs"));
        proper(fn("xyzcs"), R.asMat33());
        Rot R2; R2.setRotationToBodyFixedXYZ(V3(cast(t0), cast(t1), cast(t2)));
        vh::P("special_case_agrees", fn("xyzcs") + ".agree", maxDiff(R.asMat33(), R2.asMat33()), 64 * eps());
    }

    // ------------------------------------------------------------------ quaternions
    static void fromQuat(const V4& q, const std::string& cls, bool unit) {
        Quat Q(q, true);   // no renormalisation
        Rot R(Q);
        vh::Line in = vh::I(fn("fromQuat")); putQ(in, q); in.emit(); tol();
        vh::Line o = vh::O(fn("fromQuat")); putM(o, R.asMat33()); o.emit();
        vh::D(fn("fromQuat") + "." + cls);
        if (unit) proper(fn("fromQuat") + "." + cls, R.asMat33());
    }
    static void quatNormalize(const V4& q) {
        Quat Q(q);
        vh::Line in = vh::I(fn("quatNormalize")); putQ(in, q); in.emit(); tol();
        vh::Line o = vh::O(fn("quatNormalize")); putQ(o, Q.asVec4()); o.emit();
        vh::D(fn("quatNormalize"));
        vh::P("unit_norm", fn("quatNormalize") + ".norm", std::fabs((double)Q.asVec4().norm() - 1), 16 * eps());
    }
    static void quatMul(const V4& a, const V4& b) {
        Quat A(a, true), B(b, true);
        Quat C = A * B;
        vh::Line in = vh::I(fn("quatMul")); putQ(in, a); putQ(in, b); in.emit(); tol();
        vh::Line o = vh::O(fn("quatMul")); putQ(o, C.asVec4()); o.emit();
        vh::D(fn("quatMul"));
        M33 prod = Rot(A).asMat33() * Rot(B).asMat33();
        vh::P("quaternion_product_is_composition", fn("quatMul") + ".comp", maxDiff(Rot(C).asMat33(), prod), 64 * eps());
    }
    static void toQuat(const Rot& R, const std::string& cls) {
        Quat Q = R.convertRotationToQuaternion();
        vh::Line in = vh::I(fn("toQuat")); putM(in, R.asMat33()); in.emit(); tol();
        vh::Line o = vh::O(fn("toQuat")); putQ(o, Q.asVec4()); o.emit();
        const M33& m = R.asMat33(); P tr = m.trace();
        int br = (tr >= m(0, 0) && tr >= m(1, 1) && tr >= m(2, 2)) ? 0 : (m(0, 0) >= m(1, 1) && m(0, 0) >= m(2, 2)) ? 1 : (m(1, 1) >= m(2, 2)) ? 2 : 3;
        vh::D(fn("toQuat") + "." + cls + ".branch" + std::to_string(br));
        std::string key = fn("toQuat") + "." + cls;
        vh::P("unit_norm", key + ".norm", std::fabs((double)Q.asVec4().norm() - 1), 16 * eps());
        vh::P("canonical_sign", key + ".canon", Q[0] >= 0 ? 0.0 : 1.0, 0.0);
        vh::P("roundtrip_quaternion", key + ".rt", maxDiff(Rot(Q).asMat33(), R.asMat33()), 64 * eps());
        V4 aa = R.convertRotationToAngleAxis();
        vh::Line i2 = vh::I(fn("toAngleAxis")); putM(i2, R.asMat33()); i2.emit(); tol();
        vh::Line o2 = vh::O(fn("toAngleAxis")); putQ(o2, aa); o2.emit();
        vh::D(fn("toAngleAxis") + "." + cls);
        Rot R3(aa[0], UV(V3(aa[1], aa[2], aa[3]), true));
        vh::P("roundtrip_angle_axis", key + ".rtaa", maxDiff(R3.asMat33(), R.asMat33()), 64 * eps());
        vh::P("angle_in_range", key + ".aarange", (aa[0] > -(P)PI - 4 * eps() && aa[0] <= (P)PI + 4 * eps()) ? 0.0 : 1.0, 0.0);
        vh::P("axis_unit", key + ".aaunit", std::fabs((double)V3(aa[1], aa[2], aa[3]).norm() - 1), 16 * eps());
    }
    static void angleAxis(double t, const V3& v, const std::string& cls) {
        P th = cast(t);
        Rot R(th, v);   // non-unit vector overload: normalises
        vh::Line in = vh::I(fn("angleAxis")); in.d((double)th); putV(in, v); in.emit(); tol();
        vh::Line o = vh::O(fn("angleAxis")); putM(o, R.asMat33()); o.emit();
        vh::D(fn("angleAxis") + "." + cls);
        std::string key = fn("angleAxis") + "." + cls;
        proper(key, R.asMat33());
        UV u(v);
        V3 Ru = R.asMat33() * u.asVec3();
        vh::P("axis_is_fixed", key + ".axis", (double)(Ru - u.asVec3()).norm(), 64 * eps());
        // handedness: about a coordinate axis the constructor must equal the elementary rotation by +angle (not -angle)
        for (int a = 0; a < 3; ++a) if (v[(a + 1) % 3] == 0 && v[(a + 2) % 3] == 0 && v[a] != 0) {
            Rot E(v[a] > 0 ? th : -th, AX(a));
            vh::P("angle_axis_handedness", key + ".hand", maxDiff(R.asMat33(), E.asMat33()), 64 * eps());
        }
        // trace = 1 + 2 cos(angle)
        vh::P("trace_is_1_plus_2cos", key + ".trace", std::fabs((double)R.asMat33().trace() - (1 + 2 * std::cos((double)th))), 64 * eps() + (isF() ? 1e-6 : 0));
    }
    static void approx(const M33& M, double noise, const std::string& cls) {
        Rot R(M);
        vh::Line in = vh::I(fn("approx")); putM(in, M); in.emit(); tol();
        vh::Line o = vh::O(fn("approx")); putM(o, R.asMat33()); o.emit();
        vh::D(fn("approx") + "." + cls);
        std::string key = fn("approx") + "." + cls;
        proper(key, R.asMat33());
        vh::P("stays_close_to_input", key + ".close", maxDiff(R.asMat33(), M), 16 * noise + 64 * eps());
    }

    // ------------------------------------------------------------------ quaternion <-> angle-axis with NON-canonical inputs
    // q is a unit quaternion that is in general not canonical (q0 < 0, q0 == 0, q0 tiny, product beyond 180 degrees ...).
    // Whatever representative is used, conversions must describe the SAME ROTATION.
    static void quatAngleAxis(const V4& q, const std::string& cls) {
        Quat Q(q, true);
        V4 aa = Q.convertQuaternionToAngleAxis();
        vh::Line in = vh::I(fn("quatToAngleAxis")); putQ(in, q); in.emit(); tol();
        vh::Line o = vh::O(fn("quatToAngleAxis")); putQ(o, aa); o.emit();
        std::string key = fn("quatToAngleAxis") + "." + cls;
        vh::D(key);
        vh::D(fn("quatToAngleAxis") + (q[0] < 0 ? ".q0_negative" : q[0] == 0 ? ".q0_zero" : ".q0_positive"));
        M33 Rq = Rot(Q).asMat33();
        bool degenerate = (double)V3(q[1], q[2], q[3]).norm() < eps() * eps();
        V3 ax(aa[1], aa[2], aa[3]);
        vh::P("axis_unit", key + ".unit", std::fabs((double)ax.norm() - 1), 16 * eps());
        vh::P("angle_in_range", key + ".range", (aa[0] > -(P)PI - 4 * eps() && aa[0] <= (P)PI + 4 * eps()) ? 0.0 : 1.0, 0.0);
        if (!degenerate) {
            // same ROTATION: matrix of the angle-axis pair == matrix of the quaternion; and on a rotated vector
            Rot Ra(aa[0], UV(ax, true));
            vh::P("angle_axis_of_quaternion_is_same_rotation", key + ".samerot", maxDiff(Ra.asMat33(), Rq), 64 * eps());
            V3 v(cast(0.3), cast(-1.1), cast(0.7));
            vh::P("angle_axis_of_quaternion_is_same_rotation", key + ".vec", (double)(Ra.asMat33() * v - Rq * v).norm(), 64 * eps());
            // angle-axis -> quaternion -> angle-axis: same rotation again, and the quaternion is q or -q
            Quat Q2; Q2.setQuaternionFromAngleAxis(aa);
            V4 aa2 = Q2.convertQuaternionToAngleAxis();
            Rot Rb(aa2[0], UV(V3(aa2[1], aa2[2], aa2[3]), true));
            vh::P("angle_axis_quaternion_angle_axis_same_rotation", key + ".aqa", maxDiff(Rb.asMat33(), Rq), 64 * eps());
            double dp = std::min((double)(Q2.asVec4() - q).norm(), (double)(Q2.asVec4() + q).norm());
            vh::P("quaternion_recovered_up_to_sign", key + ".qsign", dp, 64 * eps());
            vh::P("canonical_sign", key + ".canon", Q2[0] >= 0 ? 0.0 : 1.0, 0.0);
        }
    }
    // angle-axis -> quaternion for ANY angle (negative, beyond pi, beyond 2pi) and either axis orientation
    static void angleAxisToQuat(double t, const V3& vIn, const std::string& cls) {
        P th = cast(t);
        V4 av(th, vIn[0], vIn[1], vIn[2]);
        Quat Q; Q.setQuaternionFromAngleAxis(av);               // Vec4 overload: normalises the axis
        vh::Line in = vh::I(fn("quatFromAngleAxis")); putQ(in, av); in.emit(); tol();
        vh::Line o = vh::O(fn("quatFromAngleAxis")); putQ(o, Q.asVec4()); o.emit();
        std::string key = fn("quatFromAngleAxis") + "." + cls;
        vh::D(key);
        vh::P("unit_norm", key + ".norm", std::fabs((double)Q.asVec4().norm() - 1), 16 * eps());
        vh::P("canonical_sign", key + ".canon", Q[0] >= 0 ? 0.0 : 1.0, 0.0);
        // definition: Rodrigues' formula in long double, R = c 1 + s [u]x + (1-c) u u^T
        LD n = std::sqrt((LD)vIn[0] * vIn[0] + (LD)vIn[1] * vIn[1] + (LD)vIn[2] * vIn[2]);
        LD u[3] = {vIn[0] / n, vIn[1] / n, vIn[2] / n}, cth = std::cos((LD)th), sth = std::sin((LD)th);
        M33 Rod;
        LD ux[3][3] = {{0, -u[2], u[1]}, {u[2], 0, -u[0]}, {-u[1], u[0], 0}};
        for (int i = 0; i < 3; ++i) for (int j = 0; j < 3; ++j) Rod[i][j] = (P)((i == j ? cth : 0) + sth * ux[i][j] + (1 - cth) * u[i] * u[j]);
        vh::P("quaternion_of_angle_axis_is_rodrigues_rotation", key + ".rodrigues", maxDiff(Rot(Q).asMat33(), Rod), 64 * eps() * (1 + std::fabs(t)));
        // (angle, v), (-angle, -v) and (angle + 2pi, v) are the same rotation
        Quat Qn; Qn.setQuaternionFromAngleAxis(V4(-th, -vIn[0], -vIn[1], -vIn[2]));
        vh::P("negated_angle_and_axis_same_rotation", key + ".negneg", maxDiff(Rot(Qn).asMat33(), Rot(Q).asMat33()), 64 * eps());
        // and back: convertQuaternionToAngleAxis describes the same rotation
        V4 aa = Q.convertQuaternionToAngleAxis();
        if ((double)V3(Q[1], Q[2], Q[3]).norm() >= eps() * eps()) {
            Rot Ra(aa[0], UV(V3(aa[1], aa[2], aa[3]), true));
            vh::P("angle_axis_quaternion_angle_axis_same_rotation", key + ".back", maxDiff(Ra.asMat33(), Rot(Q).asMat33()), 64 * eps());
        }
    }
    // quaternion product vs rotation composition, including products whose combined angle exceeds 180 degrees (the raw
    // Hamilton product then has a negative scalar part) -- and the angle-axis of the (non-canonical) product
    static void quatProduct(const V4& a, const V4& b, const std::string& cls) {
        Quat A(a, true), B(b, true);
        Quat C = A * B;                       // multiply(): Hamilton product, normalised, NOT canonicalised
        vh::Line in = vh::I(fn("quatMul")); putQ(in, a); putQ(in, b); in.emit(); tol();
        vh::Line o = vh::O(fn("quatMul")); putQ(o, C.asVec4()); o.emit();
        vh::D(fn("quatMul") + "." + cls + (C[0] < 0 ? ".beyond180" : ".within180"));
        M33 prod = Rot(A).asMat33() * Rot(B).asMat33();
        vh::P("quaternion_product_is_composition", fn("quatMul") + "." + cls + ".comp", maxDiff(Rot(C).asMat33(), prod), 64 * eps());
        quatAngleAxis(C.asVec4(), std::string("product") + (C[0] < 0 ? "_beyond180" : "_within180"));
    }
    // guaranteed classes of non-canonical unit quaternions
    static V4 genNonCanonical(vh::Rng& g, std::string& cls) {
        V3 v = genVec(g, 1, 1); int k = g.below(6); double w;
        if (k == 0) { cls = "q0_negative"; w = -g.range(0.05, 0.999); }
        else if (k == 1) { cls = "q0_zero"; w = 0; }
        else if (k == 2) { cls = "q0_tiny"; w = (g.coin() ? 1 : -1) * std::pow(10.0, -g.range(isF() ? 2 : 3, isF() ? 6 : 15)); }
        else if (k == 3) { cls = "q0_near_minus1"; w = -(1 - std::pow(10.0, -g.range(isF() ? 1 : 2, isF() ? 4 : 9))); }
        else if (k == 4) { cls = "normalised_from_raw"; V4 raw(cast(g.range(-3, 3)), cast(g.range(-3, 3)), cast(g.range(-3, 3)), cast(g.range(-3, 3)));
            if ((double)raw.norm() < 0.3) raw[1] += 1; Quat Q(raw); return Q.asVec4(); }     // Quaternion(Vec4): normalises, keeps the sign
        else { cls = "q0_positive"; w = g.range(0.05, 0.999); }
        double sv = std::sqrt(std::max(0.0, 1 - w * w));
        V4 q(cast(w), cast(sv) * v[0], cast(sv) * v[1], cast(sv) * v[2]);
        return q / q.norm();
    }
    // ------------------------------------------------------------------ unit vectors and axis constructions
    static void perp(const V3& v, const std::string& cls) {
        UV u(v);
        UV p = u.perp();
        vh::Line in = vh::I(fn("perp")); putV(in, v); in.emit(); tol();
        vh::Line o = vh::O(fn("perp")); putV(o, p.asVec3()); o.emit();
        vh::D(fn("perp") + "." + cls);
        vh::Line i2 = vh::I(fn("unitVec")); putV(i2, v); i2.emit(); tol();
        vh::Line o2 = vh::O(fn("unitVec")); putV(o2, u.asVec3()); o2.emit();
        std::string key = fn("perp") + "." + cls;
        vh::P("unit_norm", key + ".unorm", std::fabs((double)u.asVec3().norm() - 1), 16 * eps());
        vh::P("perp_orthogonal", key + ".dot", std::fabs((double)dot(p.asVec3(), u.asVec3())), 16 * eps());
        vh::P("unit_norm", key + ".pnorm", std::fabs((double)p.asVec3().norm() - 1), 16 * eps());
    }
    static void oneAxis(const V3& v, int a, const std::string& cls) {
        UV u(v);
        Rot R(u, AX(a));
        vh::Line in = vh::I(fn("oneAxis")); putV(in, v); in.d(a); in.emit(); tol();
        vh::Line o = vh::O(fn("oneAxis")); putM(o, R.asMat33()); o.emit();
        vh::D(fn("oneAxis") + "." + cls);
        std::string key = fn("oneAxis") + "." + cls;
        proper(key, R.asMat33());
        vh::P("axis_column_is_input", key + ".col", (double)(V3(R.asMat33()(a)) - u.asVec3()).norm(), 0.0);
    }
    static void twoAxes(const V3& v, int ai, const V3& vj, int aj, const std::string& cls) {
        UV u(v);
        Rot R(u, AX(ai), vj, AX(aj));
        // the third axis is the normalised cross product u x vj: its direction (hence orthogonality to u) carries the
        // cancellation error eps/sin(angle(u,vj)); below sin^2 < SqrtEps the code falls back to setRotationFromOneAxis
        LD sinth = 1;
        if (cls == "nearparallel") {
            LD cx = (LD)u[1] * vj[2] - (LD)u[2] * vj[1], cy = (LD)u[2] * vj[0] - (LD)u[0] * vj[2], cz = (LD)u[0] * vj[1] - (LD)u[1] * vj[0];
            sinth = std::sqrt(cx * cx + cy * cy + cz * cz) / std::sqrt((LD)vj[0] * vj[0] + (LD)vj[1] * vj[1] + (LD)vj[2] * vj[2]);
        }
        vh::Line in = vh::I(fn("twoAxes")); putV(in, v); in.d(ai); putV(in, vj); in.d(aj); in.emit();
        // float, sin^2 within the rounding noise of the float cross product (|u x vj|^2 carries an absolute error of
        // ~eps_float, larger than the fallback threshold SqrtEps(double) = 1.5e-8): which branch Rotation.cpp takes
        // (regular formula or setRotationFromOneAxis) is decided by rounding noise, so the exact model cannot predict the
        // third axis; the record is then judged by the property predicates only (proper rotation, axis column) and the
        // tie with the model is switched off.  Counted by a D tag.
        bool noiseBand = isF() && cls == "nearparallel" && (double)(sinth * sinth) < 64.0 * (double)eps();
        if (noiseBand) { std::printf("T 8 8\n"); vh::D("twoAxesF.nearparallel.branch_noise_band.tie_skipped"); }
        else if (isF()) std::printf("T %.3g %.3g\n", 2e-5 / (double)std::max(sinth, (LD)1e-6), 2e-6 / (double)std::max(sinth, (LD)1e-6));
        vh::Line o = vh::O(fn("twoAxes")); putM(o, R.asMat33()); o.emit();
        vh::D(fn("twoAxes") + "." + cls);
        std::string key = fn("twoAxes") + "." + cls;
        proper(key, R.asMat33(), 1.0 / (double)std::max(sinth, (LD)1e-6));
        // Rotation.cpp falls back to setRotationFromOneAxis when sin^2 < SqrtEps -- the *double* constant in both
        // instantiations.  With a threshold appropriate to the precision (sin^2 < sqrt(eps_P)) the residual would stay
        // below 64 eps_P / sqrt(sqrt(eps_P)); in float the region between the two thresholds is reported separately.
        if (cls == "nearparallel") {
            double sThr = std::sqrt(std::sqrt(eps()));
            if ((double)sinth < sThr && (double)(sinth * sinth) >= (double)SqrtEps)
                vh::P("orthonormal_with_precision_appropriate_parallel_threshold", fn("twoAxes") + ".nearparallel.below_precision_threshold.ortho",
                      hasNaN(R.asMat33()) ? NAN : orthoRes(R.asMat33()), 64 * eps() / sThr);
        }
        vh::P("axis_column_is_input", key + ".col", (double)(V3(R.asMat33()(ai)) - u.asVec3()).norm(), 0.0);
        if (cls == "generic" && ai != aj) {
            // the j column is the normalised component of vj perpendicular to u
            V3 w = vj - dot(vj, u.asVec3()) * u.asVec3();
            V3 wn = w / w.norm();
            vh::P("second_axis_closest_to_request", key + ".colj", (double)(V3(R.asMat33()(aj)) - wn).norm(), 1024 * eps() / std::max((double)w.norm() / (double)vj.norm(), 1e-3));
        }
    }
    static void reexpress(const Rot& R, const Sym& S, const std::string& cls) {
        Sym out = R.reexpressSymMat33(S);
        Sym outInv = (~R).reexpressSymMat33(S);
        for (int pass = 0; pass < 2; ++pass) {
            const char* nm = pass ? "reexpressInv" : "reexpress";
            const Sym& res = pass ? outInv : out;
            vh::Line in = vh::I(fn(nm)); putM(in, R.asMat33());
            in.d(S(0, 0)).d(S(1, 1)).d(S(2, 2)).d(S(1, 0)).d(S(2, 0)).d(S(2, 1)); in.emit(); tol();
            vh::O(fn(nm)).d(res(0, 0)).d(res(1, 1)).d(res(2, 2)).d(res(1, 0)).d(res(2, 0)).d(res(2, 1)).emit();
            vh::D(fn(nm) + "." + cls);
            M33 Rm = pass ? M33(~R.asMat33()) : R.asMat33();
            M33 dense = Rm * M33(S) * ~Rm;
            double scale = std::max(1.0, (double)M33(S).norm());
            vh::P("reexpress_equals_R_S_Rt", fn(nm) + "." + cls + ".dense", maxDiff(M33(res), dense) / scale, 64 * eps());
        }
    }
    static void rotOps(const Rot& A, const Rot& B, const V3& v) {
        struct { const char* nm; Rot r; M33 dense; } ops[3] = {
            {"rotMul", A * B, A.asMat33() * B.asMat33()},
            {"rotTMul", ~A * B, ~A.asMat33() * B.asMat33()},
            {"rotDiv", A / B, A.asMat33() * ~B.asMat33()}};
        for (auto& op : ops) {
            vh::Line in = vh::I(fn(op.nm)); putM(in, A.asMat33()); putM(in, B.asMat33()); in.emit(); tol();
            vh::Line o = vh::O(fn(op.nm)); putM(o, op.r.asMat33()); o.emit();
            vh::D(fn(op.nm));
            proper(fn(op.nm), op.r.asMat33());
            vh::P("composition_equals_matrix_product", fn(op.nm) + ".dense", maxDiff(op.r.asMat33(), op.dense), 16 * eps());
        }
        V3 w1 = A * v, w2 = ~A * v;
        vh::Line in = vh::I(fn("rotVec")); putM(in, A.asMat33()); putV(in, v); in.emit(); tol();
        vh::Line o = vh::O(fn("rotVec")); putV(o, w1); putV(o, w2); o.emit();
        vh::D(fn("rotVec"));
        vh::P("inverse_rotation_undoes_rotation", fn("rotVec") + ".inv", (double)((~A * w1) - v).norm() / std::max(1.0, (double)v.norm()), 64 * eps());
        vh::P("rotation_preserves_length", fn("rotVec") + ".len", std::fabs((double)w1.norm() - (double)v.norm()) / std::max(1.0, (double)v.norm()), 64 * eps());
    }
    static void xfOps(const Xf& X, const Xf& Y, const V3& s) {
        Xf XY = X * Y, iXY = ~X * Y, XiY = X * ~Y, iXiY = ~X * ~Y;
        vh::Line in = vh::I(fn("xfCompose")); putX(in, X); putX(in, Y); in.emit(); tol();
        vh::Line o = vh::O(fn("xfCompose")); putX(o, XY); putX(o, iXY); putX(o, XiY); putX(o, iXiY); o.emit();
        vh::D(fn("xfCompose"));
        std::string key = fn("xfCompose");
        proper(key, XY.R().asMat33());
        // definition through 4x4 homogeneous matrices
        Mat<4, 4, P> m = X.toMat44() * Y.toMat44(), mXY = XY.toMat44();
        double w = 0; for (int i = 0; i < 4; ++i) for (int j = 0; j < 4; ++j) w = std::max(w, std::fabs((double)m(i, j) - (double)mXY(i, j)));
        double sc = std::max(1.0, std::max((double)X.p().norm(), (double)Y.p().norm()));
        vh::P("compose_equals_4x4_product", key + ".mat44", w / sc, 64 * eps());
        Xf I1 = X * ~X, I2 = ~X * X;
        vh::P("inverse_composes_to_identity", key + ".invR", maxDiff(I1.R().asMat33(), M33(1)), 64 * eps());
        vh::P("inverse_composes_to_identity", key + ".invp", (double)I1.p().norm() / sc, 64 * eps());
        vh::P("inverse_composes_to_identity", key + ".inv2R", maxDiff(I2.R().asMat33(), M33(1)), 64 * eps());
        vh::P("inverse_composes_to_identity", key + ".inv2p", (double)I2.p().norm() / sc, 64 * eps());
        Xf Xi(~X);   // explicit conversion
        vh::Line i2 = vh::I(fn("xfInvert")); putX(i2, X); i2.emit(); tol();
        vh::Line o2 = vh::O(fn("xfInvert")); putX(o2, Xi); putV(o2, X.pInv()); o2.emit();
        vh::D(fn("xfInvert"));
        V3 a = X * s, b = X.shiftBaseStationToFrame(s), c = ~X * s, d = (~X).shiftBaseStationToFrame(s), e = X.xformFrameVecToBase(s), f = X.xformBaseVecToFrame(s);
        vh::Line i3 = vh::I(fn("xfShift")); putX(i3, X); putV(i3, s); i3.emit(); tol();
        vh::Line o3 = vh::O(fn("xfShift")); putV(o3, a); putV(o3, b); putV(o3, c); putV(o3, d); putV(o3, e); putV(o3, f); o3.emit();
        vh::D(fn("xfShift"));
        double ss = std::max(sc, (double)s.norm());
        vh::P("station_roundtrip", fn("xfShift") + ".rt", (double)((~X * a) - s).norm() / ss, 64 * eps());
        vh::P("compose_acts_like_successive_shifts", fn("xfShift") + ".assoc", (double)((XY * s) - (X * (Y * s))).norm() / std::max(ss, (double)Y.p().norm()), 64 * eps());
        vh::P("inverse_transform_matches_explicit_inverse", fn("xfShift") + ".explicit", (double)((Xi * s) - c).norm() / ss, 64 * eps());
    }

    // ------------------------------------------------------------------ generators
    static double genAngle(vh::Rng& g, std::string& cls) {
        int k = g.below(10);
        if (k <= 4) { cls = "uniform"; return g.range(-PI, PI); }
        double d = std::pow(10.0, -g.range(isF() ? 1.5 : 3, isF() ? 5 : 12));
        if (k == 5) { cls = "nearzero"; return g.coin() ? d : -d; }
        if (k == 6) { cls = "nearpi"; return (g.coin() ? 1 : -1) * (PI - d); }
        if (k == 7) { cls = "nearhalfpi"; return (g.coin() ? 1 : -1) * (PI / 2 + (g.coin() ? d : -d)); }
        if (k == 8) { cls = "tinyoffhalfpi"; return (g.coin() ? 1 : -1) * (PI / 2 + (g.coin() ? 1 : -1) * std::pow(10.0, -g.range(12, 17))); }
        cls = "exact";
        static const double sp[] = {0, PI / 2, -PI / 2, PI, -PI, PI / 4};
        return sp[g.below(6)];
    }
    static V3 genVec(vh::Rng& g, double lo = 0.1, double hi = 10) {
        for (;;) {
            V3 v(cast(g.range(-1, 1)), cast(g.range(-1, 1)), cast(g.range(-1, 1)));
            double n = (double)v.norm();
            if (n > 0.2 && n <= 1) return v * cast(g.range(lo, hi) / n);
        }
    }
    static V4 genUnitQuat(vh::Rng& g, std::string& cls) {
        int k = g.below(8);
        V4 q;
        if (k <= 2) { cls = "uniform";
            for (;;) { q = V4(cast(g.range(-1, 1)), cast(g.range(-1, 1)), cast(g.range(-1, 1)), cast(g.range(-1, 1))); double n = (double)q.norm(); if (n > 0.2 && n <= 1) break; }
        } else if (k == 3) { cls = "nearidentity"; V3 v = genVec(g, 1, 1); double d = std::pow(10.0, -g.range(isF() ? 1.5 : 3, isF() ? 4 : 10)); q = V4(1, cast(d) * v[0], cast(d) * v[1], cast(d) * v[2]);
        } else if (k == 4) { cls = "nearpi"; V3 v = genVec(g, 1, 1); double d = std::pow(10.0, -g.range(isF() ? 1.5 : 3, isF() ? 5 : 12)); q = V4(cast(g.coin() ? d : -d), v[0], v[1], v[2]);
        } else if (k == 5) { cls = "exactpi"; V3 v = genVec(g, 1, 1); q = V4(0, v[0], v[1], v[2]);
        } else { cls = "dominant"; int m = g.below(4); double d = g.range(0, 0.6);
            q = V4(cast(d * g.range(-1, 1)), cast(d * g.range(-1, 1)), cast(d * g.range(-1, 1)), cast(d * g.range(-1, 1))); q[m] = cast(g.coin() ? 1 : -1);
            if (g.below(3) == 0) { int m2 = (m + 1 + g.below(3)) % 4; q[m2] = q[m] * cast(g.coin() ? 1 : -1); cls = "tie"; }   // two equal largest components
        }
        return q / q.norm();
    }
    static Rot genRot(vh::Rng& g, std::string& cls) { V4 q = genUnitQuat(g, cls); return Rot(Quat(q, true)); }
    static Xf genXf(vh::Rng& g) { std::string c; Rot R = genRot(g, c); int k = g.below(4); V3 p = k == 0 ? V3(0) : genVec(g, 0.1, 10); return Xf(R, p); }

    static void oneCase(vh::Rng& g, bool thoroughAxes) {
        std::string c1, c2, c3;
        int stream = g.below(28);
        switch (stream) {
        case 0: { double t = genAngle(g, c1); aboutAxis(g.below(3), t, c1); break; }
        case 1: { double t1 = genAngle(g, c1), t2 = genAngle(g, c2); two(g.coin(), g.below(3), g.below(3), t1, t2, c1 + "_" + c2, true); break; }
        case 2: case 3: case 4: {
            double t1 = genAngle(g, c1), t2 = genAngle(g, c2), t3 = genAngle(g, c3);
            // float: conversions are compared with the double model only away from the singular band
            bool wellCond = c2 != "nearhalfpi" && c2 != "tinyoffhalfpi" && c2 != "exact" && c2 != "nearzero" && c2 != "nearpi";
            three(g.coin(), g.below(3), g.below(3), g.below(3), t1, t2, t3, c2, isF() ? wellCond : true); break; }
        case 5: { double t0 = genAngle(g, c1), t1 = genAngle(g, c2), t2 = genAngle(g, c3); xyzcs(t0, t1, t2); break; }
        case 6: { V4 q = genUnitQuat(g, c1); fromQuat(q, c1, true); if (g.coin()) { V4 r = q * cast(g.range(0.3, 3)); fromQuat(r, "unnormalised", false); quatNormalize(r); } break; }
        case 7: case 8: { Rot R = genRot(g, c1); toQuat(R, c1); break; }
        case 9: { double t = genAngle(g, c1); V3 v = genVec(g);
            if (g.below(3) == 0) { int a = g.below(3); v = V3(0); v[a] = cast(g.coin() ? 1.5 : -2); c1 += "_alongaxis"; }
            angleAxis(t, v, c1); break; }
        case 10: { V3 v = genVec(g); int k = g.below(4); c1 = "generic";
            if (k == 0) { int a = g.below(3); v = V3(0); v[a] = cast(g.coin() ? 2 : -2); c1 = "alongaxis"; }
            if (k == 1) { P t = cast(g.range(0.1, 3)); v = V3(t, g.coin() ? t : -t, g.coin() ? t : -t); c1 = "equalcomponents"; }
            perp(v, c1); oneAxis(v, g.below(3), c1); break; }
        case 11: { V3 u = genVec(g), vj = genVec(g); int ai = g.below(3), aj = g.below(3); c1 = "generic"; int k = g.below(6);
            if (k == 0) { vj = u * cast(g.range(0.5, 2)); c1 = "parallel"; }
            if (k == 1) { vj = V3(0); c1 = "zero"; }
            if (k == 2) { V3 n = genVec(g, 1, 1); vj = u * cast(1.5) + cast(std::pow(10.0, -g.range(isF() ? 1 : 2, isF() ? 4 : 7))) * n; c1 = "nearparallel"; }
            if (ai == aj) c1 = "sameaxis";
            twoAxes(u, ai, vj, aj, c1); break; }
        case 12: { Rot R = genRot(g, c1); Sym S; int k = g.below(3);
            if (k == 0) S = Sym(g.range(0.1, 10), 0, g.range(0.1, 10), 0, 0, g.range(0.1, 10));
            else S = Sym(g.range(-10, 10), g.range(-10, 10), g.range(-10, 10), g.range(-10, 10), g.range(-10, 10), g.range(-10, 10));
            reexpress(R, S, k == 0 ? "diagonal" : "full"); break; }
        case 13: { Rot A = genRot(g, c1), B = genRot(g, c2); rotOps(A, B, genVec(g)); break; }
        case 14: case 15: { Xf X = genXf(g), Y = genXf(g); xfOps(X, Y, genVec(g)); break; }
        case 16: { V4 a = genUnitQuat(g, c1), b = genUnitQuat(g, c2); quatMul(a, b); break; }
        case 17: { Rot R = genRot(g, c1); double noise = std::pow(10.0, -g.range(3, 9)); M33 M = R.asMat33();
            for (int i = 0; i < 3; ++i) for (int j = 0; j < 3; ++j) M[i][j] += cast(noise * g.range(-1, 1));
            approx(M, noise, c1); break; }
        case 20: { // extraction from rotations not produced by the same-sequence constructor
            Rot R = genRot(g, c1); int n = g.below(54); bool space = n >= 27; n %= 27;
            extractGeneral(R, space, n / 9, (n / 3) % 3, n % 3, "quat_" + c1); break; }
        case 21: { // near gimbal lock, reached through a product of rotations (entries carry absolute rounding error)
            int n = g.below(54); bool space = n >= 27; n %= 27; int a1 = n / 9, a2 = (n / 3) % 3, a3 = n % 3;
            double t1 = genAngle(g, c1), t3 = genAngle(g, c3); std::string c2b;
            double d = std::pow(10.0, -g.range(isF() ? 1 : 2, isF() ? 6 : 14));
            double base = (a1 == a3) ? (g.coin() ? 0.0 : PI) : (g.coin() ? PI / 2 : -PI / 2);
            double t2 = base + (g.coin() ? d : -d);
            BodyOrSpaceType bs = space ? SpaceRotationSequence : BodyRotationSequence;
            Rot A(bs, cast(t1), AX(a1), cast(t2), AX(a2), cast(t3), AX(a3));
            Rot B = genRot(g, c2b);
            Rot R = (A * B) * ~B;            // = A up to absolute rounding of the entries
            extractGeneral(R, space, a1, a2, a3, "neargimbal"); break; }
        case 22: case 23: { V4 q = genNonCanonical(g, c1); quatAngleAxis(q, c1); break; }
        case 24: { // products: one factor with a large angle so that about half of the products exceed 180 degrees
            V4 a = genUnitQuat(g, c1), b = genNonCanonical(g, c2);
            if (a[0] < 0) a = -a; if (b[0] < 0) b = -b;          // two canonical factors; the product need not be
            quatProduct(a, b, "canonical_factors"); break; }
        case 25: { // angle-axis with angles outside (-pi, pi], negative angles, either axis orientation
            int k = g.below(5); double t; c1 = "uniform";
            if (k == 0) { t = g.range(PI, 2 * PI); c1 = "angle_pi_to_2pi"; }
            else if (k == 1) { t = -g.range(0.01, PI); c1 = "angle_negative"; }
            else if (k == 2) { t = g.range(2 * PI, 4 * PI) * (g.coin() ? 1 : -1); c1 = "angle_beyond_2pi"; }
            else if (k == 3) { t = (g.coin() ? 1 : -1) * (PI + (g.coin() ? 1 : -1) * std::pow(10.0, -g.range(isF() ? 2 : 3, isF() ? 5 : 12))); c1 = "angle_near_pi"; }
            else t = g.range(-PI, PI);
            angleAxisToQuat(t, genVec(g), c1); break; }
        default: { // systematic coverage of every Euler sequence with generic and gimbal-lock middle angles
            int n = g.below(54); bool space = n >= 27; n %= 27; int a1 = n / 9, a2 = (n / 3) % 3, a3 = n % 3;
            double t1 = genAngle(g, c1), t2 = genAngle(g, c2), t3 = genAngle(g, c3);
            three(space, a1, a2, a3, t1, t2, t3, c2, true);
            if (thoroughAxes) two(space, a1, a2, t1, t2, c1 + "_" + c2, true);
            break; }
        }
    }
};

static void replay() {
    // re-run exactly the I records read from stdin (the P lines of a replayed record are those of its constructor)
    char buf[1 << 16];
    while (std::fgets(buf, sizeof buf, stdin)) {
        std::istringstream is(buf); std::string k, fn; is >> k >> fn;
        if (k != "I") continue;
        std::vector<double> v; std::string t; while (is >> t) v.push_back(vh::unhex(t));
        bool F = !fn.empty() && fn.back() == 'F'; std::string b = F ? fn.substr(0, fn.size() - 1) : fn;
#define BOTH(call) do { if (F) H<float>::call; else H<double>::call; } while (0)
        if (b == "aboutAxis" && v.size() == 2) BOTH(aboutAxis((int)v[0], v[1], "replay"));
        else if (b == "two" && v.size() == 5) BOTH(two(v[0] != 0, (int)v[1], (int)v[2], v[3], v[4], "replay", false));
        else if (b == "three" && v.size() == 7) BOTH(three(v[0] != 0, (int)v[1], (int)v[2], (int)v[3], v[4], v[5], v[6], "replay", false));
        else if (b == "fromQuat" && v.size() == 4) { if (F) H<float>::fromQuat(Vec<4, float>((float)v[0], (float)v[1], (float)v[2], (float)v[3]), "replay", false);
                                                     else H<double>::fromQuat(Vec4(v[0], v[1], v[2], v[3]), "replay", false); }
        else if (b == "toQuat" && v.size() == 9) {
            if (F) { Mat<3, 3, float> m; for (int i = 0; i < 9; ++i) m[i / 3][i % 3] = (float)v[i]; H<float>::toQuat(Rotation_<float>(m, true), "replay"); }
            else { Mat33 m; for (int i = 0; i < 9; ++i) m[i / 3][i % 3] = v[i]; H<double>::toQuat(Rotation(m, true), "replay"); } }
        else if (b == "angleAxis" && v.size() == 4) { if (F) H<float>::angleAxis(v[0], Vec<3, float>((float)v[1], (float)v[2], (float)v[3]), "replay");
                                                      else H<double>::angleAxis(v[0], Vec3(v[1], v[2], v[3]), "replay"); }
        else if (b == "perp" && v.size() == 3) { if (F) H<float>::perp(Vec<3, float>((float)v[0], (float)v[1], (float)v[2]), "replay"); else H<double>::perp(Vec3(v[0], v[1], v[2]), "replay"); }
        else if (b == "twoAxes" && v.size() == 8) { if (F) H<float>::twoAxes(Vec<3, float>((float)v[0], (float)v[1], (float)v[2]), (int)v[3], Vec<3, float>((float)v[4], (float)v[5], (float)v[6]), (int)v[7], "replay");
                                                    else H<double>::twoAxes(Vec3(v[0], v[1], v[2]), (int)v[3], Vec3(v[4], v[5], v[6]), (int)v[7], "replay"); }
#undef BOTH
    }
}

int main(int argc, char** argv) {
    vh::Args args(argc, argv);
    if (args.mode == "replay") { replay(); return 0; }
    vh::Rng g(args.seed * 7919 + 27);
    bool thorough = args.n > 5000;
    for (long k = 0; k < args.n; ++k) {
        if (g.below(4) == 0) H<float>::oneCase(g, thorough);
        else H<double>::oneCase(g, thorough);
    }
    return 0;
}
