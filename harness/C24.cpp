// C24 correspondence harness: FactorLU / FactorLLT / FactorQTZ / FactorSVD / Eigen, float / double / complex.
// All tokens are hex doubles; matrices row major.  `tolk` = tolerance in units of n*eps of the element precision.
//   I lu prec n tolk A b x                       -> O lu 1          (exact-rational contract evaluated by the Lean driver)
//   I ls prec m n tolk exact rank A b x          -> O ls 1 1
//   I svd prec m n tolk A Ut S Vt                -> O svd 1
//   I svdrank k rcond S                          -> O svdrank <FactorSVD::getRank()>
//   I eig prec n tolk A lr li Vr Vi              -> O eig 1
//   I inv prec n tolk A X                        -> O inv 1
//   I pinv prec n tolk A X                       -> O pinv 1
//   I qtzdiag prec m n t                         -> O qtzdiag <FactorQTZ(diag(1,t,0..) m x n).getRank()>
//   I svddiag prec m n t                         -> O svddiag <1 if FactorSVD::solve kept the singular value t>
// P lines: the same residual predicates in long double (so that a failure has a concrete key), API-behaviour predicates.
#include "SimTKmath.h"
#include "hcommon.h"
#include <algorithm>
#include <complex>
#include <unistd.h>
#include <sys/wait.h>
using namespace SimTK;
typedef long double LD;
typedef std::complex<double> cd;
static int g_count[8] = {0, 0, 0, 0, 0, 0, 0, 0};   // records judged per family: lu, llt, ls, svd, eig, inv, pinv, rcond

template <class T> struct Prec { static int id() { return 0; } static double eps() { return 2.220446049250313e-16; } static const char* name() { return "double"; } };
template <> struct Prec<float> { static int id() { return 1; } static double eps() { return 1.1920928955078125e-07; } static const char* name() { return "float"; } };

struct DMat { int m = 0, n = 0; std::vector<double> a; DMat() {} DMat(int m, int n) : m(m), n(n), a(m * n, 0.0) {} double& operator()(int i, int j) { return a[i * n + j]; } double operator()(int i, int j) const { return a[i * n + j]; } };

template <class T> static Matrix_<T> toSimTK(const DMat& A) { Matrix_<T> M(A.m, A.n); for (int i = 0; i < A.m; ++i) for (int j = 0; j < A.n; ++j) M(i, j) = (T)A(i, j); return M; }
// round the entries to the element precision so that what the driver sees is exactly what the implementation saw
template <class T> static void roundTo(DMat& A) { for (auto& x : A.a) x = (double)(T)x; }
template <class T> static void roundTo(std::vector<double>& v) { for (auto& x : v) x = (double)(T)x; }

static void putMat(vh::Line& L, const DMat& A) { for (double x : A.a) L.d(x); }
static void putVec(vh::Line& L, const std::vector<double>& v) { for (double x : v) L.d(x); }

// ---------------------------------------------------------------- generators
static DMat genGeneric(vh::Rng& g, int m, int n) { DMat A(m, n); for (auto& x : A.a) x = g.range(-1, 1) * 4; return A; }
static DMat genInts(vh::Rng& g, int m, int n, int lo, int hi) { DMat A(m, n); for (auto& x : A.a) x = g.smallInt(lo, hi); return A; }
static DMat mul(const DMat& B, const DMat& C) { DMat A(B.m, C.n); for (int i = 0; i < B.m; ++i) for (int j = 0; j < C.n; ++j) { double s = 0; for (int k = 0; k < B.n; ++k) s += B(i, k) * C(k, j); A(i, j) = s; } return A; }
static DMat transposeOf(const DMat& B) { DMat A(B.n, B.m); for (int i = 0; i < B.m; ++i) for (int j = 0; j < B.n; ++j) A(j, i) = B(i, j); return A; }
static DMat genSPD(vh::Rng& g, int n) { DMat B = genGeneric(g, n, n + 2); DMat A = mul(B, transposeOf(B)); for (int i = 0; i < n; ++i) A(i, i) += 0.5; return A; }
// nearly singular: one row is (almost) a combination of two others
static DMat genNearSingular(vh::Rng& g, int n, double delta) {
    DMat A = genGeneric(g, n, n); if (n < 3) return A;
    int k = g.below(n), i = (k + 1) % n, j = (k + 2) % n; double a = g.range(-1, 1), b = g.range(-1, 1);
    for (int c = 0; c < n; ++c) A(k, c) = a * A(i, c) + b * A(j, c) + delta * g.range(-1, 1);
    return A;
}
static DMat genRankDeficientInts(vh::Rng& g, int m, int n, int r) { return mul(genInts(g, m, r, -3, 3), genInts(g, r, n, -3, 3)); }
static std::vector<double> genVec(vh::Rng& g, int n, bool ints) { std::vector<double> v(n); for (auto& x : v) x = ints ? g.smallInt(-5, 5) : g.range(-1, 1) * 3; return v; }

// ---------------------------------------------------------------- predicates in long double (same formulas as the contracts)
static double luResidual(const DMat& A, const std::vector<double>& b, const std::vector<double>& x) {
    double worst = 0;
    for (int i = 0; i < A.m; ++i) { LD s = -b[i], mag = std::fabs(b[i]); for (int j = 0; j < A.n; ++j) { s += (LD)A(i, j) * x[j]; mag += std::fabs((LD)A(i, j) * x[j]); }
        if (!(std::fabs((double)s) <= 1e308)) return NAN; worst = std::max(worst, mag > 0 ? (double)(std::fabs(s) / mag) : (s == 0 ? 0.0 : INFINITY)); }
    return worst;
}
static double lsResidual(const DMat& A, const std::vector<double>& b, const std::vector<double>& x) {
    std::vector<LD> r(A.m), s(A.m);
    for (int i = 0; i < A.m; ++i) { LD t = -b[i], mag = std::fabs(b[i]); for (int j = 0; j < A.n; ++j) { t += (LD)A(i, j) * x[j]; mag += std::fabs((LD)A(i, j) * x[j]); } r[i] = t; s[i] = mag; }
    double worst = 0;
    for (int j = 0; j < A.n; ++j) { LD t = 0, mag = 0; for (int i = 0; i < A.m; ++i) { t += (LD)A(i, j) * r[i]; mag += std::fabs((LD)A(i, j)) * s[i]; }
        if (!(std::fabs((double)t) <= 1e308)) return NAN; worst = std::max(worst, mag > 0 ? (double)(std::fabs(t) / mag) : (t == 0 ? 0.0 : INFINITY)); }
    return worst;
}

template <class T> static std::vector<double> fromVec(const Vector_<T>& v) { std::vector<double> r(v.size()); for (int i = 0; i < v.size(); ++i) r[i] = (double)v[i]; return r; }
template <class T> static Vector_<T> toVec(const std::vector<double>& v) { Vector_<T> r((int)v.size()); for (size_t i = 0; i < v.size(); ++i) r[(int)i] = (T)v[i]; return r; }

// ---------------------------------------------------------------- records
template <class T> static void luRecord(const std::string& what, const DMat& A, const std::vector<double>& b, const std::vector<double>& x, double tolk, const std::string& cls) {
    vh::Line in = vh::I("lu"); in.d(Prec<T>::id()).d(A.n).d(tolk); putMat(in, A); putVec(in, b); putVec(in, x); in.emit();
    std::puts("O lu 1");
    ++g_count[what.compare(0, 3, "llt") == 0 ? 1 : 0];
    std::string key = what + "." + Prec<T>::name() + "." + cls;
    vh::D(key);
    vh::P("solve_residual", key + ".residual", luResidual(A, b, x), tolk * std::max(A.n, 1) * Prec<T>::eps());
}
template <class T> static void invRecord(const std::string& what, const DMat& A, const Matrix_<T>& X, double tolk, const std::string& cls) {
    int n = A.n; DMat Xd(n, n); for (int i = 0; i < n; ++i) for (int j = 0; j < n; ++j) Xd(i, j) = (double)X(i, j);
    vh::Line in = vh::I("inv"); in.d(Prec<T>::id()).d(n).d(tolk); putMat(in, A); putMat(in, Xd); in.emit();
    std::puts("O inv 1"); ++g_count[5];
    std::string key = what + ".inverse." + Prec<T>::name() + "." + cls; vh::D(key);
    double worst = 0;
    for (int i = 0; i < n; ++i) for (int j = 0; j < n; ++j) {
        LD s1 = -(i == j), s2 = -(i == j), ai = 0, xj = 0, xi = 0, aj = 0;
        for (int k = 0; k < n; ++k) { s1 += (LD)A(i, k) * Xd(k, j); s2 += (LD)Xd(i, k) * A(k, j);
            ai += std::fabs(A(i, k)); xj = std::max<LD>(xj, std::fabs(Xd(k, j))); xi = std::max<LD>(xi, std::fabs(Xd(i, k))); aj += std::fabs(A(k, j)); }
        worst = std::max(worst, (double)std::max(std::fabs(s1) / (ai * xj + (i == j)), std::fabs(s2) / (xi * aj + (i == j))));
    }
    vh::P("inverse_consistent", key + ".residual", worst, tolk * std::max(n, 1) * Prec<T>::eps());
}

template <class T> static void luCase(vh::Rng& g, int n, int cls) {
    static const char* names[] = {"generic", "nearsingular", "ints"};
    DMat A = cls == 0 ? genGeneric(g, n, n) : cls == 1 ? genNearSingular(g, n, sizeof(T) == 4 ? 1e-4 : 1e-10) : genInts(g, n, n, -5, 5);
    roundTo<T>(A);
    std::vector<double> b = genVec(g, n, cls == 2); roundTo<T>(b);
    Matrix_<T> M = toSimTK<T>(A);
    FactorLU lu(M);
    if (lu.isSingular()) { vh::D(std::string("lu.singular.") + Prec<T>::name()); return; }
    Vector_<T> x; lu.solve(toVec<T>(b), x);
    luRecord<T>("lu", A, b, fromVec(x), 16, names[cls]);
    // solving again gives the same answer (const solve does not disturb the factorization)
    Vector_<T> x2; lu.solve(toVec<T>(b), x2);
    double diff = 0; for (int i = 0; i < n; ++i) diff = std::max(diff, (double)std::fabs(x[i] - x2[i]));
    vh::P("solve_repeatable", std::string("lu.") + Prec<T>::name() + ".repeat", diff, 0);
    // matrix right-hand side: every column is solved
    int nrhs = 1 + g.below(3); DMat B = genGeneric(g, n, nrhs); roundTo<T>(B);
    Matrix_<T> X; lu.solve(toSimTK<T>(B), X);
    for (int c = 0; c < nrhs; ++c) { std::vector<double> bc(n), xc(n); for (int i = 0; i < n; ++i) { bc[i] = B(i, c); xc[i] = (double)X(i, c); } luRecord<T>("lu.matrixrhs", A, bc, xc, 16, names[cls]); }
    // inverse
    if (cls != 1) { Matrix_<T> inv; lu.inverse(inv); invRecord<T>("lu", A, inv, 32, names[cls]); }
    // (getL()/getU() are not part of the property - solves are; their transposed-packed-factor behaviour is documented in
    //  notes/C24.md under "observed outside the property")
    // refactorization: the same object factors a new matrix
    DMat A2 = genGeneric(g, n, n); roundTo<T>(A2); lu.factor(toSimTK<T>(A2));
    if (!lu.isSingular()) { Vector_<T> x3; lu.solve(toVec<T>(b), x3); luRecord<T>("lu.refactor", A2, b, fromVec(x3), 16, "generic"); }
}

template <class T> static void lltCase(vh::Rng& g, int n) {
    DMat A = genSPD(g, n); roundTo<T>(A);
    for (int i = 0; i < n; ++i) for (int j = 0; j < i; ++j) A(i, j) = A(j, i);
    std::vector<double> b = genVec(g, n, false); roundTo<T>(b);
    FactorLLT llt(toSimTK<T>(A));
    Vector_<T> x; llt.solve(toVec<T>(b), x);
    luRecord<T>("llt", A, b, fromVec(x), 16, "spd");
    Matrix_<T> inv; llt.inverse(inv); invRecord<T>("llt", A, inv, 64, "spd");
    Matrix_<T> L; llt.getL(L);
    double worst = 0, sc = 1e-300;
    for (int i = 0; i < n; ++i) for (int j = 0; j < n; ++j) { LD s = 0; for (int k = 0; k <= std::min(i, j); ++k) s += (LD)L(i, k) * (LD)L(j, k); worst = std::max(worst, (double)std::fabs(s - A(i, j))); sc = std::max(sc, std::fabs(A(i, j))); }
    vh::P("llt_factor_reproduces", std::string("llt.") + Prec<T>::name() + ".LLt_eq_A", worst / sc, 64.0 * n * Prec<T>::eps());
}

// least squares / minimum norm through FactorQTZ (which=0) or FactorSVD (which=1)
template <class T> static void lsCase(vh::Rng& g, int which, int m, int n, int cls) {
    // cls 0: generic full rank; 1: exactly rank deficient small integers; 2: full-rank small integers (wide => min norm, tall => LS)
    int r = std::min(m, n);
    DMat A;
    if (cls == 0) A = genGeneric(g, m, n);
    else if (cls == 1) { r = r > 1 ? 1 + g.below(r - 1) : 0; A = r > 0 ? genRankDeficientInts(g, m, n, r) : DMat(m, n); }
    else A = genInts(g, m, n, -4, 4);
    roundTo<T>(A);
    std::vector<double> b = genVec(g, m, cls != 0); roundTo<T>(b);
    const char* wname = which == 0 ? "qtz" : "svd";
    std::string key = std::string(wname) + "." + Prec<T>::name() + "." + (cls == 0 ? "generic" : cls == 1 ? "rankdef" : "ints") + (m > n ? ".tall" : m < n ? ".wide" : ".square");
    Vector_<T> x; int rank = -1; double rcondEst = -1;
    try {
        if (which == 0) { FactorQTZ q(toSimTK<T>(A)); q.solve(toVec<T>(b), x); rank = q.getRank(); rcondEst = q.getRCondEstimate(); }
        else { FactorSVD s(toSimTK<T>(A)); s.solve(toVec<T>(b), x); }
    } catch (const std::exception& e) { vh::I("ls").d(Prec<T>::id()).d(m).d(n).emit(); std::puts("O ls EXC"); vh::P("no_exception", key + ".exception", 1, 0); return; }
    std::vector<double> xv = fromVec(x);
    bool exact = cls != 0;      // small-integer matrix: the driver also checks x against the exact null space and the exact rank
    vh::Line in = vh::I("ls"); in.d(Prec<T>::id()).d(m).d(n).d(32.0).d(exact ? 1 : 0).d(which == 0 ? rank : 999); putMat(in, A); putVec(in, b); putVec(in, xv); in.emit();
    std::puts("O ls 1 1"); ++g_count[2];       // (rank token 999: the reported rank of FactorSVD is judged in the svdrank record)
    vh::D(key);
    vh::P("normal_equations", key + ".normal_eq", lsResidual(A, b, xv), 32.0 * std::max(m, n) * Prec<T>::eps());
    if (which == 0 && cls == 0) {
        vh::P("full_rank_detected", key + ".rank", std::abs(rank - std::min(m, n)), 0);
        // finding F-C24f: for min(m,n) == 1 the rank loop never runs and actualRCond is never set (reports 0 for a rank-1 matrix)
        vh::P("rcond_estimate_sane", std::min(m, n) == 1 ? std::string("qtz.rcond.min_dim_1.zero") : key + ".rcond", (rcondEst > 0 && rcondEst <= 1.0000001) ? 0 : 1, 0);
    }
}

template <class T> static void svdCase(vh::Rng& g, int m, int n, int cls) {
    DMat A = cls == 0 ? genGeneric(g, m, n) : genRankDeficientInts(g, m, n, std::max(1, std::min(m, n) - 1));
    roundTo<T>(A);
    FactorSVD svd(toSimTK<T>(A));
    Vector_<T> S; Matrix_<T> U, Vt;
    svd.getSingularValuesAndVectors(S, U, Vt);
    int k = std::min(m, n);
    DMat Ut(m, m), Vtd(n, n);
    for (int i = 0; i < m; ++i) for (int j = 0; j < m; ++j) Ut(j, i) = (double)U(i, j);       // rows of Ut = left singular vectors
    for (int i = 0; i < n; ++i) for (int j = 0; j < n; ++j) Vtd(i, j) = (double)Vt(i, j);     // rows of Vt = right singular vectors
    std::vector<double> Sv = fromVec(S);
    vh::Line in = vh::I("svd"); in.d(Prec<T>::id()).d(m).d(n).d(32.0); putMat(in, A); putMat(in, Ut); putVec(in, Sv); putMat(in, Vtd); in.emit();
    std::puts("O svd 1"); ++g_count[3];
    std::string key = std::string("svd.") + Prec<T>::name() + (cls == 0 ? ".generic" : ".rankdef") + (m > n ? ".tall" : m < n ? ".wide" : ".square");
    vh::D(key);
    double tol = 32.0 * std::max(m, n) * Prec<T>::eps();
    double desc = 0; for (int i = 0; i < k; ++i) { if (Sv[i] < 0) desc = 1; if (i + 1 < k && Sv[i + 1] > Sv[i]) desc = 1; }
    vh::P("singular_values_descending_nonneg", key + ".order", desc, 0);
    double orth = 0;
    for (int i = 0; i < m; ++i) for (int j = 0; j < m; ++j) { LD s = -(i == j); for (int r = 0; r < m; ++r) s += (LD)Ut(i, r) * Ut(j, r); orth = std::max(orth, (double)std::fabs(s)); }
    for (int i = 0; i < n; ++i) for (int j = 0; j < n; ++j) { LD s = -(i == j); for (int r = 0; r < n; ++r) s += (LD)Vtd(i, r) * Vtd(j, r); orth = std::max(orth, (double)std::fabs(s)); }
    vh::P("singular_vectors_orthonormal", key + ".orthonormal", orth, tol);
    double rec = 0;
    for (int i = 0; i < m; ++i) for (int j = 0; j < n; ++j) { LD s = -A(i, j); for (int r = 0; r < k; ++r) s += (LD)Ut(r, i) * Sv[r] * Vtd(r, j); rec = std::max(rec, (double)std::fabs(s)); }
    vh::P("svd_reconstructs", key + ".reconstruct", rec / std::max(Sv.empty() ? 0.0 : Sv[0], 1e-300), tol);
    // values-only query agrees
    Vector_<T> S2; svd.getSingularValues(S2); double dv = 0; for (int i = 0; i < k; ++i) dv = std::max(dv, std::fabs((double)S2[i] - Sv[i]));
    vh::P("singular_values_consistent", key + ".values_only", dv / std::max(Sv.empty() ? 0.0 : Sv[0], 1e-300), tol);
    // rank: the threshold rule as coded, on the returned singular values, with the default rcond
    double rcond = std::max(m, n) * (double)NTraits<T>::getSignificant();
    int reported = svd.getRank();
    vh::Line ir = vh::I("svdrank"); ir.d(k).d(rcond); putVec(ir, Sv); ir.emit();
    std::printf("O svdrank %d\n", reported);
    vh::D(key + ".rank");
    int expect = 0; for (int i = 0; i < k; ++i) if (Sv[i] > rcond * Sv[0]) ++expect;
    // finding F-C24a: FactorSVD::getRank() is always 0 (base-class virtual is const, the override is not; shadowed loop variable)
    vh::P("svd_rank_by_threshold", "svd.getRank.always_zero", std::abs(reported - expect), 0);
}

// eigen-decomposition of a real general matrix (complex values/vectors returned); symmetric => values must be real
template <class T> static void eigJudge(DMat A, int cls, const std::string& label) {
    const int n = A.n;
    roundTo<T>(A);
    Eigen e(toSimTK<T>(A));
    Vector_<std::complex<T> > vals; Matrix_<std::complex<T> > vecs;
    e.getAllEigenValuesAndVectors(vals, vecs);
    std::vector<double> lr(n), li(n); DMat Vr(n, n), Vi(n, n);
    for (int k = 0; k < n; ++k) { lr[k] = vals[k].real(); li[k] = vals[k].imag(); for (int i = 0; i < n; ++i) { Vr(k, i) = vecs(i, k).real(); Vi(k, i) = vecs(i, k).imag(); } }
    vh::Line in = vh::I("eig"); in.d(Prec<T>::id()).d(n).d(128.0); putMat(in, A); putVec(in, lr); putVec(in, li); putMat(in, Vr); putMat(in, Vi); in.emit();
    std::puts("O eig 1");
    std::string key = std::string("eig.") + Prec<T>::name() + label;
    vh::D(key); ++g_count[4];
    // completeness of the spectrum: sum(lambda) = tr A, sum(lambda^2) = tr A^2 (a pair returned twice changes the power sums)
    {
        LD tr = 0, trA = 0, tr2 = 0, tr2A = 0, s1 = 0, s1i = 0, s2 = 0, s2i = 0, l1 = 0, l2 = 0;
        for (int i = 0; i < n; ++i) { tr += A(i, i); trA += std::fabs(A(i, i)); for (int j = 0; j < n; ++j) { tr2 += (LD)A(i, j) * A(j, i); tr2A += std::fabs((LD)A(i, j) * A(j, i)); } }
        for (int k = 0; k < n; ++k) { s1 += lr[k]; s1i += li[k]; s2 += (LD)lr[k] * lr[k] - (LD)li[k] * li[k]; s2i += 2 * (LD)lr[k] * li[k]; l1 += std::fabs(lr[k]) + std::fabs(li[k]); l2 += (LD)lr[k] * lr[k] + (LD)li[k] * li[k]; }
        double v1 = (double)(std::max(std::fabs(s1 - tr), std::fabs(s1i)) / std::max<LD>(trA + l1, 1e-300L));
        double v2 = (double)(std::max(std::fabs(s2 - tr2), std::fabs(s2i)) / std::max<LD>(tr2A + l2, 1e-300L));
        vh::P("spectrum_complete", key + ".power_sums", std::max(v1, v2), 128.0 * std::max(n, 1) * Prec<T>::eps());
    }
    double worst = 0, degenerate = 0, amax = 0; for (double v : A.a) amax = std::max(amax, std::fabs(v));
    for (int k = 0; k < n; ++k) {
        LD nv = 0, v1 = 0, vmax = 0; for (int i = 0; i < n; ++i) { nv += (LD)Vr(k, i) * Vr(k, i) + (LD)Vi(k, i) * Vi(k, i); LD a1 = std::fabs(Vr(k, i)) + std::fabs(Vi(k, i)); v1 += a1; vmax = std::max(vmax, a1); }
        if (!(nv >= 1e-6)) degenerate = 1;
        LD mag = amax * v1 + (std::fabs(lr[k]) + std::fabs(li[k])) * vmax;      // normwise backward-error scale
        for (int i = 0; i < n; ++i) {
            LD sr = 0, si = 0;
            for (int j = 0; j < n; ++j) { sr += (LD)A(i, j) * Vr(k, j); si += (LD)A(i, j) * Vi(k, j); }
            sr -= (LD)lr[k] * Vr(k, i) - (LD)li[k] * Vi(k, i); si -= (LD)lr[k] * Vi(k, i) + (LD)li[k] * Vr(k, i);
            if (mag > 0) worst = std::max(worst, (double)(std::max(std::fabs(sr), std::fabs(si)) / mag));
        }
    }
    vh::P("eigen_residual", cls == 2 ? std::string("eig.smallscale.complex_pair_split") : key + ".residual", worst, 128.0 * std::max(n, 1) * Prec<T>::eps());
    vh::P("eigenvectors_nondegenerate", key + ".nonzero", degenerate, 0);
    // values-only query agrees (as a multiset; compare sorted by (re,im))
    Vector_<std::complex<T> > v2; Eigen e2(toSimTK<T>(A)); e2.getAllEigenValues(v2);
    std::vector<std::pair<double, double> > a1, a2; for (int k = 0; k < n; ++k) { a1.push_back({lr[k], li[k]}); a2.push_back({(double)v2[k].real(), (double)v2[k].imag()}); }
    std::sort(a1.begin(), a1.end()); std::sort(a2.begin(), a2.end());
    double dv = 0, sc = 1e-300; for (int k = 0; k < n; ++k) { dv = std::max(dv, std::max(std::fabs(a1[k].first - a2[k].first), std::fabs(a1[k].second - a2[k].second))); sc = std::max(sc, std::fabs(a1[k].first) + std::fabs(a1[k].second)); }
    vh::P("eigenvalues_consistent", key + ".values_only", dv / sc, 1e4 * std::max(n, 1) * Prec<T>::eps());
    if (cls == 1) {
        double im = 0; for (int k = 0; k < n; ++k) im = std::max(im, std::fabs(li[k]));
        double lmax = 0; for (int k = 0; k < n; ++k) lmax = std::max(lmax, std::fabs(lr[k]));
        vh::P("symmetric_eigenvalues_real", key + ".real", im, 64.0 * n * Prec<T>::eps() * lmax);      // geev on an exactly symmetric matrix: real Schur form has no 2x2 blocks
        // "real and ordered for symmetric input": the symmetric LAPACK path (syev, ascending) exists in Eigen.cpp but cannot be
        // reached through the public API (a Symmetric-committed Matrix cannot be filled; the real-valued getters are not
        // instantiated), so symmetric input goes through geev, which does not order.  Specific key.
        double unordered = 0; for (int k = 0; k + 1 < n; ++k) if (lr[k + 1] < lr[k]) unordered = 1;
        if (n >= 3) vh::P("symmetric_eigenvalues_ordered", "eig.symmetricvalues.not_ordered", unordered, 0);
    }
}

template <class T> static void eigCase(vh::Rng& g, int n, int cls) {
    DMat A = genGeneric(g, n, n);
    if (cls == 1) for (int i = 0; i < n; ++i) for (int j = 0; j < i; ++j) A(i, j) = A(j, i);
    eigJudge<T>(A, cls, cls == 1 ? ".symmetricvalues" : ".general");
}
template <class T> static void eigSpecialCase(vh::Rng& g, int n, int cls) {
    DMat A(n, n);
    if (cls == 0) {            // repeated eigenvalues: c I + u u^T (symmetric; n-1 equal eigenvalues)
        std::vector<double> u = genVec(g, n, true); double c = g.smallInt(1, 4);
        for (int i = 0; i < n; ++i) for (int j = 0; j < n; ++j) A(i, j) = u[i] * u[j] + (i == j ? c : 0);
        eigJudge<T>(A, 1, ".repeated");
    } else if (cls == 2) {     // small-scale matrix: complex eigenvalue pairs whose imaginary parts are below the ABSOLUTE
        // threshold EPS = 1e-6 of LapackInterface::geev are returned as two separate real vectors (finding F-C24h)
        A = genGeneric(g, n, n); for (auto& v : A.a) v *= 1e-8;
        eigJudge<T>(A, 2, ".smallscale");
    } else {                   // defective: upper bidiagonal Jordan-like blocks (integer entries)
        double lam = g.smallInt(-3, 3);
        for (int i = 0; i < n; ++i) { A(i, i) = (i % 3 == 2) ? lam + 1 : lam; if (i + 1 < n && i % 3 != 2) A(i, i + 1) = 1; }
        eigJudge<T>(A, 0, ".defective");
    }
}
// complex element type through the real embedding  [Re -Im; Im Re]
static void complexLuCase(vh::Rng& g, int n) {
    Matrix_<cd> C(n, n); Vector_<cd> b(n), x;
    for (int i = 0; i < n; ++i) { for (int j = 0; j < n; ++j) C(i, j) = cd(g.range(-2, 2), g.range(-2, 2)); b[i] = cd(g.range(-2, 2), g.range(-2, 2)); }
    FactorLU lu(C); if (lu.isSingular()) return; lu.solve(b, x);
    DMat A(2 * n, 2 * n); std::vector<double> bb(2 * n), xx(2 * n);
    for (int i = 0; i < n; ++i) { for (int j = 0; j < n; ++j) { A(i, j) = C(i, j).real(); A(i, j + n) = -C(i, j).imag(); A(i + n, j) = C(i, j).imag(); A(i + n, j + n) = C(i, j).real(); }
        bb[i] = b[i].real(); bb[i + n] = b[i].imag(); xx[i] = x[i].real(); xx[i + n] = x[i].imag(); }
    luRecord<double>("lu.complex", A, bb, xx, 32, "generic");
    // complex SVD solve of the same system
    Vector_<cd> xs; FactorSVD s(C); s.solve(b, xs);
    for (int i = 0; i < n; ++i) { xx[i] = xs[i].real(); xx[i + n] = xs[i].imag(); }
    luRecord<double>("svd.complex", A, bb, xx, 128, "generic");
}

// API behaviours that are findings or documented rejections; each with a specific key
static void apiCase(vh::Rng& g, int which) {
    if (which == 0) {          // complex FactorQTZ
        int n = 2 + g.below(3); Matrix_<cd> C(n, n); Vector_<cd> b(n), x;
        for (int i = 0; i < n; ++i) { for (int j = 0; j < n; ++j) C(i, j) = cd(g.range(-2, 2), g.range(-2, 2)); b[i] = cd(g.range(-2, 2), g.range(-2, 2)); }
        std::string res = "ok"; double resid = 0;
        try { FactorQTZ q(C); q.solve(b, x); for (int i = 0; i < n; ++i) { cd s = -b[i]; for (int j = 0; j < n; ++j) s += C(i, j) * x[j]; resid = std::max(resid, std::abs(s)); } }
        catch (const std::exception&) { res = "EXC"; }
        vh::I("qtzdiag").d(0).d(2).d(2).d(0.5).emit(); std::puts("O qtzdiag 2");       // carrier record (answered trivially by the model)
        vh::D("api.qtz.complex." + res);
        vh::P("complex_qtz_solves", "qtz.complex.solve.throws", res == "ok" ? resid : 1.0, 1e-10);
    } else if (which == 1) {   // complex Eigen: run in a child process (the call crashes)
        std::fflush(stdout);
        pid_t pid = fork(); int status = 0; bool crashed = false, bad = false;
        if (pid == 0) {
            Matrix_<cd> C(2, 2); C(0, 0) = cd(1, 1); C(0, 1) = cd(2, 0); C(1, 0) = cd(0, 1); C(1, 1) = cd(3, -1);
            try { Eigen e(C); Vector_<cd> v; Matrix_<cd> m; e.getAllEigenValuesAndVectors(v, m);
                  double r = 0; for (int k = 0; k < 2; ++k) for (int i = 0; i < 2; ++i) { cd s = -v[k] * m(i, k); for (int j = 0; j < 2; ++j) s += C(i, j) * m(j, k); r = std::max(r, std::abs(s)); }
                  _exit(r < 1e-10 ? 0 : 3); } catch (...) { _exit(4); }
        } else if (pid > 0) { waitpid(pid, &status, 0); crashed = WIFSIGNALED(status); bad = !crashed && WEXITSTATUS(status) != 0; }
        vh::I("qtzdiag").d(0).d(2).d(2).d(0.5).emit(); std::puts("O qtzdiag 2");
        vh::D(std::string("api.eigen.complex.") + (crashed ? "crash" : bad ? "wrong" : "ok"));
        vh::P("complex_eigen_works", "eigen.complex.crash", (crashed || bad) ? 1 : 0, 0);
    } else if (which == 2) {   // Eigen of a 0x0 matrix
        std::string res = "ok"; std::string what;
        try { Matrix Z(0, 0); Eigen e(Z); Vector_<cd> v; Matrix_<cd> m; e.getAllEigenValuesAndVectors(v, m); if (v.size() != 0) res = "wrong"; }
        catch (const std::exception& ex) { res = "EXC"; what = ex.what(); }
        vh::I("qtzdiag").d(0).d(2).d(2).d(0.5).emit(); std::puts("O qtzdiag 2");
        vh::D("api.eigen.size0." + res);
        vh::P("size0_eigen", "eigen.size0.internal_error", (res == "ok" || what.find("internal error") == std::string::npos) ? 0 : 1, 0);
    } else if (which == 3) {   // zero-size factorizations: LU/LLT/QTZ reject with an API argument error; SVD returns empty results
        int okc = 0;
        try { Matrix Z(0, 0); FactorLU f(Z); } catch (const std::exception& ex) { if (std::string(ex.what()).find("zero dimension") != std::string::npos) ++okc; }
        try { Matrix Z(0, 0); FactorLLT f(Z); } catch (const std::exception& ex) { if (std::string(ex.what()).find("zero dimension") != std::string::npos) ++okc; }
        try { Matrix Z(0, 3); FactorQTZ f(Z); } catch (const std::exception& ex) { if (std::string(ex.what()).find("zero dimension") != std::string::npos) ++okc; }
        try { Matrix Z(0, 0); FactorSVD f(Z); Vector s; f.getSingularValues(s); Vector b(0), x; f.solve(b, x); if (s.size() == 0 && x.size() == 0) ++okc; } catch (...) {}
        vh::I("qtzdiag").d(0).d(2).d(2).d(0.5).emit(); std::puts("O qtzdiag 2");
        vh::D("api.size0");
        vh::P("size0_handled", "api.size0.not_rejected_cleanly", 4 - okc, 0);
    } else {                   // default rcond = max(m,n)*eps^(7/8) observed through rank (QTZ) / truncation (SVD) of diag(1,t,0..)
        bool fl = g.coin();
        int m = 2 + g.below(6), n = 2 + g.below(6);
        double thr = std::max(m, n) * (fl ? (double)NTraits<float>::getSignificant() : (double)NTraits<double>::getSignificant());
        double t = thr * (g.coin() ? 1.5 : 1 / 1.5);
        if (fl) t = (double)(float)t;
        int rank; double x2;
        if (fl) { Matrix_<float> M(m, n); M = 0; M(0, 0) = 1; M(1, 1) = (float)t; FactorQTZ q(M); rank = q.getRank();
                  Vector_<float> b(m, 0.f), x; b[0] = 1; b[1] = 1; FactorSVD sv(M); sv.solve(b, x); x2 = x[1]; }
        else { Matrix M(m, n); M = 0; M(0, 0) = 1; M(1, 1) = t; FactorQTZ q(M); rank = q.getRank();
               Vector b(m, 0.0), x; b[0] = 1; b[1] = 1; FactorSVD sv(M); sv.solve(b, x); x2 = x[1]; }
        vh::I("qtzdiag").d(fl ? 1 : 0).d(m).d(n).d(t).emit(); std::printf("O qtzdiag %d\n", rank);
        vh::D(std::string("qtzdiag.") + (fl ? "float" : "double") + (m == n ? ".square" : m > n ? ".tall" : ".wide"));
        bool kept = std::fabs(x2 * t - 1) < 1e-3, dropped = x2 == 0;
        vh::I("svddiag").d(fl ? 1 : 0).d(m).d(n).d(t).emit(); std::printf("O svddiag %d\n", kept ? 1 : 0);
        vh::D(std::string("svddiag.") + (fl ? "float" : "double"));
        vh::P("svd_truncation_is_clean", "svd.defaultrcond.x2_neither_kept_nor_dropped", (kept || dropped) ? 0 : 1, 0);
    }
}

// ---------------------------------------------------------------- round-2 additions

// condition estimate of FactorQTZ against the singular values FactorSVD returns for the same matrix, and the QTZ/SVD inverses
template <class T> static void condAndInverseCase(vh::Rng& g, int n, int cls) {
    // cls 0: generic square; 1: graded singular values (cond 1e3..1e6, double 1e3..1e9); 2: exactly rank-deficient integers (pseudo-inverse)
    DMat A;
    if (cls == 0) A = genGeneric(g, n, n);
    else if (cls == 1) { A = genGeneric(g, n, n); double cnd = std::pow(10.0, g.range(3, sizeof(T) == 4 ? 4.5 : 9)); for (int i = 0; i < n; ++i) for (int j = 0; j < n; ++j) A(i, j) *= std::pow(cnd, -(double)j / std::max(1, n - 1)); }
    else A = genRankDeficientInts(g, n, n, std::max(1, n - 1 - g.below(2)));
    roundTo<T>(A);
    Matrix_<T> M = toSimTK<T>(A);
    FactorQTZ q(M); FactorSVD sv(M);
    Vector_<T> S; sv.getSingularValues(S);
    const int rank = q.getRank();
    std::string key = std::string(Prec<T>::name()) + (cls == 0 ? ".generic" : cls == 1 ? ".graded" : ".rankdef");
    if (n >= 2 && rank >= 1 && rank <= n && (double)S[0] > 0) {
        double truth = (double)S[rank - 1] / (double)S[0], est = q.getRCondEstimate();
        // incremental condition estimation is a heuristic that is accurate to a modest factor; a mis-scaled or transposed
        // estimate is off by orders of magnitude
        double ratio = (est > 0 && truth > 0) ? std::max(est / truth, truth / est) : INFINITY;
        vh::I("qtzdiag").d(0).d(2).d(2).d(0.5).emit(); std::puts("O qtzdiag 2");
        vh::D("rcond." + key); ++g_count[7];
        // numerical rank 1 of a larger matrix: FactorQTZRep assigns actualRCond only when the rank loop *increments* the rank
        // (FactorQTZ.cpp:403-414), so for rank 1 it is never assigned and getRCondEstimate() returns 0 (true value 1) - the same
        // root cause as the listed qtz.rcond.min_dim_1.zero, reached through a different input class: own narrow key
        // (the rank-1 key is Boolean - 1 = estimate not within a factor 4 of sigma_r/sigma_1 - so that the listed finding's cap 1 applies)
        if (rank == 1) vh::P("rcond_estimate_consistent", "qtz.rcond.rank_1.zero", ratio <= 4.0 ? 0 : 1, 0);
        else vh::P("rcond_estimate_consistent", "qtz.rcond." + key + ".vs_singular_values", ratio, 4.0);
        if (rank == 1) vh::D("rcond.rank1");
    }
    // inverses reported by FactorQTZ and FactorSVD
    Matrix_<T> Xq, Xs; q.inverse(Xq); sv.inverse(Xs);
    if (cls != 2) { invRecord<T>("qtz", A, Xq, cls == 1 ? 1e6 : 1024, cls == 1 ? "graded" : "generic"); invRecord<T>("svd", A, Xs, cls == 1 ? 1e6 : 1024, cls == 1 ? "graded" : "generic"); g_count[5] += 2; }
    else {
        for (int w = 0; w < 2; ++w) {
            const Matrix_<T>& X = w == 0 ? Xq : Xs;
            DMat Xd(n, n); for (int i = 0; i < n; ++i) for (int j = 0; j < n; ++j) Xd(i, j) = (double)X(i, j);
            vh::Line in = vh::I("pinv"); in.d(Prec<T>::id()).d(n).d(4096.0); putMat(in, A); putMat(in, Xd); in.emit();
            std::puts("O pinv 1");
            vh::D(std::string(w == 0 ? "qtz" : "svd") + ".pinv." + Prec<T>::name()); ++g_count[6];
            // A X A = A in long double
            double worst = 0, amax = 0, xmax = 0;
            for (double v : A.a) amax = std::max(amax, std::fabs(v)); for (double v : Xd.a) xmax = std::max(xmax, std::fabs(v));
            for (int i = 0; i < n; ++i) for (int j = 0; j < n; ++j) { LD sacc = -A(i, j); for (int k = 0; k < n; ++k) for (int l = 0; l < n; ++l) sacc += (LD)A(i, k) * Xd(k, l) * A(l, j); worst = std::max(worst, (double)std::fabs(sacc)); }
            vh::P("pseudo_inverse_AXA", std::string(w == 0 ? "qtz" : "svd") + ".pinv." + Prec<T>::name() + ".AXA", worst / (amax * (1 + n * n * xmax * amax)), 4096.0 * n * Prec<T>::eps());
        }
    }
}

// element types negator<T>: the matrix handed to the factorization is the negated *view* of the stored data
template <class T> static void negatorCase(vh::Rng& g, int n) {
    DMat A = genGeneric(g, n, n); roundTo<T>(A);
    std::vector<double> b = genVec(g, n, false); roundTo<T>(b);
    Matrix_<T> M = toSimTK<T>(A);
    const Matrix_<negator<T> >& Mn = M.negate();           // values are -A
    DMat An = A; for (auto& v : An.a) v = -v;
    Vector_<T> x;
    { FactorLU f(Mn); if (!f.isSingular()) { f.solve(toVec<T>(b), x); luRecord<T>("lu.negator", An, b, fromVec(x), 16, "generic"); ++g_count[0]; } }
    { FactorQTZ f(Mn); f.solve(toVec<T>(b), x); luRecord<T>("qtz.negator", An, b, fromVec(x), 128, "generic"); }
    { FactorSVD f(Mn); f.solve(toVec<T>(b), x); luRecord<T>("svd.negator", An, b, fromVec(x), 128, "generic"); }
}

// user-specified rcond and numerically (not exactly) rank-deficient matrices: the reported rank follows the threshold
template <class T> static void numericalRankCase(vh::Rng& g, int m, int n) {
    int k = std::min(m, n); if (k < 2) return;
    int r = 1 + g.below(k - 1);
    // A = sum_{i<r} u_i v_i^T (O(1)) + noise*G: singular values r large ones and k-r of size ~noise
    const double noise = sizeof(T) == 4 ? 1e-5 : 1e-11, rc = sizeof(T) == 4 ? 1e-3 : 1e-7;
    DMat A = mul(genGeneric(g, m, r), genGeneric(g, r, n)); DMat G = genGeneric(g, m, n);
    for (size_t i = 0; i < A.a.size(); ++i) A.a[i] += noise * G.a[i];
    roundTo<T>(A);
    Matrix_<T> M = toSimTK<T>(A);
    std::vector<double> b = genVec(g, m, false); roundTo<T>(b);
    typename CNT<T>::TReal rcT = (typename CNT<T>::TReal)rc;
    FactorQTZ q(M, rcT); FactorSVD sv(M, rcT);
    Vector_<T> S; sv.getSingularValues(S);
    int expect = 0; for (int i = 0; i < k; ++i) if ((double)S[i] > rc * (double)S[0]) ++expect;
    vh::I("qtzdiag").d(0).d(2).d(2).d(0.5).emit(); std::puts("O qtzdiag 2");
    vh::D(std::string("numrank.") + Prec<T>::name());
    vh::P("user_rcond_rank", std::string("qtz.user_rcond.") + Prec<T>::name() + ".rank", std::abs(q.getRank() - r) + std::abs(expect - r), 0);
    // both truncated solves give (nearly) the same minimum-norm least-squares solution of the rank-r part
    Vector_<T> xq, xs; q.solve(toVec<T>(b), xq); sv.solve(toVec<T>(b), xs);
    double d = 0, sc = 1e-300; for (int i = 0; i < n; ++i) { d = std::max(d, std::fabs((double)xq[i] - (double)xs[i])); sc = std::max(sc, std::fabs((double)xs[i])); }
    vh::P("truncated_solutions_agree", std::string("qtz_vs_svd.user_rcond.") + Prec<T>::name() + ".solution", d / sc, sizeof(T) == 4 ? 2e-2 : 1e-3);
}

// matrix right-hand sides and refactorisation for LLT / QTZ / SVD; scaled systems (|A| near under/overflow) for LU / QTZ
template <class T> static void rhsRefactorScaleCase(vh::Rng& g, int n) {
    DMat A = genSPD(g, n); roundTo<T>(A); for (int i = 0; i < n; ++i) for (int j = 0; j < i; ++j) A(i, j) = A(j, i);
    int nrhs = 2 + g.below(2); DMat B = genGeneric(g, n, nrhs); roundTo<T>(B);
    auto cols = [&](const std::string& what, const DMat& AA, const Matrix_<T>& X, double tolk) {
        for (int c = 0; c < nrhs; ++c) { std::vector<double> bc(n), xc(n); for (int i = 0; i < n; ++i) { bc[i] = B(i, c); xc[i] = (double)X(i, c); } luRecord<T>(what, AA, bc, xc, tolk, "matrixrhs"); }
    };
    Matrix_<T> X;
    FactorLLT llt(toSimTK<T>(A)); llt.solve(toSimTK<T>(B), X); cols("llt", A, X, 16);
    FactorQTZ q(toSimTK<T>(A)); q.solve(toSimTK<T>(B), X); cols("qtz", A, X, 128);
    FactorSVD sv(toSimTK<T>(A)); sv.solve(toSimTK<T>(B), X); cols("svd", A, X, 128);
    DMat A2 = genSPD(g, n); roundTo<T>(A2); for (int i = 0; i < n; ++i) for (int j = 0; j < i; ++j) A2(i, j) = A2(j, i);
    llt.factor(toSimTK<T>(A2)); llt.solve(toSimTK<T>(B), X); cols("llt.refactor", A2, X, 16);
    q.factor(toSimTK<T>(A2)); q.solve(toSimTK<T>(B), X); cols("qtz.refactor", A2, X, 128);
    sv.factor(toSimTK<T>(A2)); sv.solve(toSimTK<T>(B), X); cols("svd.refactor", A2, X, 128);
    if (sizeof(T) == 8) {
        // scaleLinSys / scaleRHS branches of FactorQTZ (|A|max outside [smlnum, bignum] ~ [1e-292, 1e292]); the contract is exact
        for (int w = 0; w < 3; ++w) {
            // w=0: A and b tiny (both scale branches); w=1: A huge; w=2: b huge (scaleRHS with bignum)
            const char* nm = w == 0 ? "tiny" : w == 1 ? "hugeA" : "hugeb";
            DMat As = genGeneric(g, n, n); if (w == 0) for (auto& v : As.a) v *= 1e-300; if (w == 1) for (auto& v : As.a) v *= 1e295;
            std::vector<double> b = genVec(g, n, false); if (w == 0) for (auto& v : b) v *= 1e-300; if (w == 2) for (auto& v : b) v *= 1e295;
            Vector_<T> x; FactorQTZ qs(toSimTK<T>(As)); qs.solve(toVec<T>(b), x);
            vh::Line in = vh::I("lu"); in.d(0).d(n).d(4096.0); putMat(in, As); putVec(in, b); putVec(in, fromVec(x)); in.emit();
            std::puts("O lu 1");
            vh::D(std::string("qtz.scaled.") + nm);
            // finding F-C24g: when the right-hand side norm is outside [smlnum, bignum] FactorQTZRep::doSolve un-scales the solution
            // with the inverse factor (lascl(bnrm, rhsScaleF) instead of lascl(rhsScaleF, bnrm)): x is off by (rhsScaleF/bnrm)^2
            vh::P("scaled_system_solved", (w == 1 ? std::string("qtz.scaled.hugeA.residual") : std::string("qtz.scaleRHS.wrong_unscaling")), luResidual(As, b, fromVec(x)), 4096.0 * n * Prec<T>::eps());
        }
    }
}


// ---------------------------------------------------------------- Matrix right-hand sides (round 2b)
// solve(const Matrix& B, Matrix& X) of every factorisation that has one: LU and LLT (square), QTZ and SVD (tall, square AND wide)
// x {1, 2, 3-5} right-hand-side columns.  Every column of X is judged on its own: the same record + contract as the
// single-vector solve (`lu`: residual; `ls`: normal equations and, for small-integer matrices, the exact minimum-norm /
// exact-rank contract in the driver) and it must equal the single-vector solve of that column by the SAME factor object.
static int g_mrhs[4][3][3];      // [factorisation][shape tall/square/wide][ncols class]
template <class T> static void matrixRhsCase(vh::Rng& g, int fac, int shape, int ncls) {
    static const char* facName[] = {"lu", "llt", "qtz", "svd"}; static const char* shName[] = {"tall", "square", "wide"}; static const char* ncName[] = {"cols1", "cols2", "cols3to5"};
    if (fac <= 1) shape = 1;
    int k = 2 + g.below(3), extra = 1 + g.below(3);
    int m = shape == 0 ? k + extra : k, n = shape == 2 ? k + extra : k;
    int nrhs = ncls == 0 ? 1 : ncls == 1 ? 2 : 3 + g.below(3);
    bool ints = fac >= 2 && g.coin();            // small integers: the driver's exact contract (min norm, exact rank) applies
    DMat A = fac == 1 ? genSPD(g, n) : ints ? genInts(g, m, n, -4, 4) : genGeneric(g, m, n);
    if (fac != 1) for (int i = 0; i < std::min(m, n); ++i) A(i, i) += (A(i, i) < 0 ? -7 : 7);     // keep the condition number modest
    roundTo<T>(A); if (fac == 1) for (int i = 0; i < n; ++i) for (int j = 0; j < i; ++j) A(i, j) = A(j, i);
    DMat B = ints ? genInts(g, m, nrhs, -5, 5) : genGeneric(g, m, nrhs); roundTo<T>(B);
    Matrix_<T> X; std::vector<Vector_<T> > xs(nrhs);
    auto col = [&](int c) { std::vector<double> bc(m); for (int i = 0; i < m; ++i) bc[i] = B(i, c); return bc; };
    std::string tag = std::string("matrixrhs.") + facName[fac] + "." + shName[shape] + "." + ncName[ncls];
    std::string key = tag + "." + Prec<T>::name();
    try {
        if (fac == 0) { FactorLU f(toSimTK<T>(A)); f.solve(toSimTK<T>(B), X); for (int c = 0; c < nrhs; ++c) f.solve(toVec<T>(col(c)), xs[c]); }
        else if (fac == 1) { FactorLLT f(toSimTK<T>(A)); f.solve(toSimTK<T>(B), X); for (int c = 0; c < nrhs; ++c) f.solve(toVec<T>(col(c)), xs[c]); }
        else if (fac == 2) { FactorQTZ f(toSimTK<T>(A)); f.solve(toSimTK<T>(B), X); for (int c = 0; c < nrhs; ++c) f.solve(toVec<T>(col(c)), xs[c]); }
        else { FactorSVD f(toSimTK<T>(A)); f.solve(toSimTK<T>(B), X); for (int c = 0; c < nrhs; ++c) f.solve(toVec<T>(col(c)), xs[c]); }
    } catch (const std::exception&) {
        vh::I("qtzdiag").d(0).d(2).d(2).d(0.5).emit(); std::puts("O qtzdiag 2"); vh::D(tag + ".exception"); vh::P("no_exception", key + ".exception", 1, 0); return;
    }
    double shapeBad = (X.nrow() == n && X.ncol() == nrhs) ? 0 : 1;
    for (int c = 0; c < nrhs; ++c) {
        std::vector<double> bc = col(c), xc(n, NAN), xv = fromVec(xs[c]);
        if (shapeBad == 0) for (int i = 0; i < n; ++i) xc[i] = (double)X(i, c);
        if (fac <= 1) {
            vh::Line in = vh::I("lu"); in.d(Prec<T>::id()).d(n).d(fac == 0 ? 64.0 : 16.0); putMat(in, A); putVec(in, bc); putVec(in, xc); in.emit();
            std::puts("O lu 1"); ++g_count[fac];
            vh::P("solve_residual", key + ".residual", luResidual(A, bc, xc), (fac == 0 ? 64.0 : 16.0) * n * Prec<T>::eps());
        } else {
            vh::Line in = vh::I("ls"); in.d(Prec<T>::id()).d(m).d(n).d(32.0).d(ints ? 1 : 0).d(999); putMat(in, A); putVec(in, bc); putVec(in, xc); in.emit();
            std::puts("O ls 1 1"); ++g_count[2];
            vh::P("normal_equations", key + ".normal_eq", lsResidual(A, bc, xc), 32.0 * std::max(m, n) * Prec<T>::eps());
        }
        vh::D(tag + (c == 0 ? ".col0" : ".colN"));
        vh::P("matrix_rhs_result_shape", key + ".shape", shapeBad, 0);
        double d = 0, sc = 1e-300; for (int i = 0; i < n && i < (int)xv.size(); ++i) { d = std::max(d, std::fabs(xc[i] - xv[i])); sc = std::max(sc, std::fabs(xv[i])); }
        if ((int)xv.size() != n || !(d == d)) d = INFINITY;
        vh::P("matrix_rhs_column_equals_vector_solve", key + (c == 0 ? ".col0" : ".colN") + ".vs_vector_solve", d / sc, 64.0 * std::max(m, n) * Prec<T>::eps());   // measured <= 0.5*max(m,n)*eps
    }
    ++g_mrhs[fac][shape][ncls];
}

// eigenvalue special structure: repeated (symmetric I + u u^T has n-1 equal eigenvalues) and defective (Jordan-like) matrices
template <class T> static void eigSpecialCase(vh::Rng& g, int n, int cls);

template <class T> static void oneCase(vh::Rng& g, int maxN) {
    int stream = g.below(12);
    int n = 1 + g.below(maxN);
    if (stream <= 2) luCase<T>(g, n, g.below(3));
    else if (stream == 3) lltCase<T>(g, n);
    else if (stream <= 6) {
        int m = 1 + g.below(maxN), nn = 1 + g.below(maxN); int which = g.below(2); int cls = g.below(3);
        if (sizeof(T) == 4 && cls == 1) cls = 2;      // float: rank decisions of exactly deficient matrices are checked in double only
        lsCase<T>(g, which, m, nn, cls);
    } else if (stream <= 8) { int m = 1 + g.below(maxN), nn = 1 + g.below(maxN); svdCase<T>(g, m, nn, (sizeof(T) == 8 && g.below(3) == 0) ? 1 : 0); }
    else if (stream <= 10) eigCase<T>(g, n, g.below(2));
    else complexLuCase(g, 1 + g.below(std::min(maxN, 6)));
}
template <class T> static void round2Case(vh::Rng& g, int maxN, int which) {
    int n = 2 + g.below(maxN - 1);
    switch (which % 6) {
    case 0: condAndInverseCase<T>(g, n, g.below(3)); break;
    case 1: negatorCase<T>(g, n); break;
    case 2: numericalRankCase<T>(g, 2 + g.below(maxN - 1), 2 + g.below(maxN - 1)); break;
    case 3: rhsRefactorScaleCase<T>(g, n); break;
    case 4: eigSpecialCase<T>(g, std::max(n, 3), g.below(3)); break;
    default: if (sizeof(T) == 8 || true) { int big = 13 + g.below(28); if (g.coin()) luCase<T>(g, big, 0); else lsCase<T>(g, g.below(2), big, 13 + g.below(28), 0); }   // sizes 13..40 also in the quick tier
    }
}

static void replay() { /* contracts are pure functions of the record: the driver re-evaluates them; nothing to re-run */
    static char buf[1 << 22];
    while (std::fgets(buf, sizeof buf, stdin)) {
        if (buf[0] != 'I') continue;
        std::string line(buf); while (!line.empty() && (line.back() == '\n' || line.back() == '\r')) line.pop_back();
        std::puts(line.c_str());
        std::istringstream is(line); std::string k, fn; is >> k >> fn;
        if (fn == "svdrank") std::puts("O svdrank 0"); else if (fn == "ls") std::puts("O ls 1 1"); else if (fn == "qtzdiag") std::puts("O qtzdiag 2"); else if (fn == "svddiag") std::puts("O svddiag 1");
        else std::printf("O %s 1\n", fn.c_str());
    }
}

int main(int argc, char** argv) {
    // single-threaded BLAS: deterministic and friendly to the shared machine (must be set before the library initialises)
    if (!std::getenv("OPENBLAS_NUM_THREADS")) { setenv("OPENBLAS_NUM_THREADS", "1", 1); execv("/proc/self/exe", argv); }
    vh::Args args(argc, argv);
    if (args.mode == "replay") { replay(); return 0; }
    vh::Rng g(args.seed * 7919 + 24);
    int maxN = args.n > 1500 ? 40 : 12;
    for (int w = 0; w < 5; ++w) apiCase(g, w);
    for (int w = 0; w < 12; ++w) { if (w % 2) round2Case<float>(g, maxN, w / 2); else round2Case<double>(g, maxN, w / 2); }   // guaranteed shares
    for (int c = 0; c < 3; ++c) { eigSpecialCase<double>(g, 4 + g.below(5), c); eigSpecialCase<float>(g, 4 + g.below(5), c); }
    // Matrix right-hand sides: every factorisation x applicable shape x {1, 2, 3-5} columns in every run, QTZ/SVD in both precisions
    for (int fac = 0; fac < 4; ++fac) for (int shape = (fac <= 1 ? 1 : 0); shape <= (fac <= 1 ? 1 : 2); ++shape) for (int nc = 0; nc < 3; ++nc) {
        matrixRhsCase<double>(g, fac, shape, nc);
        if (fac >= 2 || nc == 1) matrixRhsCase<float>(g, fac, shape, nc);
    }
    // exactly singular matrix: isSingular() must say so; a generic one must not
    { Matrix S2(2, 2); S2(0, 0) = 1; S2(0, 1) = 2; S2(1, 0) = 2; S2(1, 1) = 4; FactorLU f(S2); Matrix G2(2, 2); G2(0, 0) = 4; G2(0, 1) = 1; G2(1, 0) = 1; G2(1, 1) = 3; FactorLU f2(G2);
      vh::I("qtzdiag").d(0).d(2).d(2).d(0.5).emit(); std::puts("O qtzdiag 2"); vh::D("lu.isSingular");
      vh::P("isSingular_truthful", "lu.isSingular.wrong", (f.isSingular() && f.getSingularIndex() == 2 && !f2.isSingular()) ? 0 : 1, 0); }
    for (long k = 0; k < args.n; ++k) {
        int r = g.below(40);
        if (r == 0) { apiCase(g, 4); continue; }
        if (r == 7) { int fac = g.below(4); if (g.below(3) == 0) matrixRhsCase<float>(g, fac, g.below(3), g.below(3)); else matrixRhsCase<double>(g, fac, g.below(3), g.below(3)); continue; }
        if (r <= 6) { if (g.below(3) == 0) round2Case<float>(g, maxN, g.below(6)); else round2Case<double>(g, maxN, g.below(6)); continue; }
        if (g.below(3) == 0) oneCase<float>(g, maxN); else oneCase<double>(g, maxN);
    }
    // floor: minimum numbers of records that reached the result predicates per family (an always-throwing regression must not
    // pass vacuously)
    {
        static const char* fam[8] = {"lu", "llt", "ls", "svd", "eig", "inv", "pinv", "rcond"};
        const int need[8] = {20, 4, 10, 6, 6, 6, 2, 2};
        vh::I("qtzdiag").d(0).d(2).d(2).d(0.5).emit(); std::puts("O qtzdiag 2"); vh::D("floor");
        for (int i = 0; i < 8; ++i) vh::P("coverage_floor", std::string("c24.floor.") + fam[i], std::max(0, need[i] - g_count[i]), 0);
        int missing = 0;      // matrix-RHS classes (factorisation x shape x columns) that were not judged at least twice
        for (int fac = 0; fac < 4; ++fac) for (int shape = 0; shape < 3; ++shape) for (int nc = 0; nc < 3; ++nc)
            if ((fac >= 2 || shape == 1) && g_mrhs[fac][shape][nc] < (fac >= 2 ? 2 : 1)) ++missing;
        vh::P("coverage_floor", "c24.floor.matrixrhs_classes", missing, 0);
    }
    return 0;
}
