// C24 correspondence harness: FactorLU / FactorLLT / FactorQTZ / FactorSVD / Eigen, float / double / complex.
// All tokens are hex doubles; matrices row major.  `tolk` = tolerance in units of n*eps of the element precision.
//   I lu prec n tolk A b x                       -> O lu 1          (exact-rational contract evaluated by the Lean driver)
//   I ls prec m n tolk exact rank A b x          -> O ls 1 1
//   I svd prec m n tolk A Ut S Vt                -> O svd 1
//   I svdrank k rcond S                          -> O svdrank <FactorSVD::getRank()>
//   I eig prec n tolk A lr li Vr Vi              -> O eig 1
//   I inv prec n tolk A X                        -> O inv 1
//   I qtzdiag prec t                             -> O qtzdiag <FactorQTZ(diag(1,t)).getRank()>
// P lines: the same residual predicates in long double (so that a failure has a concrete key), API-behaviour predicates.
#include "SimTKmath.h"
#include "hcommon.h"
#include <algorithm>
#include <complex>
#include <unistd.h>
#include <sys/wait.h>
using namespace SimTK;
typedef long double LD;
typedef std::complex<double> cd;

template <class T> struct Prec { static int id() { return 0; } static double eps() { return 2.220446049250313e-16; } static const char* name() { return "double"; } };
template <> struct Prec<float> { static int id() { return 1; } static double eps() { return 1.1920928955078125e-07; } static const char* name() { return "float"; } };

struct DMat { int m = 0, n = 0; std::vector<double> a; DMat() {} DMat(int m, int n) : m(m), n(n), a(m * n, 0.0) {} double& operator()(int i, int j) { return a[i * n + j]; } double operator()(int i, int j) const { return a[i * n + j]; } };

template <class T> static Matrix_<T> toSimTK(const DMat& A) { Matrix_<T> M(A.m, A.n); for (int i = 0; i < A.m; ++i) for (int j = 0; j < A.n; ++j) M(i, j) = (T)A(i, j); return M; }
// round the entries to the element precision so that what the driver sees is exactly what the implementation saw
template <class T> static void roundTo(DMat& A) { for (auto& x : A.a) x = (double)(T)x; }
template <class T> static void roundTo(std::vector<double>& v) { for (auto& x : v) x = (double)(T)x; }

static void putMat(vh::Line& L, const DMat& A) { for (double x : A.a) L.d(x); }
static void putVec(vh::Line& L, const std::vector<double>& v) { for (double x : v) L.d(x); }

// ---------------------------------------------------------------- generators
static DMat genGeneric(vh::Rng& g, int m, int n) { DMat A(m, n); for (auto& x : A.a) x = g.range(-1, 1) * 4; return A; }
static DMat genInts(vh::Rng& g, int m, int n, int lo, int hi) { DMat A(m, n); for (auto& x : A.a) x = g.smallInt(lo, hi); return A; }
static DMat mul(const DMat& B, const DMat& C) { DMat A(B.m, C.n); for (int i = 0; i < B.m; ++i) for (int j = 0; j < C.n; ++j) { double s = 0; for (int k = 0; k < B.n; ++k) s += B(i, k) * C(k, j); A(i, j) = s; } return A; }
static DMat transposeOf(const DMat& B) { DMat A(B.n, B.m); for (int i = 0; i < B.m; ++i) for (int j = 0; j < B.n; ++j) A(j, i) = B(i, j); return A; }
static DMat genSPD(vh::Rng& g, int n) { DMat B = genGeneric(g, n, n + 2); DMat A = mul(B, transposeOf(B)); for (int i = 0; i < n; ++i) A(i, i) += 0.5; return A; }
// nearly singular: one row is (almost) a combination of two others
static DMat genNearSingular(vh::Rng& g, int n, double delta) {
    DMat A = genGeneric(g, n, n); if (n < 3) return A;
    int k = g.below(n), i = (k + 1) % n, j = (k + 2) % n; double a = g.range(-1, 1), b = g.range(-1, 1);
    for (int c = 0; c < n; ++c) A(k, c) = a * A(i, c) + b * A(j, c) + delta * g.range(-1, 1);
    return A;
}
static DMat genRankDeficientInts(vh::Rng& g, int m, int n, int r) { return mul(genInts(g, m, r, -3, 3), genInts(g, r, n, -3, 3)); }
static std::vector<double> genVec(vh::Rng& g, int n, bool ints) { std::vector<double> v(n); for (auto& x : v) x = ints ? g.smallInt(-5, 5) : g.range(-1, 1) * 3; return v; }

// ---------------------------------------------------------------- predicates in long double (same formulas as the contracts)
static double luResidual(const DMat& A, const std::vector<double>& b, const std::vector<double>& x) {
    double worst = 0;
    for (int i = 0; i < A.m; ++i) { LD s = -b[i], mag = std::fabs(b[i]); for (int j = 0; j < A.n; ++j) { s += (LD)A(i, j) * x[j]; mag += std::fabs((LD)A(i, j) * x[j]); }
        if (!(std::fabs((double)s) <= 1e308)) return NAN; worst = std::max(worst, mag > 0 ? (double)(std::fabs(s) / mag) : (s == 0 ? 0.0 : INFINITY)); }
    return worst;
}
static double lsResidual(const DMat& A, const std::vector<double>& b, const std::vector<double>& x) {
    std::vector<LD> r(A.m), s(A.m);
    for (int i = 0; i < A.m; ++i) { LD t = -b[i], mag = std::fabs(b[i]); for (int j = 0; j < A.n; ++j) { t += (LD)A(i, j) * x[j]; mag += std::fabs((LD)A(i, j) * x[j]); } r[i] = t; s[i] = mag; }
    double worst = 0;
    for (int j = 0; j < A.n; ++j) { LD t = 0, mag = 0; for (int i = 0; i < A.m; ++i) { t += (LD)A(i, j) * r[i]; mag += std::fabs((LD)A(i, j)) * s[i]; }
        if (!(std::fabs((double)t) <= 1e308)) return NAN; worst = std::max(worst, mag > 0 ? (double)(std::fabs(t) / mag) : (t == 0 ? 0.0 : INFINITY)); }
    return worst;
}

template <class T> static std::vector<double> fromVec(const Vector_<T>& v) { std::vector<double> r(v.size()); for (int i = 0; i < v.size(); ++i) r[i] = (double)v[i]; return r; }
template <class T> static Vector_<T> toVec(const std::vector<double>& v) { Vector_<T> r((int)v.size()); for (size_t i = 0; i < v.size(); ++i) r[(int)i] = (T)v[i]; return r; }

// ---------------------------------------------------------------- records
template <class T> static void luRecord(const std::string& what, const DMat& A, const std::vector<double>& b, const std::vector<double>& x, double tolk, const std::string& cls) {
    vh::Line in = vh::I("lu"); in.d(Prec<T>::id()).d(A.n).d(tolk); putMat(in, A); putVec(in, b); putVec(in, x); in.emit();
    std::puts("O lu 1");
    std::string key = what + "." + Prec<T>::name() + "." + cls;
    vh::D(key);
    vh::P("solve_residual", key + ".residual", luResidual(A, b, x), tolk * std::max(A.n, 1) * Prec<T>::eps());
}
template <class T> static void invRecord(const std::string& what, const DMat& A, const Matrix_<T>& X, double tolk, const std::string& cls) {
    int n = A.n; DMat Xd(n, n); for (int i = 0; i < n; ++i) for (int j = 0; j < n; ++j) Xd(i, j) = (double)X(i, j);
    vh::Line in = vh::I("inv"); in.d(Prec<T>::id()).d(n).d(tolk); putMat(in, A); putMat(in, Xd); in.emit();
    std::puts("O inv 1");
    std::string key = what + ".inverse." + Prec<T>::name() + "." + cls; vh::D(key);
    double worst = 0;
    for (int i = 0; i < n; ++i) for (int j = 0; j < n; ++j) {
        LD s1 = -(i == j), s2 = -(i == j), ai = 0, xj = 0, xi = 0, aj = 0;
        for (int k = 0; k < n; ++k) { s1 += (LD)A(i, k) * Xd(k, j); s2 += (LD)Xd(i, k) * A(k, j);
            ai += std::fabs(A(i, k)); xj = std::max<LD>(xj, std::fabs(Xd(k, j))); xi = std::max<LD>(xi, std::fabs(Xd(i, k))); aj += std::fabs(A(k, j)); }
        worst = std::max(worst, (double)std::max(std::fabs(s1) / (ai * xj + (i == j)), std::fabs(s2) / (xi * aj + (i == j))));
    }
    vh::P("inverse_consistent", key + ".residual", worst, tolk * std::max(n, 1) * Prec<T>::eps());
}

template <class T> static void luCase(vh::Rng& g, int n, int cls) {
    static const char* names[] = {"generic", "nearsingular", "ints"};
    DMat A = cls == 0 ? genGeneric(g, n, n) : cls == 1 ? genNearSingular(g, n, sizeof(T) == 4 ? 1e-4 : 1e-10) : genInts(g, n, n, -5, 5);
    roundTo<T>(A);
    std::vector<double> b = genVec(g, n, cls == 2); roundTo<T>(b);
    Matrix_<T> M = toSimTK<T>(A);
    FactorLU lu(M);
    if (lu.isSingular()) { vh::D(std::string("lu.singular.") + Prec<T>::name()); return; }
    Vector_<T> x; lu.solve(toVec<T>(b), x);
    luRecord<T>("lu", A, b, fromVec(x), 64, names[cls]);
    // solving again gives the same answer (const solve does not disturb the factorization)
    Vector_<T> x2; lu.solve(toVec<T>(b), x2);
    double diff = 0; for (int i = 0; i < n; ++i) diff = std::max(diff, (double)std::fabs(x[i] - x2[i]));
    vh::P("solve_repeatable", std::string("lu.") + Prec<T>::name() + ".repeat", diff, 0);
    // matrix right-hand side: every column is solved
    int nrhs = 1 + g.below(3); DMat B = genGeneric(g, n, nrhs); roundTo<T>(B);
    Matrix_<T> X; lu.solve(toSimTK<T>(B), X);
    for (int c = 0; c < nrhs; ++c) { std::vector<double> bc(n), xc(n); for (int i = 0; i < n; ++i) { bc[i] = B(i, c); xc[i] = (double)X(i, c); } luRecord<T>("lu.matrixrhs", A, bc, xc, 64, names[cls]); }
    // inverse
    if (cls != 1) { Matrix_<T> inv; lu.inverse(inv); invRecord<T>("lu", A, inv, 256, names[cls]); }
    // (getL()/getU() are not part of the property - solves are; their transposed-packed-factor behaviour is documented in
    //  notes/C24.md under "observed outside the property")
    // refactorization: the same object factors a new matrix
    DMat A2 = genGeneric(g, n, n); roundTo<T>(A2); lu.factor(toSimTK<T>(A2));
    if (!lu.isSingular()) { Vector_<T> x3; lu.solve(toVec<T>(b), x3); luRecord<T>("lu.refactor", A2, b, fromVec(x3), 64, "generic"); }
}

template <class T> static void lltCase(vh::Rng& g, int n) {
    DMat A = genSPD(g, n); roundTo<T>(A);
    for (int i = 0; i < n; ++i) for (int j = 0; j < i; ++j) A(i, j) = A(j, i);
    std::vector<double> b = genVec(g, n, false); roundTo<T>(b);
    FactorLLT llt(toSimTK<T>(A));
    Vector_<T> x; llt.solve(toVec<T>(b), x);
    luRecord<T>("llt", A, b, fromVec(x), 64, "spd");
    Matrix_<T> inv; llt.inverse(inv); invRecord<T>("llt", A, inv, 1024, "spd");
    Matrix_<T> L; llt.getL(L);
    double worst = 0, sc = 1e-300;
    for (int i = 0; i < n; ++i) for (int j = 0; j < n; ++j) { LD s = 0; for (int k = 0; k <= std::min(i, j); ++k) s += (LD)L(i, k) * (LD)L(j, k); worst = std::max(worst, (double)std::fabs(s - A(i, j))); sc = std::max(sc, std::fabs(A(i, j))); }
    vh::P("llt_factor_reproduces", std::string("llt.") + Prec<T>::name() + ".LLt_eq_A", worst / sc, 64.0 * n * Prec<T>::eps());
}

// least squares / minimum norm through FactorQTZ (which=0) or FactorSVD (which=1)
template <class T> static void lsCase(vh::Rng& g, int which, int m, int n, int cls) {
    // cls 0: generic full rank; 1: exactly rank deficient small integers; 2: full-rank small integers (wide => min norm, tall => LS)
    int r = std::min(m, n);
    DMat A;
    if (cls == 0) A = genGeneric(g, m, n);
    else if (cls == 1) { r = r > 1 ? 1 + g.below(r - 1) : 0; A = r > 0 ? genRankDeficientInts(g, m, n, r) : DMat(m, n); }
    else A = genInts(g, m, n, -4, 4);
    roundTo<T>(A);
    std::vector<double> b = genVec(g, m, cls != 0); roundTo<T>(b);
    const char* wname = which == 0 ? "qtz" : "svd";
    std::string key = std::string(wname) + "." + Prec<T>::name() + "." + (cls == 0 ? "generic" : cls == 1 ? "rankdef" : "ints") + (m > n ? ".tall" : m < n ? ".wide" : ".square");
    Vector_<T> x; int rank = -1; double rcondEst = -1;
    try {
        if (which == 0) { FactorQTZ q(toSimTK<T>(A)); q.solve(toVec<T>(b), x); rank = q.getRank(); rcondEst = q.getRCondEstimate(); }
        else { FactorSVD s(toSimTK<T>(A)); s.solve(toVec<T>(b), x); }
    } catch (const std::exception& e) { vh::I("ls").d(Prec<T>::id()).d(m).d(n).emit(); std::puts("O ls EXC"); vh::P("no_exception", key + ".exception", 1, 0); return; }
    std::vector<double> xv = fromVec(x);
    bool exact = cls != 0;      // small-integer matrix: the driver also checks x against the exact null space and the exact rank
    vh::Line in = vh::I("ls"); in.d(Prec<T>::id()).d(m).d(n).d(256.0).d(exact ? 1 : 0).d(which == 0 ? rank : 999); putMat(in, A); putVec(in, b); putVec(in, xv); in.emit();
    std::puts("O ls 1 1");       // (rank token 999: the reported rank of FactorSVD is judged in the svdrank record)
    vh::D(key);
    vh::P("normal_equations", key + ".normal_eq", lsResidual(A, b, xv), 256.0 * std::max(m, n) * Prec<T>::eps());
    if (which == 0 && cls == 0) {
        vh::P("full_rank_detected", key + ".rank", std::abs(rank - std::min(m, n)), 0);
        // finding F-C24f: for min(m,n) == 1 the rank loop never runs and actualRCond is never set (reports 0 for a rank-1 matrix)
        vh::P("rcond_estimate_sane", std::min(m, n) == 1 ? std::string("qtz.rcond.min_dim_1.zero") : key + ".rcond", (rcondEst > 0 && rcondEst <= 1.0000001) ? 0 : 1, 0);
    }
}

template <class T> static void svdCase(vh::Rng& g, int m, int n, int cls) {
    DMat A = cls == 0 ? genGeneric(g, m, n) : genRankDeficientInts(g, m, n, std::max(1, std::min(m, n) - 1));
    roundTo<T>(A);
    FactorSVD svd(toSimTK<T>(A));
    Vector_<T> S; Matrix_<T> U, Vt;
    svd.getSingularValuesAndVectors(S, U, Vt);
    int k = std::min(m, n);
    DMat Ut(m, m), Vtd(n, n);
    for (int i = 0; i < m; ++i) for (int j = 0; j < m; ++j) Ut(j, i) = (double)U(i, j);       // rows of Ut = left singular vectors
    for (int i = 0; i < n; ++i) for (int j = 0; j < n; ++j) Vtd(i, j) = (double)Vt(i, j);     // rows of Vt = right singular vectors
    std::vector<double> Sv = fromVec(S);
    vh::Line in = vh::I("svd"); in.d(Prec<T>::id()).d(m).d(n).d(256.0); putMat(in, A); putMat(in, Ut); putVec(in, Sv); putMat(in, Vtd); in.emit();
    std::puts("O svd 1");
    std::string key = std::string("svd.") + Prec<T>::name() + (cls == 0 ? ".generic" : ".rankdef") + (m > n ? ".tall" : m < n ? ".wide" : ".square");
    vh::D(key);
    double tol = 256.0 * std::max(m, n) * Prec<T>::eps();
    double desc = 0; for (int i = 0; i < k; ++i) { if (Sv[i] < 0) desc = 1; if (i + 1 < k && Sv[i + 1] > Sv[i]) desc = 1; }
    vh::P("singular_values_descending_nonneg", key + ".order", desc, 0);
    double orth = 0;
    for (int i = 0; i < m; ++i) for (int j = 0; j < m; ++j) { LD s = -(i == j); for (int r = 0; r < m; ++r) s += (LD)Ut(i, r) * Ut(j, r); orth = std::max(orth, (double)std::fabs(s)); }
    for (int i = 0; i < n; ++i) for (int j = 0; j < n; ++j) { LD s = -(i == j); for (int r = 0; r < n; ++r) s += (LD)Vtd(i, r) * Vtd(j, r); orth = std::max(orth, (double)std::fabs(s)); }
    vh::P("singular_vectors_orthonormal", key + ".orthonormal", orth, tol);
    double rec = 0;
    for (int i = 0; i < m; ++i) for (int j = 0; j < n; ++j) { LD s = -A(i, j); for (int r = 0; r < k; ++r) s += (LD)Ut(r, i) * Sv[r] * Vtd(r, j); rec = std::max(rec, (double)std::fabs(s)); }
    vh::P("svd_reconstructs", key + ".reconstruct", rec / std::max(Sv.empty() ? 0.0 : Sv[0], 1e-300), tol);
    // values-only query agrees
    Vector_<T> S2; svd.getSingularValues(S2); double dv = 0; for (int i = 0; i < k; ++i) dv = std::max(dv, std::fabs((double)S2[i] - Sv[i]));
    vh::P("singular_values_consistent", key + ".values_only", dv / std::max(Sv.empty() ? 0.0 : Sv[0], 1e-300), tol);
    // rank: the threshold rule as coded, on the returned singular values, with the default rcond
    double rcond = std::max(m, n) * (double)NTraits<T>::getSignificant();
    int reported = svd.getRank();
    vh::Line ir = vh::I("svdrank"); ir.d(k).d(rcond); putVec(ir, Sv); ir.emit();
    std::printf("O svdrank %d\n", reported);
    vh::D(key + ".rank");
    int expect = 0; for (int i = 0; i < k; ++i) if (Sv[i] > rcond * Sv[0]) ++expect;
    // finding F-C24a: FactorSVD::getRank() is always 0 (base-class virtual is const, the override is not; shadowed loop variable)
    vh::P("svd_rank_by_threshold", "svd.getRank.always_zero", std::abs(reported - expect), 0);
}

// eigen-decomposition of a real general matrix (complex values/vectors returned); symmetric => values must be real
template <class T> static void eigCase(vh::Rng& g, int n, int cls) {
    DMat A = cls == 0 ? genGeneric(g, n, n) : genGeneric(g, n, n);
    if (cls == 1) for (int i = 0; i < n; ++i) for (int j = 0; j < i; ++j) A(i, j) = A(j, i);
    roundTo<T>(A);
    Eigen e(toSimTK<T>(A));
    Vector_<std::complex<T> > vals; Matrix_<std::complex<T> > vecs;
    e.getAllEigenValuesAndVectors(vals, vecs);
    std::vector<double> lr(n), li(n); DMat Vr(n, n), Vi(n, n);
    for (int k = 0; k < n; ++k) { lr[k] = vals[k].real(); li[k] = vals[k].imag(); for (int i = 0; i < n; ++i) { Vr(k, i) = vecs(i, k).real(); Vi(k, i) = vecs(i, k).imag(); } }
    vh::Line in = vh::I("eig"); in.d(Prec<T>::id()).d(n).d(1024.0); putMat(in, A); putVec(in, lr); putVec(in, li); putMat(in, Vr); putMat(in, Vi); in.emit();
    std::puts("O eig 1");
    std::string key = std::string("eig.") + Prec<T>::name() + (cls == 1 ? ".symmetricvalues" : ".general");
    vh::D(key);
    double worst = 0, degenerate = 0;
    for (int k = 0; k < n; ++k) {
        LD nv = 0; for (int i = 0; i < n; ++i) nv += (LD)Vr(k, i) * Vr(k, i) + (LD)Vi(k, i) * Vi(k, i);
        if (!(nv >= 0.25)) degenerate = 1;
        for (int i = 0; i < n; ++i) {
            LD sr = 0, si = 0, mag = 0;
            for (int j = 0; j < n; ++j) { sr += (LD)A(i, j) * Vr(k, j); si += (LD)A(i, j) * Vi(k, j); mag += std::fabs((LD)A(i, j)) * (std::fabs(Vr(k, j)) + std::fabs(Vi(k, j))); }
            sr -= (LD)lr[k] * Vr(k, i) - (LD)li[k] * Vi(k, i); si -= (LD)lr[k] * Vi(k, i) + (LD)li[k] * Vr(k, i);
            mag += (std::fabs(lr[k]) + std::fabs(li[k])) * (std::fabs(Vr(k, i)) + std::fabs(Vi(k, i)));
            if (mag > 0) worst = std::max(worst, (double)(std::max(std::fabs(sr), std::fabs(si)) / mag));
        }
    }
    vh::P("eigen_residual", key + ".residual", worst, 1024.0 * std::max(n, 1) * Prec<T>::eps());
    vh::P("eigenvectors_nondegenerate", key + ".nonzero", degenerate, 0);
    // values-only query agrees (as a multiset; compare sorted by (re,im))
    Vector_<std::complex<T> > v2; Eigen e2(toSimTK<T>(A)); e2.getAllEigenValues(v2);
    std::vector<std::pair<double, double> > a1, a2; for (int k = 0; k < n; ++k) { a1.push_back({lr[k], li[k]}); a2.push_back({(double)v2[k].real(), (double)v2[k].imag()}); }
    std::sort(a1.begin(), a1.end()); std::sort(a2.begin(), a2.end());
    double dv = 0, sc = 1e-300; for (int k = 0; k < n; ++k) { dv = std::max(dv, std::max(std::fabs(a1[k].first - a2[k].first), std::fabs(a1[k].second - a2[k].second))); sc = std::max(sc, std::fabs(a1[k].first) + std::fabs(a1[k].second)); }
    vh::P("eigenvalues_consistent", key + ".values_only", dv / sc, 1e4 * std::max(n, 1) * Prec<T>::eps());
    if (cls == 1) {
        double im = 0; for (int k = 0; k < n; ++k) im = std::max(im, std::fabs(li[k]));
        vh::P("symmetric_eigenvalues_real", key + ".real", im, 0);
        // "real and ordered for symmetric input": the symmetric LAPACK path (syev, ascending) exists in Eigen.cpp but cannot be
        // reached through the public API (a Symmetric-committed Matrix cannot be filled; the real-valued getters are not
        // instantiated), so symmetric input goes through geev, which does not order.  Specific key.
        double unordered = 0; for (int k = 0; k + 1 < n; ++k) if (lr[k + 1] < lr[k]) unordered = 1;
        if (n >= 3) vh::P("symmetric_eigenvalues_ordered", "eig.symmetricvalues.not_ordered", unordered, 0);
    }
}

// complex element type through the real embedding  [Re -Im; Im Re]
static void complexLuCase(vh::Rng& g, int n) {
    Matrix_<cd> C(n, n); Vector_<cd> b(n), x;
    for (int i = 0; i < n; ++i) { for (int j = 0; j < n; ++j) C(i, j) = cd(g.range(-2, 2), g.range(-2, 2)); b[i] = cd(g.range(-2, 2), g.range(-2, 2)); }
    FactorLU lu(C); if (lu.isSingular()) return; lu.solve(b, x);
    DMat A(2 * n, 2 * n); std::vector<double> bb(2 * n), xx(2 * n);
    for (int i = 0; i < n; ++i) { for (int j = 0; j < n; ++j) { A(i, j) = C(i, j).real(); A(i, j + n) = -C(i, j).imag(); A(i + n, j) = C(i, j).imag(); A(i + n, j + n) = C(i, j).real(); }
        bb[i] = b[i].real(); bb[i + n] = b[i].imag(); xx[i] = x[i].real(); xx[i + n] = x[i].imag(); }
    luRecord<double>("lu.complex", A, bb, xx, 128, "generic");
    // complex SVD solve of the same system
    Vector_<cd> xs; FactorSVD s(C); s.solve(b, xs);
    for (int i = 0; i < n; ++i) { xx[i] = xs[i].real(); xx[i + n] = xs[i].imag(); }
    luRecord<double>("svd.complex", A, bb, xx, 1024, "generic");
}

// API behaviours that are findings or documented rejections; each with a specific key
static void apiCase(vh::Rng& g, int which) {
    if (which == 0) {          // complex FactorQTZ
        int n = 2 + g.below(3); Matrix_<cd> C(n, n); Vector_<cd> b(n), x;
        for (int i = 0; i < n; ++i) { for (int j = 0; j < n; ++j) C(i, j) = cd(g.range(-2, 2), g.range(-2, 2)); b[i] = cd(g.range(-2, 2), g.range(-2, 2)); }
        std::string res = "ok"; double resid = 0;
        try { FactorQTZ q(C); q.solve(b, x); for (int i = 0; i < n; ++i) { cd s = -b[i]; for (int j = 0; j < n; ++j) s += C(i, j) * x[j]; resid = std::max(resid, std::abs(s)); } }
        catch (const std::exception&) { res = "EXC"; }
        vh::I("qtzdiag").d(0).d(1.0).emit(); std::puts("O qtzdiag 2");       // carrier record (answered trivially by the model)
        vh::D("api.qtz.complex." + res);
        vh::P("complex_qtz_solves", "qtz.complex.solve.throws", res == "ok" ? resid : 1.0, 1e-10);
    } else if (which == 1) {   // complex Eigen: run in a child process (the call crashes)
        std::fflush(stdout);
        pid_t pid = fork(); int status = 0; bool crashed = false, bad = false;
        if (pid == 0) {
            Matrix_<cd> C(2, 2); C(0, 0) = cd(1, 1); C(0, 1) = cd(2, 0); C(1, 0) = cd(0, 1); C(1, 1) = cd(3, -1);
            try { Eigen e(C); Vector_<cd> v; Matrix_<cd> m; e.getAllEigenValuesAndVectors(v, m);
                  double r = 0; for (int k = 0; k < 2; ++k) for (int i = 0; i < 2; ++i) { cd s = -v[k] * m(i, k); for (int j = 0; j < 2; ++j) s += C(i, j) * m(j, k); r = std::max(r, std::abs(s)); }
                  _exit(r < 1e-10 ? 0 : 3); } catch (...) { _exit(4); }
        } else if (pid > 0) { waitpid(pid, &status, 0); crashed = WIFSIGNALED(status); bad = !crashed && WEXITSTATUS(status) != 0; }
        vh::I("qtzdiag").d(0).d(1.0).emit(); std::puts("O qtzdiag 2");
        vh::D(std::string("api.eigen.complex.") + (crashed ? "crash" : bad ? "wrong" : "ok"));
        vh::P("complex_eigen_works", "eigen.complex.crash", (crashed || bad) ? 1 : 0, 0);
    } else if (which == 2) {   // Eigen of a 0x0 matrix
        std::string res = "ok"; std::string what;
        try { Matrix Z(0, 0); Eigen e(Z); Vector_<cd> v; Matrix_<cd> m; e.getAllEigenValuesAndVectors(v, m); if (v.size() != 0) res = "wrong"; }
        catch (const std::exception& ex) { res = "EXC"; what = ex.what(); }
        vh::I("qtzdiag").d(0).d(1.0).emit(); std::puts("O qtzdiag 2");
        vh::D("api.eigen.size0." + res);
        vh::P("size0_eigen", "eigen.size0.internal_error", (res == "ok" || what.find("internal error") == std::string::npos) ? 0 : 1, 0);
    } else if (which == 3) {   // zero-size factorizations: LU/LLT/QTZ reject with an API argument error; SVD returns empty results
        int okc = 0;
        try { Matrix Z(0, 0); FactorLU f(Z); } catch (const std::exception& ex) { if (std::string(ex.what()).find("zero dimension") != std::string::npos) ++okc; }
        try { Matrix Z(0, 0); FactorLLT f(Z); } catch (const std::exception& ex) { if (std::string(ex.what()).find("zero dimension") != std::string::npos) ++okc; }
        try { Matrix Z(0, 3); FactorQTZ f(Z); } catch (const std::exception& ex) { if (std::string(ex.what()).find("zero dimension") != std::string::npos) ++okc; }
        try { Matrix Z(0, 0); FactorSVD f(Z); Vector s; f.getSingularValues(s); Vector b(0), x; f.solve(b, x); if (s.size() == 0 && x.size() == 0) ++okc; } catch (...) {}
        vh::I("qtzdiag").d(0).d(1.0).emit(); std::puts("O qtzdiag 2");
        vh::D("api.size0");
        vh::P("size0_handled", "api.size0.not_rejected_cleanly", 4 - okc, 0);
    } else {                   // default rcond of FactorQTZ observed through the rank of diag(1,t)
        bool fl = g.coin();
        double thr = 2 * (fl ? (double)NTraits<float>::getSignificant() : (double)NTraits<double>::getSignificant());
        double t = thr * (g.coin() ? 1.5 : 1 / 1.5);
        int rank;
        if (fl) { Matrix_<float> M(2, 2); M = 0; M(0, 0) = 1; M(1, 1) = (float)t; t = (double)(float)t; FactorQTZ q(M); rank = q.getRank(); }
        else { Matrix M(2, 2); M = 0; M(0, 0) = 1; M(1, 1) = t; FactorQTZ q(M); rank = q.getRank(); }
        vh::I("qtzdiag").d(fl ? 1 : 0).d(t).emit(); std::printf("O qtzdiag %d\n", rank);
        vh::D(std::string("qtzdiag.") + (fl ? "float" : "double"));
    }
}

template <class T> static void oneCase(vh::Rng& g, int maxN) {
    int stream = g.below(12);
    int n = 1 + g.below(maxN);
    if (stream <= 2) luCase<T>(g, n, g.below(3));
    else if (stream == 3) lltCase<T>(g, n);
    else if (stream <= 6) {
        int m = 1 + g.below(maxN), nn = 1 + g.below(maxN); int which = g.below(2); int cls = g.below(3);
        if (sizeof(T) == 4 && cls == 1) cls = 2;      // float: rank decisions of exactly deficient matrices are checked in double only
        lsCase<T>(g, which, m, nn, cls);
    } else if (stream <= 8) { int m = 1 + g.below(maxN), nn = 1 + g.below(maxN); svdCase<T>(g, m, nn, (sizeof(T) == 8 && g.below(3) == 0) ? 1 : 0); }
    else if (stream <= 10) eigCase<T>(g, n, g.below(2));
    else complexLuCase(g, 1 + g.below(std::min(maxN, 6)));
}

static void replay() { /* contracts are pure functions of the record: the driver re-evaluates them; nothing to re-run */
    static char buf[1 << 22];
    while (std::fgets(buf, sizeof buf, stdin)) {
        if (buf[0] != 'I') continue;
        std::string line(buf); while (!line.empty() && (line.back() == '\n' || line.back() == '\r')) line.pop_back();
        std::puts(line.c_str());
        std::istringstream is(line); std::string k, fn; is >> k >> fn;
        if (fn == "svdrank") std::puts("O svdrank 0"); else if (fn == "ls") std::puts("O ls 1 1"); else if (fn == "qtzdiag") std::puts("O qtzdiag 2");
        else std::printf("O %s 1\n", fn.c_str());
    }
}

int main(int argc, char** argv) {
    // single-threaded BLAS: deterministic and friendly to the shared machine (must be set before the library initialises)
    if (!std::getenv("OPENBLAS_NUM_THREADS")) { setenv("OPENBLAS_NUM_THREADS", "1", 1); execv("/proc/self/exe", argv); }
    vh::Args args(argc, argv);
    if (args.mode == "replay") { replay(); return 0; }
    vh::Rng g(args.seed * 7919 + 24);
    int maxN = args.n > 1500 ? 40 : 12;
    for (int w = 0; w < 5; ++w) apiCase(g, w);
    for (long k = 0; k < args.n; ++k) {
        if (g.below(40) == 0) { apiCase(g, 4); continue; }
        if (g.below(3) == 0) oneCase<float>(g, maxN); else oneCase<double>(g, maxN);
    }
    return 0;
}
