// Shared generator / exporter of the tree family harnesses (C01, C02, C14, C15).
//  * builds a random multibody tree through the PUBLIC API only (every built-in mobilizer type that can be
//    constructed generically, forward / reversed, quaternion / Euler, frames from {identity, translation, general});
//  * every case is regenerated from one 64-bit case seed + size cap, so `--mode replay` re-runs exactly a case;
//  * exports what the Lean model takes as input ("exported-H mode"): parent, dof, first u index, p_PB_G,
//    Mk_G (getBodySpatialInertiaInGround), H columns in Ground (getHCol).
// NOTE tools/vlib.build_harness does not hash this header: bump TREEDYN_GEN_VERSION here AND in every Cnn.cpp.
#ifndef VERIF_TREEDYN_GEN_H
#define VERIF_TREEDYN_GEN_H
#define TREEDYN_GEN_VERSION 12
#include "Simbody.h"
#include "hcommon.h"
#include <memory>
#include <string>
#include <vector>

namespace td {
using namespace SimTK;

enum MobType { Pin, Slider, Universal, Cylinder, BendStretch, Planar, Gimbal, Bushing, Ball, Translation, Free,
               LineOrientation, FreeLine, Weld, Screw, Ellipsoid, SphericalCoords, CantileverFreeBeam, FunctionBased, NumMobTypes };
static const char* mobName[] = {"Pin", "Slider", "Universal", "Cylinder", "BendStretch", "Planar", "Gimbal", "Bushing",
                                "Ball", "Translation", "Free", "LineOrientation", "FreeLine", "Weld", "Screw", "Ellipsoid",
                                "SphericalCoords", "CantileverFreeBeam", "FunctionBased"};
static const char frameKind[] = {'I', 'T', 'G'};   // identity, translation-only, general

struct Options {
    int maxBodies = 12;
    bool allowWeld = true;
    bool allowMassless = false;   // massless intermediate bodies (never terminal)
    int masslessOneIn = 6;        // probability 1/masslessOneIn per eligible body
    bool allowPrescribed = false; // Motion::Steady / Motion::Sinusoid on mobilizers with qdot == u
    bool forceMassless = false;     // (only with allowMassless) chain of >= 3 bodies whose body 2 is massless behind a Pin / Slider
    bool forceWeld = false;         // one randomly chosen body is welded to its parent (RBNodeWeld, 0 dof)
    bool forceLoneParticle = false; // body 1 = forward Translation on Ground, identity frames, no children (RBNodeLoneParticle)
    bool allowConstraint = false; // one Rod / Ball / Weld-free constraint between two bodies in some cases
    double zeroUProb = 0.0;       // probability of u == 0
};

struct TreeCase {
    uint64_t caseSeed = 0; int maxBodies = 0;
    std::unique_ptr<MultibodySystem> sys;
    std::unique_ptr<SimbodyMatterSubsystem> matter;
    std::unique_ptr<GeneralForceSubsystem> forces;
    Force::DiscreteForces discrete;          // lets realize(Acceleration) see given mobility / body forces
    bool zeroU = false;
    std::vector<MobilizedBody> mobods;       // [0] = Ground
    std::vector<int> type; std::vector<std::string> tag;
    State state; int nb = 0, nu = 0; bool euler = false; std::string shape;
    vh::Rng g{0};                               // continues after construction: test vectors come from it
    int nMassless = 0, nPrescribed = 0; std::string constraintTag = "none";
    std::vector<int> parentOf;
};

inline Vec3 rvec(vh::Rng& g, double s) { return Vec3(g.range(-s, s), g.range(-s, s), g.range(-s, s)); }
inline Transform rframe(vh::Rng& g, int kind) {
    if (kind == 0) return Transform();
    if (kind == 1) return Transform(rvec(g, 1.0));
    Rotation r; r.setRotationToBodyFixedXYZ(rvec(g, 2.0));
    return Transform(r, rvec(g, 1.0));
}
// valid mass properties from a random point cloud (central inertia of >= 4 non-coplanar points, then shifted)
inline MassProperties rmass(vh::Rng& g) {
    const int np = 4 + g.below(4);
    std::vector<Vec3> pts(np); std::vector<double> ms(np);
    double mtot = 0; Vec3 com(0);
    for (int k = 0; k < np; ++k) { pts[k] = rvec(g, 0.6); ms[k] = g.range(0.2, 1.0); mtot += ms[k]; com += ms[k] * pts[k]; }
    com /= mtot;
    Inertia I(0);
    for (int k = 0; k < np; ++k) I += Inertia(pts[k], ms[k]);          // about the body origin
    return MassProperties(mtot, com, I);
}

inline MobilizedBody makeMobod(int type, MobilizedBody& parent, const Transform& XPF, const Body& body,
                               const Transform& XBM, bool rev, vh::Rng& g) {
    const MobilizedBody::Direction d = rev ? MobilizedBody::Reverse : MobilizedBody::Forward;
    switch (type) {
    case Pin: return MobilizedBody::Pin(parent, XPF, body, XBM, d);
    case Slider: return MobilizedBody::Slider(parent, XPF, body, XBM, d);
    case Universal: return MobilizedBody::Universal(parent, XPF, body, XBM, d);
    case Cylinder: return MobilizedBody::Cylinder(parent, XPF, body, XBM, d);
    case BendStretch: return MobilizedBody::BendStretch(parent, XPF, body, XBM, d);
    case Planar: return MobilizedBody::Planar(parent, XPF, body, XBM, d);
    case Gimbal: return MobilizedBody::Gimbal(parent, XPF, body, XBM, d);
    case Bushing: return MobilizedBody::Bushing(parent, XPF, body, XBM, d);
    case Ball: return MobilizedBody::Ball(parent, XPF, body, XBM, d);
    case Translation: return MobilizedBody::Translation(parent, XPF, body, XBM, d);
    case Free: return MobilizedBody::Free(parent, XPF, body, XBM, d);
    case LineOrientation: return MobilizedBody::LineOrientation(parent, XPF, body, XBM, d);
    case FreeLine: return MobilizedBody::FreeLine(parent, XPF, body, XBM, d);
    case Weld: return MobilizedBody::Weld(parent, XPF, body, XBM);
    case Screw: return MobilizedBody::Screw(parent, XPF, body, XBM, g.signedMag(0.1, 1.0), d);
    case Ellipsoid: return MobilizedBody::Ellipsoid(parent, XPF, body, XBM, Vec3(g.range(0.3, 1.0), g.range(0.3, 1.0), g.range(0.3, 1.0)), d);
    case SphericalCoords: return MobilizedBody::SphericalCoords(parent, XPF, body, XBM, d);
    case CantileverFreeBeam: return MobilizedBody::CantileverFreeBeam(parent, XPF, body, XBM, g.range(0.5, 2.0), d);
    default: {
        // FunctionBased (a Custom mobilizer), "regular" use only: rotation k is Linear(q_k) or the constant 0
        // (other uses are a known finding of C04); translations are generic linear maps so that H has full rank.
        const int nm = 2 + g.below(2);
        std::vector<const Function*> fn; std::vector<std::vector<int> > idx;
        for (int k = 0; k < 6; ++k) {
            if (k < 3) {
                if (k < nm && g.below(4) != 0) { Vector cf(2); cf[0] = g.signedMag(0.3, 0.8); cf[1] = g.range(-0.2, 0.2);
                    fn.push_back(new Function::Linear(cf)); idx.push_back(std::vector<int>(1, k)); }
                else { fn.push_back(new Function::Constant(0, 0)); idx.push_back(std::vector<int>()); }
            } else {
                Vector cf(nm + 1); for (int i = 0; i <= nm; ++i) cf[i] = g.signedMag(0.2, 1.0);
                fn.push_back(new Function::Linear(cf));
                std::vector<int> all; for (int i = 0; i < nm; ++i) all.push_back(i);
                idx.push_back(all);
            }
        }
        return MobilizedBody::FunctionBased(parent, XPF, body, XBM, nm, fn, idx, d);
    }
    }
}

// random q for one mobilizer, kept away from the coordinate singularities of its parameterisation
inline void setRandomQ(TreeCase& c, int i) {
    const MobilizedBody& mb = c.mobods[i];
    State& s = c.state; vh::Rng& g = c.g;
    const int nq = mb.getNumQ(s);
    if (nq == 0) return;
    Vector q(nq);
    for (int k = 0; k < nq; ++k) q[k] = g.range(-1.2, 1.2);
    const int t = c.type[i];
    if (c.matter->isUsingQuaternion(s, mb.getMobilizedBodyIndex())) {
        Vec4 e(g.range(-1, 1), g.range(-1, 1), g.range(-1, 1), g.range(-1, 1));
        if (e.norm() < 0.2) e = Vec4(1, 0.3, -0.2, 0.1);
        e = e / e.norm();
        for (int k = 0; k < 4; ++k) q[k] = e[k];
    } else if (t == Gimbal || t == Bushing || t == Ball || t == Free || t == Ellipsoid || t == LineOrientation || t == FreeLine || t == CantileverFreeBeam) {
        q[1] = g.range(-1.0, 1.0);                       // body-fixed XYZ Euler angles: |cos q1| >= 0.54
    }
    if (t == SphericalCoords) { q[1] = g.range(0.5, 2.6); q[2] = g.range(0.5, 2.0); }   // zenith away from 0, pi; radius != 0
    if (t == BendStretch) q[1] = g.range(0.5, 2.0);                                       // stretch != 0
    mb.setQFromVector(s, q);
}

// Build a random tree from (caseSeed, options). Realized through Velocity stage.
inline std::unique_ptr<TreeCase> buildCase(uint64_t caseSeed, const Options& opt) {
    std::unique_ptr<TreeCase> pc(new TreeCase); TreeCase& c = *pc;
    c.caseSeed = caseSeed; c.maxBodies = opt.maxBodies; c.g = vh::Rng(caseSeed);
    vh::Rng& g = c.g;
    c.sys.reset(new MultibodySystem); c.matter.reset(new SimbodyMatterSubsystem(*c.sys));
    c.forces.reset(new GeneralForceSubsystem(*c.sys));
    c.mobods.push_back(c.matter->Ground()); c.type.push_back(-1); c.tag.push_back("ground"); c.parentOf.push_back(-1);
    // size: small trees most often, occasionally the cap
    int nb;
    { int r = g.below(10); nb = r < 6 ? 1 + g.below(std::min(6, opt.maxBodies)) : 1 + g.below(opt.maxBodies); }
    int shape = g.below(4);                                // 0 chain, 1 star, 2 random, 3 binary-ish
    const bool fm = opt.forceMassless && opt.allowMassless && opt.maxBodies >= 3;
    if (fm) { shape = 0; nb = std::max(nb, 3); }
    c.shape = shape == 0 ? "chain" : shape == 1 ? "star" : shape == 2 ? "random" : "bushy";
    c.euler = g.below(3) == 0;
    int nuSoFar = 0; bool prevMassless = false;
    const int weldAt = opt.forceWeld ? 1 + g.below(nb) : -1;
    for (int i = 1; i <= nb; ++i) {
        int p;
        if (shape == 0) p = i - 1;
        else if (shape == 1) p = (i <= 1 || g.below(4) == 0) ? 0 : 1;
        else if (shape == 2) p = g.below(i);
        else p = i / 2;
        if (opt.forceLoneParticle && i > 1 && p == 1) p = 0;
        int t = g.below(NumMobTypes);
        if (t == Weld && (!opt.allowWeld)) t = Pin;
        // keep the total number of mobilities moderate for big trees (6-dof joints on 40 bodies -> 240 u's)
        if (nuSoFar > 60 && (t == Free || t == Bushing || t == FreeLine)) t = Pin + g.below(2);
        bool rev = (t != Weld) && g.below(3) == 0;
        int kf = g.below(3), km = g.below(3);
        if (prevMassless) {   // the child of a massless body: generic frames and a joint that transmits most of its inertia
            static const int okTypes[] = {Pin, Slider, Weld, Universal};
            t = okTypes[g.below(4)]; kf = km = 2; if (t == Weld) rev = false;
        }
        if (i == weldAt && !prevMassless) { t = Weld; rev = false; }
        if (opt.forceLoneParticle && i == 1) { t = Translation; rev = false; kf = km = 0; }
        const Transform XPF = rframe(g, kf), XBM = rframe(g, km);
        // a massless body is allowed only where a child is certain to follow (chain, not last) and behind a 1-dof joint
        if (fm && i == 2) { t = g.coin() ? Pin : Slider; }
        const bool massless = (fm && i == 2) ||
                              (opt.allowMassless && shape == 0 && i < nb && i > 1 && (t == Pin || t == Slider) && g.below(opt.masslessOneIn) == 0
                              && !prevMassless && !(c.nMassless > 0));
        if (massless) ++c.nMassless;
        prevMassless = massless;
        Body::Rigid body(massless ? MassProperties(0, Vec3(0), Inertia(0)) : rmass(g));
        MobilizedBody mb = makeMobod(t, c.mobods[p], XPF, body, XBM, rev, g);
        c.mobods.push_back(mb); c.type.push_back(t); c.parentOf.push_back(p);
        if (opt.allowPrescribed && !massless && (t == Pin || t == Slider || t == Cylinder || t == Planar || t == Translation || t == Universal)
            && g.below(6) == 0) {
            ++c.nPrescribed;
            if (g.coin()) Motion::Steady(mb, g.range(-1, 1));
            else Motion::Sinusoid(mb, Motion::Position, g.range(0.3, 1.0), g.range(0.5, 2.0), g.range(0.3, 1.2));
        }
        c.tag.push_back(std::string(mobName[t]) + (rev ? ".rev." : ".fwd.") + frameKind[kf] + frameKind[km] + (c.euler ? ".euler" : ".quat"));
        static const int dofOf[] = {1, 1, 2, 2, 2, 3, 3, 6, 3, 3, 6, 2, 5, 0, 1, 3, 3, 3, 3};
        nuSoFar += dofOf[t];
    }
    c.nb = nb;
    if (opt.allowConstraint && nb >= 2 && g.below(3) == 0) {
        const int b1 = 1 + g.below(nb); int b2 = g.below(nb + 1); if (b2 == b1) b2 = 0;
        const int kind = g.below(3);
        if (kind == 0) { Constraint::Rod(c.mobods[b1], rvec(g, 0.5), c.mobods[b2], rvec(g, 0.5), g.range(0.5, 2.0)); c.constraintTag = "Rod"; }
        else if (kind == 1) { Constraint::Ball(c.mobods[b1], rvec(g, 0.5), c.mobods[b2], rvec(g, 0.5)); c.constraintTag = "Ball"; }
        else { Constraint::PointInPlane(c.mobods[b2], UnitVec3(rvec(g, 1.0) + Vec3(0.1, 0.2, 1.5)), g.range(-0.5, 0.5), c.mobods[b1], rvec(g, 0.5)); c.constraintTag = "PointInPlane"; }
    }
    c.discrete = Force::DiscreteForces(*c.forces, *c.matter);
    c.sys->realizeTopology();
    c.state = c.sys->getDefaultState();
    c.matter->setUseEulerAngles(c.state, c.euler);
    c.sys->realizeModel(c.state);
    c.nu = c.state.getNU();
    for (int i = 1; i <= nb; ++i) setRandomQ(c, i);
    const bool zeroU = g.unit() < opt.zeroUProb; c.zeroU = zeroU;
    Vector u(c.nu);
    for (int k = 0; k < c.nu; ++k) u[k] = zeroU ? 0.0 : g.range(-1, 1);
    c.state.updU() = u;
    if (c.nPrescribed) {
        c.sys->realize(c.state, Stage::Time);
        c.sys->prescribeQ(c.state);
        c.sys->realize(c.state, Stage::Position);
        c.sys->prescribeU(c.state);
    }
    c.sys->realize(c.state, Stage::Velocity);
    return pc;
}

// tokens of the model input:  nb nu {idx parent d u0 l(3) m p(3) G(a00 a11 a22 a10 a20 a21) H(6 per column)}
inline void exportTree(const TreeCase& c, vh::Line& ln) {
    const State& s = c.state;
    ln.i(c.nb).i(c.nu);
    for (int i = 1; i <= c.nb; ++i) {
        const MobilizedBody& mb = c.mobods[i];
        const MobilizedBody& par = mb.getParentMobilizedBody();
        const int d = mb.getNumU(s);
        ln.i((int)mb.getMobilizedBodyIndex()).i((int)par.getMobilizedBodyIndex()).i(d).i(d ? (int)mb.getFirstUIndex(s) : 0);
        const Vec3 l = mb.getBodyOriginLocation(s) - par.getBodyOriginLocation(s);
        ln.v(l, 3);
        const SpatialInertia& M = mb.getBodySpatialInertiaInGround(s);
        ln.d(M.getMass()).v(M.getMassCenter(), 3);
        const SymMat33& G = M.getUnitInertia().asSymMat33();
        ln.d(G(0, 0)).d(G(1, 1)).d(G(2, 2)).d(G(1, 0)).d(G(2, 0)).d(G(2, 1));
        for (int k = 0; k < d; ++k) { const SpatialVec h = mb.getHCol(s, MobilizerUIndex(k)); ln.v(h[0], 3).v(h[1], 3); }
    }
}
// the configuration served by RigidBodyNode_LoneParticle.cpp: forward Translation, identity frames, child of Ground, no children
inline bool isLoneParticle(const TreeCase& c, int i) {
    if (!(c.tag[i].rfind("Translation.fwd.II", 0) == 0 && c.parentOf[i] == 0)) return false;
    for (int k = 1; k <= c.nb; ++k) if (c.parentOf[k] == i) return false;
    return true;
}
inline bool anyLoneParticle(const TreeCase& c) { for (int i = 1; i <= c.nb; ++i) if (isLoneParticle(c, i)) return true; return false; }
// reversed LineOrientation / FreeLine in quaternion mode: qdot = N u is inconsistent with V = H u (known finding
// C03.reversedLine.quaternion.fd_velocity); finite differences along qdot are meaningless there, so the from-q predicates skip these cases
inline bool hasReversedLineQuat(const TreeCase& c) {
    if (c.euler) return false;
    for (int i = 1; i <= c.nb; ++i) if (c.tag[i].rfind("LineOrientation.rev", 0) == 0 || c.tag[i].rfind("FreeLine.rev", 0) == 0) return true;
    return false;
}
inline bool anyWeld(const TreeCase& c) { for (int i = 1; i <= c.nb; ++i) if (c.type[i] == Weld) return true; return false; }
// generator options travel in the second token of every I record:  code = maxBodies + 1000*flags  (bit 0 lone particle, bit 1 weld)
inline int genCode(int maxBodies, int flags) { return maxBodies + 1000 * flags; }
inline void applyGenCode(int code, Options& opt) { opt.maxBodies = code % 1000; const int fl = code / 1000; opt.forceLoneParticle = fl & 1; opt.forceWeld = (fl & 2) != 0; opt.forceMassless = (fl & 4) != 0; }
inline int flagsForCase(long k) { return k % 25 == 7 ? 1 : k % 25 == 13 ? 2 : k % 25 == 19 ? 3 : k % 25 == 3 ? 4 : 0; }   // guaranteed shares of the special node classes

// body velocities generated by the speeds u, from central differences of the body poses along qdot = N u  (never touches H)
inline void fdBodyVelocities(const TreeCase& c, const Vector& u, Real h, std::vector<SpatialVec>& V) {
    Vector qdot; c.matter->multiplyByN(c.state, false, u, qdot);
    State sp = c.state, sm = c.state;
    sp.updQ() = c.state.getQ() + h * qdot; sm.updQ() = c.state.getQ() - h * qdot;
    c.sys->realize(sp, Stage::Position); c.sys->realize(sm, Stage::Position);
    V.assign(c.nb + 1, SpatialVec(Vec3(0), Vec3(0)));
    for (int i = 1; i <= c.nb; ++i) {
        const Transform& Xp = c.mobods[i].getBodyTransform(sp); const Transform& Xm = c.mobods[i].getBodyTransform(sm);
        const Mat33 dR = Xp.R().asMat33() * ~Xm.R().asMat33();
        V[i][0] = Vec3(dR(2, 1) - dR(1, 2), dR(0, 2) - dR(2, 0), dR(1, 0) - dR(0, 1)) / (4 * h);
        V[i][1] = (Xp.p() - Xm.p()) / (2 * h);
    }
}

inline void emitTags(const TreeCase& c) {
    if (anyLoneParticle(c)) vh::D("node.loneParticle");
    if (anyWeld(c)) vh::D("node.weld");
    if (c.nMassless) vh::D("node.massless");
    for (int i = 1; i <= c.nb; ++i) vh::D("mob." + c.tag[i]);
    vh::D("shape." + c.shape);
    vh::D(std::string("nb.") + (c.nb <= 3 ? "1-3" : c.nb <= 6 ? "4-6" : c.nb <= 12 ? "7-12" : c.nb <= 24 ? "13-24" : "25-40"));
}
inline double vmaxabs(const Vector& v) { double m = 0; for (int i = 0; i < v.size(); ++i) m = std::max(m, std::fabs(v[i])); return m; }
inline Vector rvector(vh::Rng& g, int n) { Vector v(n); for (int i = 0; i < n; ++i) v[i] = g.range(-1, 1); return v; }

} // namespace td
#endif
