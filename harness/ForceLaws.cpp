// Correspondence harness shared by C12, C13, C37, C38 (force elements).  checks/C{12,13,37,38}.py use it through
// SPEC['harness']='ForceLaws' with property-specific --mode values:
//   c38        every non-contact element: I <elem> params.. kinematics..  ->  O forces.. PE      (model: ForceLaws.lean)
//   c38deg     degenerate stream (coincident stations ...)
//   c38param   parameter / enable / exclusion changes between realizations vs. a fresh state (P lines + records)
//   c12        power vs. rate of change of potential energy (jet derivative in the model, central difference here)
//   c13        Newton's third law sums for the two-body elements
//   c37 c37multi c37deg   compliant contact laws (see below)
//   replay     re-run exactly the I lines read from stdin
// "Exported-kinematics": the element's parameters and the body poses X_GB / velocities V_GB reported by the
// implementation are the model's inputs; in generation mode the bodies hang in a random tree (Free/Pin/Slider/Ball
// mobilizers, random frames), in replay mode they are Free bodies placed at the recorded poses.
#include "Simbody.h"
#include "hcommon.h"
#include <memory>
#include <functional>
#include <iostream>
using namespace SimTK;
using vh::hex;

// ------------------------------------------------------------------------------------------------ value source
struct Src {
    bool replay = false;
    vh::Rng* rng = nullptr;
    std::vector<std::string> toks; size_t pos = 0;     // replay: tokens after "I <fn>"
    std::ostringstream rec;                            // generation: tokens drawn so far
    double real(double lo, double hi) {
        double x = replay ? vh::unhex(next()) : rng->range(lo, hi);
        rec << ' ' << hex(x); return x;
    }
    double val(double gen) {                           // a value chosen by the caller in generation mode
        double x = replay ? vh::unhex(next()) : gen;
        rec << ' ' << hex(x); return x;
    }
    int integer(int lo, int hi) {
        int x = replay ? std::atoi(next().c_str()) : lo + rng->below(hi - lo + 1);
        rec << ' ' << x; return x;
    }
    int ival(int gen) {
        int x = replay ? std::atoi(next().c_str()) : gen;
        rec << ' ' << x; return x;
    }
    Vec3 vec(double lo, double hi) { double a = real(lo, hi), b = real(lo, hi), c = real(lo, hi); return Vec3(a, b, c); }
    Vec3 vval(const Vec3& g) { double a = val(g[0]), b = val(g[1]), c = val(g[2]); return Vec3(a, b, c); }
    std::string next() { return pos < toks.size() ? toks[pos++] : std::string("0"); }
};

static Rotation randRot(vh::Rng& r) {
    Vec4 q(r.range(-1, 1), r.range(-1, 1), r.range(-1, 1), r.range(-1, 1));
    if (q.norm() < 1e-3) q = Vec4(1, 0, 0, 0);
    return Rotation(Quaternion(q));
}
static Vec3 randVec(vh::Rng& r, double m) { return Vec3(r.range(-m, m), r.range(-m, m), r.range(-m, m)); }

// ------------------------------------------------------------------------------------------------ rig
struct Rig {
    MultibodySystem sys;
    SimbodyMatterSubsystem matter;
    GeneralForceSubsystem forces;
    std::vector<MobilizedBody> body;       // [0] = Ground
    std::vector<int> kind;                 // 0 ground, 1 free, 2 pin, 3 slider, 4 ball
    State s;
    Rig() : matter(sys), forces(sys) { body.push_back(matter.Ground()); kind.push_back(0); }
    static Body::Rigid randBody(vh::Rng& r) {
        double m = r.range(0.5, 5);
        Vec3 com = randVec(r, 0.5);
        Inertia I = m * UnitInertia::brick(r.range(0.2, 1), r.range(0.2, 1), r.range(0.2, 1)).shiftFromCentroid(com);
        return Body::Rigid(MassProperties(m, com, I));
    }
    // random tree of nb bodies; forcedKind>0 forces the kind of the last body (attached with identity frames if plain)
    void randomTree(vh::Rng& r, int nb, int lastKind = 0) {
        for (int i = 1; i <= nb; ++i) {
            MobilizedBody& parent = body[r.below(i)];
            int k = (i == nb && lastKind) ? lastKind : 1 + r.below(4);
            Transform Xp(randRot(r), randVec(r, 1)), Xc(randRot(r), randVec(r, 0.5));
            Body::Rigid b = randBody(r);
            switch (k) {
                case 1: body.push_back(MobilizedBody::Free(parent, Xp, b, Xc)); break;
                case 2: body.push_back(MobilizedBody::Pin(parent, Xp, b, Xc)); break;
                case 3: body.push_back(MobilizedBody::Slider(parent, Xp, b, Xc)); break;
                default: body.push_back(MobilizedBody::Ball(parent, Xp, b, Xc)); break;
            }
            kind.push_back(k);
        }
    }
    void freeBodies(vh::Rng& r, int nb) {
        for (int i = 1; i <= nb; ++i) {
            body.push_back(MobilizedBody::Free(matter.Ground(), Transform(), randBody(r), Transform()));
            kind.push_back(1);
        }
    }
    void topo() { s = sys.realizeTopology(); sys.realizeModel(s); }
    void randomState(vh::Rng& r) {
        for (size_t i = 1; i < body.size(); ++i) {
            switch (kind[i]) {
                case 1: body[i].setQToFitTransform(s, Transform(randRot(r), randVec(r, 1.5))); break;
                case 4: body[i].setQToFitRotation(s, randRot(r)); break;
                default: body[i].setOneQ(s, 0, r.range(-1.2, 1.2)); break;
            }
        }
        for (int i = 0; i < s.getNU(); ++i) s.updU()[i] = r.range(-2, 2);
    }
    void fit(const std::vector<Transform>& X, const std::vector<SpatialVec>& V) {
        for (size_t i = 1; i < body.size(); ++i) {
            body[i].setQToFitTransform(s, X[i]);
            body[i].setUToFitVelocity(s, V[i]);
        }
    }
};

static void putPose(std::ostream& os, const Transform& X) {
    for (int i = 0; i < 3; ++i) for (int j = 0; j < 3; ++j) os << ' ' << hex(X.R()[i][j]);
    for (int i = 0; i < 3; ++i) os << ' ' << hex(X.p()[i]);
}
static void putVec(std::ostream& os, const Vec3& v) { for (int i = 0; i < 3; ++i) os << ' ' << hex(v[i]); }
static void putVel(std::ostream& os, const SpatialVec& V) { putVec(os, V[0]); putVec(os, V[1]); }
static Transform getPose(Src& c) {
    Mat33 m; for (int i = 0; i < 3; ++i) for (int j = 0; j < 3; ++j) m[i][j] = vh::unhex(c.next());
    Vec3 p; for (int i = 0; i < 3; ++i) p[i] = vh::unhex(c.next());
    Rotation R; R.setRotationFromApproximateMat33(m);   // input was a rotation; re-orthogonalised to rounding
    return Transform(R, p);
}
static Vec3 getVec(Src& c) { Vec3 p; for (int i = 0; i < 3; ++i) p[i] = vh::unhex(c.next()); return p; }
static SpatialVec getVel(Src& c) { Vec3 w = getVec(c), v = getVec(c); return SpatialVec(w, v); }

static double maxabs(const Vec3& v) { return std::max(std::abs(v[0]), std::max(std::abs(v[1]), std::abs(v[2]))); }
static bool finite3(const Vec3& v) { return std::isfinite(v[0]) && std::isfinite(v[1]) && std::isfinite(v[2]); }

// ------------------------------------------------------------------------------------------------ modes
static std::string MODE;
static bool gReplayAll = false;   // replay: evaluate the predicates of all four properties
static bool wantC12() { return MODE == "c12" || gReplayAll; }
static bool wantC13() { return MODE == "c13" || gReplayAll; }

// Evaluates one force element of a rig: contributions + PE.
struct Contribution {
    Vector_<SpatialVec> F; Vector_<Vec3> pf; Vector mob; Real pe;
};
static Contribution contrib(const Rig& g, const Force& f, const State& s) {
    Contribution c;
    f.calcForceContribution(s, c.F, c.pf, c.mob);
    c.pe = f.calcPotentialEnergyContribution(s);
    return c;
}

// third-law sums: total force and total moment about the Ground origin of the whole contribution (Ground counted)
static void thirdLaw(const std::string& key, const Rig& g, const State& s, const Vector_<SpatialVec>& F) {
    Vec3 sumF(0), sumM(0); double scaleF = 0, scaleM = 0;
    for (int b = 0; b < (int)F.size(); ++b) {
        const Vec3 p = g.matter.getMobilizedBody(MobilizedBodyIndex(b)).getBodyOriginLocation(s);
        sumF += F[b][1]; sumM += F[b][0] + p % F[b][1];
        scaleF = std::max(scaleF, maxabs(F[b][1]));
        scaleM = std::max(scaleM, std::max(maxabs(F[b][0]), maxabs(p % F[b][1])));
    }
    vh::P("net_force_zero", key + ".net_force", maxabs(sumF), 1e-11 * std::max(1.0, scaleF));
    vh::P("net_moment_zero", key + ".net_moment", maxabs(sumM), 1e-11 * std::max(1.0, std::max(scaleF, scaleM)));
}

// power delivered by a contribution at the state's velocities
static double powerOf(const Rig& g, const State& s, const Contribution& c) {
    double P = 0;
    for (int b = 0; b < (int)c.F.size(); ++b) {
        const SpatialVec& V = g.matter.getMobilizedBody(MobilizedBodyIndex(b)).getBodyVelocity(s);
        P += dot(c.F[b][0], V[0]) + dot(c.F[b][1], V[1]);
    }
    for (int i = 0; i < c.mob.size(); ++i) P += c.mob[i] * s.getU()[i];
    return P;
}
// d(PE)/dt along the motion by central differences: q -> q +- h*qdot (u unchanged), evaluated with steps h and h/2 and
// Richardson-extrapolated (error O(h^4)); `err` returns |D(h)-D(h/2)|, the size of the O(h^2) truncation term that was
// removed -- it is added to the tolerance of the predicates (the energies of Hertz-type contacts ~x^(5/2) and of the
// exponential spring have large third derivatives at small penetration / high speed: a fixed 1e-6*scale bound alone gave a
// false alarm in the thorough tier, see notes/C12.md)
static double richardson(const std::function<double(double)>& peAt, double h, double& err) {
    double d1 = (peAt(h) - peAt(-h)) / (2 * h);
    double d2 = (peAt(h / 2) - peAt(-h / 2)) / h;
    err = std::abs(d1 - d2);
    return (4 * d2 - d1) / 3;
}
static double gFDErr = 0;      // truncation estimate of the last peRateFD call
static double peRateFD(const Rig& g, const Force& f, const State& s, double h = 1e-6) {
    g.sys.realize(s, Stage::Velocity);
    const Vector qdot = s.getQDot();
    auto peAt = [&](double dt) {
        State t = s;
        t.updQ() = s.getQ() + dt * qdot;
        g.sys.realize(t, Stage::Dynamics);      // contact elements need the contact set (Dynamics stage)
        Contribution c = contrib(g, f, t);       // some elements fill their PE cache in calcForce
        return (double)c.pe;
    };
    return richardson(peAt, h, gFDErr);
}
// C12 record:  I c12 <elem-record>  ->  O power dPEdt diss ;   P lines on the implementation
static std::string gOrig;   // the original I line in replay mode
static bool gDissOnly = false;     // replay of a `diss*` record: print only that record
static double c12Lines(const std::string& key, const Rig& g, const Force& f, const State& s, const Contribution& c,
                     bool reportsPE, bool hasDamping, bool pureDamper, double scale, double h = 1e-6) {
    double P = powerOf(g, s, c);
    double tol = 1e-6 * std::max(1.0, scale);
    double diss = 0;
    if (reportsPE) {
        double rate = peRateFD(g, f, s, h);
        diss = P + rate;                 // power = -dPE/dt + diss
        tol += gFDErr;                   // measured truncation term of the finite difference
        if (gDissOnly) return diss;
        vh::P("dissipation_nonpositive", key + ".diss_le_0", diss, tol);
        if (!hasDamping) vh::P("no_damping_conservative", key + ".diss_eq_0", std::abs(diss), tol);
    } else if (!gDissOnly) {
        vh::P("pe_is_zero", key + ".pe_zero", std::abs(c.pe), 0);
        if (pureDamper) vh::P("damper_power_nonpositive", key + ".power_le_0", P, 1e-12 * std::max(1.0, scale));
    }
    return diss;
}
// value of the dissipation term (power + central difference of PE) as its own record: the model predicts it
// (jet derivative of the coded PE), tolerance = finite-difference accuracy relative to the power scale
static void dissRecord(const std::string& fn, const std::string& argTokens, double diss, double scale) {
    if (gDissOnly) std::puts(gOrig.c_str()); else std::printf("I %s%s\n", fn.c_str(), argTokens.c_str());
    std::printf("T 1e-5 %.3g\n", 2e-6 * std::max(1.0, scale) + gFDErr);
    vh::O(fn).d(diss).emit();
}


// C12 predicates for a force *subsystem* (CompliantContactSubsystem): power of the system's rigid-body forces against the
// central difference of MultibodySystem::calcPotentialEnergy along the motion; `reportedLoss` = sum of the documented
// per-contact power dissipation
static void c12SystemLines(const std::string& key, const Rig& g, const State& s, bool hasDamping, double reportedLoss, double h = 1e-6) {
    if (const char* e = std::getenv("FL_H")) h = std::atof(e);
    g.sys.realize(s, Stage::Dynamics);
    const Vector_<SpatialVec>& F = g.sys.getRigidBodyForces(s, Stage::Dynamics);
    double P = 0, scale = 0;
    for (int b = 0; b < (int)F.size(); ++b) {
        const SpatialVec& V = g.matter.getMobilizedBody(MobilizedBodyIndex(b)).getBodyVelocity(s);
        P += dot(F[b][0], V[0]) + dot(F[b][1], V[1]);
        scale += F[b][1].norm() * (V[1].norm() + 1) + F[b][0].norm() * V[0].norm();
    }
    const Vector qdot = s.getQDot(); double fdErr = 0;
    auto peAt = [&](double dt) { State t = s; t.updQ() = s.getQ() + dt * qdot; g.sys.realize(t, Stage::Dynamics); return (double)g.sys.calcPotentialEnergy(t); };
    double diss = P + richardson(peAt, h, fdErr);
    scale += std::abs(g.sys.calcPotentialEnergy(s));
    double tol = 1e-6 * std::max(1.0, scale) + fdErr;
    vh::P("dissipation_nonpositive", key + ".diss_le_0", diss, tol);
    if (!hasDamping) vh::P("no_damping_conservative", key + ".diss_eq_0", std::abs(diss), tol);
    if (reportedLoss >= 0) vh::P("dissipation_rate_documented", key + ".power_dissipation", std::abs(diss + reportedLoss), tol);
}

typedef std::function<void(Src&)> Elem;

static void emitRecord(const std::string& fn, Src& c, const std::string& origLine) {
    if (c.replay) std::puts(origLine.c_str());
    else std::printf("I %s%s\n", fn.c_str(), c.rec.str().c_str());
}

// kinematics of the bodies the element touches: generation -> from the rig; replay -> parsed earlier
struct Kin { std::vector<Transform> X; std::vector<SpatialVec> V; };
static Kin parseKin(Src& c, int nb, bool withVel) {
    Kin k; k.X.resize(nb + 1); k.V.resize(nb + 1, SpatialVec(Vec3(0), Vec3(0)));
    for (int b = 0; b <= nb; ++b) { k.X[b] = getPose(c); if (withVel) k.V[b] = getVel(c); }
    return k;
}
static void putKin(Src& c, const Rig& g, bool withVel) {
    for (size_t b = 0; b < g.body.size(); ++b) {
        putPose(c.rec, g.body[b].getBodyTransform(g.s));
        if (withVel) putVel(c.rec, g.body[b].getBodyVelocity(g.s));
    }
}

static int gNB = 0;         // default number of moving bodies in generation mode (0 = random 2..4)

// builds the rig for a record with nb moving bodies; `add` adds the element(s) and returns the Force to evaluate
static std::unique_ptr<Rig> makeRig(Src& c, int nb, bool withVel, int lastKind, const std::function<void(Rig&)>& add) {
    std::unique_ptr<Rig> g(new Rig());
    vh::Rng local(12345);
    if (c.replay) {
        // the kinematic block is the tail of the record: remember where the parameters ended
        size_t save = c.pos;
        Kin k = parseKin(c, nb, withVel);
        c.pos = save;
        g->freeBodies(local, nb);
        add(*g);
        g->topo();
        g->fit(k.X, k.V);
    } else {
        g->randomTree(*c.rng, nb, lastKind);
        add(*g);
        g->topo();
        g->randomState(*c.rng);
    }
    g->sys.realize(g->s, Stage::Velocity);
    return g;
}

static void outSpatial(vh::Line& L, const SpatialVec& F) { L.v(F[0], 3).v(F[1], 3); }

// ================================================================================================ two-point elements
static void elemTwoPoint(Src& c, const std::string& which, bool degenerate) {
    int nb = c.ival(gNB ? gNB : 2 + c.rng->below(3));
    int b1 = c.integer(0, nb), b2 = c.integer(0, nb);
    if (!c.replay && !degenerate && b1 == b2 && c.rng->below(2)) { /* same body twice is allowed, but keep it rare */
        c.rec.str(""); c.rec << ' ' << nb; b1 = c.rng->below(nb + 1); b2 = (b1 + 1 + c.rng->below(nb)) % (nb + 1);
        c.rec << ' ' << b1 << ' ' << b2; }
    double a = c.real(0.1, 10), x0 = 0;
    if (which == "tpSpring") x0 = c.real(0.1, 2);
    if (which == "tpConst" && !c.replay) { /* signed */ }
    Vec3 s1 = c.vec(-1, 1), s2 = c.vec(-1, 1);
    if (degenerate && !c.replay) {      // coincident stations: same body, same station
        c.rec.str(""); b2 = b1; s2 = s1;
        c.rec << ' ' << nb << ' ' << b1 << ' ' << b2 << ' ' << hex(a); if (which == "tpSpring") c.rec << ' ' << hex(x0);
        putVec(c.rec, s1); putVec(c.rec, s2);
    }
    Force f;
    bool withVel = (which == "tpDamper");
    auto g = makeRig(c, nb, withVel, 0, [&](Rig& r) {
        if (which == "tpSpring") f = Force::TwoPointLinearSpring(r.forces, r.body[b1], s1, r.body[b2], s2, a, x0);
        else if (which == "tpDamper") f = Force::TwoPointLinearDamper(r.forces, r.body[b1], s1, r.body[b2], s2, a);
        else f = Force::TwoPointConstantForce(r.forces, r.body[b1], s1, r.body[b2], s2, a);
    });
    // only the two bodies' kinematics are exported
    if (!c.replay) {
        putPose(c.rec, g->body[b1].getBodyTransform(g->s)); if (withVel) putVel(c.rec, g->body[b1].getBodyVelocity(g->s));
        putPose(c.rec, g->body[b2].getBodyTransform(g->s)); if (withVel) putVel(c.rec, g->body[b2].getBodyVelocity(g->s));
    }
    Contribution k = contrib(*g, f, g->s);
    emitRecord(which, c, gOrig);
    vh::Line L = vh::O(which); outSpatial(L, k.F[b1]); outSpatial(L, k.F[b2]); L.d(k.pe); L.emit();
    std::string key = (which == "tpSpring" ? "TwoPointLinearSpring" : which == "tpDamper" ? "TwoPointLinearDamper" : "TwoPointConstantForce");
    vh::D(which + (b1 == b2 ? ".same_body" : (b1 == 0 || b2 == 0) ? ".ground" : ".two_bodies") + (degenerate ? ".coincident" : ""));
    if (degenerate) {
        // documented: "It is an error if the two points become coincident" -- the element must not return a wrong
        // finite force silently: non-finite (or an exception) is accepted, a finite non-zero force is not.
        bool fin = finite3(k.F[b1][0]) && finite3(k.F[b1][1]);
        double mag = fin ? std::max(maxabs(k.F[b1][0]), maxabs(k.F[b1][1])) : 0;
        vh::P("coincident_not_silently_finite", key + ".coincident.no_silent_force", mag, 0);
        return;
    }
    double scale = std::max(maxabs(k.F[b1][1]), maxabs(k.F[b1][0]));
    if (wantC13()) thirdLaw(key, *g, g->s, k.F);
    if (wantC12()) c12Lines(key, *g, f, g->s, k, which == "tpSpring", false, which == "tpDamper", scale * 3);
}
// in replay the two-point kinematic block holds exactly two bodies -> special parse
static void elemTwoPointReplay(Src& c, const std::string& which) {
    int nb = c.ival(0), b1 = c.ival(0), b2 = c.ival(0);
    double a = c.val(0), x0 = 0; if (which == "tpSpring") x0 = c.val(0);
    Vec3 s1 = c.vval(Vec3(0)), s2 = c.vval(Vec3(0));
    bool withVel = (which == "tpDamper");
    Transform X1 = getPose(c); SpatialVec V1(Vec3(0), Vec3(0)); if (withVel) V1 = getVel(c);
    Transform X2 = getPose(c); SpatialVec V2(Vec3(0), Vec3(0)); if (withVel) V2 = getVel(c);
    Rig g; vh::Rng local(777); g.freeBodies(local, nb);
    Force f;
    if (which == "tpSpring") f = Force::TwoPointLinearSpring(g.forces, g.body[b1], s1, g.body[b2], s2, a, x0);
    else if (which == "tpDamper") f = Force::TwoPointLinearDamper(g.forces, g.body[b1], s1, g.body[b2], s2, a);
    else f = Force::TwoPointConstantForce(g.forces, g.body[b1], s1, g.body[b2], s2, a);
    g.topo();
    if (b1) { g.body[b1].setQToFitTransform(g.s, X1); g.body[b1].setUToFitVelocity(g.s, V1); }
    if (b2 && b2 != b1) { g.body[b2].setQToFitTransform(g.s, X2); g.body[b2].setUToFitVelocity(g.s, V2); }
    g.sys.realize(g.s, Stage::Velocity);
    Contribution k = contrib(g, f, g.s);
    std::puts(gOrig.c_str());
    vh::Line L = vh::O(which); outSpatial(L, k.F[b1]); outSpatial(L, k.F[b2]); L.d(k.pe); L.emit();
    std::string key = (which == "tpSpring" ? "TwoPointLinearSpring" : which == "tpDamper" ? "TwoPointLinearDamper" : "TwoPointConstantForce");
    thirdLaw(key, g, g.s, k.F);
}

// ================================================================================================ one-body constant
static void elemConst(Src& c, const std::string& which) {
    Vec3 st(0), fv;
    if (which == "constForce") st = c.vec(-1, 1);
    fv = c.vec(-5, 5);
    Force f; int b = 1;
    std::unique_ptr<Rig> g;
    if (c.replay) {
        Transform X = (which == "constForce") ? getPose(c) : Transform();
        g.reset(new Rig()); vh::Rng local(5); g->freeBodies(local, 1);
        f = (which == "constForce") ? (Force)Force::ConstantForce(g->forces, g->body[1], st, fv) : (Force)Force::ConstantTorque(g->forces, g->body[1], fv);
        g->topo(); g->body[1].setQToFitTransform(g->s, X); g->sys.realize(g->s, Stage::Velocity);
    } else {
        int nb = 1 + c.rng->below(3); b = nb;
        g.reset(new Rig()); g->randomTree(*c.rng, nb);
        f = (which == "constForce") ? (Force)Force::ConstantForce(g->forces, g->body[b], st, fv) : (Force)Force::ConstantTorque(g->forces, g->body[b], fv);
        g->topo(); g->randomState(*c.rng); g->sys.realize(g->s, Stage::Velocity);
        if (which == "constForce") putPose(c.rec, g->body[b].getBodyTransform(g->s));
    }
    Contribution k = contrib(*g, f, g->s);
    emitRecord(which, c, gOrig);
    vh::Line L = vh::O(which); outSpatial(L, k.F[b]); L.d(k.pe); L.emit();
    vh::D(which);
    if (wantC12()) c12Lines(which == "constForce" ? "ConstantForce" : "ConstantTorque", *g, f, g->s, k, false, false, false, 1);
}

// ================================================================================================ mobility elements
static void elemMobility(Src& c, const std::string& which) {
    // parameters
    double k = 0, q0 = 0, d = 0, lo = 0, hi = 0;
    if (which == "mobSpring") { k = c.real(0.1, 10); q0 = c.real(-1, 1); }
    else if (which == "mobDamper") { k = c.real(0, 10); }
    else if (which == "mobConst" || which == "mobDiscrete") { k = c.real(-10, 10); }
    else if (which == "mobStop") {
        k = c.val(c.replay ? 0 : (c.rng->below(12) == 0 ? 0.0 : c.rng->range(0.1, 10)));
        d = c.val(c.replay ? 0 : (c.rng->below(4) == 0 ? 0.0 : c.rng->range(0.05, 2)));
        lo = c.real(-1, 0); hi = c.val(c.replay ? 0 : lo + c.rng->range(0, 1.5));
    }
    double q = 0, u = 0;
    std::unique_ptr<Rig> g(new Rig());
    int b = 1, kindB = 3;
    if (c.replay) {
        if (which == "mobSpring" || which == "mobStop") q = vh::unhex(c.next());
        if (which == "mobDamper" || which == "mobStop") u = vh::unhex(c.next());
        g->body.push_back(MobilizedBody::Slider(g->matter.Ground(), Transform(), Rig::randBody(*(new vh::Rng(3))), Transform()));
        g->kind.push_back(3);
    } else {
        int nb = 1 + c.rng->below(3); b = nb; kindB = 2 + c.rng->below(2);
        g->randomTree(*c.rng, nb, kindB);
    }
    Force f;
    MobilizedBody& mb = g->body[b];
    if (which == "mobSpring") f = Force::MobilityLinearSpring(g->forces, mb, MobilizerQIndex(0), k, q0);
    else if (which == "mobDamper") f = Force::MobilityLinearDamper(g->forces, mb, MobilizerUIndex(0), k);
    else if (which == "mobConst") f = Force::MobilityConstantForce(g->forces, mb, MobilizerUIndex(0), k);
    else if (which == "mobDiscrete") f = Force::MobilityDiscreteForce(g->forces, mb, MobilizerUIndex(0), k);
    else f = Force::MobilityLinearStop(g->forces, mb, MobilizerQIndex(0), k, d, lo, hi);
    g->topo();
    if (c.replay) { mb.setOneQ(g->s, 0, q); mb.setOneU(g->s, 0, u); }
    else {
        g->randomState(*c.rng);
        if (which == "mobStop") mb.setOneQ(g->s, 0, c.rng->range(lo - 1, hi + 1));
    }
    g->sys.realize(g->s, Stage::Velocity);
    q = mb.getOneQ(g->s, 0); u = mb.getOneU(g->s, 0);
    if (!c.replay) {
        if (which == "mobSpring" || which == "mobStop") c.rec << ' ' << hex(q);
        if (which == "mobDamper") c.rec << ' ' << hex(u);
        if (which == "mobStop") c.rec << ' ' << hex(mb.getOneQDot(g->s, 0));
    }
    Contribution kk = contrib(*g, f, g->s);
    const std::string fn = (which == "mobDiscrete") ? "mobConst" : which;
    double fm = mb.getOneFromUPartition(g->s, MobilizerUIndex(0), kk.mob);
    if (gDissOnly) {
        double diss = c12Lines("MobilityLinearStop", *g, f, g->s, kk, true, d != 0, false, 1);
        dissRecord("dissStop", "", diss, std::abs(fm) * std::abs(u) + std::abs(kk.pe));
        return;
    }
    if (c.replay) std::puts(gOrig.c_str()); else std::printf("I %s%s\n", fn.c_str(), c.rec.str().c_str());
    vh::O(fn).d(fm).d(kk.pe).emit();
    std::string tag = which;
    if (which == "mobStop") tag += (k == 0 ? ".k0" : q > hi ? ".upper" : q < lo ? ".lower" : ".inside") + std::string(d == 0 ? ".d0" : "");
    vh::D(tag);
    // nothing else in the contribution
    double other = 0; for (int i = 0; i < kk.mob.size(); ++i) other += std::abs(kk.mob[i]); other -= std::abs(fm);
    for (int i = 0; i < kk.F.size(); ++i) other += maxabs(kk.F[i][0]) + maxabs(kk.F[i][1]);
    vh::P("only_this_mobility", which + ".only_this_mobility", other, 0);
    if (wantC12()) {
        static const char* names[] = {"MobilityLinearSpring", "MobilityLinearDamper", "MobilityConstantForce", "MobilityDiscreteForce", "MobilityLinearStop"};
        int idx = which == "mobSpring" ? 0 : which == "mobDamper" ? 1 : which == "mobConst" ? 2 : which == "mobDiscrete" ? 3 : 4;
        bool reports = (idx == 0 || idx == 4);
        double diss = c12Lines(names[idx], *g, f, g->s, kk, reports, idx == 4 && d != 0, idx == 1, std::abs(fm) * std::abs(u) + std::abs(kk.pe));
        if (idx == 4 && !c.replay) dissRecord("dissStop", c.rec.str(), diss, std::abs(fm) * std::abs(u) + std::abs(kk.pe));
    }
}

static void elemGlobalDamper(Src& c) {
    double damping = c.real(0, 5);
    std::unique_ptr<Rig> g(new Rig());
    int n;
    Force f;
    if (c.replay) {
        n = std::atoi(c.next().c_str());
        std::vector<double> u(n); for (int i = 0; i < n; ++i) u[i] = vh::unhex(c.next());
        vh::Rng local(9);
        for (int i = 0; i < n; ++i) {
            g->body.push_back(MobilizedBody::Slider(g->body.back(), Transform(), Rig::randBody(local), Transform())); g->kind.push_back(3); }
        f = Force::GlobalDamper(g->forces, g->matter, damping);
        g->topo(); for (int i = 0; i < n; ++i) g->s.updU()[i] = u[i];
    } else {
        g->randomTree(*c.rng, 1 + c.rng->below(3));
        f = Force::GlobalDamper(g->forces, g->matter, damping);
        g->topo(); g->randomState(*c.rng);
        n = g->s.getNU(); c.rec << ' ' << n; for (int i = 0; i < n; ++i) c.rec << ' ' << hex(g->s.getU()[i]);
    }
    g->sys.realize(g->s, Stage::Velocity);
    Contribution k = contrib(*g, f, g->s);
    emitRecord("globalDamper", c, gOrig);
    vh::Line L = vh::O("globalDamper"); for (int i = 0; i < n; ++i) L.d(k.mob[i]); L.d(k.pe); L.emit();
    vh::D("globalDamper");
    if (wantC12()) c12Lines("GlobalDamper", *g, f, g->s, k, false, false, true, 10);
}

// ================================================================================================ gravity
static void elemGravity(Src& c, bool uniform) {
    Vec3 gv = c.vec(-10, 10);
    if (!c.replay && !uniform) { /* direction must be a unit vector */ c.rec.str(""); UnitVec3 d(gv); gv = Vec3(d); putVec(c.rec, gv); }
    double mag = 0, z;
    if (!uniform) mag = c.val(c.replay ? 0 : (c.rng->below(8) == 0 ? 0.0 : c.rng->range(0.5, 12)));
    z = c.val(c.replay ? 0 : (c.rng->below(3) == 0 ? 0.0 : c.rng->range(-2, 2)));
    int nb = c.integer(1, 4);
    std::unique_ptr<Rig> g(new Rig());
    std::vector<int> immune(nb + 1, 0);
    std::vector<double> mass(nb + 1); std::vector<Vec3> com(nb + 1); std::vector<Transform> X(nb + 1);
    if (c.replay) {
        for (int b = 1; b <= nb; ++b) {
            mass[b] = vh::unhex(c.next()); com[b] = getVec(c); X[b] = getPose(c);
            if (!uniform) immune[b] = std::atoi(c.next().c_str());
            Inertia I = mass[b] * UnitInertia::brick(0.5, 0.4, 0.3).shiftFromCentroid(com[b]);
            g->body.push_back(MobilizedBody::Free(g->matter.Ground(), Transform(), Body::Rigid(MassProperties(mass[b], com[b], I)), Transform()));
            g->kind.push_back(1);
        }
    } else g->randomTree(*c.rng, nb);
    Force f;
    Force::Gravity grav; Force::UniformGravity ug;
    if (uniform) { ug = Force::UniformGravity(g->forces, g->matter, gv, z); f = ug; }
    else {
        grav = Force::Gravity(g->forces, g->matter, UnitVec3(gv, true), mag, z); f = grav;
        if (!c.replay) for (int b = 1; b <= nb; ++b) immune[b] = (c.rng->below(4) == 0);
        for (int b = 1; b <= nb; ++b) if (immune[b] && (c.replay || c.rng->coin())) grav.setDefaultBodyIsExcluded(g->body[b], true);
    }
    g->topo();
    if (c.replay) { for (int b = 1; b <= nb; ++b) g->body[b].setQToFitTransform(g->s, X[b]); }
    else g->randomState(*c.rng);
    if (!uniform) for (int b = 1; b <= nb; ++b) if (immune[b]) grav.setBodyIsExcluded(g->s, g->body[b], true);   // state-level exclusion
    g->sys.realize(g->s, Stage::Velocity);
    if (!c.replay) for (int b = 1; b <= nb; ++b) {
        const MassProperties& mp = g->body[b].getBodyMassProperties(g->s);
        c.rec << ' ' << hex(mp.getMass()); putVec(c.rec, mp.getMassCenter()); putPose(c.rec, g->body[b].getBodyTransform(g->s));
        if (!uniform) c.rec << ' ' << immune[b];
    }
    Contribution k = contrib(*g, f, g->s);
    const std::string fn = uniform ? "uniformGravity" : "gravity";
    emitRecord(fn, c, gOrig);
    vh::Line L = vh::O(fn); for (int b = 1; b <= nb; ++b) outSpatial(L, k.F[b]); L.d(k.pe); L.emit();
    vh::D(fn + (uniform ? "" : (mag == 0 ? ".g0" : "")) + (z == 0 ? ".z0" : ""));
    vh::P("ground_gets_nothing", fn + ".ground_zero", maxabs(k.F[0][0]) + maxabs(k.F[0][1]), 0);
    if (uniform && (MODE == "c38" || MODE == "" || MODE == "replay")) {
        // documented: zeroHeight is "a height at which the gravitational potential energy is zero":
        // PE = sum m |g| (h - zeroHeight), h = height of the mass centre along -g/|g|
        double doc = 0, sc = 1;
        for (int b = 1; b <= nb; ++b) {
            const MassProperties& mp = g->body[b].getBodyMassProperties(g->s);
            Vec3 pc = g->body[b].getBodyTransform(g->s) * mp.getMassCenter();
            doc += -mp.getMass() * dot(gv, pc) - mp.getMass() * gv.norm() * z;
            sc += std::abs(mp.getMass() * dot(gv, pc)) + std::abs(mp.getMass() * gv.norm() * z);
        }
        vh::P("pe_zero_at_zeroHeight", "UniformGravity.zeroHeight.pe_eq_doc", std::abs(k.pe - doc), 1e-10 * sc);
    }
    if (!uniform) {
        // Force::Gravity::getBodyForces is the documented observation point
        const Vector_<SpatialVec>& GF = grav.getBodyForces(g->s);
        double dmax = 0; for (int b = 0; b <= nb; ++b) dmax = std::max(dmax, std::max(maxabs(GF[b][0] - k.F[b][0]), maxabs(GF[b][1] - k.F[b][1])));
        vh::P("getBodyForces_matches_contribution", "Gravity.getBodyForces", dmax, 0);
    }
    if (wantC12()) {
        double sc = 0; for (int b = 1; b <= nb; ++b) sc += maxabs(k.F[b][1]) * 3;
        c12Lines(uniform ? "UniformGravity" : "Gravity", *g, f, g->s, k, true, false, false, sc);
    }
}

// ================================================================================================ bushing
static void elemBushing(Src& c) {
    int nb = c.ival(gNB ? gNB : 2 + c.rng->below(3));
    int b1 = c.integer(0, nb), b2 = c.integer(0, nb);
    if (!c.replay && b1 == b2 && c.rng->below(3)) { c.rec.str(""); b2 = (b1 + 1) % (nb + 1); c.rec << ' ' << nb << ' ' << b1 << ' ' << b2; }
    std::unique_ptr<Rig> g(new Rig());
    Transform X1, X2, XF, XM; SpatialVec V1(Vec3(0), Vec3(0)), V2(Vec3(0), Vec3(0)); Vec6 kk, cc;
    if (c.replay) {
        X1 = getPose(c); V1 = getVel(c); X2 = getPose(c); V2 = getVel(c); XF = getPose(c); XM = getPose(c);
        for (int i = 0; i < 6; ++i) kk[i] = vh::unhex(c.next());
        for (int i = 0; i < 6; ++i) cc[i] = vh::unhex(c.next());
        vh::Rng local(4); g->freeBodies(local, nb);
    } else {
        g->randomTree(*c.rng, nb);
        XF = Transform(randRot(*c.rng), randVec(*c.rng, 0.5)); XM = Transform(randRot(*c.rng), randVec(*c.rng, 0.5));
        bool undamped = c.rng->below(4) == 0;
        for (int i = 0; i < 6; ++i) { kk[i] = c.rng->range(0.1, 10); cc[i] = undamped ? 0 : c.rng->range(0, 3); }
    }
    Force::LinearBushing bush(g->forces, g->body[b1], XF, g->body[b2], XM, kk, cc);
    g->topo();
    if (c.replay) {
        if (b1) { g->body[b1].setQToFitTransform(g->s, X1); g->body[b1].setUToFitVelocity(g->s, V1); }
        if (b2) { g->body[b2].setQToFitTransform(g->s, X2); g->body[b2].setUToFitVelocity(g->s, V2); }
    } else {
        // keep the bushing away from its documented singularity (middle angle near 90 degrees): retry states
        for (int t = 0; t < 50; ++t) {
            g->randomState(*c.rng); g->sys.realize(g->s, Stage::Position);
            if (std::abs(std::cos(bush.getQ(g->s)[1])) > 0.3) break;
        }
    }
    g->sys.realize(g->s, Stage::Velocity);
    if (!c.replay) {
        putPose(c.rec, g->body[b1].getBodyTransform(g->s)); putVel(c.rec, g->body[b1].getBodyVelocity(g->s));
        putPose(c.rec, g->body[b2].getBodyTransform(g->s)); putVel(c.rec, g->body[b2].getBodyVelocity(g->s));
        putPose(c.rec, XF); putPose(c.rec, XM);
        for (int i = 0; i < 6; ++i) c.rec << ' ' << hex(kk[i]);
        for (int i = 0; i < 6; ++i) c.rec << ' ' << hex(cc[i]);
        for (int i = 0; i < 3; ++i) c.rec << ' ' << hex(bush.getQ(g->s)[i]);      // Euler angles as the implementation inferred them
    }
    Contribution k = contrib(*g, bush, g->s);
    emitRecord("bushing", c, gOrig);
    vh::Line L = vh::O("bushing"); outSpatial(L, k.F[b1]); outSpatial(L, k.F[b2]); L.d(k.pe).d(bush.getPowerDissipation(g->s));
    L.v(bush.getQ(g->s), 6).v(bush.getQDot(g->s), 6).v(bush.getF(g->s), 6).d(0.0); L.emit();
    vh::D(std::string("bushing") + (b1 == b2 ? ".same_body" : (b1 == 0 || b2 == 0) ? ".ground" : ".two_bodies"));
    if (wantC13()) thirdLaw("LinearBushing", *g, g->s, k.F);
    if (wantC12()) {
        bool damp = false; for (int i = 0; i < 6; ++i) damp = damp || cc[i] != 0;
        double sc = 0; for (int i = 0; i < 6; ++i) sc += std::abs(bush.getF(g->s)[i] * bush.getQDot(g->s)[i]);
        c12Lines("LinearBushing", *g, bush, g->s, k, true, damp, false, sc + std::abs(k.pe));
        // documented dissipation rate sum c_i qdot_i^2 equals -(power + dPE/dt)
        double P = powerOf(*g, g->s, k), rate = peRateFD(*g, bush, g->s);
        vh::P("dissipation_rate_documented", "LinearBushing.power_dissipation", std::abs(-(P + rate) - bush.getPowerDissipation(g->s)), 1e-6 * std::max(1.0, sc) + gFDErr);
    }
}

// ================================================================================================ DiscreteForces
// "applies exactly what was set": a body spatial force, a force at a body point and a mobility force are written into the
// State; the contribution must be exactly these (model: identity on the set values + applyForceToBodyPoint).
static void elemDiscrete(Src& c) {
    Vec3 m = c.vec(-5, 5), f = c.vec(-5, 5), st = c.vec(-1, 1), fp = c.vec(-5, 5); double fm = c.real(-5, 5);
    std::unique_ptr<Rig> g(new Rig());
    Transform X;
    if (c.replay) { X = getPose(c); vh::Rng local(5); g->freeBodies(local, 1); }
    else g->randomTree(*c.rng, 1 + c.rng->below(3));
    int b = (int)g->body.size() - 1;
    Force::DiscreteForces df(g->forces, g->matter);
    g->topo();
    if (c.replay) g->body[1].setQToFitTransform(g->s, X); else g->randomState(*c.rng);
    g->sys.realize(g->s, Stage::Position);
    df.setOneBodyForce(g->s, g->body[b], SpatialVec(m, f));
    df.addForceToBodyPoint(g->s, g->body[b], st, fp);
    df.setOneMobilityForce(g->s, g->body[b], MobilizerUIndex(0), fm);
    g->sys.realize(g->s, Stage::Velocity);
    if (!c.replay) putPose(c.rec, g->body[b].getBodyTransform(g->s));
    Contribution k = contrib(*g, df, g->s);
    emitRecord("discrete", c, gOrig);
    vh::Line L = vh::O("discrete"); outSpatial(L, k.F[b]); L.d(g->body[b].getOneFromUPartition(g->s, MobilizerUIndex(0), k.mob)).d(k.pe); L.emit();
    vh::D("discrete");
    double other = 0; for (int i = 0; i < (int)k.F.size(); ++i) if (i != b) other += maxabs(k.F[i][0]) + maxabs(k.F[i][1]);
    vh::P("only_this_body", "DiscreteForces.only_this_body", other, 0);
    if (wantC12()) c12Lines("DiscreteForces", *g, df, g->s, k, false, false, false, 1);
}

// ================================================================================================ dispatch
// CONTACT-BEGIN
// ================================================================================================ compliant contact (C37)
// Every contact record carries a *scene recipe* (enough to rebuild the scene in replay mode) followed by the
// exported kinematics / contact data the model consumes.  Bodies are Free bodies on Ground (the tree is irrelevant
// to a contact force: it reads X_GB and V_GB only).
static bool wantC37() { return MODE.compare(0, 3, "c37") == 0 || MODE == "replay"; }

struct Mat5 { double k, c, us, ud, uv; };
static Mat5 drawMat(Src& c, bool friction = true) {
    Mat5 m;
    m.k = c.val(c.replay ? 0 : std::pow(10.0, c.rng->range(4, 7)));
    m.c = c.val(c.replay ? 0 : (c.rng->below(5) == 0 ? 0.0 : c.rng->range(0.05, 1.0)));
    double us = 0, ud = 0, uv = 0;
    if (!c.replay && friction && c.rng->below(6) != 0) { ud = c.rng->range(0.05, 0.8); us = ud + c.rng->range(0, 0.5); uv = c.rng->below(3) ? 0.0 : c.rng->range(0, 0.3); }
    m.us = c.val(us); m.ud = c.val(ud); m.uv = c.val(uv);
    return m;
}
static void putMat(std::ostream& os, const Mat5& m) { os << ' ' << hex(m.k) << ' ' << hex(m.c) << ' ' << hex(m.us) << ' ' << hex(m.ud) << ' ' << hex(m.uv); }

// the tangent-plane / friction-limit / sign predicates shared by all contact models.
// n: unit normal pointing from body A towards body B's interior side such that a repulsive force on B is +N*n;
// FB: force applied to B; vBA: velocity of B's contact point relative to A's;  mu: documented friction coefficient
static void contactPredicates(const std::string& key, const Vec3& n, const Vec3& FB, const Vec3& vBA, double mu, bool smooth) {
    double N = dot(FB, n);
    Vec3 Ft = FB - N * n;
    Vec3 vt = vBA - dot(vBA, n) * n;
    double sc = std::max(1.0, FB.norm());
    vh::P("normal_nonattractive", key + ".normal_nonattractive", -N, 1e-10 * sc);
    vh::P("friction_opposes_slip", key + ".friction_opposes_slip", dot(Ft, vt), 1e-10 * sc * std::max(1.0, vt.norm()));
    if (mu >= 0) vh::P("friction_le_limit", key + ".friction_le_limit", Ft.norm() - mu * std::abs(N), 1e-9 * sc);
    // direction: friction is anti-parallel to the slip velocity (lies in the tangent plane by construction of Ft;
    // the tangent-plane claim is that the force has no component outside span{n, vt})
    Vec3 off = vt.norm() > 0 ? Ft - (dot(Ft, vt) / vt.normSqr()) * vt : Ft;
    vh::P("friction_in_tangent_plane_along_slip", key + ".friction_direction", off.norm(), 1e-9 * sc);
    (void)smooth;
}
static double hollarsMu(double us, double ud, double uv, double vslip, double vt) {
    double vrel = vslip / vt;
    return std::min(vrel, 1.0) * (ud + 2 * (us - ud) / (1 + vrel * vrel)) + uv * vslip;
}
static double combine(double a, double b) { return (a != 0 || b != 0) ? 2 * a * b / (a + b) : 0; }

// ---------------------------------------------------------------- HuntCrossleyForce
struct HCScene {
    int nb; double vt; int hasHalf; Transform Xhalf; Mat5 mHalf;
    std::vector<double> radius; std::vector<Vec3> centre; std::vector<Mat5> mat;     // per sphere (body i = sphere i)
    std::vector<Transform> X; std::vector<SpatialVec> V;                            // per body 0..nb
};
struct HCRun {
    std::unique_ptr<Rig> g; std::unique_ptr<GeneralContactSubsystem> contacts; std::unique_ptr<HuntCrossleyForce> hcp; ContactSetIndex set;
    Contribution k; std::vector<std::string> contactTokens; int nc = 0; double predWorst = 0;
};
static void hcBuildAndRun(const HCScene& sc, HCRun& r, const std::vector<int>& awayMask, bool collect, bool dropHalf = false) {
    r.g.reset(new Rig()); Rig& g = *r.g;
    r.contacts.reset(new GeneralContactSubsystem(g.sys));
    r.set = r.contacts->createContactSet();
    r.hcp.reset(new HuntCrossleyForce(g.forces, *r.contacts, r.set));
    HuntCrossleyForce& hc = *r.hcp;
    hc.setTransitionVelocity(sc.vt);
    vh::Rng local(99); g.freeBodies(local, sc.nb);
    int surf = 0;
    if (sc.hasHalf && !dropHalf) {
        r.contacts->addBody(r.set, g.body[0], ContactGeometry::HalfSpace(), sc.Xhalf);
        hc.setBodyParameters(ContactSurfaceIndex(surf++), sc.mHalf.k, sc.mHalf.c, sc.mHalf.us, sc.mHalf.ud, sc.mHalf.uv);
    }
    for (int i = 1; i <= sc.nb; ++i) {
        r.contacts->addBody(r.set, g.body[i], ContactGeometry::Sphere(sc.radius[i]), Transform(sc.centre[i]));
        const Mat5& m = sc.mat[i];
        hc.setBodyParameters(ContactSurfaceIndex(surf++), m.k, m.c, m.us, m.ud, m.uv);
    }
    g.topo();
    std::vector<Transform> X = sc.X;
    // "far away" = far above the half space (along its outward normal), spread out sideways
    Vec3 up = sc.hasHalf ? Vec3(-(sc.Xhalf.R() * Vec3(1, 0, 0))) : Vec3(0, 1, 0);
    Vec3 side = sc.hasHalf ? Vec3(sc.Xhalf.R() * Vec3(0, 0, 1)) : Vec3(0, 0, 1);
    for (int i = 1; i <= sc.nb; ++i) if (awayMask[i]) X[i] = Transform(X[i].R(), X[i].p() + (1000.0 * i) * up + (100.0 * i) * side);
    g.fit(X, sc.V);
    g.sys.realize(g.s, Stage::Dynamics);
    r.k = contrib(g, hc, g.s);
    if (!collect) return;
    const Array_<Contact>& cs = r.contacts->getContacts(g.s, r.set);
    r.nc = 0;
    for (int i = 0; i < (int)cs.size(); ++i) {
        if (!PointContact::isInstance(cs[i])) continue;
        const PointContact& pc = static_cast<const PointContact&>(cs[i]);
        int s1 = pc.getSurface1(), s2 = pc.getSurface2();
        auto bodyOf = [&](int sidx) { return sc.hasHalf ? sidx : sidx + 1; };
        auto matOf = [&](int sidx) -> const Mat5& { return sc.hasHalf ? (sidx == 0 ? sc.mHalf : sc.mat[sidx]) : sc.mat[sidx + 1]; };
        std::ostringstream os;
        os << ' ' << bodyOf(s1) << ' ' << bodyOf(s2); putMat(os, matOf(s1)); putMat(os, matOf(s2));
        putVec(os, pc.getLocation()); putVec(os, pc.getNormal()); os << ' ' << hex(pc.getDepth()) << ' ' << hex(pc.getEffectiveRadiusOfCurvature());
        r.contactTokens.push_back(os.str()); r.nc++;
    }
}
static void elemHC(Src& c, int scenario) {
    // scenario: 0 generic, 1 multi-contact with fast separating balls (F6), 2 no penetration
    HCScene sc;
    int nsceneIdx = 0; (void)nsceneIdx;
    // ---- scene recipe (drawn or parsed)
    std::ostringstream scene;
    if (c.replay) c.next();                       // nscene token
    sc.nb = c.ival(c.replay ? 0 : (scenario == 3 ? 1 : scenario == 1 ? 2 + c.rng->below(3) : 1 + c.rng->below(4)));
    sc.vt = c.val(c.replay ? 0 : (c.rng->coin() ? 0.01 : c.rng->range(0.005, 0.5)));
    sc.hasHalf = c.ival(c.replay ? 0 : ((scenario == 1 || scenario == 3) ? 1 : c.rng->below(4) != 0));
    if (sc.hasHalf) {
        Rotation R; Vec3 p;
        if (c.replay) { sc.Xhalf = getPose(c); } else { sc.Xhalf = Transform(randRot(*c.rng), randVec(*c.rng, 1)); putPose(c.rec, sc.Xhalf); }
        sc.mHalf = drawMat(c);
    }
    sc.radius.resize(sc.nb + 1); sc.centre.resize(sc.nb + 1); sc.mat.resize(sc.nb + 1);
    for (int i = 1; i <= sc.nb; ++i) {
        sc.radius[i] = c.real(0.2, 1.0); sc.centre[i] = c.vec(-0.3, 0.3); sc.mat[i] = drawMat(c);
    }
    sc.X.assign(sc.nb + 1, Transform()); sc.V.assign(sc.nb + 1, SpatialVec(Vec3(0), Vec3(0)));
    std::vector<int> fast(sc.nb + 1, 0);
    if (c.replay) { for (int b = 0; b <= sc.nb; ++b) { sc.X[b] = getPose(c); sc.V[b] = getVel(c); } }
    else {
        vh::Rng& r = *c.rng;
        // place the spheres: on the half space (well separated along its surface) and/or in a chain touching each other
        Vec3 nOut = sc.hasHalf ? Vec3(-(sc.Xhalf.R() * Vec3(1, 0, 0))) : Vec3(0, 1, 0);     // outward normal of the half space
        Vec3 prevC(0); double prevR = 0;
        for (int i = 1; i <= sc.nb; ++i) {
            Rotation Rb = randRot(r);
            double depth = (scenario == 2) ? -r.range(0.001, 0.2) : r.range(0.005, 0.15) * sc.radius[i];
            Vec3 cG;
            bool onHalf = sc.hasHalf && (scenario != 0 || i == 1 || r.coin());
            if (!sc.hasHalf && scenario == 2 && i > 1) {      // straight line: no accidental overlaps
                cG = prevC + (prevR + sc.radius[i] - depth) * Vec3(1, 0, 0); }
            else if (onHalf) {
                Vec3 t1 = sc.Xhalf.R() * Vec3(0, 1, 0), t2 = sc.Xhalf.R() * Vec3(0, 0, 1);
                cG = sc.Xhalf.p() + (sc.radius[i] - depth) * nOut + (3.0 * i + r.range(-0.3, 0.3)) * t1 + r.range(-1, 1) * t2;
            } else if (i == 1) cG = randVec(r, 1);
            else { UnitVec3 dir(randVec(r, 1) + Vec3(0.01, 0.02, 0.03)); cG = prevC + (prevR + sc.radius[i] - depth) * Vec3(dir); }
            prevC = cG; prevR = sc.radius[i];
            sc.X[i] = Transform(Rb, cG - Rb * sc.centre[i]);
            Vec3 w = randVec(r, 2), v = randVec(r, 0.5);
            int kindV = r.below(4);             // 0 approaching, 1 slow, 2 sliding, 3 separating fast
            if (scenario == 1) kindV = (r.below(2) == 0) ? 3 : 1;
            if (kindV == 1) { w = randVec(r, 0.05); v = randVec(r, 0.01); }
            if (kindV == 3) { v = r.range(5, 30) * nOut + randVec(r, 0.2); fast[i] = 1; }
            if (kindV == 0) v = -r.range(0.1, 2) * nOut + randVec(r, 0.3);
            sc.V[i] = SpatialVec(w, v);
        }
        if (scenario == 1 && !fast[1] && !fast[2]) { sc.V[1] = SpatialVec(Vec3(0), 20.0 * nOut); fast[1] = 1; }
        for (int b = 0; b <= sc.nb; ++b) { putPose(c.rec, sc.X[b]); putVel(c.rec, sc.V[b]); }
    }
    HCRun run; std::vector<int> none(sc.nb + 1, 0);
    hcBuildAndRun(sc, run, none, true);
    Rig& g = *run.g;
    // ---- record
    std::string recArgs;
    if (!c.replay) {
        std::string sceneStr = c.rec.str();
        int ntok = 0; { std::istringstream is(sceneStr); std::string t; while (is >> t) ++ntok; }
        std::ostringstream os; os << ' ' << ntok << sceneStr << ' ' << sc.nb << ' ' << hex(sc.vt);
        for (int b = 0; b <= sc.nb; ++b) { putPose(os, g.body[b].getBodyTransform(g.s)); putVel(os, g.body[b].getBodyVelocity(g.s)); }
        os << ' ' << run.nc; for (auto& t : run.contactTokens) os << t;
        recArgs = os.str();
    }
    auto hcDamped = [&]() { bool damp = false; for (int i = 1; i <= sc.nb; ++i) damp = damp || sc.mat[i].c != 0 || sc.mat[i].ud != 0 || sc.mat[i].us != 0 || sc.mat[i].uv != 0;
                            if (sc.hasHalf) damp = damp || sc.mHalf.c != 0 || sc.mHalf.us != 0 || sc.mHalf.ud != 0 || sc.mHalf.uv != 0; return damp; };
    auto hcScale = [&]() { double scl = 0; for (int b = 0; b <= sc.nb; ++b) scl += run.k.F[b][1].norm() * (sc.V[b][1].norm() + sc.V[b][0].norm() + 1); return scl + std::abs(run.k.pe); };
    if (gDissOnly) {
        double diss = c12Lines("HuntCrossleyForce", g, *run.hcp, g.s, run.k, true, hcDamped(), false, hcScale());
        dissRecord("dissHC", "", diss, hcScale());
        return;
    }
    if (c.replay) std::puts(gOrig.c_str()); else std::printf("I hc%s\n", recArgs.c_str());
    vh::Line L = vh::O("hc"); for (int b = 0; b <= sc.nb; ++b) outSpatial(L, run.k.F[b]); L.d(run.k.pe); L.emit();
    vh::D(std::string("hc.contacts") + std::to_string(std::min(run.nc, 4)) + (scenario == 1 ? ".fast_separating" : scenario == 2 ? ".no_penetration" : ""));
    if (wantC13()) thirdLaw("HuntCrossleyForce", g, g.s, run.k.F);
    if (wantC12()) {
        double diss = c12Lines("HuntCrossleyForce", g, *run.hcp, g.s, run.k, true, hcDamped(), false, hcScale());
        if (!c.replay) dissRecord("dissHC", recArgs, diss, hcScale());
    }
    if (!wantC37()) return;
    // ---- C37 predicates on the implementation
    if (scenario == 2) {
        double tot = 0; for (int b = 0; b <= sc.nb; ++b) tot += run.k.F[b][0].norm() + run.k.F[b][1].norm();
        vh::P("vanishes_without_penetration", "HuntCrossleyForce.no_penetration.force", tot, 0);
        vh::P("vanishes_without_penetration", "HuntCrossleyForce.no_penetration.pe", std::abs(run.k.pe), 0);
    }
    // "sum over contacts": every contact contributes independently.  For each contact the implementation detected, the
    // scene is rebuilt with only that contact's two partners present (all other spheres moved far away; the half space
    // left out unless it is a partner); the full scene's body forces and potential energy must be the sum of these.
    if (run.nc >= 1) {
        const Array_<Contact>& cs = run.contacts->getContacts(g.s, run.set);
        std::vector<SpatialVec> sum(sc.nb + 1, SpatialVec(Vec3(0), Vec3(0))); double peSum = 0;
        for (int i = 0; i < (int)cs.size(); ++i) {
            int s1 = cs[i].getSurface1(), s2 = cs[i].getSurface2();
            int b1 = sc.hasHalf ? s1 : s1 + 1, b2 = sc.hasHalf ? s2 : s2 + 1;
            std::vector<int> away(sc.nb + 1, 1); away[b1] = 0; away[b2] = 0;
            HCRun alone; hcBuildAndRun(sc, alone, away, false, /*dropHalf=*/ b1 != 0 && b2 != 0);
            for (int b = 0; b <= sc.nb; ++b) sum[b] += alone.k.F[b];
            peSum += alone.k.pe;
        }
        double worst = 0, scale = 1;
        for (int b = 0; b <= sc.nb; ++b) for (int k = 0; k < 2; ++k) {
            worst = std::max(worst, maxabs(run.k.F[b][k] - sum[b][k])); scale = std::max(scale, maxabs(sum[b][k])); }
        worst = std::max(worst, std::abs(run.k.pe - peSum)); scale = std::max(scale, std::abs(peSum));
        vh::P("sum_over_contacts", "HuntCrossleyForce.multi_contact.early_return", worst, 1e-10 * scale);
        if (std::getenv("FL_DEBUG_SUM")) {       // commentary line (ignored by driver and pipeline): the independent sum
            vh::Line Lc("C", "hc_independent_sum"); for (int b = 0; b <= sc.nb; ++b) outSpatial(Lc, sum[b]); Lc.d(peSum); Lc.emit();
        }
    }
    // per-contact sign / friction predicates, evaluated on scenes with a single sphere-half-space contact
    if (sc.hasHalf && sc.nb == 1 && run.nc == 1) {
        const PointContact& pc = static_cast<const PointContact&>(run.contacts->getContacts(g.s, run.set)[0]);
        Vec3 n = pc.getNormal();               // from surface1 to surface2
        int s1 = pc.getSurface1();
        int bB = (s1 == 0) ? 1 : 0, bA = (s1 == 0) ? 0 : 1;        // B = body of surface 2
        Vec3 FB = run.k.F[bB][1];
        // contact point as the implementation defines it
        double k1 = std::pow((s1 == 0 ? sc.mHalf.k : sc.mat[1].k), 2. / 3.), k2 = std::pow((s1 == 0 ? sc.mat[1].k : sc.mHalf.k), 2. / 3.);
        double s1f = k2 / (k1 + k2);
        Vec3 loc = pc.getLocation() + (pc.getDepth() * (0.5 - s1f)) * n;
        Vec3 vA = g.body[bA].findStationVelocityInGround(g.s, g.body[bA].findStationAtGroundPoint(g.s, loc));
        Vec3 vB = g.body[bB].findStationVelocityInGround(g.s, g.body[bB].findStationAtGroundPoint(g.s, loc));
        Vec3 vBA = vB - vA; Vec3 vt = vBA - dot(vBA, n) * n;
        double us = combine(sc.mHalf.us, sc.mat[1].us), ud = combine(sc.mHalf.ud, sc.mat[1].ud), uv = combine(sc.mHalf.uv, sc.mat[1].uv);
        contactPredicates("HuntCrossleyForce", n, FB, vBA, hollarsMu(us, ud, uv, vt.norm(), sc.vt), false);
    }
}

// ---------------------------------------------------------------- SmoothSphereHalfSpaceForce
static void elemSmooth(Src& c, int scenario) {
    // scenario 0 generic, 1 zero dissipation, 2 fast separation
    int bs = c.ival(c.replay ? 0 : 1), bh = c.ival(c.replay ? 0 : (c.rng->below(3) == 0 ? 2 : 0));
    double st = c.val(c.replay ? 0 : std::pow(10.0, c.rng->range(5, 7)));
    double di = c.val(c.replay ? 0 : (scenario == 1 ? 0.0 : c.rng->range(0.2, 3)));
    double ud = c.replay ? 0 : c.rng->range(0.05, 0.8), us = c.replay ? 0 : ud + c.rng->range(0, 0.5);
    us = c.val(us); ud = c.val(ud); double uv = c.val(c.replay ? 0 : c.rng->range(0, 0.3));
    double vt = c.val(c.replay ? 0 : c.rng->range(0.01, 0.3));
    // defaults in half of the cases, otherwise random smoothing constants
    bool defSm = c.replay || c.rng->coin();
    double cf = c.val(defSm ? 1e-5 : std::pow(10.0, c.rng->range(-6, -4))), bd = c.val(defSm ? 300.0 : c.rng->range(100, 500)), bv = c.val(defSm ? 50.0 : c.rng->range(20, 100));
    double radius = c.real(0.1, 1.0);
    Vec3 loc = c.vec(-0.3, 0.3);
    Transform Xhs, Xs, Xh; SpatialVec Vs(Vec3(0), Vec3(0)), Vh(Vec3(0), Vec3(0));
    if (c.replay) { Xhs = getPose(c); Xs = getPose(c); Vs = getVel(c); Xh = getPose(c); Vh = getVel(c); }
    else {
        vh::Rng& r = *c.rng;
        Xhs = Transform(randRot(r), randVec(r, 0.5)); putPose(c.rec, Xhs);
        if (bh) { Xh = Transform(randRot(r), randVec(r, 1)); Vh = SpatialVec(randVec(r, 1), randVec(r, 1)); }
        Transform XGhs = Xh * Xhs;
        Vec3 nIn = XGhs.R() * Vec3(1, 0, 0);         // into the half space
        double indentation = (r.below(5) == 0) ? -r.range(0.001, 0.05) : r.range(0.001, 0.1) * radius;
        Vec3 centre = XGhs.p() + (indentation - radius) * nIn + r.range(-1, 1) * (XGhs.R() * Vec3(0, 1, 0)) + r.range(-1, 1) * (XGhs.R() * Vec3(0, 0, 1));
        Rotation Rb = randRot(r);
        Xs = Transform(Rb, centre - Rb * loc);
        Vec3 v = randVec(r, 1);
        if (scenario == 2) v = -(2.0 / (3 * di) + r.range(0.002, 0.05)) * nIn + randVec(r, 0.05);
        Vs = SpatialVec(scenario == 2 ? Vec3(0) : randVec(r, 2), v);
        if (scenario == 2) Vh = SpatialVec(Vec3(0), Vec3(0));
    }
    std::unique_ptr<Rig> g(new Rig()); vh::Rng local(5); g->freeBodies(local, 2);
    SmoothSphereHalfSpaceForce f(g->forces);
    f.setParameters(st, di, us, ud, uv, vt, cf, bd, bv);
    f.setContactSphereBody(g->body[bs]); f.setContactSphereLocationInBody(loc); f.setContactSphereRadius(radius);
    f.setContactHalfSpaceBody(g->body[bh]); f.setContactHalfSpaceFrame(Xhs);
    g->topo();
    std::vector<Transform> X = {Transform(), Xs, bh ? Xh : Transform()}; std::vector<SpatialVec> V = {SpatialVec(Vec3(0), Vec3(0)), Vs, Vh};
    g->fit(X, V);
    g->sys.realize(g->s, Stage::Dynamics);
    if (!c.replay) {
        putPose(c.rec, g->body[bs].getBodyTransform(g->s)); putVel(c.rec, g->body[bs].getBodyVelocity(g->s));
        putPose(c.rec, g->body[bh].getBodyTransform(g->s)); putVel(c.rec, g->body[bh].getBodyVelocity(g->s));
    }
    Contribution k = contrib(*g, f, g->s);
    emitRecord("smooth", c, gOrig);
    vh::Line L = vh::O("smooth"); outSpatial(L, k.F[bs]); outSpatial(L, k.F[bh]); L.d(k.pe); L.emit();
    // geometry as the implementation defines it
    Transform XGhs = g->body[bh].getBodyTransform(g->s) * Xhs;
    Vec3 nIn = XGhs.R() * Vec3(1, 0, 0);
    Vec3 centreG = g->body[bs].getBodyTransform(g->s) * loc;
    double indentation = dot(centreG - XGhs.p(), nIn) + radius;
    Vec3 cp = centreG + radius * nIn - 0.5 * indentation * nIn;
    Vec3 vS = g->body[bs].findStationVelocityInGround(g->s, g->body[bs].findStationAtGroundPoint(g->s, cp));
    Vec3 vH = g->body[bh].findStationVelocityInGround(g->s, g->body[bh].findStationAtGroundPoint(g->s, cp));
    double vn = dot(vS - vH, nIn);
    vh::D(std::string("smooth") + (indentation > 0 ? ".penetrating" : ".separated") + (scenario == 1 ? ".c0" : scenario == 2 ? ".fast_separation" : (vn > 0 ? ".approaching" : ".separating")));
    if (wantC13()) thirdLaw("SmoothSphereHalfSpaceForce", *g, g->s, k.F);
    if (!wantC37()) return;
    // force on the sphere (B = sphere, A = half space, n = outward normal of the half space = -nIn)
    Vec3 FB = k.F[bs][1]; Vec3 vBA = vS - vH; Vec3 vtv = vBA - dot(vBA, nIn) * nIn;
    double vslip = std::sqrt(vtv.normSqr() + cf);
    // regime of the documented tanh blending in which fhc_pos = fh_smooth(1+3/2 c v) is negative: v < -2/(3c)
    bool fastSep = di > 0 && vn < -2.0 / (3 * di);
    std::string key = std::string("SmoothSphereHalfSpaceForce") + (scenario == 1 ? ".zero_dissipation" : fastSep ? ".fast_separation" : "");
    bool fin = finite3(FB) && finite3(k.F[bs][0]) && std::isfinite(k.pe);
    vh::P("finite", key + ".finite", fin ? 0 : 1, 0);
    contactPredicates(key, -nIn, FB, vBA, hollarsMu(us, ud, uv, vslip, vt), true);
}

// ---------------------------------------------------------------- ExponentialSpringForce (normal force)
// ExponentialSpringForce friction with a displaced elastic anchor (predicates only): the anchor is reset at one pose, the
// body is then moved tangentially (friction spring stretched, possibly beyond the limit), velocities are random; then
// the auto-update state (anchor, sliding) is swapped in and the element re-evaluated.
static void elemExpAnchor(Src& c) {
    vh::Rng& r = *c.rng;
    double d1 = r.range(0.1, 2), d2 = r.range(200, 1500), cz = r.range(0, 2);
    double muk = r.range(0.05, 0.6), mus = muk + r.range(0, 0.4);
    Vec3 station = randVec(r, 0.3);
    Transform XP(randRot(r), randVec(r, 1));
    std::unique_ptr<Rig> g(new Rig()); vh::Rng local(6); g->freeBodies(local, 1);
    ExponentialSpringParameters prm; prm.setShapeParameters(0.0065905, d1, d2); prm.setNormalViscosity(cz);
    prm.setInitialMuStatic(mus); prm.setInitialMuKinetic(muk);
    ExponentialSpringForce f(g->forces, XP, g->body[1], station, prm);
    g->topo();
    double pz = r.range(-0.004, 0.004);
    Vec3 pP(r.range(-1, 1), r.range(-1, 1), pz);
    Rotation Rb = randRot(r);
    auto place = [&](const Vec3& pInPlane, const SpatialVec& V) {
        std::vector<Transform> XX = {Transform(), Transform(Rb, XP * pInPlane - Rb * station)}; std::vector<SpatialVec> VV = {SpatialVec(Vec3(0), Vec3(0)), V};
        g->fit(XX, VV); };
    place(pP, SpatialVec(Vec3(0), Vec3(0)));
    f.resetAnchorPoint(g->s);
    double delta = std::pow(10.0, r.range(-6, -2.3));            // 1e-6 .. 5e-3 m: below and beyond the friction limit
    Vec3 shift(delta * std::cos(r.range(0, 6.28)), delta * std::sin(r.range(0, 6.28)), 0);
    place(pP + shift, SpatialVec(randVec(r, 0.5), randVec(r, 0.3)));
    std::printf("I pc 300\n"); vh::O("pc").d(0.0).emit();
    for (int pass = 0; pass < 2; ++pass) {
        g->sys.realize(g->s, Stage::Dynamics);
        double fz = f.getNormalForce(g->s, false)[2], lim = f.getFrictionForceLimit(g->s);
        Vec3 fric = f.getFrictionForce(g->s, false), fe = f.getFrictionForceElasticPart(g->s, false), fd = f.getFrictionForceDampingPart(g->s, false);
        Vec3 vP = f.getStationVelocity(g->s, false); Vec3 vxy(vP[0], vP[1], 0);
        Vec3 pS = f.getStationPosition(g->s, false), p0 = f.getAnchorPointPosition(g->s, false); Vec3 rxy(pS[0] - p0[0], pS[1] - p0[1], 0);
        double sc = std::max(1.0, std::max(fz, fric.norm()));
        const std::string k = std::string("ExponentialSpringForce.anchor") + (pass ? ".after_update" : "");
        vh::P("friction_le_limit", k + ".friction_le_limit", fric.norm() - lim, 1e-9 * sc);
        vh::P("friction_limit_is_mu_fz", k + ".friction_limit", std::abs(lim - f.getMu(g->s) * fz), 1e-10 * sc);
        vh::P("friction_in_plane", k + ".friction_in_plane", std::abs(fric[2]) + std::abs(fe[2]) + std::abs(fd[2]), 0);
        vh::P("friction_is_elastic_plus_damping", k + ".decomposition", (fric - fe - fd).norm(), 1e-10 * sc);
        vh::P("damping_part_opposes_slip", k + ".damping_opposes_slip", dot(fd, vxy), 1e-10 * sc);
        vh::P("elastic_part_opposes_displacement", k + ".elastic_opposes_displacement", dot(fe, rxy), 1e-10 * sc);
        vh::P("mu_between_kinetic_and_static", k + ".mu_range", std::max(muk - f.getMu(g->s), f.getMu(g->s) - mus), 1e-12);
        if (pass == 0) {
            vh::D(std::string("expAnchor") + (fric.norm() > 0.999999 * lim ? ".at_limit" : ".inside_limit") + (fe.norm() > 0 ? ".elastic" : ""));
            g->sys.realize(g->s, Stage::Acceleration);
            g->s.autoUpdateDiscreteVariables();          // anchor point and sliding state take their cached values
            g->s.invalidateAllCacheAtOrAbove(Stage::Position);
        }
    }
}

static void elemExp(Src& c, bool frictionless = false) {
    double d0 = c.val(c.replay ? 0 : c.rng->range(-0.01, 0.02)), d1 = c.val(c.replay ? 0 : c.rng->range(0.1, 2)), d2 = c.val(c.replay ? 0 : c.rng->range(200, 1500));
    double cz = c.val(c.replay ? 0 : (c.rng->below(4) == 0 ? 0.0 : c.rng->range(0.1, 2)));
    double maxF = c.val(c.replay ? 0 : (c.rng->below(4) == 0 ? c.rng->range(1, 50) : 1e5));
    double muk = c.replay ? 0 : c.rng->range(0, 0.6), mus = c.replay ? 0 : muk + c.rng->range(0, 0.4);
    if (frictionless && !c.replay) { mus = 0; muk = 0; }
    mus = c.val(mus); muk = c.val(muk);
    Vec3 station = c.vec(-0.3, 0.3);
    Transform XP, X; SpatialVec V(Vec3(0), Vec3(0));
    if (c.replay) { XP = getPose(c); X = getPose(c); V = getVel(c); }
    else {
        vh::Rng& r = *c.rng;
        XP = Transform(randRot(r), randVec(r, 1)); putPose(c.rec, XP);
        double pz = r.range(-0.01, 0.03);
        Vec3 pG = XP * Vec3(r.range(-1, 1), r.range(-1, 1), pz);
        Rotation Rb = randRot(r); X = Transform(Rb, pG - Rb * station);
        V = SpatialVec(randVec(r, 1), randVec(r, 1) + (r.below(4) == 0 ? 5.0 : 0.0) * (XP.R() * Vec3(0, 0, 1)));
    }
    std::unique_ptr<Rig> g(new Rig()); vh::Rng local(6); g->freeBodies(local, 1);
    ExponentialSpringParameters prm; prm.setShapeParameters(d0, d1, d2); prm.setNormalViscosity(cz); prm.setMaxNormalForce(maxF);
    prm.setInitialMuStatic(mus); prm.setInitialMuKinetic(muk);
    ExponentialSpringForce f(g->forces, XP, g->body[1], station, prm);
    g->topo();
    std::vector<Transform> XX = {Transform(), X}; std::vector<SpatialVec> VV = {SpatialVec(Vec3(0), Vec3(0)), V};
    g->fit(XX, VV);
    f.resetAnchorPoint(g->s);
    g->sys.realize(g->s, Stage::Dynamics);
    if (!c.replay) { putPose(c.rec, g->body[1].getBodyTransform(g->s)); putVel(c.rec, g->body[1].getBodyVelocity(g->s)); }
    double fzE = f.getNormalForceElasticPart(g->s, false)[2], fzD = f.getNormalForceDampingPart(g->s, false)[2], fz = f.getNormalForce(g->s, false)[2];
    Contribution k = contrib(*g, f, g->s);
    if (frictionless) {
        // without friction the element is its normal part: the reported PE is fzElas/d2 (model: expPE)
        emitRecord("expnPE", c, gOrig);
        vh::O("expnPE").d(fzE).d(fzD).d(fz).d(k.pe).emit();
    } else {
        emitRecord("expn", c, gOrig);
        vh::O("expn").d(fzE).d(fzD).d(fz).emit();
    }
    vh::D(std::string(frictionless ? "expnPE" : "expn") + (fz == 0 ? ".clamped0" : fz == maxF ? ".clampedMax" : ""));
    if (wantC12() && frictionless) {
        // the cap `maxNormalForce` changes the reported energy to (max - fzDamp)/d2 (source: "TODO Correct potential energy
        // calculation when the normal force is capped"): separate key for that input class
        Vec3 vB0 = g->body[1].findStationVelocityInGround(g->s, station);
        double sc = (std::abs(fz) + std::abs(fzE)) * (vB0.norm() + 1) + std::abs(k.pe);
        // h = 1e-7: the energy varies like exp(-d2*pz) with d2 up to 1500/m, truncation error (d2*v*h)^2/6 must stay < 1e-6
        c12Lines(fz == maxF ? "ExponentialSpringForce.capped" : "ExponentialSpringForce", *g, f, g->s, k, true, cz != 0, false, sc, 1e-7);
        vh::P("frictionless_no_tangential_force", "ExponentialSpringForce.frictionless.tangential", f.getFrictionForce(g->s).norm(), 0);
    }
    if (wantC13()) thirdLaw("ExponentialSpringForce", *g, g->s, k.F);
    if (!wantC37()) return;
    Vec3 nz = XP.R() * Vec3(0, 0, 1);
    Vec3 FB = k.F[1][1];
    Vec3 vB = g->body[1].findStationVelocityInGround(g->s, station);
    // the body force is exactly normal + friction as reported
    vh::P("force_is_normal_plus_friction", "ExponentialSpringForce.force_decomposition", (FB - f.getNormalForce(g->s) - f.getFrictionForce(g->s)).norm(), 1e-10 * std::max(1.0, FB.norm()));
    vh::P("normal_le_max", "ExponentialSpringForce.normal_le_max", fz - maxF, 0);
    contactPredicates("ExponentialSpringForce", nz, FB, vB, -1, true);
    vh::P("friction_le_limit", "ExponentialSpringForce.friction_le_limit", f.getFrictionForce(g->s).norm() - f.getFrictionForceLimit(g->s), 1e-9 * std::max(1.0, FB.norm()));
    vh::P("friction_limit_is_mu_fz", "ExponentialSpringForce.friction_limit", std::abs(f.getFrictionForceLimit(g->s) - f.getMu(g->s) * fz), 1e-10 * std::max(1.0, fz));
}

// ---------------------------------------------------------------- Hertz via CompliantContactSubsystem
static void elemHertz(Src& c, int scenario) {
    if (c.replay) c.next();
    int nb = c.ival(c.replay ? 0 : 1 + c.rng->below(3));
    double vt = c.val(c.replay ? 0 : (c.rng->coin() ? 0.01 : c.rng->range(0.005, 0.3)));
    int hasHalf = c.ival(c.replay ? 0 : c.rng->below(4) != 0);
    Transform Xhalf; Mat5 mHalf;
    if (hasHalf) { if (c.replay) Xhalf = getPose(c); else { Xhalf = Transform(randRot(*c.rng), randVec(*c.rng, 1)); putPose(c.rec, Xhalf); } mHalf = drawMat(c); }
    std::vector<double> radius(nb + 1); std::vector<Transform> XBS(nb + 1); std::vector<Mat5> mat(nb + 1);
    for (int i = 1; i <= nb; ++i) {
        radius[i] = c.real(0.2, 1.0);
        if (c.replay) XBS[i] = getPose(c); else { XBS[i] = Transform(randRot(*c.rng), randVec(*c.rng, 0.3)); putPose(c.rec, XBS[i]); }
        mat[i] = drawMat(c);
    }
    std::vector<Transform> X(nb + 1); std::vector<SpatialVec> V(nb + 1, SpatialVec(Vec3(0), Vec3(0)));
    if (c.replay) for (int b = 0; b <= nb; ++b) { X[b] = getPose(c); V[b] = getVel(c); }
    else {
        vh::Rng& r = *c.rng;
        Vec3 nOut = hasHalf ? Vec3(-(Xhalf.R() * Vec3(1, 0, 0))) : Vec3(0, 1, 0);
        Vec3 prevC(0); double prevR = 0;
        for (int i = 1; i <= nb; ++i) {
            Rotation Rb = randRot(r);
            double depth = (scenario == 2) ? -r.range(0.001, 0.2) : r.range(0.005, 0.15) * radius[i];
            Vec3 cG; bool onHalf = hasHalf && (scenario != 0 || i == 1 || r.coin());
            if (!hasHalf && scenario == 2 && i > 1) cG = prevC + (prevR + radius[i] - depth) * Vec3(1, 0, 0);
            else if (onHalf) cG = Xhalf.p() + (radius[i] - depth) * nOut + (3.0 * i + r.range(-0.3, 0.3)) * (Xhalf.R() * Vec3(0, 1, 0)) + r.range(-1, 1) * (Xhalf.R() * Vec3(0, 0, 1));
            else if (i == 1) cG = randVec(r, 1);
            else { UnitVec3 dir(randVec(r, 1) + Vec3(0.01, 0.02, 0.03)); cG = prevC + (prevR + radius[i] - depth) * Vec3(dir); }
            prevC = cG; prevR = radius[i];
            X[i] = Transform(Rb, cG - Rb * XBS[i].p());
            Vec3 w = randVec(r, 2), v = randVec(r, 0.5);
            int kindV = r.below(4);
            if (kindV == 1) { w = randVec(r, 0.02); v = randVec(r, 0.004); }
            if (kindV == 3) v = r.range(5, 30) * nOut + randVec(r, 0.2);
            if (kindV == 0) v = -r.range(0.1, 2) * nOut + randVec(r, 0.3);
            V[i] = SpatialVec(w, v);
        }
        for (int b = 0; b <= nb; ++b) { putPose(c.rec, X[b]); putVel(c.rec, V[b]); }
    }
    std::unique_ptr<Rig> g(new Rig());
    ContactTrackerSubsystem tracker(g->sys);
    CompliantContactSubsystem compliant(g->sys, tracker);
    compliant.setTransitionVelocity(vt);
    vh::Rng local(8);
    if (hasHalf) g->matter.Ground().updBody().addContactSurface(Xhalf, ContactSurface(ContactGeometry::HalfSpace(), ContactMaterial(mHalf.k, mHalf.c, mHalf.us, mHalf.ud, mHalf.uv)));
    for (int i = 1; i <= nb; ++i) {
        Body::Rigid b = Rig::randBody(local);
        b.addContactSurface(XBS[i], ContactSurface(ContactGeometry::Sphere(radius[i]), ContactMaterial(mat[i].k, mat[i].c, mat[i].us, mat[i].ud, mat[i].uv)));
        g->body.push_back(MobilizedBody::Free(g->matter.Ground(), Transform(), b, Transform())); g->kind.push_back(1);
    }
    g->topo(); g->fit(X, V);
    g->sys.realize(g->s, Stage::Dynamics);
    const ContactSnapshot& active = tracker.getActiveContacts(g->s);
    std::ostringstream ct; int nc = 0;
    struct CInfo { int b1, b2; Vec3 nG; Mat5 m1, m2; }; std::vector<CInfo> infos;
    for (int i = 0; i < active.getNumContacts(); ++i) {
        const Contact& con = active.getContact(i);
        if (con.getCondition() == Contact::Broken) continue;
        if (!CircularPointContact::isInstance(con)) continue;
        const CircularPointContact& cc = CircularPointContact::getAs(con);
        ContactSurfaceIndex s1 = con.getSurface1(), s2 = con.getSurface2();
        int b1 = tracker.getMobilizedBody(s1).getMobilizedBodyIndex(), b2 = tracker.getMobilizedBody(s2).getMobilizedBodyIndex();
        const ContactMaterial& m1 = tracker.getContactSurface(s1).getMaterial(); const ContactMaterial& m2 = tracker.getContactSurface(s2).getMaterial();
        ct << ' ' << b1 << ' ' << b2; putPose(ct, tracker.getContactSurfaceTransform(s1)); putPose(ct, tracker.getContactSurfaceTransform(s2));
        Mat5 a{m1.getStiffness(), m1.getDissipation(), m1.getStaticFriction(), m1.getDynamicFriction(), m1.getViscousFriction()};
        Mat5 bm{m2.getStiffness(), m2.getDissipation(), m2.getStaticFriction(), m2.getDynamicFriction(), m2.getViscousFriction()};
        putMat(ct, a); putMat(ct, bm);
        putVec(ct, Vec3(cc.getNormal())); putVec(ct, cc.getOrigin()); ct << ' ' << hex(cc.getDepth()) << ' ' << hex(cc.getEffectiveRadius());
        Transform X_GS1 = g->body[b1].getBodyTransform(g->s) * tracker.getContactSurfaceTransform(s1);
        infos.push_back({b1, b2, X_GS1.R() * Vec3(cc.getNormal()), a, bm});
        ++nc;
    }
    if (c.replay) std::puts(gOrig.c_str());
    else {
        std::string sceneStr = c.rec.str();
        int ntok = 0; { std::istringstream is(sceneStr); std::string t; while (is >> t) ++ntok; }
        std::ostringstream os; os << "I hertz " << ntok << sceneStr << ' ' << nb << ' ' << hex(vt) << ' ' << hex(SignificantReal);
        for (int b = 0; b <= nb; ++b) { putPose(os, g->body[b].getBodyTransform(g->s)); putVel(os, g->body[b].getBodyVelocity(g->s)); }
        os << ' ' << nc << ct.str();
        std::puts(os.str().c_str());
    }
    const Vector_<SpatialVec>& F = g->sys.getRigidBodyForces(g->s, Stage::Dynamics);
    vh::Line L = vh::O("hertz");
    int nf = compliant.getNumContactForces(g->s);
    for (int i = 0; i < nf; ++i) {
        const ContactForce& cf = compliant.getContactForce(g->s, i);
        L.v(cf.getContactPoint(), 3).v(cf.getForceOnSurface2()[1], 3).d(cf.getPotentialEnergy()).d(cf.getPowerDissipation());
    }
    for (int b = 0; b <= nb; ++b) outSpatial(L, F[b]);
    L.d(g->sys.calcPotentialEnergy(g->s));         // the compliant subsystem is the only source of potential energy
    L.emit();
    vh::D(std::string("hertz.contacts") + std::to_string(std::min(nc, 4)) + (scenario == 2 ? ".no_penetration" : ""));
    if (wantC13()) thirdLaw("CompliantContactSubsystem.Hertz", *g, g->s, F);
    if (wantC12()) {
        bool damp = hasHalf && (mHalf.c != 0 || mHalf.us != 0 || mHalf.ud != 0 || mHalf.uv != 0);
        for (int i = 1; i <= nb; ++i) damp = damp || mat[i].c != 0 || mat[i].us != 0 || mat[i].ud != 0 || mat[i].uv != 0;
        double loss = 0; for (int i = 0; i < nf; ++i) loss += compliant.getContactForce(g->s, i).getPowerDissipation();
        c12SystemLines("CompliantContactSubsystem.Hertz", *g, g->s, damp, loss);
    }
    if (!wantC37()) return;
    if (scenario == 2) vh::P("vanishes_without_penetration", "CompliantContactSubsystem.Hertz.no_penetration", (double)nf, 0);
    // each reported contact force: pure force (no moment), sign / friction predicates with the documented Stribeck-like
    // coefficient bounded by max(us,ud) + uv*vslip (the generator's friction curve never exceeds the static coefficient)
    if (nf == nc) for (int i = 0; i < nf; ++i) {
        const ContactForce& cf = compliant.getContactForce(g->s, i);
        const CInfo& ci = infos[i];
        Vec3 cp = cf.getContactPoint();
        Vec3 vA = g->body[ci.b1].findStationVelocityInGround(g->s, g->body[ci.b1].findStationAtGroundPoint(g->s, cp));
        Vec3 vB = g->body[ci.b2].findStationVelocityInGround(g->s, g->body[ci.b2].findStationAtGroundPoint(g->s, cp));
        Vec3 vBA = vB - vA; Vec3 vtv = vBA - dot(vBA, ci.nG) * ci.nG;
        auto comb2 = [](double a, double b) { double u = 2 * a * b; return u != 0 ? u / (a + b) : u; };
        double us = comb2(ci.m1.us, ci.m2.us), uv = comb2(ci.m1.uv, ci.m2.uv);
        vh::P("pure_force", "CompliantContactSubsystem.Hertz.no_moment", cf.getForceOnSurface2()[0].norm(), 0);
        contactPredicates("CompliantContactSubsystem.Hertz", ci.nG, cf.getForceOnSurface2()[1], vBA, us + uv * vtv.norm(), false);
        vh::P("dissipation_nonnegative", "CompliantContactSubsystem.Hertz.power_loss_nonneg", -cf.getPowerDissipation(), 0);
    }
}


// ---------------------------------------------------------------- ElasticFoundationForce (per-triangle law)
// mesh sphere on body 1; the other object is a half space on Ground or an analytic sphere on body 2.  The inside
// springs (centroid, area, nearest surface point) are re-derived here through the public geometry API (their
// correctness is C34-C36's subject) and exported; the model applies the per-spring law and sums.
static void elemEF(Src& c) {
    if (c.replay) c.next();                       // nscene token
    double vt = c.val(c.replay ? 0 : (c.rng->coin() ? 0.01 : c.rng->range(0.005, 0.3)));
    double radius = c.real(0.3, 1.0);
    int res = c.ival(c.replay ? 0 : 1 + c.rng->below(2));
    Mat5 m = drawMat(c), m2 = drawMat(c);
    int otherKind = c.ival(c.replay ? 0 : c.rng->below(3));      // 0 half space on Ground, 1 sphere on body 2, 2 second mesh on body 2
    double r2 = c.real(0.3, 1.0);
    Transform Xhalf; 
    if (c.replay) Xhalf = getPose(c); else { Xhalf = Transform(randRot(*c.rng), randVec(*c.rng, 1)); putPose(c.rec, Xhalf); }
    Transform XBS1, XBS2;
    if (c.replay) { XBS1 = getPose(c); XBS2 = getPose(c); }
    else { XBS1 = Transform(randRot(*c.rng), randVec(*c.rng, 0.3)); XBS2 = Transform(randRot(*c.rng), randVec(*c.rng, 0.3)); putPose(c.rec, XBS1); putPose(c.rec, XBS2); }
    std::vector<Transform> X(3); std::vector<SpatialVec> V(3, SpatialVec(Vec3(0), Vec3(0)));
    if (c.replay) for (int b = 0; b <= 2; ++b) { X[b] = getPose(c); V[b] = getVel(c); }
    else {
        vh::Rng& r = *c.rng;
        double depth = r.range(0.12, 0.5) * radius;
        Rotation R1 = randRot(r), R2 = randRot(r);
        Vec3 c1;
        if (otherKind == 0) {
            Vec3 nOut = -(Xhalf.R() * Vec3(1, 0, 0));
            c1 = Xhalf.p() + (radius - depth) * nOut + r.range(-1, 1) * (Xhalf.R() * Vec3(0, 1, 0));
            X[2] = Transform(R2, Vec3(50, 60, 70));
        } else {
            Vec3 c2 = randVec(r, 1); UnitVec3 dir(randVec(r, 1) + Vec3(0.01, 0.02, 0.03));
            c1 = c2 + (radius + r2 - depth) * Vec3(dir);
            X[2] = Transform(R2, c2 - R2 * XBS2.p());
        }
        X[1] = Transform(R1, c1 - R1 * XBS1.p());
        for (int b = 1; b <= 2; ++b) V[b] = SpatialVec(randVec(r, 1.5), randVec(r, 0.8));
        if (r.below(4) == 0) V[1] = SpatialVec(randVec(r, 0.01), randVec(r, 0.003));
        for (int b = 0; b <= 2; ++b) { putPose(c.rec, X[b]); putVel(c.rec, V[b]); }
    }
    std::unique_ptr<Rig> g(new Rig()); vh::Rng local(10); g->freeBodies(local, 2);
    GeneralContactSubsystem contacts(g->sys); ContactSetIndex set = contacts.createContactSet();
    ElasticFoundationForce ef(g->forces, contacts, set); ef.setTransitionVelocity(vt);
    ContactGeometry::TriangleMesh mesh(PolygonalMesh::createSphereMesh(radius, res));
    ContactGeometry::TriangleMesh meshB(PolygonalMesh::createSphereMesh(r2, res));
    contacts.addBody(set, g->body[1], mesh, XBS1);                      // surface 0
    ContactGeometry other = otherKind == 0 ? (ContactGeometry)ContactGeometry::HalfSpace()
                          : otherKind == 1 ? (ContactGeometry)ContactGeometry::Sphere(r2) : (ContactGeometry)meshB;
    int bOther = otherKind == 0 ? 0 : 2;
    Transform XBo = otherKind == 0 ? Xhalf : XBS2;
    contacts.addBody(set, g->body[bOther], other, XBo);                 // surface 1
    ef.setBodyParameters(ContactSurfaceIndex(0), m.k, m.c, m.us, m.ud, m.uv);
    if (otherKind == 2) ef.setBodyParameters(ContactSurfaceIndex(1), m2.k, m2.c, m2.us, m2.ud, m2.uv);
    g->topo(); g->fit(X, V);
    g->sys.realize(g->s, Stage::Dynamics);
    Contribution k = contrib(*g, ef, g->s);
    // re-derive the displaced springs: group 0 = springs of the mesh on body 1 against the other object; group 1 (mesh-mesh
    // only) = springs of the second mesh against the first; with two meshes every spring area is scaled by 1/2
    const Array_<Contact>& cs = contacts.getContacts(g->s, set);
    Transform t1g = g->body[1].getBodyTransform(g->s) * XBS1, t2g = g->body[bOther].getBodyTransform(g->s) * XBo;
    const int ngroups = otherKind == 2 ? 2 : 1; const double areaScale = otherKind == 2 ? 0.5 : 1.0;
    std::ostringstream sp[2]; int nsG[2] = {0, 0}; int ns = 0; double vslipMax = 0;
    for (int i = 0; i < (int)cs.size(); ++i) {
        if (!TriangleMeshContact::isInstance(cs[i])) continue;
        const TriangleMeshContact& tc = TriangleMeshContact::getAs(cs[i]);
        for (int grp = 0; grp < ngroups; ++grp) {
            const ContactGeometry::TriangleMesh& me = grp == 0 ? mesh : meshB;
            const ContactGeometry& ot = grp == 0 ? other : (const ContactGeometry&)mesh;
            const Transform& tmg = grp == 0 ? t1g : t2g; const Transform& tog = grp == 0 ? t2g : t1g;
            int mySurf = grp == 0 ? 0 : 1;
            const std::set<int>& faces = (tc.getSurface1() == mySurf) ? tc.getSurface1Faces() : tc.getSurface2Faces();
            Transform tmo = ~tog * tmg;
            for (int face : faces) {
                Vec3 pos = (me.getVertexPosition(me.getFaceVertex(face, 0)) + me.getVertexPosition(me.getFaceVertex(face, 1)) + me.getVertexPosition(me.getFaceVertex(face, 2))) / 3;
                bool inside; UnitVec3 nrm;
                Vec3 np = ot.findNearestPoint(tmo * pos, inside, nrm);
                if (!inside) continue;
                Vec3 npG = tog * np;
                sp[grp] << ' ' << hex(areaScale * me.getFaceArea(face)); putVec(sp[grp], npG); putVec(sp[grp], tmg * pos); ++nsG[grp]; ++ns;
                Vec3 va = g->body[1].findStationVelocityInGround(g->s, g->body[1].findStationAtGroundPoint(g->s, npG));
                Vec3 vb = g->body[bOther].findStationVelocityInGround(g->s, g->body[bOther].findStationAtGroundPoint(g->s, npG));
                vslipMax = std::max(vslipMax, (va - vb).norm());
            }
        }
    }
    std::string recArgs;
    if (!c.replay) {
        std::string sceneStr = c.rec.str();
        int ntok = 0; { std::istringstream is(sceneStr); std::string t; while (is >> t) ++ntok; }
        std::ostringstream os; os << ' ' << ntok << sceneStr << ' ' << hex(vt);
        os << ' ' << bOther;
        putPose(os, g->body[1].getBodyTransform(g->s)); putVel(os, g->body[1].getBodyVelocity(g->s));
        putPose(os, g->body[bOther].getBodyTransform(g->s)); putVel(os, g->body[bOther].getBodyVelocity(g->s));
        os << ' ' << ngroups;
        for (int grp = 0; grp < ngroups; ++grp) { os << ' ' << grp; putMat(os, grp == 0 ? m : m2); os << ' ' << nsG[grp] << sp[grp].str(); }
        recArgs = os.str();
    }
    const bool efDamped = m.c != 0 || m.us != 0 || m.ud != 0 || m.uv != 0 || (otherKind == 2 && (m2.c != 0 || m2.us != 0 || m2.ud != 0 || m2.uv != 0));
    const double efScale = k.F[1][1].norm() * (V[1][1].norm() + V[2][1].norm() + V[1][0].norm() + V[2][0].norm() + 1) + std::abs(k.pe);
    if (gDissOnly) {
        double diss = c12Lines("ElasticFoundationForce", *g, ef, g->s, k, true, efDamped, false, efScale);
        dissRecord("dissEF", "", diss, efScale);
        return;
    }
    if (c.replay) std::puts(gOrig.c_str()); else std::printf("I ef%s\n", recArgs.c_str());
    vh::Line L = vh::O("ef"); outSpatial(L, k.F[1]); outSpatial(L, k.F[bOther]); L.d(k.pe); L.emit();
    vh::D(std::string("ef.") + (otherKind == 0 ? "halfspace" : otherKind == 1 ? "sphere" : "meshmesh") + (ns == 0 ? ".nosprings" : ns < 5 ? ".few" : ".many"));
    if (wantC37() && otherKind == 0 && ns > 0) {
        // implementation-side contact predicates on the resultant (all springs of a half-space contact push along the half
        // space's outward normal): non-attractive, tangential part bounded by (us + uv*max slip) * N
        Vec3 nOut = -(t2g.R() * Vec3(1, 0, 0));
        Vec3 F1 = k.F[1][1]; double N = dot(F1, nOut); Vec3 Ft = F1 - N * nOut; double scl = std::max(1.0, F1.norm());
        vh::P("normal_nonattractive", "ElasticFoundationForce.normal_nonattractive", -N, 1e-10 * scl);
        vh::P("friction_le_limit", "ElasticFoundationForce.friction_le_limit", Ft.norm() - (m.us + m.uv * vslipMax) * N, 1e-9 * scl);
        if (m.us == 0 && m.ud == 0 && m.uv == 0) vh::P("frictionless_normal_only", "ElasticFoundationForce.frictionless", Ft.norm(), 1e-10 * scl);
    }
    if (wantC13()) thirdLaw("ElasticFoundationForce", *g, g->s, k.F);
    if (wantC12()) {
        double diss = c12Lines("ElasticFoundationForce", *g, ef, g->s, k, true, efDamped, false, efScale);
        if (!c.replay) dissRecord("dissEF", recArgs, diss, efScale);
    }
}

// ---------------------------------------------------------------- CableSpring on a straight CablePath
// The tension law (model: cableSpring) reads the path's length L and rate Ldot; how the path turns a tension into body
// forces is CablePath's business (C45): here only predicates (third law, power = -tension*Ldot, power vs. dPE/dt).
static void elemCable(Src& c) {
    double k = c.real(0.5, 20), cc = c.val(c.replay ? 0 : (c.rng->below(4) == 0 ? 0.0 : c.rng->range(0.05, 2))), L0 = c.real(0.2, 3);
    std::unique_ptr<Rig> g(new Rig());
    CableTrackerSubsystem cables(g->sys);
    int b1 = 0, b2 = 1; Vec3 s1(0), s2(0); double L = 0, Ld = 0;
    if (c.replay) {
        L = vh::unhex(c.next()); Ld = vh::unhex(c.next());
        vh::Rng local(11);
        g->body.push_back(MobilizedBody::Slider(g->matter.Ground(), Transform(), Rig::randBody(local), Transform())); g->kind.push_back(3);
    } else {
        int nb = 2 + c.rng->below(3);
        g->randomTree(*c.rng, nb);
        b1 = c.rng->below(nb + 1); b2 = (b1 + 1 + c.rng->below(nb)) % (nb + 1);
        s1 = randVec(*c.rng, 0.8); s2 = randVec(*c.rng, 0.8);
    }
    CablePath path(cables, g->body[b1], s1, g->body[b2], s2);
    CableSpring spring(g->forces, path, k, L0, cc);
    g->topo();
    if (c.replay) { g->body[1].setOneQ(g->s, 0, L); g->body[1].setOneU(g->s, 0, Ld); }
    else g->randomState(*c.rng);
    g->sys.realize(g->s, Stage::Position);
    path.solveForInitialCablePath(g->s);
    g->sys.realize(g->s, Stage::Velocity);
    L = path.getCableLength(g->s); Ld = path.getCableLengthDot(g->s);
    if (!c.replay) c.rec << ' ' << hex(L) << ' ' << hex(Ld);
    Contribution kk = contrib(*g, spring, g->s);
    emitRecord("cable", c, gOrig);
    vh::O("cable").d(spring.getTension(g->s)).d(spring.getPowerDissipation(g->s)).d(kk.pe).emit();
    vh::D(std::string("cable") + (L <= L0 ? ".slack" : (spring.getTension(g->s) == 0 ? ".yanked" : ".taut")) + (cc == 0 ? ".c0" : ""));
    double P = powerOf(*g, g->s, kk), f = spring.getTension(g->s);
    double scale = std::abs(f) * (std::abs(Ld) + 1) + std::abs(kk.pe);
    if (wantC13()) thirdLaw("CableSpring", *g, g->s, kk.F);
    if (wantC12()) {
        c12Lines("CableSpring", *g, spring, g->s, kk, true, cc != 0, false, scale);
        vh::P("power_is_minus_tension_times_rate", "CableSpring.power_tension_rate", std::abs(P + f * Ld), 1e-10 * std::max(1.0, scale));
    }
}

// ---------------------------------------------------------------- CompliantContactSubsystem, elastic-foundation and brick
// generators: predicates only (third law over all bodies incl. Ground; power vs. dPE/dt).  These generators return a
// contact force WITH a moment about the contact point, the part of realizeSubsystemDynamicsImpl that Hertz never exercises.
static void elemCompliantOther(Src& c, long i) {
    vh::Rng& r = *c.rng;
    int kindS = (int)(i % 4);                     // 0 mesh sphere / half space, 1 brick / half space, 2 ellipsoid / half space (Hertz elliptical), 3 mesh sphere / sphere
    bool separated = wantC37() && ((i / 4) % 4 == 3);      // guaranteed gap: nothing may be generated
    std::unique_ptr<Rig> g(new Rig());
    ContactTrackerSubsystem tracker(g->sys);
    CompliantContactSubsystem compliant(g->sys, tracker);
    double vtr = r.coin() ? 0.01 : r.range(0.005, 0.3); compliant.setTransitionVelocity(vtr);
    Transform Xhalf(randRot(r), randVec(r, 1));
    Mat5 mh = drawMat(c), mb = drawMat(c);
    double rG = r.range(0.4, 1.0);
    if (kindS == 3) g->matter.Ground().updBody().addContactSurface(Transform(Xhalf.p()), ContactSurface(ContactGeometry::Sphere(rG), ContactMaterial(mh.k, mh.c, mh.us, mh.ud, mh.uv)));
    else g->matter.Ground().updBody().addContactSurface(Xhalf, ContactSurface(ContactGeometry::HalfSpace(), ContactMaterial(mh.k, mh.c, mh.us, mh.ud, mh.uv)));
    Body::Rigid b = Rig::randBody(r);
    double radius = r.range(0.3, 1.0); Vec3 hdim(r.range(0.2, 0.8), r.range(0.2, 0.8), r.range(0.2, 0.8));
    Transform XBS(randRot(r), randVec(r, 0.3));
    if (kindS == 0 || kindS == 3) b.addContactSurface(XBS, ContactSurface(ContactGeometry::TriangleMesh(PolygonalMesh::createSphereMesh(radius, 1 + r.below(2))),
                                                            ContactMaterial(mb.k, mb.c, mb.us, mb.ud, mb.uv), r.range(0.05, 0.3)));
    else if (kindS == 1) b.addContactSurface(XBS, ContactSurface(ContactGeometry::Brick(hdim), ContactMaterial(mb.k, mb.c, mb.us, mb.ud, mb.uv)));
    else b.addContactSurface(XBS, ContactSurface(ContactGeometry::Ellipsoid(hdim), ContactMaterial(mb.k, mb.c, mb.us, mb.ud, mb.uv)));
    g->body.push_back(MobilizedBody::Free(g->matter.Ground(), Transform(), b, Transform())); g->kind.push_back(1);
    g->topo();
    Rotation Rb = randRot(r);
    Vec3 nOut = kindS == 3 ? Vec3(UnitVec3(randVec(r, 1) + Vec3(0.01, 0.02, 0.03))) : Vec3(-(Xhalf.R() * Vec3(1, 0, 0)));
    double reach = (kindS == 0 || kindS == 3) ? radius : std::min(hdim[0], std::min(hdim[1], hdim[2]));
    double depth = separated ? -r.range(0.01, 0.2) : r.range(0.05, 0.3) * reach;
    double ext = radius;
    Vec3 nB = ~(Rb * XBS.R()) * (-nOut);          // direction towards the half space in the surface frame
    if (kindS == 1) ext = std::abs(nB[0]) * hdim[0] + std::abs(nB[1]) * hdim[1] + std::abs(nB[2]) * hdim[2];
    if (kindS == 2) ext = std::sqrt(square(nB[0] * hdim[0]) + square(nB[1] * hdim[1]) + square(nB[2] * hdim[2]));   // support function of the ellipsoid
    Vec3 centre = kindS == 3 ? Xhalf.p() + (rG + radius - depth) * nOut
                             : Xhalf.p() + (ext - depth) * nOut + r.range(-1, 1) * (Xhalf.R() * Vec3(0, 1, 0));
    std::vector<Transform> X = {Transform(), Transform(Rb, centre - Rb * XBS.p())};
    // HertzElliptical: the Hertz stiffness depends on the local curvatures at the contact point; they change when the
    // ellipsoid rotates ("rolling"), which the fixed-geometry reading of C12 excludes -> own class and key
    bool rolling = !(kindS == 2 && wantC12() && ((i / 4) % 2 == 0));
    std::vector<SpatialVec> V = {SpatialVec(Vec3(0), Vec3(0)), SpatialVec(rolling ? randVec(r, 1.5) : Vec3(0), randVec(r, 0.6))};
    g->fit(X, V);
    g->sys.realize(g->s, Stage::Dynamics);
    std::printf("I pc %d\n", 200 + kindS); vh::O("pc").d(0.0).emit();
    int nf = compliant.getNumContactForces(g->s);
    double mom = 0, loss = 0, minLoss = 0; Vec3 Ftot(0);
    for (int k = 0; k < nf; ++k) { const ContactForce& cf = compliant.getContactForce(g->s, k);
        mom = std::max(mom, cf.getForceOnSurface2()[0].norm()); loss += cf.getPowerDissipation(); minLoss = std::min(minLoss, cf.getPowerDissipation()); Ftot += cf.getForceOnSurface2()[1]; }
    static const char* names[] = {"ElasticFoundation", "BrickHalfSpace", "HertzElliptical", "ElasticFoundationSphere"};
    static const char* tags[] = {"mesh", "brick", "ellipsoid", "meshsphere"};
    const std::string key = std::string("CompliantContactSubsystem.") + names[kindS] + ((kindS == 2 && wantC12() && rolling) ? ".rolling" : "");
    vh::D(std::string("compliant.") + tags[kindS] + ((kindS == 2 && wantC12()) ? (rolling ? ".rolling" : ".translating") : "") + (separated ? ".separated" : nf == 0 ? ".nocontact" : mom > 0 ? ".with_moment" : ".pure_force"));
    const Vector_<SpatialVec>& F = g->sys.getRigidBodyForces(g->s, Stage::Dynamics);
    if (wantC13()) thirdLaw(key, *g, g->s, F);
    if (wantC12()) c12SystemLines(key, *g, g->s, mb.c != 0 || mh.c != 0 || mb.us != 0 || mh.us != 0 || mb.ud != 0 || mb.uv != 0 || mh.ud != 0 || mh.uv != 0, loss);
    if (!wantC37()) return;
    double Fb = F[1][1].norm() + F[1][0].norm();
    if (separated) { vh::P("vanishes_without_penetration", key + ".no_penetration", Fb + std::abs(g->sys.calcPotentialEnergy(g->s)), 0); return; }
    double sc = std::max(1.0, F[1][1].norm());
    // the body is surface 2 of every contact here? not necessarily: use the system-level force on the moving body
    vh::P("normal_nonattractive", key + ".normal_nonattractive", -dot(F[1][1], nOut), 1e-9 * sc);
    vh::P("dissipation_nonnegative", key + ".power_loss_nonneg", -minLoss, 1e-12 * sc);
    vh::P("pe_nonnegative", key + ".pe_nonneg", -g->sys.calcPotentialEnergy(g->s), 0);
    if (kindS == 2 && nf == 1) {
        // Hertz elliptical: friction bounded by the static coefficient + viscous term, acting against the slip at the contact point
        const ContactForce& cf = compliant.getContactForce(g->s, 0);
        Vec3 cp = cf.getContactPoint();
        Vec3 vB = g->body[1].findStationVelocityInGround(g->s, g->body[1].findStationAtGroundPoint(g->s, cp));
        Vec3 vt = vB - dot(vB, nOut) * nOut;
        auto comb2 = [](double a, double bb) { double u = 2 * a * bb; return u != 0 ? u / (a + bb) : u; };
        contactPredicates(key, nOut, F[1][1], vB, comb2(mh.us, mb.us) + comb2(mh.uv, mb.uv) * vt.norm(), false);
        vh::P("pure_force", key + ".no_moment", cf.getForceOnSurface2()[0].norm(), 0);
    }
}

static bool runContact(const std::string& fn, Src& c, bool degenerate) {
    if (fn == "hc") { elemHC(c, 0); return true; }
    if (fn == "smooth") { elemSmooth(c, 0); return true; }
    if (fn == "expn") { elemExp(c); return true; }
    if (fn == "expnPE") { elemExp(c, true); return true; }
    if (fn == "hertz") { elemHertz(c, 0); return true; }
    if (fn == "ef") { elemEF(c); return true; }
    if (fn == "cable") { elemCable(c); return true; }
    if (fn == "dissHC" || fn == "dissEF" || fn == "dissStop") {
        std::string keep = MODE; MODE = "c12"; gDissOnly = true;
        if (fn == "dissHC") elemHC(c, 0); else if (fn == "dissEF") elemEF(c); else elemMobility(c, "mobStop");
        gDissOnly = false; MODE = keep; return true;
    }
    (void)degenerate;
    return false;
}
static bool runContactMode(const std::string& mode, long i, Src& c) {
    if (mode == "c37") {
        switch (i % 12) {
            case 8: elemEF(c); break;
            case 9: case 10: elemCompliantOther(c, 2 * (i / 12) + (i % 12 - 9)); break;
            case 11: elemExpAnchor(c); break;
            case 0: case 1: elemHC(c, 0); break;
            case 2: elemHC(c, 2); break;
            case 3: elemSmooth(c, 0); break;
            case 4: elemExp(c); break;
            case 5: case 6: elemHertz(c, 0); break;
            default: elemHertz(c, 2); break;
        }
        return true;
    }
    if (mode == "c37multi") { elemHC(c, 1); return true; }
    if (mode == "c37deg") { elemSmooth(c, 1 + (int)(i % 2)); return true; }
    if (mode == "c13contact") {
        std::string keep = MODE; MODE = "c13";
        switch (i % 8) { case 0: elemHC(c, 0); break; case 1: elemSmooth(c, 0); break; case 2: elemExp(c); break; case 3: elemHertz(c, 0); break;
                         case 4: elemEF(c); break; case 5: elemCable(c); break; case 6: elemCompliantOther(c, i / 8); break; default: elemHertz(c, 0); break; }
        MODE = keep; return true;
    }
    if (mode == "c12contact") {
        std::string keep = MODE; MODE = "c12";
        switch (i % 8) { case 0: elemHC(c, 0); break; case 1: elemEF(c); break; case 2: elemExp(c, true); break; case 3: elemHertz(c, 0); break;
                         case 4: elemCable(c); break; case 5: elemHC(c, 3); break; case 6: elemCompliantOther(c, i / 8); break; default: elemExp(c, true); break; }
        MODE = keep; return true;
    }
    return false;
}
// CONTACT-END
// PARAM-BEGIN
// ================================================================================================ parameter changes
// "Changes to an element's parameters, enable state or exclusions take effect at the next realization":
// realize(Dynamics) with parameters A, write parameters B into the same State, realize again, and compare what
// the System then applies (system-level force arrays + potential energy) with a *fresh* State carrying B.
static std::vector<double> observe(const Rig& g, const State& s) {
    g.sys.realize(s, Stage::Dynamics);
    std::vector<double> o;
    const Vector_<SpatialVec>& F = g.sys.getRigidBodyForces(s, Stage::Dynamics);
    for (int b = 0; b < F.size(); ++b) for (int k = 0; k < 2; ++k) for (int j = 0; j < 3; ++j) o.push_back(F[b][k][j]);
    const Vector& m = g.sys.getMobilityForces(s, Stage::Dynamics);
    for (int i = 0; i < m.size(); ++i) o.push_back(m[i]);
    o.push_back(g.sys.calcPotentialEnergy(s));
    return o;
}
static double maxDiff(const std::vector<double>& a, const std::vector<double>& b, double& scale) {
    double d = a.size() == b.size() ? 0 : INFINITY; scale = 1;
    for (size_t i = 0; i < std::min(a.size(), b.size()); ++i) {
        double e = std::abs(a[i] - b[i]); if (!(e <= d)) d = e;      // NaN propagates
        scale = std::max(scale, std::max(std::abs(a[i]), std::abs(b[i])));
    }
    return d;
}
static const int NPARAM = 30;
static void runParam(long i, Src& c) {
    vh::Rng& r = *c.rng;
    int id = (int)(i % NPARAM);
    std::unique_ptr<Rig> g(new Rig());
    int nb = 1 + r.below(3);
    bool mobility = id <= 6 || id == 18 || id == 20 || id == 26 || id == 27;
    int lastKind = mobility ? 2 + r.below(2) : 0;
    vh::Rng saved = r;                       // to rebuild the identical tree for the topology-level cases
    g->randomTree(r, nb, lastKind);
    MobilizedBody& mb = g->body[nb];
    std::string key; std::function<void(State&)> change; std::function<void()> topoChange; std::function<void(Rig&)> buildFresh;
    Force::MobilityLinearSpring mls; Force::MobilityLinearDamper mld; Force::MobilityConstantForce mcf; Force::MobilityLinearStop mst;
    Force::MobilityDiscreteForce mdf; Force::DiscreteForces df; Force::Gravity gr; Force::LinearBushing lb; Force::UniformGravity ug;
    Force::TwoPointLinearSpring tps;
    double A = r.range(0.5, 5), B = r.range(6, 12), A2 = r.range(-1, 1), B2 = r.range(-1, 1);
    Vec3 dirB = Vec3(UnitVec3(randVec(r, 1) + Vec3(0.1, 0.2, 0.3)));
    std::string rec;          // optional element record describing the post-change state
    switch (id) {
    case 0: mls = Force::MobilityLinearSpring(g->forces, mb, MobilizerQIndex(0), A, A2); key = "MobilityLinearSpring.setStiffness.after_realize";
            change = [&](State& s) { mls.setStiffness(s, B); }; break;
    case 1: mls = Force::MobilityLinearSpring(g->forces, mb, MobilizerQIndex(0), A, A2); key = "MobilityLinearSpring.setQZero.after_realize";
            change = [&](State& s) { mls.setQZero(s, B2); }; break;
    case 2: mld = Force::MobilityLinearDamper(g->forces, mb, MobilizerUIndex(0), A); key = "MobilityLinearDamper.setDamping.after_realize";
            change = [&](State& s) { mld.setDamping(s, B); }; break;
    case 3: mcf = Force::MobilityConstantForce(g->forces, mb, MobilizerUIndex(0), A); key = "MobilityConstantForce.setForce.after_realize";
            change = [&](State& s) { mcf.setForce(s, B); }; break;
    case 4: mst = Force::MobilityLinearStop(g->forces, mb, MobilizerQIndex(0), A, 0.3, -5, 5); key = "MobilityLinearStop.setBounds.after_realize";
            change = [&](State& s) { mst.setBounds(s, -0.01, 0.01); }; break;
    case 5: mst = Force::MobilityLinearStop(g->forces, mb, MobilizerQIndex(0), A, 0.3, -0.01, 0.01); key = "MobilityLinearStop.setMaterialProperties.after_realize";
            change = [&](State& s) { mst.setMaterialProperties(s, B, 0.7); }; break;
    case 6: mdf = Force::MobilityDiscreteForce(g->forces, mb, MobilizerUIndex(0), A); key = "MobilityDiscreteForce.setMobilityForce.after_realize";
            change = [&](State& s) { mdf.setMobilityForce(s, B); }; break;
    case 7: df = Force::DiscreteForces(g->forces, g->matter); key = "DiscreteForces.set.after_realize";
            change = [&](State& s) { df.setOneBodyForce(s, mb, SpatialVec(Vec3(A, B, A2), Vec3(B2, A, B)));
                                     df.setOneMobilityForce(s, mb, MobilizerUIndex(0), B); }; break;
    case 8: gr = Force::Gravity(g->forces, g->matter, UnitVec3(0, -1, 0), A, A2); key = "Gravity.setMagnitude.after_realize";
            change = [&](State& s) { gr.setMagnitude(s, B); }; break;
    case 9: gr = Force::Gravity(g->forces, g->matter, UnitVec3(0, -1, 0), A, A2); key = "Gravity.setDownDirection.after_realize";
            change = [&](State& s) { gr.setDownDirection(s, UnitVec3(dirB, true)); }; break;
    case 10: gr = Force::Gravity(g->forces, g->matter, UnitVec3(0, -1, 0), A, A2); key = "Gravity.setZeroHeight.after_realize";
            change = [&](State& s) { gr.setZeroHeight(s, B2); }; break;
    case 11: gr = Force::Gravity(g->forces, g->matter, UnitVec3(0, -1, 0), A, A2); key = "Gravity.setBodyIsExcluded.after_realize";
            change = [&](State& s) { gr.setBodyIsExcluded(s, mb, true); }; break;
    case 12: gr = Force::Gravity(g->forces, g->matter, UnitVec3(0, -1, 0), A, A2); key = "Gravity.setGravityVector.after_realize";
            change = [&](State& s) { gr.setGravityVector(s, B * dirB); }; break;
    case 13: lb = Force::LinearBushing(g->forces, g->body[0], Transform(), mb, Transform(), Vec6(A), Vec6(0.5)); key = "LinearBushing.setStiffnessDamping.after_realize";
            change = [&](State& s) { lb.setStiffness(s, Vec6(B)); lb.setDamping(s, Vec6(A)); }; break;
    case 14: lb = Force::LinearBushing(g->forces, g->body[0], Transform(), mb, Transform(), Vec6(A), Vec6(0.5)); key = "LinearBushing.setFrameOnBody.after_realize";
            change = [&](State& s) { lb.setFrameOnBody1(s, Transform(Rotation(0.3, ZAxis), Vec3(A2, B2, 0.1))); lb.setFrameOnBody2(s, Transform(Rotation(-0.2, XAxis), Vec3(0.1, A2, B2))); }; break;
    case 15: tps = Force::TwoPointLinearSpring(g->forces, g->body[0], Vec3(A2, 0, 0), mb, Vec3(0, B2, 0), A, 0.5); key = "Force.disable.after_realize";
            change = [&](State& s) { tps.disable(s); }; break;
    case 16: tps = Force::TwoPointLinearSpring(g->forces, g->body[0], Vec3(A2, 0, 0), mb, Vec3(0, B2, 0), A, 0.5); tps.setDisabledByDefault(true); key = "Force.enable.after_realize";
            change = [&](State& s) { tps.enable(s); }; break;
    case 17: ug = Force::UniformGravity(g->forces, g->matter, Vec3(0, -A, 0), A2); key = "UniformGravity.setGravity.after_realizeTopology";
            topoChange = [&]() { ug.setGravity(B * dirB); ug.setZeroHeight(B2); };
            buildFresh = [&](Rig& r2) { Force::UniformGravity(r2.forces, r2.matter, B * dirB, B2); }; break;
    case 18: mls = Force::MobilityLinearSpring(g->forces, mb, MobilizerQIndex(0), A, A2); key = "MobilityLinearSpring.setDefaultStiffness.after_realizeTopology";
            topoChange = [&]() { mls.setDefaultStiffness(B); mls.setDefaultQZero(B2); };
            buildFresh = [&](Rig& r2) { Force::MobilityLinearSpring(r2.forces, r2.body[nb], MobilizerQIndex(0), B, B2); }; break;
    case 19: gr = Force::Gravity(g->forces, g->matter, UnitVec3(0, -1, 0), A, A2); key = "Gravity.setMagnitudeZeroAndBack.after_realize";
            change = [&](State& s) { gr.setMagnitude(s, 0); g->sys.realize(s, Stage::Dynamics); gr.setMagnitude(s, B); }; break;
    case 20: mst = Force::MobilityLinearStop(g->forces, mb, MobilizerQIndex(0), A, 0.3, -5, 5); key = "MobilityLinearStop.setDefaults.after_realizeTopology";
            topoChange = [&]() { mst.setDefaultBounds(-0.01, 0.01); mst.setDefaultMaterialProperties(B, 0.7); };
            buildFresh = [&](Rig& r2) { Force::MobilityLinearStop(r2.forces, r2.body[nb], MobilizerQIndex(0), B, 0.7, -0.01, 0.01); }; break;
    case 21: gr = Force::Gravity(g->forces, g->matter, UnitVec3(0, -1, 0), A, A2); key = "Gravity.setDefaults.after_realizeTopology";
            topoChange = [&]() { gr.setDefaultMagnitude(B); gr.setDefaultDownDirection(UnitVec3(dirB, true)); gr.setDefaultZeroHeight(B2); gr.setDefaultBodyIsExcluded(mb, true); };
            buildFresh = [&](Rig& r2) { Force::Gravity g2(r2.forces, r2.matter, UnitVec3(dirB, true), B, B2); g2.setDefaultBodyIsExcluded(r2.body[nb], true); }; break;
    case 22: gr = Force::Gravity(g->forces, g->matter, UnitVec3(0, -1, 0), A, A2); gr.setDefaultBodyIsExcluded(mb, true); key = "Gravity.reincludeBody.after_realize";
            change = [&](State& s) { gr.setBodyIsExcluded(s, mb, false); }; break;
    case 23: ug = Force::UniformGravity(g->forces, g->matter, Vec3(0, -A, 0), A2); key = "UniformGravity.setZeroHeight.after_realizeTopology";
            topoChange = [&]() { ug.setZeroHeight(B2); };
            buildFresh = [&](Rig& r2) { Force::UniformGravity(r2.forces, r2.matter, Vec3(0, -A, 0), B2); }; break;
    case 24: lb = Force::LinearBushing(g->forces, g->body[0], Transform(), mb, Transform(), Vec6(A), Vec6(0.5)); key = "LinearBushing.setDefaults.after_realizeTopology";
            topoChange = [&]() { lb.setDefaultStiffness(Vec6(B)); lb.setDefaultDamping(Vec6(A)); lb.setDefaultFrameOnBody1(Transform(Rotation(0.3, ZAxis), Vec3(A2, B2, 0.1))); lb.setDefaultFrameOnBody2(Transform(Rotation(-0.2, XAxis), Vec3(0.1, A2, B2))); };
            buildFresh = [&](Rig& r2) { Force::LinearBushing(r2.forces, r2.body[0], Transform(Rotation(0.3, ZAxis), Vec3(A2, B2, 0.1)), r2.body[nb], Transform(Rotation(-0.2, XAxis), Vec3(0.1, A2, B2)), Vec6(B), Vec6(A)); }; break;
    case 25: df = Force::DiscreteForces(g->forces, g->matter); key = "DiscreteForces.clearAll.after_realize";
            change = [&](State& s) { df.setOneBodyForce(s, mb, SpatialVec(Vec3(A, B, A2), Vec3(B2, A, B))); df.setOneMobilityForce(s, mb, MobilizerUIndex(0), B);
                                     g->sys.realize(s, Stage::Dynamics); df.clearAllForces(s); }; break;
    case 26: mld = Force::MobilityLinearDamper(g->forces, mb, MobilizerUIndex(0), A); key = "MobilityLinearDamper.setDefaultDamping.after_realizeTopology";
            topoChange = [&]() { mld.setDefaultDamping(B); };
            buildFresh = [&](Rig& r2) { Force::MobilityLinearDamper(r2.forces, r2.body[nb], MobilizerUIndex(0), B); }; break;
    case 27: mcf = Force::MobilityConstantForce(g->forces, mb, MobilizerUIndex(0), A); key = "MobilityConstantForce.setDefaultForce.after_realizeTopology";
            topoChange = [&]() { mcf.setDefaultForce(B); };
            buildFresh = [&](Rig& r2) { Force::MobilityConstantForce(r2.forces, r2.body[nb], MobilizerUIndex(0), B); }; break;
    case 28: tps = Force::TwoPointLinearSpring(g->forces, g->body[0], Vec3(A2, 0, 0), mb, Vec3(0, B2, 0), A, 0.5); key = "Force.setDisabledByDefault.after_realizeTopology";
            topoChange = [&]() { tps.setDisabledByDefault(true); };
            buildFresh = [&](Rig&) { /* no force at all */ }; break;
    default: tps = Force::TwoPointLinearSpring(g->forces, g->body[0], Vec3(A2, 0, 0), mb, Vec3(0, B2, 0), A, 0.5); tps.setDisabledByDefault(true); key = "Force.setEnabledByDefault.after_realizeTopology";
            topoChange = [&]() { tps.setDisabledByDefault(false); };
            buildFresh = [&](Rig& r2) { Force::TwoPointLinearSpring(r2.forces, r2.body[0], Vec3(A2, 0, 0), r2.body[nb], Vec3(0, B2, 0), A, 0.5); }; break;
    }
    g->topo(); g->randomState(r);
    if (id == 4 || id == 5 || id == 20) mb.setOneQ(g->s, 0, r.coin() ? 0.7 : -0.6);
    std::vector<double> before = observe(*g, g->s), after, fresh;
    if (topoChange) {
        Vector q = g->s.getQ(), u = g->s.getU();
        topoChange();
        State s1 = g->sys.realizeTopology(); g->sys.realizeModel(s1); s1.updQ() = q; s1.updU() = u;
        after = observe(*g, s1);
        // fresh: an independently constructed identical system whose element is *constructed* with the new values
        Rig g2; vh::Rng again = saved; g2.randomTree(again, nb, lastKind);
        buildFresh(g2);
        g2.topo(); g2.s.updQ() = q; g2.s.updU() = u;
        fresh = observe(g2, g2.s);
        g->s = s1;
    } else {
        change(g->s);
        after = observe(*g, g->s);
        State s2 = g->sys.getDefaultState(); s2.updQ() = g->s.getQ(); s2.updU() = g->s.getU();
        change(s2);
        fresh = observe(*g, s2);
    }
    // element record at the post-change state for the mobility springs/dampers/stops: the model must agree with what
    // the System applies *after* the change
    g->sys.realize(g->s, Stage::Dynamics);
    double q = mobility ? mb.getOneQ(g->s, 0) : 0, u = mobility ? mb.getOneU(g->s, 0) : 0;
    const Vector& mobF = g->sys.getMobilityForces(g->s, Stage::Dynamics);
    double fm = mobility ? mb.getOneFromUPartition(g->s, MobilizerUIndex(0), mobF) : 0;
    double pe = g->sys.calcPotentialEnergy(g->s);
    switch (id) {
    case 0: std::printf("I mobSpring %s %s %s\n", hex(B).c_str(), hex(A2).c_str(), hex(q).c_str()); vh::O("mobSpring").d(fm).d(pe).emit(); break;
    case 1: std::printf("I mobSpring %s %s %s\n", hex(A).c_str(), hex(B2).c_str(), hex(q).c_str()); vh::O("mobSpring").d(fm).d(pe).emit(); break;
    case 18: std::printf("I mobSpring %s %s %s\n", hex(B).c_str(), hex(B2).c_str(), hex(q).c_str()); vh::O("mobSpring").d(fm).d(pe).emit(); break;
    case 2: case 26: std::printf("I mobDamper %s %s\n", hex(B).c_str(), hex(u).c_str()); vh::O("mobDamper").d(fm).d(pe).emit(); break;
    case 20: std::printf("I mobStop %s %s %s %s %s %s\n", hex(B).c_str(), hex(0.7).c_str(), hex(-0.01).c_str(), hex(0.01).c_str(), hex(q).c_str(), hex(mb.getOneQDot(g->s, 0)).c_str());
            vh::O("mobStop").d(fm).d(pe).emit(); break;
    case 3: case 6: case 27: std::printf("I mobConst %s\n", hex(B).c_str()); vh::O("mobConst").d(fm).d(pe).emit(); break;
    case 4: std::printf("I mobStop %s %s %s %s %s %s\n", hex(A).c_str(), hex(0.3).c_str(), hex(-0.01).c_str(), hex(0.01).c_str(), hex(q).c_str(), hex(mb.getOneQDot(g->s, 0)).c_str());
            vh::O("mobStop").d(fm).d(pe).emit(); break;
    case 5: std::printf("I mobStop %s %s %s %s %s %s\n", hex(B).c_str(), hex(0.7).c_str(), hex(-0.01).c_str(), hex(0.01).c_str(), hex(q).c_str(), hex(mb.getOneQDot(g->s, 0)).c_str());
            vh::O("mobStop").d(fm).d(pe).emit(); break;
    default: std::printf("I pc %d\n", id); vh::O("pc").d(0.0).emit(); break;
    }
    double scale, d = maxDiff(after, fresh, scale);
    vh::P("param_change_effective_next_realize", key, d, 1e-12 * scale);
    double sc2, moved = maxDiff(before, after, sc2);
    vh::D(std::string("param.") + key + (moved > 1e-9 ? ".changed" : ".nochange"));
}
// PARAM-END

static void runOne(const std::string& fn, Src& c, bool degenerate = false) {
    if (fn == "tpSpring" || fn == "tpDamper" || fn == "tpConst") { if (c.replay) elemTwoPointReplay(c, fn); else elemTwoPoint(c, fn, degenerate); }
    else if (fn == "constForce" || fn == "constTorque") elemConst(c, fn);
    else if (fn == "mobSpring" || fn == "mobDamper" || fn == "mobConst" || fn == "mobDiscrete" || fn == "mobStop") elemMobility(c, fn);
    else if (fn == "globalDamper") elemGlobalDamper(c);
    else if (fn == "uniformGravity") elemGravity(c, true);
    else if (fn == "gravity") elemGravity(c, false);
    else if (fn == "bushing") elemBushing(c);
    else if (fn == "discrete") elemDiscrete(c);
    else if (!runContact(fn, c, degenerate)) { std::puts(gOrig.c_str()); std::printf("O %s UNSUPPORTED\n", fn.c_str()); }
}

int main(int argc, char** argv) {
    vh::Args a(argc, argv);
    MODE = a.mode;
    vh::Rng rng(a.seed * 1000003ull + 17);
    try {
        if (MODE == "replay") {
            std::string line;
            while (std::getline(std::cin, line)) {
                if (line.compare(0, 2, "I ") != 0) continue;
                std::istringstream is(line); std::string t; std::vector<std::string> toks;
                while (is >> t) toks.push_back(t);
                if (toks.size() < 2) continue;
                Src c; c.replay = true; c.rng = &rng; c.toks.assign(toks.begin() + 2, toks.end());
                gOrig = line;
                MODE = "c13"; gReplayAll = true;    // replay evaluates the predicates of all four properties
                try { runOne(toks[1], c); } catch (const std::exception& e) { std::puts(line.c_str()); std::printf("O %s EXC:%s\n", toks[1].c_str(), "std::exception"); }
                MODE = "replay";
            }
            return 0;
        }
        static const char* c38elems[] = {"tpSpring", "tpDamper", "tpConst", "constForce", "constTorque", "mobSpring", "mobDamper",
                                         "mobConst", "mobDiscrete", "mobStop", "globalDamper", "uniformGravity", "gravity", "bushing", "cable", "discrete"};
        static const char* c13elems[] = {"tpSpring", "tpDamper", "tpConst", "bushing"};
        long N = a.n;
        if (MODE == "c38deg" || MODE == "c37deg") N = std::max(30L, a.n / 6);
        for (long i = 0; i < N; ++i) {
            Src c; c.rng = &rng;
            if (MODE == "" || MODE == "c38" || MODE == "c12") runOne(c38elems[i % 16], c);
            else if (MODE == "c38deg") runOne(c13elems[i % 3], c, true);
            else if (MODE == "c13") runOne(c13elems[i % 4], c);
            else if (MODE == "c38param") runParam(i, c);
            else if (!runContactMode(MODE, i, c)) { std::fprintf(stderr, "unknown mode %s\n", MODE.c_str()); return 3; }
        }
    } catch (const std::exception& e) {
        std::fprintf(stderr, "harness exception: %s\n", e.what());
        return 4;
    }
    return 0;
}
