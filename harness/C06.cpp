// C06 metamorphic correspondence harness: physics is independent of the chosen representation.
//   I tree <n> { <parent> <type> <rev> <euler=0> <axisX> par[8] X_PF[12] X_BM[12] q[7] u[6] } x n   station[3] g[3] X_reloc[12]
//     O X_GB.i V_GB.i : body poses / velocities reported by the EULER-converted state (convertToEulerAngles) of the
//                       quaternion-mode model described by the record; the Lean driver computes them from the record.
// P lines compare pairs of C++ models / states (public API only), gravity + velocity-dependent inertial forces acting:
//   convert_keeps_u : the conversions copy the generalized speeds (as documented)
//   euler_pose/vel/acc, quat_back_pose/vel/acc : with u carried over, the converted states give the same X_GB, V_GB, A_GB
//   rev_pose/vel/acc     : twin with the direction of every invertible-type mobilizer flipped, fitted to the same X_FM, V_FM
//   fb_pose/vel/acc      : MobilizedBody::FunctionBased mirrors of Pin/Slider/Cylinder/Planar/Universal/Gimbal/Bushing/Translation
//   reloc_pose/vel/acc   : whole model (and gravity) rigidly relocated w.r.t. Ground
// D tags: tree size, body types, which variants applied.
#include "mobilizer_common.h"
using namespace SimTK;
using namespace mob;

struct Kin { std::vector<Transform> X; std::vector<SpatialVec> V, A; };
static Kin kinOf(const Sys& S, const State& s) {
    Kin k;
    for (const MobilizedBody& m : S.mobods) { k.X.push_back(m.getBodyTransform(s)); k.V.push_back(m.getBodyVelocity(s)); k.A.push_back(m.getBodyAcceleration(s)); }
    return k;
}
// compare variant kinematics with the base after mapping by the rigid map X (identity unless relocated)
static void cmpKin(const std::string& pred, const std::string& key, const Kin& base, const Kin& var, const Transform& X, bool acc, double tol) {
    double eX = 0, eV = 0, eA = 0;
    for (size_t i = 0; i < base.X.size(); ++i) {
        eX = std::max(eX, xfDiff(var.X[i], X * base.X[i]));
        eV = std::max(eV, svDiff(var.V[i], X.R() * base.V[i]));
        eA = std::max(eA, svDiff(var.A[i], X.R() * base.A[i]));
    }
    vh::P(pred + "_pose", key + "." + pred + "_pose", eX, tol);
    vh::P(pred + "_vel", key + "." + pred + "_vel", eV, tol);
    if (acc) vh::P(pred + "_acc", key + "." + pred + "_acc", eA, 100 * tol);
}
static bool invertible(int t) {   // X_T(q)^-1 is again of the form X_T(q') and the fit routines find q', u'
    return t == PIN || t == SLIDER || t == CYLINDER || t == SCREW || t == TRANSLATION || t == PLANAR || t == BALL || t == FREE;
}

static void runTree(const std::vector<Case>& cs, const Vec3& station, const Vec3& g, const Transform& X_reloc) {
    const bool euler = false;
    BuildOpts o0; o0.gravity = true; o0.g = g;
    std::unique_ptr<Sys> S = buildEx(cs, euler, o0);
    setQU(*S, cs);
    S->system.realize(S->state, Stage::Acceleration);
    const Kin base = kinOf(*S, S->state);

    bool hasLineOrientation = false, anyInv = false, anyFB = false;
    for (const Case& c : cs) { if (c.type == LINEORIENTATION) hasLineOrientation = true; if (invertible(c.type)) anyInv = true; if (hasFunctionMirror(c.type)) anyFB = true; }

    // ---- quaternion -> Euler (and back) on the same system
    State se; S->matter.convertToEulerAngles(S->state, se);
    // the header promises "all continuous and discrete State variables will be copied": check u, then restore it so
    // that the representation-independence of the physics is checked separately from that bookkeeping
    double eU = 0; for (int i = 0; i < se.getNU(); ++i) eU = std::max(eU, std::abs(se.getU()[i] - S->state.getU()[i]));
    se.updU() = S->state.getU();
    S->system.realize(se, Stage::Acceleration);
    const Kin ke = kinOf(*S, se);

    vh::Line l = vh::I("tree"); l.i((long long)cs.size());
    for (const Case& c : cs) { l.i(c.parent); putBody(l, c); }
    for (int i = 0; i < 3; ++i) l.d(station[i]);
    for (int i = 0; i < 3; ++i) l.d(g[i]);          // gravity and relocation travel with the record (exact replay)
    putX(l, X_reloc);
    l.emit();
    const Kin& shown = ke;
    for (size_t i = 0; i < cs.size(); ++i) { outX("X_GB." + std::to_string(i + 1), shown.X[i]); outSV("V_GB." + std::to_string(i + 1), shown.V[i]); }
    vh::D("tree.n" + std::to_string(cs.size()));
    for (const Case& c : cs) vh::D("tree." + std::string(typeName[c.type]) + (c.rev ? ".rev" : ".fwd"));

    // key = call site . input class: models containing a LineOrientation mobilizer are their own class
    const std::string ekey = hasLineOrientation ? "C06.withLineOrientation" : "C06.tree";
    vh::P("convert_keeps_u", ekey + ".convert_keeps_u", eU, 1e-14);
    cmpKin("euler", ekey, base, ke, Transform(), true, 1e-9);
    State sb; S->matter.convertToQuaternions(se, sb);
    double eUb = 0; for (int i = 0; i < sb.getNU(); ++i) eUb = std::max(eUb, std::abs(sb.getU()[i] - se.getU()[i]));
    vh::P("convert_back_keeps_u", ekey + ".convert_keeps_u", eUb, 1e-14);
    sb.updU() = se.getU();
    S->system.realize(sb, Stage::Acceleration);
    cmpKin("quat_back", ekey, base, kinOf(*S, sb), Transform(), true, 1e-9);

    // ---- reversed twin: flip every invertible-type mobilizer, fit its q,u to the same X_FM, V_FM (base to tip)
    if (anyInv) {
        BuildOpts o = o0; for (const Case& c : cs) o.flip.push_back(invertible(c.type));
        std::unique_ptr<Sys> T = buildEx(cs, euler, o);
        setQU(*T, cs);
        for (size_t i = 0; i < cs.size(); ++i) if (o.flip[i]) {
            T->mobods[i].setQToFitTransform(T->state, S->mobods[i].getMobilizerTransform(S->state));
            T->mobods[i].setUToFitVelocity(T->state, S->mobods[i].getMobilizerVelocity(S->state));
        }
        T->system.realize(T->state, Stage::Acceleration);
        cmpKin("rev", "C06.tree", base, kinOf(*T, T->state), Transform(), true, 1e-9);
        vh::D("variant.reversed");
    }
    // ---- FunctionBased mirrors
    if (anyFB) {
        BuildOpts o = o0; for (const Case& c : cs) o.functionBased.push_back(hasFunctionMirror(c.type));
        std::unique_ptr<Sys> T = buildEx(cs, euler, o);
        setQU(*T, cs);
        T->system.realize(T->state, Stage::Acceleration);
        cmpKin("fb", "C06.tree", base, kinOf(*T, T->state), Transform(), true, 1e-9);
        vh::D("variant.functionBased");
    }
    // ---- rigid relocation of the whole model (gravity turns with it)
    {
        BuildOpts o = o0; o.relocate = true; o.X_reloc = X_reloc; o.g = X_reloc.R() * g;
        std::unique_ptr<Sys> T = buildEx(cs, euler, o);
        setQU(*T, cs);
        T->system.realize(T->state, Stage::Acceleration);
        cmpKin("reloc", "C06.tree", base, kinOf(*T, T->state), X_reloc, true, 1e-9);
        vh::D("variant.relocated");
    }
}

// ---- Euler -> quaternion conversion starting from an Euler-mode state (any angles, not only converted ones)
static void canonQuat(double* q) {      // q and -q are the same rotation: make the largest component positive
    int m = 0; for (int i = 1; i < 4; ++i) if (std::abs(q[i]) > std::abs(q[m])) m = i;
    if (q[m] < 0) for (int i = 0; i < 4; ++i) q[i] = -q[i];
}
static void runE2Q(int type, const Vec3& ang, const Vec3& p, const Vec3& station) {
    Case c; c.type = type; c.euler = true;
    for (int i = 0; i < 3; ++i) { c.q[i] = ang[i]; c.u[i] = 0.3 + 0.1 * i; }
    const bool trans = (type == FREE || type == FREELINE);
    if (trans) for (int i = 0; i < 3; ++i) { c.q[3 + i] = p[i]; c.u[(type == FREE ? 3 : 2) + i] = 0.2 - 0.1 * i; }
    if (type == ELLIPSOID) { c.par[0] = 0.7; c.par[1] = 1.1; c.par[2] = 1.6; }
    std::vector<Case> cs(1, c);
    std::unique_ptr<Sys> S = build(cs, true);
    setQU(*S, cs);
    S->system.realize(S->state, Stage::Velocity);
    State sq; S->matter.convertToQuaternions(S->state, sq);
    S->system.realize(sq, Stage::Velocity);
    const MobilizedBody& m = S->mobods[0];
    vh::I("e2q").s(typeName[type]).v(ang, 3).v(p, 3).emit();
    double q[4]; for (int i = 0; i < 4; ++i) q[i] = m.getOneQ(sq, i);
    canonQuat(q);
    vh::Line l = vh::O("quat"); for (int i = 0; i < 4; ++i) l.d(q[i]);
    if (trans) for (int i = 0; i < 3; ++i) l.d(m.getOneQ(sq, 4 + i));
    l.emit();
    vh::D(std::string("e2q.") + typeName[type]);
    const std::string key = std::string("C06.e2q.") + typeName[type];
    vh::P("e2q_pose", key + ".e2q_pose", xfDiff(m.getBodyTransform(sq), m.getBodyTransform(S->state)), 1e-12);
    vh::P("e2q_vel", key + ".e2q_vel", svDiff(m.getBodyVelocity(sq), m.getBodyVelocity(S->state)), 1e-12);
    double n2 = 0; for (int i = 0; i < 4; ++i) n2 += q[i] * q[i];
    vh::P("e2q_unit", key + ".e2q_unit", std::abs(n2 - 1), 1e-13);
    (void)station;
}

// ---- FunctionBased mirror of one built-in mobilizer: its X_FM / V_FM are predicted by the model (Spec.fbX0)
static void runFB(const Case& c) {
    std::vector<Case> cs(1, c);
    BuildOpts o; o.functionBased.push_back(true);
    std::unique_ptr<Sys> S = buildEx(cs, false, o);
    setQU(*S, cs);
    S->system.realize(S->state, Stage::Velocity);
    putCase("fb", c);
    outX("X_FM", S->mobods[0].getMobilizerTransform(S->state));
    outSV("V_FM", S->mobods[0].getMobilizerVelocity(S->state));
    vh::D(std::string("fb.") + typeName[c.type] + (c.rev ? ".rev" : ".fwd"));
}

// ---- re-rooted twin (as TestReverseMobilizers): Ground-Free->P-T(reversed)->B  versus  Ground-Free->B'-T(forward)->P'
// with the mobilizer frames swapped; same q,u for T; the Free joint of the twin is fitted to B's pose and velocity.
static void runRR(const Case& c0, const Case& freeCase, const Vec3& g) {
    Case c = c0; c.rev = true; c.parent = 1;
    std::vector<Case> A; A.push_back(freeCase); A.push_back(c);
    Case t = c; t.rev = false; t.X_PF = c.X_BM; t.X_BM = c.X_PF; t.parent = 1;
    std::vector<Case> B; B.push_back(freeCase); B.push_back(t);
    BuildOpts o; o.gravity = true; o.g = g;
    std::unique_ptr<Sys> SA = buildEx(A, c.euler, o), SB = buildEx(B, c.euler, o);
    setQU(*SA, A); setQU(*SB, B);
    SA->system.realize(SA->state, Stage::Acceleration);
    // twin: root body B' placed where B is
    SB->mobods[0].setQToFitTransform(SB->state, SA->mobods[1].getBodyTransform(SA->state));
    SB->mobods[0].setUToFitVelocity(SB->state, SA->mobods[1].getBodyVelocity(SA->state));
    SB->system.realize(SB->state, Stage::Acceleration);
    putCase("rr", c);
    vh::D(std::string("rr.") + typeName[c.type] + (c.euler ? ".euler" : ".quat"));
    const std::string key = std::string("C06.rr.") + typeName[c.type];
    const MobilizedBody &PA = SA->mobods[0], &BA = SA->mobods[1], &BB = SB->mobods[0], &PB = SB->mobods[1];
    vh::P("rr_pose", key + ".rr_pose", std::max(xfDiff(PB.getBodyTransform(SB->state), PA.getBodyTransform(SA->state)),
                                               xfDiff(BB.getBodyTransform(SB->state), BA.getBodyTransform(SA->state))), 1e-9);
    vh::P("rr_vel", key + ".rr_vel", std::max(svDiff(PB.getBodyVelocity(SB->state), PA.getBodyVelocity(SA->state)),
                                             svDiff(BB.getBodyVelocity(SB->state), BA.getBodyVelocity(SA->state))), 1e-9);
    vh::P("rr_acc", key + ".rr_acc", std::max(svDiff(PB.getBodyAcceleration(SB->state), PA.getBodyAcceleration(SA->state)),
                                             svDiff(BB.getBodyAcceleration(SB->state), BA.getBodyAcceleration(SA->state))), 1e-7);
}

// ---- multi-argument FunctionBased mobilizers: spatial functions of TWO OR MORE coordinates with non-zero MIXED second
// partials, unequal speeds, checked at velocity, Coriolis (HDot*u) and acceleration level.
struct MultiFn : public Function {
    enum Kind { PolarX, PolarY, Prod2, SinProd, Prod3, SqProd } kind;
    explicit MultiFn(Kind k) : kind(k) {}
    int getArgumentSize() const override { return kind == Prod3 ? 3 : 2; }
    int getMaxDerivativeOrder() const override { return 2; }
    Real calcValue(const Vector& x) const override {
        switch (kind) { case PolarX: return x[1] * std::cos(x[0]); case PolarY: return x[1] * std::sin(x[0]); case Prod2: return x[0] * x[1];
                        case SinProd: return std::sin(x[0]) * x[1]; case Prod3: return x[0] * x[1] * x[2]; default: return x[1] * x[1] * x[0]; }
    }
    Real calcDerivative(const Array_<int>& d, const Vector& x) const override {
        if (d.size() == 0) return calcValue(x);
        if (d.size() == 1) { const int i = d[0];
            switch (kind) { case PolarX: return i == 0 ? -x[1] * std::sin(x[0]) : std::cos(x[0]);
                            case PolarY: return i == 0 ? x[1] * std::cos(x[0]) : std::sin(x[0]);
                            case Prod2: return i == 0 ? x[1] : x[0];
                            case SinProd: return i == 0 ? std::cos(x[0]) * x[1] : std::sin(x[0]);
                            case Prod3: return i == 0 ? x[1] * x[2] : i == 1 ? x[0] * x[2] : x[0] * x[1];
                            default: return i == 0 ? x[1] * x[1] : 2 * x[0] * x[1]; } }
        const int i = std::min(d[0], d[1]), j = std::max(d[0], d[1]);
        switch (kind) { case PolarX: return (i == 0 && j == 0) ? -x[1] * std::cos(x[0]) : (i == 0 && j == 1) ? -std::sin(x[0]) : 0;
                        case PolarY: return (i == 0 && j == 0) ? -x[1] * std::sin(x[0]) : (i == 0 && j == 1) ? std::cos(x[0]) : 0;
                        case Prod2: return (i == 0 && j == 1) ? 1 : 0;
                        case SinProd: return (i == 0 && j == 0) ? -std::sin(x[0]) * x[1] : (i == 0 && j == 1) ? std::cos(x[0]) : 0;
                        case Prod3: return i == j ? 0 : (i == 0 && j == 1) ? x[2] : (i == 0 && j == 2) ? x[1] : x[0];
                        default: return (i == 0 && j == 0) ? 0 : (i == 0 && j == 1) ? 2 * x[1] : 2 * x[0]; }
    }
    MultiFn* clone() const override { return new MultiFn(*this); }
};
static const char* const fbmName[4] = {"polarBend", "planarPolar", "coupledTrans3", "coupledRot2"};
static MobilizedBody addMultiFB(MobilizedBody& parent, int family, const Transform& X_PF, const Transform& X_BM, bool rev) {
    Body::Rigid body(MassProperties(1.3, Vec3(0.1, -0.2, 0.15), UnitInertia(1.1, 1.2, 1.3) * 1.3));
    std::vector<const Function*> f(6); std::vector<std::vector<int> > ix(6);
    for (int i = 0; i < 6; ++i) f[i] = 0;
    auto lin = [&](int slot, int coord) { Vector c(2); c[0] = 1; c[1] = 0; f[slot] = new Function::Linear(c); ix[slot] = std::vector<int>(1, coord); };
    auto mf = [&](int slot, MultiFn::Kind k, std::vector<int> coords) { f[slot] = new MultiFn(k); ix[slot] = coords; };
    int nm = 2;
    switch (family) {
      case 0: nm = 2; lin(2, 0); mf(3, MultiFn::PolarX, {0, 1}); mf(4, MultiFn::PolarY, {0, 1}); break;            // = BendStretch
      case 1: nm = 3; lin(2, 0); mf(3, MultiFn::PolarX, {2, 1}); mf(4, MultiFn::PolarY, {2, 1}); break;            // Planar, polar translation
      case 2: nm = 3; mf(3, MultiFn::Prod2, {0, 1}); mf(4, MultiFn::SinProd, {0, 1}); mf(5, MultiFn::Prod3, {0, 1, 2}); break;
      default: nm = 2; lin(0, 0); lin(1, 1); mf(3, MultiFn::Prod2, {0, 1}); mf(4, MultiFn::SinProd, {0, 1}); mf(5, MultiFn::SqProd, {0, 1}); break;
    }
    for (int i = 0; i < 6; ++i) if (!f[i]) f[i] = new Function::Constant(0, 0);
    return MobilizedBody::FunctionBased(parent, X_PF, body, X_BM, nm, f, ix, rev ? MobilizedBody::Reverse : MobilizedBody::Forward);
}
struct MiniSys { MultibodySystem system; SimbodyMatterSubsystem matter; GeneralForceSubsystem forces; std::vector<MobilizedBody> mobods; State state;
                 MiniSys() : matter(system), forces(system) {} };
static void finishMini(MiniSys& S, const Vec3& g) {
    Force::UniformGravity(S.forces, S.matter, g);
    S.system.realizeTopology(); S.state = S.system.getDefaultState(); S.system.realizeModel(S.state);
}
static void runFBM(int family, bool rev, unsigned long seed) {
    vh::Rng g(seed * 2654435761ull + 17);
    const Transform X_PF = randomFrame(g, g.below(3)), X_BM = randomFrame(g, g.below(3));
    const Transform cF = randomFrame(g, 2), cM = randomFrame(g, 1);         // a Pin child couples the dynamics
    const Vec3 grav(g.signedMag(1, 10), g.signedMag(1, 10), g.signedMag(1, 10));
    double q[3] = {g.range(-2.5, 2.5), g.signedMag(0.4, 2), g.range(-2.5, 2.5)};
    double u[3] = {g.signedMag(0.3, 2), g.signedMag(0.3, 2), g.signedMag(0.3, 2)};      // unequal, non-zero speeds
    if (family == 2) q[0] = g.signedMag(0.4, 1.2);
    const double qc = g.range(-3, 3), uc = g.signedMag(0.3, 2);
    Body::Rigid body(MassProperties(1.3, Vec3(0.1, -0.2, 0.15), UnitInertia(1.1, 1.2, 1.3) * 1.3));

    MiniSys A;
    A.mobods.push_back(addMultiFB(A.matter.updGround(), family, X_PF, X_BM, rev));
    A.mobods.push_back(MobilizedBody::Pin(A.mobods[0], cF, body, cM));
    finishMini(A, grav);
    const int nm = A.mobods[0].getNumQ(A.state);
    for (int k = 0; k < nm; ++k) { A.mobods[0].setOneQ(A.state, k, q[k]); A.mobods[0].setOneU(A.state, k, u[k]); }
    A.mobods[1].setOneQ(A.state, 0, qc); A.mobods[1].setOneU(A.state, 0, uc);
    A.system.realize(A.state, Stage::Acceleration);

    std::printf("I fbm %d %d %lu\n", family, (int)rev, seed);
    vh::D(std::string("fbm.") + fbmName[family] + (rev ? ".rev" : ".fwd"));
    const std::string key = std::string("C06.fbm.") + fbmName[family];

    // (a) implementation-only: velocity is d/dt pose, total Coriolis acceleration is d/dt V at fixed u (u = qdot here)
    {
        const double h = 1e-5; double eV = 0, eC = 0;
        State sp = A.state, sm = A.state;
        sp.updQ() = A.state.getQ() + h * A.state.getQDot(); sm.updQ() = A.state.getQ() - h * A.state.getQDot();
        A.system.realize(sp, Stage::Velocity); A.system.realize(sm, Stage::Velocity);
        for (const MobilizedBody& m : A.mobods) {
            eV = std::max(eV, svDiff(fdVelocity(m.getBodyTransform(sm), m.getBodyTransform(sp), h), m.getBodyVelocity(A.state)));
            const SpatialVec Vd = (m.getBodyVelocity(sp) - m.getBodyVelocity(sm)) / (2 * h);
            eC = std::max(eC, svDiff(Vd, A.matter.getTotalCoriolisAcceleration(A.state, m.getMobilizedBodyIndex())));
        }
        vh::P("fd_vel", key + ".fd_vel", eV, 1e-6);
        vh::P("fd_cor", key + ".fd_cor", eC, 1e-6);
    }
    // (b) twin built from a built-in mobilizer of the same mobility: BendStretch (same q,u), Planar / Translation (fitted)
    if (family <= 2) {
        MiniSys B;
        MobilizedBody::Direction d = rev ? MobilizedBody::Reverse : MobilizedBody::Forward;
        if (family == 0) B.mobods.push_back(MobilizedBody::BendStretch(B.matter.updGround(), X_PF, body, X_BM, d));
        else if (family == 1) B.mobods.push_back(MobilizedBody::Planar(B.matter.updGround(), X_PF, body, X_BM, d));
        else B.mobods.push_back(MobilizedBody::Translation(B.matter.updGround(), X_PF, body, X_BM, d));
        B.mobods.push_back(MobilizedBody::Pin(B.mobods[0], cF, body, cM));
        finishMini(B, grav);
        if (family == 0) for (int k = 0; k < 2; ++k) { B.mobods[0].setOneQ(B.state, k, q[k]); B.mobods[0].setOneU(B.state, k, u[k]); }
        else { B.mobods[0].setQToFitTransform(B.state, A.mobods[0].getMobilizerTransform(A.state));
               B.mobods[0].setUToFitVelocity(B.state, A.mobods[0].getMobilizerVelocity(A.state)); }
        B.mobods[1].setOneQ(B.state, 0, qc); B.mobods[1].setOneU(B.state, 0, uc);
        B.system.realize(B.state, Stage::Acceleration);
        double eX = 0, eV = 0, eA = 0, eC = 0;
        for (int i = 0; i < 2; ++i) {
            eX = std::max(eX, xfDiff(A.mobods[i].getBodyTransform(A.state), B.mobods[i].getBodyTransform(B.state)));
            eV = std::max(eV, svDiff(A.mobods[i].getBodyVelocity(A.state), B.mobods[i].getBodyVelocity(B.state)));
            eA = std::max(eA, svDiff(A.mobods[i].getBodyAcceleration(A.state), B.mobods[i].getBodyAcceleration(B.state)));
            eC = std::max(eC, svDiff(A.matter.getTotalCoriolisAcceleration(A.state, A.mobods[i].getMobilizedBodyIndex()),
                                     B.matter.getTotalCoriolisAcceleration(B.state, B.mobods[i].getMobilizedBodyIndex())));
        }
        vh::P("twin_pose", key + ".twin_pose", eX, 1e-9);
        vh::P("twin_vel", key + ".twin_vel", eV, 1e-9);
        vh::P("twin_acc", key + ".twin_acc", eA, 1e-7);
        if (family == 0) {      // same coordinates: HDot*u and udot are directly comparable
            vh::P("twin_cor", key + ".twin_cor", eC, 1e-9);
            double eU = 0; for (int k = 0; k < A.state.getNU(); ++k) eU = std::max(eU, std::abs(A.state.getUDot()[k] - B.state.getUDot()[k]) / std::max(1.0, std::abs(B.state.getUDot()[k])));
            vh::P("twin_udot", key + ".twin_udot", eU, 1e-7);
        }
    }
}

static void replay() {
    static char buf[1 << 18];
    while (std::fgets(buf, sizeof buf, stdin)) {
        std::istringstream is(buf); std::string k, fn; is >> k >> fn;
        if (k != "I") continue;
        if (fn == "fbm") { int fam, rv; unsigned long sd; if (is >> fam >> rv >> sd) runFBM(fam, rv != 0, sd); continue; }
        if (fn == "fb") { Case c; if (getCase(is, c)) runFB(c); continue; }
        if (fn == "rr") { Case c; if (getCase(is, c)) { vh::Rng g(4242); Case f = randomCase(g, FREE, 0, 0, false, c.euler);
                          runRR(c, f, Vec3(1.5, -9.0, 2.5)); } continue; }
        if (fn == "e2q") { std::string ty, t; is >> ty; double w[6]; bool ok = true; for (int i = 0; i < 6; ++i) { if (is >> t) w[i] = vh::unhex(t); else ok = false; }
                           if (ok && typeOf(ty) >= 0) runE2Q(typeOf(ty), Vec3(w[0], w[1], w[2]), Vec3(w[3], w[4], w[5]), Vec3(0)); continue; }
        if (fn != "tree") continue;
        int n; is >> n; std::vector<Case> cs; bool ok = true;
        for (int i = 0; i < n && ok; ++i) { Case c; std::vector<double> v; size_t kk; is >> c.parent; ok = getBody(is, c, v, kk); cs.push_back(c); }
        std::vector<double> w; std::string t; for (int i = 0; i < 18 && ok; ++i) { if (is >> t) w.push_back(vh::unhex(t)); else ok = false; }
        if (ok) { size_t kk = 6; Transform Xr = getX(w, kk); runTree(cs, Vec3(w[0], w[1], w[2]), Vec3(w[3], w[4], w[5]), Xr); }
    }
}

int main(int argc, char** argv) {
    vh::Args args(argc, argv);
    if (args.mode == "replay") { replay(); return 0; }
    vh::Rng g(args.seed * 7919 + 6);
    for (long k = 0; k < args.n; ++k) {
        int n = 1 + g.below(args.n > 2000 ? 10 : 5);
        int shape = g.below(3);
        std::vector<Case> cs;
        for (int i = 0; i < n; ++i) {
            Case c = randomCase(g, g.below(NTYPES), g.below(3), g.below(3), g.coin(), false);
            // unit quaternions only: the conversions normalise, so an unnormalised q is not preserved componentwise anyway
            if (usesQuat(c.type)) { double nn = 0; for (int j = 0; j < 4; ++j) nn += c.q[j] * c.q[j]; nn = std::sqrt(nn); for (int j = 0; j < 4; ++j) c.q[j] /= nn; c.unitQuat = true; }
            c.parent = (i == 0) ? 0 : (shape == 0 ? i : (shape == 1 ? 1 : 1 + g.below(i)));
            cs.push_back(c);
        }
        runTree(cs, Vec3(g.signedMag(0.1, 2), g.signedMag(0.1, 2), g.signedMag(0.1, 2)),
                Vec3(g.signedMag(1, 10), g.signedMag(1, 10), g.signedMag(1, 10)), randomFrame(g, 2));
    }
    // guaranteed shares of the single-mobilizer streams (about n/3 records each)
    const int e2qTypes[5] = {BALL, FREE, ELLIPSOID, LINEORIENTATION, FREELINE};
    for (long k = 0; k < std::max<long>(5, args.n / 3); ++k)
        runE2Q(e2qTypes[k % 5], Vec3(anyAngle(g), safeAngle(g), anyAngle(g)), Vec3(g.signedMag(0.1, 2), g.signedMag(0.1, 2), g.signedMag(0.1, 2)), Vec3(0));
    const int fbTypes[8] = {PIN, SLIDER, CYLINDER, PLANAR, UNIVERSAL, GIMBAL, BUSHING, TRANSLATION};
    for (long k = 0; k < std::max<long>(16, args.n / 3); ++k)
        runFB(randomCase(g, fbTypes[k % 8], g.below(3), g.below(3), (k / 8) % 2 == 1, false));
    // multi-argument FunctionBased families x direction: floor of 5 per class
    for (long k = 0; k < std::max<long>(40, args.n / 6); ++k) runFBM((int)(k % 4), (k / 4) % 2 == 1, (unsigned long)(args.seed * 100000 + k));
    for (long k = 0; k < std::max<long>(2 * (NTYPES - 1), args.n / 3); ++k) {
        int t = k % NTYPES; if (t == WELD) continue;
        const bool euler = (k / NTYPES) % 2 == 1;
        Case c = randomCase(g, t, g.below(3), g.below(3), true, euler);
        if (usesQuat(t) && !euler) { double nn = 0; for (int j = 0; j < 4; ++j) nn += c.q[j] * c.q[j]; nn = std::sqrt(nn); for (int j = 0; j < 4; ++j) c.q[j] /= nn; }
        vh::Rng gf(4242); Case f = randomCase(gf, FREE, 0, 0, false, euler);
        if (!euler) { double nn = 0; for (int j = 0; j < 4; ++j) nn += f.q[j] * f.q[j]; nn = std::sqrt(nn); for (int j = 0; j < 4; ++j) f.q[j] /= nn; }
        runRR(c, f, Vec3(1.5, -9.0, 2.5));
    }
    return 0;
}
