// C06 metamorphic correspondence harness: physics is independent of the chosen representation.
//   I tree <n> { <parent> <type> <rev> <euler=0> <axisX> par[8] X_PF[12] X_BM[12] q[7] u[6] } x n   station[3] g[3] X_reloc[12]
//     O X_GB.i V_GB.i : body poses / velocities reported by the EULER-converted state (convertToEulerAngles) of the
//                       quaternion-mode model described by the record; the Lean driver computes them from the record.
// P lines compare pairs of C++ models / states (public API only), gravity + velocity-dependent inertial forces acting:
//   convert_keeps_u : the conversions copy the generalized speeds (as documented)
//   euler_pose/vel/acc, quat_back_pose/vel/acc : with u carried over, the converted states give the same X_GB, V_GB, A_GB
//   rev_pose/vel/acc     : twin with the direction of every invertible-type mobilizer flipped, fitted to the same X_FM, V_FM
//   fb_pose/vel/acc      : MobilizedBody::FunctionBased mirrors of Pin/Slider/Cylinder/Planar/Universal/Gimbal/Bushing/Translation
//   reloc_pose/vel/acc   : whole model (and gravity) rigidly relocated w.r.t. Ground
// D tags: tree size, body types, which variants applied.
#include "mobilizer_common.h"
using namespace SimTK;
using namespace mob;

struct Kin { std::vector<Transform> X; std::vector<SpatialVec> V, A; };
static Kin kinOf(const Sys& S, const State& s) {
    Kin k;
    for (const MobilizedBody& m : S.mobods) { k.X.push_back(m.getBodyTransform(s)); k.V.push_back(m.getBodyVelocity(s)); k.A.push_back(m.getBodyAcceleration(s)); }
    return k;
}
// compare variant kinematics with the base after mapping by the rigid map X (identity unless relocated)
static void cmpKin(const std::string& pred, const std::string& key, const Kin& base, const Kin& var, const Transform& X, bool acc, double tol) {
    double eX = 0, eV = 0, eA = 0;
    for (size_t i = 0; i < base.X.size(); ++i) {
        eX = std::max(eX, xfDiff(var.X[i], X * base.X[i]));
        eV = std::max(eV, svDiff(var.V[i], X.R() * base.V[i]));
        eA = std::max(eA, svDiff(var.A[i], X.R() * base.A[i]));
    }
    vh::P(pred + "_pose", key + "." + pred + "_pose", eX, tol);
    vh::P(pred + "_vel", key + "." + pred + "_vel", eV, tol);
    if (acc) vh::P(pred + "_acc", key + "." + pred + "_acc", eA, 100 * tol);
}
static bool invertible(int t) {   // X_T(q)^-1 is again of the form X_T(q') and the fit routines find q', u'
    return t == PIN || t == SLIDER || t == CYLINDER || t == SCREW || t == TRANSLATION || t == PLANAR || t == BALL || t == FREE;
}

static void runTree(const std::vector<Case>& cs, const Vec3& station, const Vec3& g, const Transform& X_reloc) {
    const bool euler = false;
    BuildOpts o0; o0.gravity = true; o0.g = g;
    std::unique_ptr<Sys> S = buildEx(cs, euler, o0);
    setQU(*S, cs);
    S->system.realize(S->state, Stage::Acceleration);
    const Kin base = kinOf(*S, S->state);

    bool hasLineOrientation = false, anyInv = false, anyFB = false;
    for (const Case& c : cs) { if (c.type == LINEORIENTATION) hasLineOrientation = true; if (invertible(c.type)) anyInv = true; if (hasFunctionMirror(c.type)) anyFB = true; }

    // ---- quaternion -> Euler (and back) on the same system
    State se; S->matter.convertToEulerAngles(S->state, se);
    // the header promises "all continuous and discrete State variables will be copied": check u, then restore it so
    // that the representation-independence of the physics is checked separately from that bookkeeping
    double eU = 0; for (int i = 0; i < se.getNU(); ++i) eU = std::max(eU, std::abs(se.getU()[i] - S->state.getU()[i]));
    se.updU() = S->state.getU();
    S->system.realize(se, Stage::Acceleration);
    const Kin ke = kinOf(*S, se);

    vh::Line l = vh::I("tree"); l.i((long long)cs.size());
    for (const Case& c : cs) { l.i(c.parent); putBody(l, c); }
    for (int i = 0; i < 3; ++i) l.d(station[i]);
    for (int i = 0; i < 3; ++i) l.d(g[i]);          // gravity and relocation travel with the record (exact replay)
    putX(l, X_reloc);
    l.emit();
    const Kin& shown = ke;
    for (size_t i = 0; i < cs.size(); ++i) { outX("X_GB." + std::to_string(i + 1), shown.X[i]); outSV("V_GB." + std::to_string(i + 1), shown.V[i]); }
    vh::D("tree.n" + std::to_string(cs.size()));
    for (const Case& c : cs) vh::D("tree." + std::string(typeName[c.type]) + (c.rev ? ".rev" : ".fwd"));

    // key = call site . input class: models containing a LineOrientation mobilizer are their own class
    const std::string ekey = hasLineOrientation ? "C06.withLineOrientation" : "C06.tree";
    vh::P("convert_keeps_u", ekey + ".convert_keeps_u", eU, 1e-14);
    cmpKin("euler", ekey, base, ke, Transform(), true, 1e-9);
    State sb; S->matter.convertToQuaternions(se, sb);
    double eUb = 0; for (int i = 0; i < sb.getNU(); ++i) eUb = std::max(eUb, std::abs(sb.getU()[i] - se.getU()[i]));
    vh::P("convert_back_keeps_u", ekey + ".convert_keeps_u", eUb, 1e-14);
    sb.updU() = se.getU();
    S->system.realize(sb, Stage::Acceleration);
    cmpKin("quat_back", ekey, base, kinOf(*S, sb), Transform(), true, 1e-9);

    // ---- reversed twin: flip every invertible-type mobilizer, fit its q,u to the same X_FM, V_FM (base to tip)
    if (anyInv) {
        BuildOpts o = o0; for (const Case& c : cs) o.flip.push_back(invertible(c.type));
        std::unique_ptr<Sys> T = buildEx(cs, euler, o);
        setQU(*T, cs);
        for (size_t i = 0; i < cs.size(); ++i) if (o.flip[i]) {
            T->mobods[i].setQToFitTransform(T->state, S->mobods[i].getMobilizerTransform(S->state));
            T->mobods[i].setUToFitVelocity(T->state, S->mobods[i].getMobilizerVelocity(S->state));
        }
        T->system.realize(T->state, Stage::Acceleration);
        cmpKin("rev", "C06.tree", base, kinOf(*T, T->state), Transform(), true, 1e-9);
        vh::D("variant.reversed");
    }
    // ---- FunctionBased mirrors
    if (anyFB) {
        BuildOpts o = o0; for (const Case& c : cs) o.functionBased.push_back(hasFunctionMirror(c.type));
        std::unique_ptr<Sys> T = buildEx(cs, euler, o);
        setQU(*T, cs);
        T->system.realize(T->state, Stage::Acceleration);
        cmpKin("fb", "C06.tree", base, kinOf(*T, T->state), Transform(), true, 1e-9);
        vh::D("variant.functionBased");
    }
    // ---- rigid relocation of the whole model (gravity turns with it)
    {
        BuildOpts o = o0; o.relocate = true; o.X_reloc = X_reloc; o.g = X_reloc.R() * g;
        std::unique_ptr<Sys> T = buildEx(cs, euler, o);
        setQU(*T, cs);
        T->system.realize(T->state, Stage::Acceleration);
        cmpKin("reloc", "C06.tree", base, kinOf(*T, T->state), X_reloc, true, 1e-9);
        vh::D("variant.relocated");
    }
}

// ---- Euler -> quaternion conversion starting from an Euler-mode state (any angles, not only converted ones)
static void canonQuat(double* q) {      // q and -q are the same rotation: make the largest component positive
    int m = 0; for (int i = 1; i < 4; ++i) if (std::abs(q[i]) > std::abs(q[m])) m = i;
    if (q[m] < 0) for (int i = 0; i < 4; ++i) q[i] = -q[i];
}
static void runE2Q(int type, const Vec3& ang, const Vec3& p, const Vec3& station) {
    Case c; c.type = type; c.euler = true;
    for (int i = 0; i < 3; ++i) { c.q[i] = ang[i]; c.u[i] = 0.3 + 0.1 * i; }
    const bool trans = (type == FREE || type == FREELINE);
    if (trans) for (int i = 0; i < 3; ++i) { c.q[3 + i] = p[i]; c.u[(type == FREE ? 3 : 2) + i] = 0.2 - 0.1 * i; }
    if (type == ELLIPSOID) { c.par[0] = 0.7; c.par[1] = 1.1; c.par[2] = 1.6; }
    std::vector<Case> cs(1, c);
    std::unique_ptr<Sys> S = build(cs, true);
    setQU(*S, cs);
    S->system.realize(S->state, Stage::Velocity);
    State sq; S->matter.convertToQuaternions(S->state, sq);
    S->system.realize(sq, Stage::Velocity);
    const MobilizedBody& m = S->mobods[0];
    vh::I("e2q").s(typeName[type]).v(ang, 3).v(p, 3).emit();
    double q[4]; for (int i = 0; i < 4; ++i) q[i] = m.getOneQ(sq, i);
    canonQuat(q);
    vh::Line l = vh::O("quat"); for (int i = 0; i < 4; ++i) l.d(q[i]);
    if (trans) for (int i = 0; i < 3; ++i) l.d(m.getOneQ(sq, 4 + i));
    l.emit();
    vh::D(std::string("e2q.") + typeName[type]);
    const std::string key = std::string("C06.e2q.") + typeName[type];
    vh::P("e2q_pose", key + ".e2q_pose", xfDiff(m.getBodyTransform(sq), m.getBodyTransform(S->state)), 1e-12);
    vh::P("e2q_vel", key + ".e2q_vel", svDiff(m.getBodyVelocity(sq), m.getBodyVelocity(S->state)), 1e-12);
    double n2 = 0; for (int i = 0; i < 4; ++i) n2 += q[i] * q[i];
    vh::P("e2q_unit", key + ".e2q_unit", std::abs(n2 - 1), 1e-13);
    (void)station;
}

// ---- FunctionBased mirror of one built-in mobilizer: its X_FM / V_FM are predicted by the model (Spec.fbX0)
static void runFB(const Case& c) {
    std::vector<Case> cs(1, c);
    BuildOpts o; o.functionBased.push_back(true);
    std::unique_ptr<Sys> S = buildEx(cs, false, o);
    setQU(*S, cs);
    S->system.realize(S->state, Stage::Velocity);
    putCase("fb", c);
    outX("X_FM", S->mobods[0].getMobilizerTransform(S->state));
    outSV("V_FM", S->mobods[0].getMobilizerVelocity(S->state));
    vh::D(std::string("fb.") + typeName[c.type] + (c.rev ? ".rev" : ".fwd"));
}

// ---- re-rooted twin (as TestReverseMobilizers): Ground-Free->P-T(reversed)->B  versus  Ground-Free->B'-T(forward)->P'
// with the mobilizer frames swapped; same q,u for T; the Free joint of the twin is fitted to B's pose and velocity.
static void runRR(const Case& c0, const Case& freeCase, const Vec3& g) {
    Case c = c0; c.rev = true; c.parent = 1;
    std::vector<Case> A; A.push_back(freeCase); A.push_back(c);
    Case t = c; t.rev = false; t.X_PF = c.X_BM; t.X_BM = c.X_PF; t.parent = 1;
    std::vector<Case> B; B.push_back(freeCase); B.push_back(t);
    BuildOpts o; o.gravity = true; o.g = g;
    std::unique_ptr<Sys> SA = buildEx(A, c.euler, o), SB = buildEx(B, c.euler, o);
    setQU(*SA, A); setQU(*SB, B);
    SA->system.realize(SA->state, Stage::Acceleration);
    // twin: root body B' placed where B is
    SB->mobods[0].setQToFitTransform(SB->state, SA->mobods[1].getBodyTransform(SA->state));
    SB->mobods[0].setUToFitVelocity(SB->state, SA->mobods[1].getBodyVelocity(SA->state));
    SB->system.realize(SB->state, Stage::Acceleration);
    putCase("rr", c);
    vh::D(std::string("rr.") + typeName[c.type] + (c.euler ? ".euler" : ".quat"));
    const std::string key = std::string("C06.rr.") + typeName[c.type];
    const MobilizedBody &PA = SA->mobods[0], &BA = SA->mobods[1], &BB = SB->mobods[0], &PB = SB->mobods[1];
    vh::P("rr_pose", key + ".rr_pose", std::max(xfDiff(PB.getBodyTransform(SB->state), PA.getBodyTransform(SA->state)),
                                               xfDiff(BB.getBodyTransform(SB->state), BA.getBodyTransform(SA->state))), 1e-9);
    vh::P("rr_vel", key + ".rr_vel", std::max(svDiff(PB.getBodyVelocity(SB->state), PA.getBodyVelocity(SA->state)),
                                             svDiff(BB.getBodyVelocity(SB->state), BA.getBodyVelocity(SA->state))), 1e-9);
    vh::P("rr_acc", key + ".rr_acc", std::max(svDiff(PB.getBodyAcceleration(SB->state), PA.getBodyAcceleration(SA->state)),
                                             svDiff(BB.getBodyAcceleration(SB->state), BA.getBodyAcceleration(SA->state))), 1e-7);
}

static void replay() {
    static char buf[1 << 18];
    while (std::fgets(buf, sizeof buf, stdin)) {
        std::istringstream is(buf); std::string k, fn; is >> k >> fn;
        if (k != "I") continue;
        if (fn == "fb") { Case c; if (getCase(is, c)) runFB(c); continue; }
        if (fn == "rr") { Case c; if (getCase(is, c)) { vh::Rng g(4242); Case f = randomCase(g, FREE, 0, 0, false, c.euler);
                          runRR(c, f, Vec3(1.5, -9.0, 2.5)); } continue; }
        if (fn == "e2q") { std::string ty, t; is >> ty; double w[6]; bool ok = true; for (int i = 0; i < 6; ++i) { if (is >> t) w[i] = vh::unhex(t); else ok = false; }
                           if (ok && typeOf(ty) >= 0) runE2Q(typeOf(ty), Vec3(w[0], w[1], w[2]), Vec3(w[3], w[4], w[5]), Vec3(0)); continue; }
        if (fn != "tree") continue;
        int n; is >> n; std::vector<Case> cs; bool ok = true;
        for (int i = 0; i < n && ok; ++i) { Case c; std::vector<double> v; size_t kk; is >> c.parent; ok = getBody(is, c, v, kk); cs.push_back(c); }
        std::vector<double> w; std::string t; for (int i = 0; i < 18 && ok; ++i) { if (is >> t) w.push_back(vh::unhex(t)); else ok = false; }
        if (ok) { size_t kk = 6; Transform Xr = getX(w, kk); runTree(cs, Vec3(w[0], w[1], w[2]), Vec3(w[3], w[4], w[5]), Xr); }
    }
}

int main(int argc, char** argv) {
    vh::Args args(argc, argv);
    if (args.mode == "replay") { replay(); return 0; }
    vh::Rng g(args.seed * 7919 + 6);
    for (long k = 0; k < args.n; ++k) {
        int n = 1 + g.below(args.n > 2000 ? 10 : 5);
        int shape = g.below(3);
        std::vector<Case> cs;
        for (int i = 0; i < n; ++i) {
            Case c = randomCase(g, g.below(NTYPES), g.below(3), g.below(3), g.coin(), false);
            // unit quaternions only: the conversions normalise, so an unnormalised q is not preserved componentwise anyway
            if (usesQuat(c.type)) { double nn = 0; for (int j = 0; j < 4; ++j) nn += c.q[j] * c.q[j]; nn = std::sqrt(nn); for (int j = 0; j < 4; ++j) c.q[j] /= nn; c.unitQuat = true; }
            c.parent = (i == 0) ? 0 : (shape == 0 ? i : (shape == 1 ? 1 : 1 + g.below(i)));
            cs.push_back(c);
        }
        runTree(cs, Vec3(g.signedMag(0.1, 2), g.signedMag(0.1, 2), g.signedMag(0.1, 2)),
                Vec3(g.signedMag(1, 10), g.signedMag(1, 10), g.signedMag(1, 10)), randomFrame(g, 2));
    }
    // guaranteed shares of the single-mobilizer streams (about n/3 records each)
    const int e2qTypes[5] = {BALL, FREE, ELLIPSOID, LINEORIENTATION, FREELINE};
    for (long k = 0; k < std::max<long>(5, args.n / 3); ++k)
        runE2Q(e2qTypes[k % 5], Vec3(anyAngle(g), safeAngle(g), anyAngle(g)), Vec3(g.signedMag(0.1, 2), g.signedMag(0.1, 2), g.signedMag(0.1, 2)), Vec3(0));
    const int fbTypes[8] = {PIN, SLIDER, CYLINDER, PLANAR, UNIVERSAL, GIMBAL, BUSHING, TRANSLATION};
    for (long k = 0; k < std::max<long>(16, args.n / 3); ++k)
        runFB(randomCase(g, fbTypes[k % 8], g.below(3), g.below(3), (k / 8) % 2 == 1, false));
    for (long k = 0; k < std::max<long>(2 * (NTYPES - 1), args.n / 3); ++k) {
        int t = k % NTYPES; if (t == WELD) continue;
        const bool euler = (k / NTYPES) % 2 == 1;
        Case c = randomCase(g, t, g.below(3), g.below(3), true, euler);
        if (usesQuat(t) && !euler) { double nn = 0; for (int j = 0; j < 4; ++j) nn += c.q[j] * c.q[j]; nn = std::sqrt(nn); for (int j = 0; j < 4; ++j) c.q[j] /= nn; }
        vh::Rng gf(4242); Case f = randomCase(gf, FREE, 0, 0, false, euler);
        if (!euler) { double nn = 0; for (int j = 0; j < 4; ++j) nn += f.q[j] * f.q[j]; nn = std::sqrt(nn); for (int j = 0; j < 4; ++j) f.q[j] /= nn; }
        runRR(c, f, Vec3(1.5, -9.0, 2.5));
    }
    return 0;
}
