// C29 correspondence harness: Inertia_, UnitInertia_, SpatialInertia_, ArticulatedInertia_, MassProperties_ (double and
// float) and the spatial shift operators of SpatialAlgebra.h (double).  Model: SimbodyModel/Spatial.lean, driver drv_C29.
//   I <fn>[F] <hex doubles>…   O <fn>[F] …   D <tag>
//   P lines: shift round trips, principal-moment (characteristic polynomial) invariance under re-expression,
//   structured products = dense 6x6 products, articulated shift = phi P phi^T, kinetic-energy / power / momentum
//   invariance under shift and re-expression, MassProperties transform = SpatialInertia transform,
//   acceptance => nonnegative moments + triangle inequalities (+ positive semi-definiteness, see key
//   isValidInertiaMatrix.accepted.psd), invalid matrices rejected.
// NOTE release build: SimTK_ERRCHK / errChk() are compiled out (NDEBUG), so no constructor rejects anything here;
// the only validity test that exists in this build is the public static Inertia_::isValidInertiaMatrix().
#include "SimTKcommon.h"
#include "hcommon.h"
#include <algorithm>
using namespace SimTK;
typedef long double LD;

// smallest eigenvalue of a symmetric 3x3 (long double, trigonometric closed form)
static LD minEig(LD xx, LD yy, LD zz, LD xy, LD xz, LD yz) {
    LD p1 = xy * xy + xz * xz + yz * yz;
    LD q = (xx + yy + zz) / 3;
    if (p1 == 0) return std::min(xx, std::min(yy, zz));
    LD p2 = (xx - q) * (xx - q) + (yy - q) * (yy - q) + (zz - q) * (zz - q) + 2 * p1;
    LD p = std::sqrt(p2 / 6);
    LD bxx = (xx - q) / p, byy = (yy - q) / p, bzz = (zz - q) / p, bxy = xy / p, bxz = xz / p, byz = yz / p;
    LD detB = bxx * (byy * bzz - byz * byz) - bxy * (bxy * bzz - byz * bxz) + bxz * (bxy * byz - byy * bxz);
    LD r = std::max((LD)-1, std::min((LD)1, detB / 2));
    LD phi = std::acos(r) / 3;
    return q + 2 * p * std::cos(phi + 2 * 3.14159265358979323846264338327950288L / 3);
}

template <class P> struct H {
    typedef Rotation_<P> Rot;
    typedef Mat<3, 3, P> M33;
    typedef Vec<3, P> V3;
    typedef SymMat<3, P> Sym;
    typedef Inertia_<P> In;
    typedef UnitInertia_<P> UIn;
    typedef SpatialInertia_<P> SI;
    typedef ArticulatedInertia_<P> ABI;
    typedef MassProperties_<P> MP;
    typedef Transform_<P> Xf;
    typedef Vec<2, V3> SV;
    typedef Mat<2, 2, M33> SM;
    static bool isF() { return sizeof(P) == 4; }
    static std::string fn(const char* b) { return std::string(b) + (isF() ? "F" : ""); }
    static double eps() { return (double)NTraits<P>::getEps(); }
    static void tol(double cond = 1) { if (isF()) std::printf("T %.3g %.3g\n", 2e-5 * cond, 2e-6 * cond); else if (cond > 1) std::printf("T %.3g %.3g\n", 1e-9 * cond, 1e-12 * cond); }
    static P c(double x) { return (P)x; }
    static void putV(vh::Line& L, const V3& v) { for (int i = 0; i < 3; ++i) L.d((double)v[i]); }
    static void putS(vh::Line& L, const Sym& S) { L.d(S(0, 0)).d(S(1, 1)).d(S(2, 2)).d(S(1, 0)).d(S(2, 0)).d(S(2, 1)); }
    static void putM(vh::Line& L, const M33& R) { for (int i = 0; i < 3; ++i) for (int j = 0; j < 3; ++j) L.d((double)R[i][j]); }
    static void putSV(vh::Line& L, const SV& v) { putV(L, v[0]); putV(L, v[1]); }
    static void putSI(vh::Line& L, const SI& s) { L.d((double)s.getMass()); putV(L, s.getMassCenter()); putS(L, s.getUnitInertia().asSymMat33()); }
    static void putMP(vh::Line& L, const MP& s) { L.d((double)s.getMass()); putV(L, s.getMassCenter()); putS(L, s.getUnitInertia().asSymMat33()); }
    static void putX(vh::Line& L, const Xf& X) { putM(L, X.R().asMat33()); putV(L, X.p()); }
    static void putSM(vh::Line& L, const SM& m) { for (int i = 0; i < 6; ++i) for (int j = 0; j < 6; ++j) L.d((double)m(i / 3, j / 3)(i % 3, j % 3)); }
    static void putABI(vh::Line& L, const ABI& a) { putS(L, a.getMass()); putS(L, a.getInertia()); putM(L, a.getMassMoment()); }
    static double symDiff(const Sym& A, const Sym& B) {
        double w = 0; for (int i = 0; i < 3; ++i) for (int j = 0; j <= i; ++j) w = std::max(w, std::fabs((double)A(i, j) - (double)B(i, j))); return w; }
    static double symNorm(const Sym& A) { double w = 0; for (int i = 0; i < 3; ++i) for (int j = 0; j <= i; ++j) w = std::max(w, std::fabs((double)A(i, j))); return w; }
    static double smDiff(const SM& A, const SM& B) {
        double w = 0; for (int i = 0; i < 6; ++i) for (int j = 0; j < 6; ++j) w = std::max(w, std::fabs((double)A(i / 3, j / 3)(i % 3, j % 3) - (double)B(i / 3, j / 3)(i % 3, j % 3))); return w; }
    static double smNorm(const SM& A) {
        double w = 0; for (int i = 0; i < 6; ++i) for (int j = 0; j < 6; ++j) w = std::max(w, std::fabs((double)A(i / 3, j / 3)(i % 3, j % 3))); return w; }
    static double svDiff(const SV& a, const SV& b) { return std::max((double)(a[0] - b[0]).norm(), (double)(a[1] - b[1]).norm()); }
    static double svNorm(const SV& a) { return std::max((double)a[0].norm(), (double)a[1].norm()); }

    static V3 genVec(vh::Rng& g, double lo = 0.1, double hi = 3) { return V3(c(g.signedMag(lo, hi)), c(g.signedMag(lo, hi)), c(g.signedMag(lo, hi))); }
    static Rot genRot(vh::Rng& g) {
        Vec<4, P> q; for (;;) { q = Vec<4, P>(c(g.range(-1, 1)), c(g.range(-1, 1)), c(g.range(-1, 1)), c(g.range(-1, 1))); double n = (double)q.norm(); if (n > 0.2 && n <= 1) break; }
        int sp = g.below(12);
        if (sp == 0) { vh::D(fn("rot") + ".identity"); return Rot(); }
        if (sp == 1) { vh::D(fn("rot") + ".halfturn"); q[0] = 0; }          // rotation by 180 degrees about a random axis
        return Rot(Quaternion_<P>(q));
    }
    // a physically valid body: cloud of point masses (generic / thin rod / disc / single point mass)
    struct Body { P m; V3 com; In Io; std::string cls; std::vector<V3> pts; std::vector<P> ms; };
    static Body genBody(vh::Rng& g) {
        Body b; int k = g.below(8); int n = 3 + g.below(4);
        b.cls = "cloud";
        V3 dir = genVec(g, 0.3, 1), dir2 = genVec(g, 0.3, 1), origin = g.coin() ? V3(0) : genVec(g, 0.1, 2);
        if (k == 5) { b.cls = "rod"; n = 2 + g.below(3); }
        if (k == 6) { b.cls = "disc"; }
        if (k == 7) { b.cls = "pointmass"; n = 1; }
        b.m = 0; V3 mom(0); b.Io = In(0);
        for (int i = 0; i < n; ++i) {
            P mi = c(g.range(0.1, 5)); V3 p;
            if (b.cls == "rod") p = origin + c(g.range(-2, 2)) * dir;
            else if (b.cls == "disc") p = origin + c(g.range(-2, 2)) * dir + c(g.range(-2, 2)) * dir2;
            else p = origin + genVec(g, 0.05, 2);
            b.m += mi; mom += mi * p; b.Io += In(p, mi); b.pts.push_back(p); b.ms.push_back(mi);
        }
        b.com = mom / b.m;
        return b;
    }
    static SI toSI(const Body& b) { return SI(b.m, b.com, UIn(b.Io / b.m)); }

    // ------------------------------------------------------------------ Inertia / UnitInertia
    static void inertiaCase(vh::Rng& g) {
        Body b = genBody(g); const std::string k = "." + b.cls;
        V3 p = genVec(g); P m = c(g.range(0.1, 5));
        In pm = In(p, m);
        { vh::Line in = vh::I(fn("pointMass")); putV(in, p); in.d(m); in.emit(); tol(); vh::Line o = vh::O(fn("pointMass")); putS(o, pm.asSymMat33()); o.emit(); vh::D(fn("pointMass")); }
        In Ic = b.Io.shiftToMassCenter(b.com, b.m);        // central inertia of the body
        { vh::Line in = vh::I(fn("shiftTo")); putS(in, b.Io.asSymMat33()); putV(in, b.com); in.d(b.m); in.emit(); tol(); vh::Line o = vh::O(fn("shiftTo")); putS(o, Ic.asSymMat33()); o.d((double)b.Io.trace()); o.emit(); vh::D(fn("shiftTo") + k); }
        In Iback = Ic.shiftFromMassCenter(b.com, b.m);
        { vh::Line in = vh::I(fn("shiftFrom")); putS(in, Ic.asSymMat33()); putV(in, b.com); in.d(b.m); in.emit(); tol(); vh::Line o = vh::O(fn("shiftFrom")); putS(o, Iback.asSymMat33()); o.emit(); vh::D(fn("shiftFrom") + k); }
        double sc = std::max(symNorm(b.Io.asSymMat33()), (double)(b.m * b.com.normSqr()));
        // Koenig / parallel-axis for the whole cloud: the central inertia equals the sum of the point-mass inertias taken
        // about the mass centre (computed here directly from the generated points in long double)
        { LD kk[6] = {0, 0, 0, 0, 0, 0};
          for (size_t i = 0; i < b.pts.size(); ++i) { LD x = (LD)b.pts[i][0] - b.com[0], y = (LD)b.pts[i][1] - b.com[1], z = (LD)b.pts[i][2] - b.com[2], m = b.ms[i];
              kk[0] += m * (y * y + z * z); kk[1] += m * (x * x + z * z); kk[2] += m * (x * x + y * y); kk[3] -= m * x * y; kk[4] -= m * x * z; kk[5] -= m * y * z; }
          const Sym& C = Ic.asSymMat33(); LD w = 0; LD got[6] = {C(0, 0), C(1, 1), C(2, 2), C(1, 0), C(2, 0), C(2, 1)};
          for (int i = 0; i < 6; ++i) w = std::max(w, std::fabs(got[i] - kk[i]));
          vh::P("central_inertia_is_inertia_about_mass_centre", fn("shiftTo") + k + ".koenig", (double)w / sc, 64 * eps()); }
        // in-place variants agree with the value-returning ones
        { In a = b.Io; a.shiftToMassCenterInPlace(b.com, b.m); In c2 = Ic; c2.shiftFromMassCenterInPlace(b.com, b.m);
          vh::P("inplace_equals_value_version", fn("shiftTo") + k + ".inplace", std::max(symDiff(a.asSymMat33(), Ic.asSymMat33()), symDiff(c2.asSymMat33(), Iback.asSymMat33())), 0.0); }
        vh::P("shift_roundtrip", fn("shiftFrom") + k + ".rt", symDiff(Iback.asSymMat33(), b.Io.asSymMat33()) / sc, 64 * eps());
        In Iq = Ic.shiftFromMassCenter(p, b.m).shiftToMassCenter(p, b.m);
        double sc2 = std::max(symNorm(Ic.asSymMat33()), (double)(b.m * p.normSqr()));
        vh::P("shift_roundtrip", fn("shiftFrom") + k + ".rt2", symDiff(Iq.asSymMat33(), Ic.asSymMat33()) / sc2, 64 * eps());
        // parallel-axis theorem against the dense definition m(|p|^2 1 - p p^T)
        { In Is = Ic.shiftFromMassCenter(p, b.m); M33 dense = M33(Ic.asSymMat33()) + b.m * (M33(p.normSqr()) - p * ~p);
          double w = 0; for (int i = 0; i < 3; ++i) for (int j = 0; j <= i; ++j) w = std::max(w, std::fabs((double)Is.asSymMat33()(i, j) - (double)dense(i, j)));
          vh::P("parallel_axis_theorem", fn("shiftFrom") + k + ".dense", w / sc2, 64 * eps()); }
        // re-expression
        Rot R = genRot(g);
        In Ir = b.Io.reexpress(R), Iri = b.Io.reexpress(~R);
        { vh::Line in = vh::I(fn("reexpressI")); putS(in, b.Io.asSymMat33()); putM(in, R.asMat33()); in.emit(); tol(); vh::Line o = vh::O(fn("reexpressI")); putS(o, Ir.asSymMat33()); o.emit(); vh::D(fn("reexpressI") + k); }
        { vh::Line in = vh::I(fn("reexpressIInv")); putS(in, b.Io.asSymMat33()); putM(in, R.asMat33()); in.emit(); tol(); vh::Line o = vh::O(fn("reexpressIInv")); putS(o, Iri.asSymMat33()); o.emit(); vh::D(fn("reexpressIInv") + k); }
        double n0 = symNorm(b.Io.asSymMat33());
        { M33 dense = ~R.asMat33() * M33(b.Io.asSymMat33()) * R.asMat33(); double w = 0;
          for (int i = 0; i < 3; ++i) for (int j = 0; j <= i; ++j) w = std::max(w, std::fabs((double)Ir.asSymMat33()(i, j) - (double)dense(i, j)));
          vh::P("reexpress_equals_Rt_I_R", fn("reexpressI") + k + ".dense", w / n0, 64 * eps()); }
        // principal moments: characteristic-polynomial coefficients are invariant
        auto c1 = [](const Sym& S) { return (LD)S(0, 0) + S(1, 1) + S(2, 2); };
        auto c2 = [](const Sym& S) { return ((LD)S(0, 0) * S(1, 1) - (LD)S(1, 0) * S(1, 0)) + ((LD)S(0, 0) * S(2, 2) - (LD)S(2, 0) * S(2, 0)) + ((LD)S(1, 1) * S(2, 2) - (LD)S(2, 1) * S(2, 1)); };
        auto c3 = [](const Sym& S) { return (LD)S(0, 0) * ((LD)S(1, 1) * S(2, 2) - (LD)S(2, 1) * S(2, 1)) - (LD)S(1, 0) * ((LD)S(1, 0) * S(2, 2) - (LD)S(2, 1) * S(2, 0)) + (LD)S(2, 0) * ((LD)S(1, 0) * S(2, 1) - (LD)S(1, 1) * S(2, 0)); };
        const Sym& A = b.Io.asSymMat33(); const Sym& B = Ir.asSymMat33();
        vh::P("reexpress_preserves_trace", fn("reexpressI") + k + ".c1", (double)(std::fabs(c1(A) - c1(B)) / n0), 64 * eps());
        vh::P("reexpress_preserves_minors", fn("reexpressI") + k + ".c2", (double)(std::fabs(c2(A) - c2(B)) / ((LD)n0 * n0)), 64 * eps());
        vh::P("reexpress_preserves_det", fn("reexpressI") + k + ".c3", (double)(std::fabs(c3(A) - c3(B)) / ((LD)n0 * n0 * n0)), 64 * eps());
        vh::P("reexpress_roundtrip", fn("reexpressI") + k + ".rt", symDiff(Ir.reexpress(~R).asSymMat33(), A) / n0, 64 * eps());
        // unit inertia
        UIn up = UIn::pointMassAt(p);
        { vh::Line in = vh::I(fn("unitPointMass")); putV(in, p); in.emit(); tol(); vh::Line o = vh::O(fn("unitPointMass")); putS(o, up.asSymMat33()); o.emit(); vh::D(fn("unitPointMass")); }
        UIn G(b.Io / b.m);
        UIn Gc = G.shiftToCentroid(b.com), Gb = Gc.shiftFromCentroid(b.com);
        { vh::Line in = vh::I(fn("unitShiftTo")); putS(in, G.asSymMat33()); putV(in, b.com); in.emit(); tol(); vh::Line o = vh::O(fn("unitShiftTo")); putS(o, Gc.asSymMat33()); o.d((double)G.trace()); o.emit(); vh::D(fn("unitShiftTo") + k); }
        { vh::Line in = vh::I(fn("unitShiftFrom")); putS(in, Gc.asSymMat33()); putV(in, b.com); in.emit(); tol(); vh::Line o = vh::O(fn("unitShiftFrom")); putS(o, Gb.asSymMat33()); o.emit(); vh::D(fn("unitShiftFrom") + k); }
        vh::P("shift_roundtrip", fn("unitShiftFrom") + k + ".rt", symDiff(Gb.asSymMat33(), G.asSymMat33()) / std::max(symNorm(G.asSymMat33()), (double)b.com.normSqr()), 64 * eps());
        vh::P("unit_point_mass_consistent", fn("unitPointMass") + ".consistent", symDiff((m * up).asSymMat33(), pm.asSymMat33()) / symNorm(pm.asSymMat33()), 16 * eps());
        // shapes
        P r = c(g.range(0.1, 3)), h1 = c(g.range(0.1, 3)), h2 = c(g.range(0.1, 3));
        struct { const char* nm; UIn u; int na; } shapes[6] = {{"sphere", UIn::sphere(r), 1}, {"cylZ", UIn::cylinderAlongZ(r, h1), 2}, {"cylY", UIn::cylinderAlongY(r, h1), 2},
            {"cylX", UIn::cylinderAlongX(r, h1), 2}, {"brick", UIn::brick(r, h1, h2), 3}, {"ellipsoid", UIn::ellipsoid(r, h1, h2), 3}};
        for (auto& s : shapes) {
            vh::Line in = vh::I(fn(s.nm)); in.d(r); if (s.na >= 2) in.d(h1); if (s.na >= 3) in.d(h2); in.emit(); tol();
            vh::Line o = vh::O(fn(s.nm)); putS(o, s.u.asSymMat33()); o.emit(); vh::D(fn(s.nm));
            vh::P("shape_inertia_accepted", fn(s.nm) + ".valid", In::isValidInertiaMatrix(s.u.asSymMat33()) ? 0.0 : 1.0, 0.0);
        }
        // the body's own inertia must be accepted, and is positive semi-definite
        const Sym& S = b.Io.asSymMat33();
        vh::P("physical_inertia_accepted", fn("isValid") + k + ".accept", In::isValidInertiaMatrix(S) ? 0.0 : 1.0, 0.0);
        // (the *central* inertia of a rod / point mass has exact zero moments that rounding may turn into -1e-16, which the
        //  slop-free `d >= 0` test rejects; the property does not promise acceptance there, so it is asked for clouds only)
        if (b.cls == "cloud") vh::P("physical_inertia_accepted", fn("isValid") + k + ".acceptcentral", In::isValidInertiaMatrix(Ic.asSymMat33()) ? 0.0 : 1.0, 0.0);
        LD me = minEig(S(0, 0), S(1, 1), S(2, 2), S(1, 0), S(2, 0), S(2, 1));
        vh::P("physical_inertia_psd", fn("isValid") + k + ".psd", (double)std::max((LD)0, -me) / n0, 64 * eps());
    }

    // ------------------------------------------------------------------ SpatialInertia / ABI / MassProperties
    static SV genSV(vh::Rng& g) { return SV(genVec(g, 0.1, 5), genVec(g, 0.1, 5)); }
    static P svDot(const SV& a, const SV& b) { return dot(a[0], b[0]) + dot(a[1], b[1]); }
    static void spatialCase(vh::Rng& g) {
        Body b = genBody(g); const std::string k = "." + b.cls;
        SI M = toSI(b);
        SV V = genSV(g); V3 S = genVec(g); Rot R = genRot(g); Xf X(genRot(g), g.below(4) == 0 ? V3(0) : genVec(g));
        SV MV = M * V;
        SM dense = M.toSpatialMat();
        { vh::Line in = vh::I(fn("siMulVec")); putSI(in, M); putSV(in, V); in.emit(); tol(); vh::Line o = vh::O(fn("siMulVec")); putSV(o, MV); o.emit(); vh::D(fn("siMulVec") + k); }
        { vh::Line in = vh::I(fn("siDense")); putSI(in, M); in.emit(); tol(); vh::Line o = vh::O(fn("siDense")); putSM(o, dense); o.emit(); vh::D(fn("siDense") + k); }
        double dn = smNorm(dense), vn = svNorm(V);
        vh::P("structured_product_equals_dense", fn("siMulVec") + k + ".dense", svDiff(MV, dense * V) / (dn * vn), 64 * eps());
        SI Ms = M.shift(S), Mr = M.reexpress(R), Mt = M.transform(X), Mti = M.transform(~X);
        { vh::Line in = vh::I(fn("siShift")); putSI(in, M); putV(in, S); in.emit(); tol(); vh::Line o = vh::O(fn("siShift")); putSI(o, Ms); o.emit(); vh::D(fn("siShift") + k); }
        { vh::Line in = vh::I(fn("siReexpress")); putSI(in, M); putM(in, R.asMat33()); in.emit(); tol(); vh::Line o = vh::O(fn("siReexpress")); putSI(o, Mr); o.emit(); vh::D(fn("siReexpress") + k); }
        { vh::Line in = vh::I(fn("siTransform")); putSI(in, M); putX(in, X); in.emit(); tol(); vh::Line o = vh::O(fn("siTransform")); putSI(o, Mt); o.emit(); vh::D(fn("siTransform") + k); }
        { vh::Line in = vh::I(fn("siTransformInv")); putSI(in, M); putX(in, X); in.emit(); tol(); vh::Line o = vh::O(fn("siTransformInv")); putSI(o, Mti); o.emit(); vh::D(fn("siTransformInv") + k); }
        // kinetic energy, momentum and power under a consistent shift (velocity re-measured at the new origin)
        SV Vs(V[0], V[1] + V[0] % S);                       // shiftVelocityBy(V,S) written out (SpatialAlgebra.h is double only)
        SV Ps = Ms * Vs;
        SV Pexp(MV[0] - S % MV[1], MV[1]);                  // shiftForceBy(M V, S)
        double ke = (double)svDot(V, MV), kes = (double)svDot(Vs, Ps);
        double scale = dn * (1 + (double)S.normSqr()) * vn * vn;
        vh::P("kinetic_energy_shift_invariant", fn("siShift") + k + ".ke", std::fabs(ke - kes) / scale, 64 * eps());
        vh::P("momentum_shifts_like_force", fn("siShift") + k + ".mom", svDiff(Ps, Pexp) / (dn * (1 + (double)S.normSqr()) * vn), 64 * eps());
        SV F = genSV(g); SV Fs(F[0] - S % F[1], F[1]);
        vh::P("power_shift_invariant", fn("siShift") + k + ".power", std::fabs((double)svDot(F, V) - (double)svDot(Fs, Vs)) / (svNorm(F) * vn * (1 + (double)S.normSqr())), 64 * eps());
        vh::P("shift_roundtrip", fn("siShift") + k + ".rt", smDiff(Ms.shift(-S).toSpatialMat(), dense) / (dn * (1 + (double)S.normSqr())), 64 * eps());
        // re-expression: KE invariant, M_B (R^T V) = R^T (M V)
        SV Vr(~R * V[0], ~R * V[1]);
        SV Pr = Mr * Vr;
        vh::P("kinetic_energy_reexpress_invariant", fn("siReexpress") + k + ".ke", std::fabs(ke - (double)svDot(Vr, Pr)) / (dn * vn * vn), 64 * eps());
        vh::P("reexpress_commutes_with_product", fn("siReexpress") + k + ".comm", svDiff(Pr, SV(~R * MV[0], ~R * MV[1])) / (dn * vn), 64 * eps());
        { SV Fr(~R * F[0], ~R * F[1]);
          vh::P("power_reexpress_invariant", fn("siReexpress") + k + ".power", std::fabs((double)svDot(F, V) - (double)svDot(Fr, Vr)) / (svNorm(F) * vn), 64 * eps()); }
        // operators: -= undoes +=, *= and /= scale the mass only, in-place shift / re-expression equal the value versions
        { Body b3 = genBody(g); SI M3 = toSI(b3); SI back = (M + M3) - M3;
          vh::P("minus_undoes_plus", fn("siAdd") + ".minus", smDiff(back.toSpatialMat(), dense) / (dn + smNorm(M3.toSpatialMat())), 256 * eps());
          SI sc2 = M; sc2 *= P(3); SI sc3 = sc2; sc3 /= P(3);
          vh::P("scaling_scales_dense_matrix", fn("siDense") + k + ".scale", smDiff(sc2.toSpatialMat(), SI(M.getMass() * P(3), M.getMassCenter(), M.getUnitInertia()).toSpatialMat()) / dn, 16 * eps());
          vh::P("scaling_scales_dense_matrix", fn("siDense") + k + ".unscale", smDiff(sc3.toSpatialMat(), dense) / dn, 16 * eps());
          SI ip = M; ip.shiftInPlace(S); SI ip2 = M; ip2.reexpressInPlace(R); SI ip3 = M; ip3.transformInPlace(X);
          vh::P("inplace_equals_value_version", fn("siShift") + k + ".inplace", std::max(smDiff(ip.toSpatialMat(), Ms.toSpatialMat()), std::max(smDiff(ip2.toSpatialMat(), Mr.toSpatialMat()), smDiff(ip3.toSpatialMat(), Mt.toSpatialMat()))), 0.0); }
        // transform = shift then re-express, and its inverse undoes it
        vh::P("transform_is_shift_then_reexpress", fn("siTransform") + k + ".def", smDiff(Mt.toSpatialMat(), M.shift(X.p()).reexpress(X.R()).toSpatialMat()) / (dn * (1 + (double)X.p().normSqr())), 64 * eps());
        vh::P("transform_roundtrip", fn("siTransform") + k + ".rt", smDiff(Mt.transform(~X).toSpatialMat(), dense) / (dn * (1 + (double)X.p().normSqr())), 256 * eps());
        // composite body
        Body b2 = genBody(g); SI M2 = toSI(b2); SI Msum = M + M2;
        { vh::Line in = vh::I(fn("siAdd")); putSI(in, M); putSI(in, M2); in.emit(); tol(); vh::Line o = vh::O(fn("siAdd")); putSI(o, Msum); o.emit(); vh::D(fn("siAdd")); }
        SM sumDense = dense + M2.toSpatialMat();
        vh::P("composite_is_sum", fn("siAdd") + ".dense", smDiff(Msum.toSpatialMat(), sumDense) / smNorm(sumDense), 64 * eps());

        // MassProperties
        MP mp(b.m, b.com, UIn(b.Io / b.m));
        In i1 = mp.calcInertia(), i2 = mp.calcCentralInertia(), i3 = mp.calcShiftedInertia(X.p()), i4 = mp.calcTransformedInertia(X);
        { vh::Line in = vh::I(fn("mpInertias")); putMP(in, mp); putX(in, X); in.emit(); tol(); vh::Line o = vh::O(fn("mpInertias"));
          putS(o, i1.asSymMat33()); putS(o, i2.asSymMat33()); putS(o, i3.asSymMat33()); putS(o, i4.asSymMat33()); o.emit(); vh::D(fn("mpInertias") + k); }
        MP mps = mp.calcShiftedMassProps(S), mpt = mp.calcTransformedMassProps(X), mpr = mp.reexpress(R);
        { vh::Line in = vh::I(fn("mpShifted")); putMP(in, mp); putV(in, S); in.emit(); tol(); vh::Line o = vh::O(fn("mpShifted")); putMP(o, mps); o.emit(); vh::D(fn("mpShifted") + k); }
        { vh::Line in = vh::I(fn("mpTransformed")); putMP(in, mp); putX(in, X); in.emit(); tol(); vh::Line o = vh::O(fn("mpTransformed")); putMP(o, mpt); o.emit(); vh::D(fn("mpTransformed") + k); }
        { vh::Line in = vh::I(fn("mpReexpress")); putMP(in, mp); putM(in, R.asMat33()); in.emit(); tol(); vh::Line o = vh::O(fn("mpReexpress")); putMP(o, mpr); o.emit(); vh::D(fn("mpReexpress") + k); }
        SM mpDense = mp.toSpatialMat();
        { vh::Line in = vh::I(fn("mpDense")); putMP(in, mp); in.emit(); tol(); vh::Line o = vh::O(fn("mpDense")); putSM(o, mpDense); o.emit(); vh::D(fn("mpDense") + k); }
        { MP mpi(b.m, b.com, b.Io); vh::Line in = vh::I(fn("mpOfInertia")); in.d(b.m); putV(in, b.com); putS(in, b.Io.asSymMat33()); in.emit(); tol(); vh::Line o = vh::O(fn("mpOfInertia")); putMP(o, mpi); o.emit(); vh::D(fn("mpOfInertia")); }
        vh::P("massprops_dense_equals_spatial_inertia", fn("mpDense") + k + ".si", smDiff(mpDense, dense) / dn, 16 * eps());
        { Mat<6, 6, P> m66 = mp.toMat66(); double w = 0; for (int i = 0; i < 6; ++i) for (int j = 0; j < 6; ++j) w = std::max(w, std::fabs((double)m66(i, j) - (double)mpDense(i / 3, j / 3)(i % 3, j % 3)));
          vh::P("toMat66_equals_toSpatialMat", fn("mpDense") + k + ".m66", w / dn, 16 * eps()); }
        SM mptDense = mpt.toSpatialMat();
        vh::P("massprops_transform_agrees_with_spatial_inertia", fn("mpTransformed") + k + ".si", smDiff(mptDense, Mt.toSpatialMat()) / (dn * (1 + (double)X.p().normSqr())), 64 * eps());
        vh::P("massprops_shift_agrees_with_spatial_inertia", fn("mpShifted") + k + ".si", smDiff(mps.toSpatialMat(), Ms.toSpatialMat()) / (dn * (1 + (double)S.normSqr())), 64 * eps());
        vh::P("massprops_reexpress_agrees_with_spatial_inertia", fn("mpReexpress") + k + ".si", smDiff(mpr.toSpatialMat(), Mr.toSpatialMat()) / dn, 64 * eps());

        // ArticulatedInertia
        ABI A(M);
        { vh::Line in = vh::I(fn("abiOfSi")); putSI(in, M); in.emit(); tol(); vh::Line o = vh::O(fn("abiOfSi")); putABI(o, A); o.emit(); vh::D(fn("abiOfSi") + k); }
        // a genuinely articulated (non rigid-body) inertia: P = sum of rigid parts minus a rank-one projection-like term
        Sym Mm = A.getMass() + Sym(c(g.range(0, 2)), c(g.range(-0.5, 0.5)), c(g.range(0, 2)), c(g.range(-0.5, 0.5)), c(g.range(-0.5, 0.5)), c(g.range(0, 2)));
        Sym Jm = A.getInertia() + Sym(c(g.range(0, 2)), c(g.range(-0.5, 0.5)), c(g.range(0, 2)), c(g.range(-0.5, 0.5)), c(g.range(-0.5, 0.5)), c(g.range(0, 2)));
        M33 Fm = A.getMassMoment(); for (int i = 0; i < 3; ++i) for (int j = 0; j < 3; ++j) Fm[i][j] += c(g.range(-1, 1));
        ABI Pg(Mm, Fm, Jm);
        SV PV = Pg * V; ABI Psh = Pg.shift(S); SM Pd = Pg.toSpatialMat();
        { vh::Line in = vh::I(fn("abiMulVec")); putABI(in, Pg); putSV(in, V); in.emit(); tol(); vh::Line o = vh::O(fn("abiMulVec")); putSV(o, PV); o.emit(); vh::D(fn("abiMulVec")); }
        { vh::Line in = vh::I(fn("abiShift")); putABI(in, Pg); putV(in, S); in.emit(); tol(); vh::Line o = vh::O(fn("abiShift")); putABI(o, Psh); o.emit(); vh::D(fn("abiShift")); }
        { vh::Line in = vh::I(fn("abiDense")); putABI(in, Pg); in.emit(); tol(); vh::Line o = vh::O(fn("abiDense")); putSM(o, Pd); o.emit(); vh::D(fn("abiDense")); }
        double pn = smNorm(Pd);
        vh::P("structured_product_equals_dense", fn("abiMulVec") + ".dense", svDiff(PV, Pd * V) / (pn * vn), 64 * eps());
        // dense phi P phi^T built from crossMat blocks
        M33 sx = crossMat(S); SM phi(M33(1), sx, M33(0), M33(1)), phiT(M33(1), M33(0), M33(~sx), M33(1));
        SM want = phi * Pd * phiT;
        vh::P("articulated_shift_equals_phi_P_phiT", fn("abiShift") + ".dense", smDiff(Psh.toSpatialMat(), want) / (pn * (1 + (double)S.normSqr())), 64 * eps());
        vh::P("articulated_shift_of_rigid_body_is_rigid_shift_by_minus_s", fn("abiShift") + k + ".rigid", smDiff(A.shift(S).toSpatialMat(), ABI(M.shift(-S)).toSpatialMat()) / (dn * (1 + (double)S.normSqr())), 64 * eps());
        { ABI ip = Pg; ip.shiftInPlace(S); ABI sum = Pg; sum += A; ABI dif = sum; dif -= A;
          vh::P("inplace_equals_value_version", fn("abiShift") + ".inplace", smDiff(ip.toSpatialMat(), Psh.toSpatialMat()), 0.0);
          vh::P("articulated_sum_is_dense_sum", fn("abiDense") + ".sum", smDiff(sum.toSpatialMat(), Pd + A.toSpatialMat()) / (pn + dn), 16 * eps());
          vh::P("minus_undoes_plus", fn("abiDense") + ".minus", smDiff(dif.toSpatialMat(), Pd) / (pn + dn), 64 * eps()); }
        vh::P("rigid_body_abi_dense_equals_spatial_inertia", fn("abiOfSi") + k + ".dense", smDiff(A.toSpatialMat(), dense) / dn, 16 * eps());
    }
};

// ---------------------------------------------------------------------- validity test (double; float on clear cases)
template <class P> static void validRecord(const SymMat<3, P>& S, const std::string& cls) {
    bool ok = Inertia_<P>::isValidInertiaMatrix(S);
    std::string f = H<P>::fn("isValid");
    vh::Line in = vh::I(f); in.d((double)NTraits<P>::getSignificant()); H<P>::putS(in, S); in.emit();
    vh::O(f).d(ok ? 1.0 : 0.0).emit();
    vh::D(f + "." + cls + (ok ? ".accepted" : ".rejected"));
}
static void validCase(vh::Rng& g) {
    typedef SymMat<3, double> Sym;
    int k = g.below(7);
    if (k == 0) {   // negative moment
        double d[3] = {g.range(0.1, 5), g.range(0.1, 5), g.range(0.1, 5)}; d[g.below(3)] = -g.range(1e-6, 5);
        Sym S(d[0], 0, d[1], 0, 0, d[2]);
        validRecord<double>(S, "negdiag"); validRecord<float>(SymMat<3, float>((float)d[0], 0, (float)d[1], 0, 0, (float)d[2]), "negdiag");
        vh::P("invalid_inertia_rejected", "isValid.negdiag.reject", Inertia::isValidInertiaMatrix(S) ? 1.0 : 0.0, 0.0);
        vh::P("invalid_inertia_rejected", "isValidF.negdiag.reject", Inertia_<float>::isValidInertiaMatrix(SymMat<3, float>((float)d[0], 0, (float)d[1], 0, 0, (float)d[2])) ? 1.0 : 0.0, 0.0);
    } else if (k == 1) {   // triangle inequality violated
        double a = g.range(0.1, 5), b = g.range(0.1, 5), ex = std::pow(10.0, -g.range(0, 6)) * (a + b);
        double d[3]; int big = g.below(3); d[big] = a + b + ex; d[(big + 1) % 3] = a; d[(big + 2) % 3] = b;
        Sym S(d[0], 0, d[1], 0, 0, d[2]);
        validRecord<double>(S, "triangle");
        if (ex >= 1e-3 * (a + b)) { SymMat<3, float> Sf((float)d[0], 0, (float)d[1], 0, 0, (float)d[2]); validRecord<float>(Sf, "triangle");
            vh::P("invalid_inertia_rejected", "isValidF.triangle.reject", Inertia_<float>::isValidInertiaMatrix(Sf) ? 1.0 : 0.0, 0.0); }
        vh::P("invalid_inertia_rejected", "isValid.triangle.reject", Inertia::isValidInertiaMatrix(S) ? 1.0 : 0.0, 0.0);
    } else if (k == 2) {   // product larger than the code's bound
        double d[3] = {g.range(1, 5), g.range(1, 5), g.range(1, 5)}; if (d[0] + d[1] < d[2]) d[2] = d[0] + d[1];
        if (d[0] + d[2] < d[1]) d[1] = d[0] + d[2]; if (d[1] + d[2] < d[0]) d[0] = d[1] + d[2];
        double p[3] = {0, 0, 0}; int w = g.below(3); p[w] = (g.coin() ? 1 : -1) * d[2 - w] * (0.5 + std::pow(10.0, -g.range(0, 6)));
        Sym S(d[0], p[0], d[1], p[1], p[2], d[2]);
        validRecord<double>(S, "product");
        if (std::fabs(p[w]) >= d[2 - w] * 0.501) { SymMat<3, float> Sf((float)d[0], (float)p[0], (float)d[1], (float)p[1], (float)p[2], (float)d[2]); validRecord<float>(Sf, "product");
            vh::P("invalid_inertia_rejected", "isValidF.product.reject", Inertia_<float>::isValidInertiaMatrix(Sf) ? 1.0 : 0.0, 0.0); }
        vh::P("invalid_inertia_rejected", "isValid.product.reject", Inertia::isValidInertiaMatrix(S) ? 1.0 : 0.0, 0.0);
    } else if (k == 3) {   // exactly on the boundary / limits: point-mass-like (one zero moment), thin rod
        double a = g.range(0.1, 5);
        int ax = g.below(3); double d[3] = {a, a, a}; d[ax] = 0;
        Sym S(d[0], 0, d[1], 0, 0, d[2]);
        validRecord<double>(S, "rodlimit");
        { SymMat<3, float> Sf((float)d[0], 0, (float)d[1], 0, 0, (float)d[2]); validRecord<float>(Sf, "rodlimit");
          vh::P("limit_inertia_accepted", "isValidF.rodlimit.accept", Inertia_<float>::isValidInertiaMatrix(Sf) ? 0.0 : 1.0, 0.0); }
        vh::P("limit_inertia_accepted", "isValid.rodlimit.accept", Inertia::isValidInertiaMatrix(S) ? 0.0 : 1.0, 0.0);
        Sym Z(0, 0, 0, 0, 0, 0);
        validRecord<double>(Z, "zero");
        vh::P("limit_inertia_accepted", "isValid.zero.accept", Inertia::isValidInertiaMatrix(Z) ? 0.0 : 1.0, 0.0);
    } else if (k == 4) {
        // slop boundary: each of the six inequalities violated by f x slop with slop = max(trace,1)*Significant; the code must
        // accept for f < 1 and reject for f > 1 (discriminates the slop formula: Slop=0, sqrt(Eps)-slop, missing max(.,1))
        static const double fs[4] = {0.1, 0.5, 2, 10};
        double f = fs[g.below(4)]; int which = g.below(6); bool small = g.coin();
        double a = small ? g.range(0.02, 0.15) : g.range(0.8, 4), b = small ? g.range(0.02, 0.15) : g.range(0.8, 4);
        double d[3], p[3] = {0, 0, 0};   // p = (xy, xz, yz)
        if (which < 3) {   // triangle: d[which] = sum of the other two + f*slop
            double tr0 = 2 * (a + b), slop = std::max(tr0, 1.0) * SignificantReal;
            d[which] = a + b + f * slop; d[(which + 1) % 3] = a; d[(which + 2) % 3] = b;
        } else {           // product: |2 p| = opposite moment + f*slop   (yz <-> xx, xz <-> yy, xy <-> zz)
            int m = which - 3; d[0] = a + b; d[1] = a + b * 0.9; d[2] = a * 0.9 + b;
            double tr0 = d[0] + d[1] + d[2], slop = std::max(tr0, 1.0) * SignificantReal;
            p[2 - m] = (g.coin() ? 0.5 : -0.5) * (d[m] + f * slop);
        }
        Sym S(d[0], p[0], d[1], p[1], p[2], d[2]);
        std::string cls = std::string("slop.") + (which < 3 ? "triangle" : "product") + (small ? ".trace_lt_1" : ".trace_gt_1");
        validRecord<double>(S, cls + (f < 1 ? ".inside" : ".outside"));
        bool ok = Inertia::isValidInertiaMatrix(S);
        char fb[32]; std::snprintf(fb, sizeof fb, "%g", f);
        vh::P("slop_is_max_trace_1_times_significant", "isValid." + cls + ".f" + fb, (ok == (f < 1)) ? 0.0 : 1.0, 0.0);
        if (f == 0.1 || f == 10) {   // float: only the clearly separated factors (one slop is ~7 ulp there)
            float af = (float)a, bf = (float)b, df[3], pf[3] = {0, 0, 0};
            if (which < 3) { float slopf = std::max(2 * (af + bf), 1.0f) * NTraits<float>::getSignificant();
                df[which] = af + bf + (float)f * slopf; df[(which + 1) % 3] = af; df[(which + 2) % 3] = bf; }
            else { int m = which - 3; df[0] = af + bf; df[1] = af + bf * 0.9f; df[2] = af * 0.9f + bf;
                float slopf = std::max(df[0] + df[1] + df[2], 1.0f) * NTraits<float>::getSignificant();
                pf[2 - m] = (p[2 - m] > 0 ? 0.5f : -0.5f) * (df[m] + (float)f * slopf); }
            SymMat<3, float> Sf(df[0], pf[0], df[1], pf[1], pf[2], df[2]);
            validRecord<float>(Sf, cls + (f < 1 ? ".inside" : ".outside"));
            vh::P("slop_is_max_trace_1_times_significant", "isValidF." + cls + ".f" + fb, (Inertia_<float>::isValidInertiaMatrix(Sf) == (f < 1)) ? 0.0 : 1.0, 0.0);
        }
        // NaN in any slot must be rejected
        { int slot = g.below(6); double e[6] = {1, 1, 1, 0.1, 0.1, 0.1}; e[slot] = NaN;
          Sym N(e[0], e[3], e[1], e[4], e[5], e[2]);
          vh::P("invalid_inertia_rejected", "isValid.nan.reject", Inertia::isValidInertiaMatrix(N) ? 1.0 : 0.0, 0.0);
          SymMat<3, float> Nf((float)e[0], (float)e[3], (float)e[1], (float)e[4], (float)e[5], (float)e[2]);
          vh::P("invalid_inertia_rejected", "isValidF.nan.reject", Inertia_<float>::isValidInertiaMatrix(Nf) ? 1.0 : 0.0, 0.0);
          vh::D("isValid.nan.slot" + std::to_string(slot)); }
    } else {
        // probe: matrices that satisfy every coded condition with margin; whatever the code ACCEPTS must be positive
        // semi-definite and satisfy the triangle inequalities (statement of the property)
        double d[3] = {g.range(0.2, 3), g.range(0.2, 3), g.range(0.2, 3)};
        if (d[0] + d[1] < d[2]) d[2] = 0.9 * (d[0] + d[1]); if (d[0] + d[2] < d[1]) d[1] = 0.9 * (d[0] + d[2]); if (d[1] + d[2] < d[0]) d[0] = 0.9 * (d[1] + d[2]);
        double xy = g.range(-0.49, 0.49) * d[2], xz = g.range(-0.49, 0.49) * d[1], yz = g.range(-0.49, 0.49) * d[0];
        Sym S(d[0], xy, d[1], xz, yz, d[2]);
        validRecord<double>(S, "probe");
        if (Inertia::isValidInertiaMatrix(S)) {
            double tr = d[0] + d[1] + d[2], slop = std::max(tr, 1.0) * SignificantReal;
            double tri = std::max(d[2] - d[0] - d[1], std::max(d[1] - d[0] - d[2], d[0] - d[1] - d[2]));
            vh::P("accepted_inertia_has_nonnegative_moments", "isValidInertiaMatrix.accepted.diag", std::max(0.0, -std::min(d[0], std::min(d[1], d[2]))), 0.0);
            vh::P("accepted_inertia_satisfies_triangle_inequalities", "isValidInertiaMatrix.accepted.triangle", std::max(0.0, tri), slop);
            LD me = minEig(d[0], d[1], d[2], xy, xz, yz);
            vh::P("accepted_inertia_is_positive_semidefinite", "isValidInertiaMatrix.accepted.psd", (double)std::max((LD)0, -me) / tr, 1e-9);
        }
    }
}

// ---------------------------------------------------------------------- SpatialAlgebra.h (double only)
static void algebraCase(vh::Rng& g) {
    typedef H<double> HD;
    SpatialVec V = HD::genSV(g), F = HD::genSV(g), A = HD::genSV(g); Vec3 r = HD::genVec(g), w = HD::genVec(g), p = HD::genVec(g), q = HD::genVec(g);
    SpatialVec v1 = shiftVelocityBy(V, r), f1 = shiftForceBy(F, r), a1 = shiftAccelerationBy(A, w, r);
    { vh::Line in = vh::I("shiftVel"); HD::putSV(in, V); HD::putV(in, r); in.emit(); vh::Line o = vh::O("shiftVel"); HD::putSV(o, v1); o.emit(); vh::D("shiftVel"); }
    { vh::Line in = vh::I("shiftForce"); HD::putSV(in, F); HD::putV(in, r); in.emit(); vh::Line o = vh::O("shiftForce"); HD::putSV(o, f1); o.emit(); vh::D("shiftForce"); }
    { vh::Line in = vh::I("shiftAcc"); HD::putSV(in, A); HD::putV(in, w); HD::putV(in, r); in.emit(); vh::Line o = vh::O("shiftAcc"); HD::putSV(o, a1); o.emit(); vh::D("shiftAcc"); }
    { vh::Line in = vh::I("shiftFromTo"); HD::putSV(in, V); HD::putV(in, w); HD::putV(in, p); HD::putV(in, q); in.emit(); vh::Line o = vh::O("shiftFromTo");
      HD::putSV(o, shiftVelocityFromTo(V, p, q)); HD::putSV(o, shiftForceFromTo(V, p, q)); HD::putSV(o, shiftAccelerationFromTo(V, w, p, q)); o.emit(); vh::D("shiftFromTo"); }
    double eps = Eps, sc = HD::svNorm(F) * HD::svNorm(V) * (1 + r.normSqr());
    vh::P("power_shift_invariant", "shiftForce.power", std::fabs((~f1 * v1) - (~F * V)) / sc, 64 * eps);
    vh::P("shift_roundtrip", "shiftVel.rt", HD::svDiff(shiftVelocityBy(v1, -r), V) / (HD::svNorm(V) * (1 + r.normSqr())), 64 * eps);
    vh::P("shift_roundtrip", "shiftForce.rt", HD::svDiff(shiftForceBy(f1, -r), F) / (HD::svNorm(F) * (1 + r.normSqr())), 64 * eps);
    // acceleration shift is the time derivative of the velocity shift for a body-fixed offset (finite difference)
    { double h = 1e-5; SpatialVec Vp(V[0] + h * A[0], V[1] + h * A[1]), Vm(V[0] - h * A[0], V[1] - h * A[1]);
      Vec3 rd = V[0] % r, rdd = A[0] % r + V[0] % rd;
      Vec3 rp = r + h * rd + (h * h / 2) * rdd, rm = r - h * rd + (h * h / 2) * rdd;
      SpatialVec fd((shiftVelocityBy(Vp, rp)[0] - shiftVelocityBy(Vm, rm)[0]) / (2 * h), (shiftVelocityBy(Vp, rp)[1] - shiftVelocityBy(Vm, rm)[1]) / (2 * h));
      SpatialVec an = shiftAccelerationBy(A, V[0], r);
      vh::P("shift_acceleration_is_derivative_of_shift_velocity", "shiftAcc.fd", HD::svDiff(fd, an) / std::max(1.0, HD::svNorm(an)), 1e-6); }
    // kinetic energy / momentum / power with the library's own shift operators and a real SpatialInertia
    { HD::Body bb = HD::genBody(g); SpatialInertia M = HD::toSI(bb); SpatialInertia Ms = M.shift(r);
      SpatialVec MV = M * V, Vs = shiftVelocityBy(V, r), Ps = Ms * Vs, Pexp = shiftForceBy(MV, r);
      double dn = HD::smNorm(M.toSpatialMat()), vn = HD::svNorm(V), scl = dn * (1 + r.normSqr());
      vh::P("kinetic_energy_shift_invariant", "shiftVel.ke", std::fabs((~V * MV) - (~Vs * Ps)) / (scl * vn * vn), 64 * eps);
      vh::P("momentum_shifts_like_force", "shiftForce.momentum", HD::svDiff(Ps, Pexp) / (scl * vn), 64 * eps); }
    // relative velocity / acceleration
    Transform XA(HD::genRot(g), HD::genVec(g)), XB(HD::genRot(g), HD::genVec(g));
    SpatialVec VA = HD::genSV(g), VB = HD::genSV(g), AA = HD::genSV(g), AB = HD::genSV(g);
    SpatialVec rel = findRelativeVelocity(XA, VA, XB, VB), relF = findRelativeVelocityInF(XB.p() - XA.p(), VA, VB);
    { vh::Line in = vh::I("relVel"); HD::putX(in, XA); HD::putSV(in, VA); HD::putX(in, XB); HD::putSV(in, VB); in.emit(); vh::Line o = vh::O("relVel"); HD::putSV(o, rel); HD::putSV(o, relF); o.emit(); vh::D("relVel"); }
    SpatialVec racc = findRelativeAcceleration(XA, VA, AA, XB, VB, AB), raccF = findRelativeAccelerationInF(XB.p() - XA.p(), VA, AA, VB, AB);
    { vh::Line in = vh::I("relAcc"); HD::putX(in, XA); HD::putSV(in, VA); HD::putSV(in, AA); HD::putX(in, XB); HD::putSV(in, VB); HD::putSV(in, AB); in.emit();
      vh::Line o = vh::O("relAcc"); HD::putSV(o, racc); HD::putSV(o, raccF); o.emit(); vh::D("relAcc"); }
    Transform XAB = ~XA * XB;
    SpatialVec rev = reverseRelativeVelocity(XAB, rel), revA = reverseRelativeVelocityInA(XAB, rel);
    { vh::Line in = vh::I("reverseRelVel"); HD::putX(in, XAB); HD::putSV(in, rel); in.emit(); vh::Line o = vh::O("reverseRelVel"); HD::putSV(o, rev); HD::putSV(o, revA); o.emit(); vh::D("reverseRelVel"); }
    SpatialVec relBA = findRelativeVelocity(XB, VB, XA, VA);
    double vs = std::max(HD::svNorm(VA), HD::svNorm(VB)) * (1 + (XB.p() - XA.p()).norm());
    vh::P("reversed_relative_velocity_consistent", "reverseRelVel.consistent", HD::svDiff(rev, relBA) / vs, 64 * eps);
    // PhiMatrix
    PhiMatrix phi(r);
    SpatialVec pv = phi * V, ptv = ~phi * V;
    { vh::Line in = vh::I("phiVec"); HD::putV(in, r); HD::putSV(in, V); in.emit(); vh::Line o = vh::O("phiVec"); HD::putSV(o, pv); HD::putSV(o, ptv); o.emit(); vh::D("phiVec"); }
    SpatialMat m; for (int i = 0; i < 2; ++i) for (int j = 0; j < 2; ++j) for (int a = 0; a < 3; ++a) for (int b = 0; b < 3; ++b) m(i, j)(a, b) = g.range(-3, 3);
    SpatialMat o1 = phi * m, o2 = m * phi, o3 = ~phi * m, o4 = m * ~phi, o5 = phi.toSpatialMat(), o6 = (~phi).toSpatialMat();
    { vh::Line in = vh::I("phiMat"); HD::putV(in, r); HD::putSM(in, m); in.emit(); vh::Line o = vh::O("phiMat"); HD::putSM(o, o1); HD::putSM(o, o2); HD::putSM(o, o3); HD::putSM(o, o4); HD::putSM(o, o5); HD::putSM(o, o6); o.emit(); vh::D("phiMat"); }
    double ms = HD::smNorm(m) * (1 + r.norm());
    vh::P("phi_products_equal_dense", "phiMat.left", HD::smDiff(o1, o5 * m) / ms, 64 * eps);
    vh::P("phi_products_equal_dense", "phiMat.right", HD::smDiff(o2, m * o5) / ms, 64 * eps);
    vh::P("phi_products_equal_dense", "phiMat.tleft", HD::smDiff(o3, o6 * m) / ms, 64 * eps);
    vh::P("phi_products_equal_dense", "phiMat.tright", HD::smDiff(o4, m * o6) / ms, 64 * eps);
    vh::P("phi_products_equal_dense", "phiVec.dense", HD::svDiff(pv, o5 * V) / (HD::svNorm(V) * (1 + r.norm())), 64 * eps);
    vh::P("phi_products_equal_dense", "phiVec.tdense", HD::svDiff(ptv, o6 * V) / (HD::svNorm(V) * (1 + r.norm())), 64 * eps);
    vh::P("phi_is_velocity_and_force_shift", "phiVec.shift", std::max(HD::svDiff(ptv, shiftVelocityBy(V, r)), HD::svDiff(phi * F, shiftForceBy(F, -r))) / (std::max(HD::svNorm(V), HD::svNorm(F)) * (1 + r.norm())), 64 * eps);
}

static void replay() {
    char buf[1 << 16];
    while (std::fgets(buf, sizeof buf, stdin)) {
        std::istringstream is(buf); std::string k, fn; is >> k >> fn;
        if (k != "I") continue;
        std::vector<double> v; std::string t; while (is >> t) v.push_back(vh::unhex(t));
        if (fn == "isValid" && v.size() == 7) {
            SymMat33 S(v[1], v[4], v[2], v[5], v[6], v[3]);
            validRecord<double>(S, "replay");
            if (Inertia::isValidInertiaMatrix(S)) {
                LD me = minEig(v[1], v[2], v[3], v[4], v[5], v[6]);
                vh::P("accepted_inertia_is_positive_semidefinite", "isValidInertiaMatrix.accepted.psd", (double)std::max((LD)0, -me) / (v[1] + v[2] + v[3]), 1e-9);
            }
        } else if (fn == "pointMass" && v.size() == 4) {
            Inertia pm(Vec3(v[0], v[1], v[2]), v[3]);
            vh::Line in = vh::I(fn); for (double x : v) in.d(x); in.emit(); vh::Line o = vh::O(fn); H<double>::putS(o, pm.asSymMat33()); o.emit();
        } else if (fn == "shiftVel" && v.size() == 9) {
            SpatialVec r = shiftVelocityBy(SpatialVec(Vec3(v[0], v[1], v[2]), Vec3(v[3], v[4], v[5])), Vec3(v[6], v[7], v[8]));
            vh::Line in = vh::I(fn); for (double x : v) in.d(x); in.emit(); vh::Line o = vh::O(fn); H<double>::putSV(o, r); o.emit();
        } else if (fn == "shiftForce" && v.size() == 9) {
            SpatialVec r = shiftForceBy(SpatialVec(Vec3(v[0], v[1], v[2]), Vec3(v[3], v[4], v[5])), Vec3(v[6], v[7], v[8]));
            vh::Line in = vh::I(fn); for (double x : v) in.d(x); in.emit(); vh::Line o = vh::O(fn); H<double>::putSV(o, r); o.emit();
        }
    }
}

int main(int argc, char** argv) {
    vh::Args args(argc, argv);
    if (args.mode == "replay") { replay(); return 0; }
    vh::Rng g(args.seed * 7919 + 29);
    for (long k = 0; k < args.n; ++k) {
        bool F = g.below(4) == 0;
        int s = g.below(10);
        if (s <= 2) { if (F) H<float>::inertiaCase(g); else H<double>::inertiaCase(g); }
        else if (s <= 5) { if (F) H<float>::spatialCase(g); else H<double>::spatialCase(g); }
        else if (s <= 7) validCase(g);
        else algebraCase(g);
    }
    return 0;
}
