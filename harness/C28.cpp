// C28 correspondence harness: the static angular-velocity <-> coordinate-rate helpers of Rotation_<P> (Rotation.h),
// double and float.  Model: SimbodyModel/C28.lean, driver drv_C28.
//   I <fn>[F] <hex doubles>…   O <fn>[F] …   D <tag>
//   P lines (the property's predicates on the library's outputs):
//     N*NInv = I and NInv*N = I; structured products = dense products; conversions are mutual inverses;
//     (double only) central finite differences: q̇ really is the derivative of the coordinates of a rotation moving
//     with ω (Ṙ = [ω]× R or R [ω]×), NDot = d/dt N, q̈ helpers = d/dt (N ω).
#include "SimTKcommon.h"
#include "hcommon.h"
#include <algorithm>
using namespace SimTK;
typedef long double LD;
static const double PI = 3.14159265358979323846;

template <class P> struct H {
    typedef Rotation_<P> Rot;
    typedef Mat<3, 3, P> M33;
    typedef Vec<3, P> V3;
    typedef Vec<4, P> V4;
    typedef Vec<2, P> V2;
    typedef Quaternion_<P> Quat;
    static bool isF() { return sizeof(P) == 4; }
    static std::string fn(const char* b) { return std::string(b) + (isF() ? "F" : ""); }
    static double eps() { return (double)NTraits<P>::getEps(); }
    static void tol(double cond = 1) { if (isF()) std::printf("T %.3g %.3g\n", 2e-5 * cond, 2e-6 * cond); else if (cond > 1) std::printf("T %.3g %.3g\n", 1e-9 * cond, 1e-12 * cond); }
    static P c(double x) { return (P)x; }
    static void putM(vh::Line& L, const M33& R) { for (int i = 0; i < 3; ++i) for (int j = 0; j < 3; ++j) L.d((double)R[i][j]); }
    template <int N> static void putV(vh::Line& L, const Vec<N, P>& v) { for (int i = 0; i < N; ++i) L.d((double)v[i]); }
    static double maxAbs(const M33& A) { double w = 0; for (int i = 0; i < 3; ++i) for (int j = 0; j < 3; ++j) w = std::max(w, std::fabs((double)A[i][j])); return w; }
    static double nan2(double x) { return x; }

    static Rot Rxyz(const V3& q) { Rot R; R.setRotationToBodyFixedXYZ(q); return R; }

    static void eulerCase(vh::Rng& g, const std::string& cls, double minCos) {
        // q1 with |cos q1| >= minCos
        double q1;
        do { q1 = g.range(-PI, PI); } while (std::fabs(std::cos(q1)) < minCos);
        if (cls == "nearsingular") { double d = std::pow(10.0, -g.range(1, isF() ? 2 : 4)); q1 = (g.coin() ? 1 : -1) * (PI / 2 + (g.coin() ? d : -d)); }
        V3 q(c(g.range(-PI, PI)), c(q1), c(g.range(-PI, PI)));
        V3 w(c(g.signedMag(0.1, 10)), c(g.signedMag(0.1, 10)), c(g.signedMag(0.1, 10)));
        V3 wd(c(g.signedMag(0.1, 10)), c(g.signedMag(0.1, 10)), c(g.signedMag(0.1, 10)));
        V3 qd(c(g.signedMag(0.1, 10)), c(g.signedMag(0.1, 10)), c(g.signedMag(0.1, 10)));
        if (g.below(5) == 0) { int z = g.below(3); w[z] = 0; wd[(z + 1) % 3] = 0; qd[(z + 2) % 3] = 0; vh::D(fn("euler") + ".zerocomponent"); }
        const P c1 = std::cos(q[1]);
        vh::D(fn("euler") + (c1 < 0 ? ".cosq1_negative" : ".cosq1_positive"));
        const double cond = 1.0 / std::fabs((double)c1), cond2 = cond * cond;
        V3 cq(std::cos(q[0]), c1, std::cos(q[2])), sq(std::sin(q[0]), std::sin(q[1]), std::sin(q[2]));
        const std::string k = "." + cls;

        // ---- matrices
        M33 NB = Rot::calcNForBodyXYZInBodyFrame(q), NP = Rot::calcNForBodyXYZInParentFrame(q);
        M33 NIB = Rot::calcNInvForBodyXYZInBodyFrame(q), NIP = Rot::calcNInvForBodyXYZInParentFrame(q);
        M33 NDB = Rot::calcNDotForBodyXYZInBodyFrame(q, qd), NDP = Rot::calcNDotForBodyXYZInParentFrame(q, qd);
        struct { const char* nm; const M33* m; bool hasQd; double cnd; } mats[6] = {
            {"NB", &NB, false, cond}, {"NP", &NP, false, cond}, {"NInvB", &NIB, false, 1}, {"NInvP", &NIP, false, 1},
            {"NDotB", &NDB, true, cond}, {"NDotP", &NDP, true, cond}};
        for (auto& e : mats) {
            vh::Line in = vh::I(fn(e.nm)); putV<3>(in, q); if (e.hasQd) putV<3>(in, qd); in.emit(); tol(isF() ? e.cnd : 1);
            vh::Line o = vh::O(fn(e.nm)); putM(o, *e.m); o.emit();
            vh::D(fn(e.nm) + k);
        }
        double sc = std::max(1.0, cond);
        vh::P("N_times_NInv_is_identity", fn("NB") + k + ".NNInv", maxAbs(NB * NIB - M33(1)), 64 * eps() * sc);
        vh::P("NInv_times_N_is_identity", fn("NB") + k + ".NInvN", maxAbs(NIB * NB - M33(1)), 64 * eps() * sc);
        vh::P("N_times_NInv_is_identity", fn("NP") + k + ".NNInv", maxAbs(NP * NIP - M33(1)), 64 * eps() * sc);
        vh::P("NInv_times_N_is_identity", fn("NP") + k + ".NInvN", maxAbs(NIP * NP - M33(1)), 64 * eps() * sc);
        // (cq,sq) overloads agree with the angle overloads
        vh::P("cs_overload_agrees", fn("NB") + k + ".cs", maxAbs(Rot::calcNForBodyXYZInBodyFrame(cq, sq) - NB) / sc, 16 * eps());
        vh::P("cs_overload_agrees", fn("NP") + k + ".cs", maxAbs(Rot::calcNForBodyXYZInParentFrame(cq, sq) - NP) / sc, 16 * eps());
        vh::P("cs_overload_agrees", fn("NInvB") + k + ".cs", maxAbs(Rot::calcNInvForBodyXYZInBodyFrame(cq, sq) - NIB), 16 * eps());
        vh::P("cs_overload_agrees", fn("NInvP") + k + ".cs", maxAbs(Rot::calcNInvForBodyXYZInParentFrame(cq, sq) - NIP), 16 * eps());
        // documented relations N_B = N_P R_PB, NInv_B = ~R_PB NInv_P
        Rot R = Rxyz(q);
        vh::P("N_B_equals_N_P_times_R", fn("NB") + k + ".NPR", maxAbs(NP * R.asMat33() - NB) / sc, 64 * eps());
        vh::P("NInv_B_equals_Rt_times_NInv_P", fn("NInvB") + k + ".RtNInvP", maxAbs(~R.asMat33() * NIP - NIB), 64 * eps());

        // ---- structured products
        V2 cxy(cq[0], cq[1]), sxy(sq[0], sq[1]); P oo = 1 / c1;
        V3 a1 = Rot::multiplyByBodyXYZ_N_P(cxy, sxy, oo, w), a2 = Rot::multiplyByBodyXYZ_NT_P(cxy, sxy, oo, w);
        V3 a3 = Rot::multiplyByBodyXYZ_NInv_P(cxy, sxy, w), a4 = Rot::multiplyByBodyXYZ_NInvT_P(cxy, sxy, w);
        { vh::Line in = vh::I(fn("mulNP")); in.d(q[0]).d(q[1]); putV<3>(in, w); in.emit(); tol(isF() ? cond : 1);
          vh::Line o = vh::O(fn("mulNP")); putV<3>(o, a1); putV<3>(o, a2); o.emit();
          vh::D(fn("mulNP") + k); }
        { vh::Line in = vh::I(fn("mulNInvP")); in.d(q[0]).d(q[1]); putV<3>(in, w); in.emit(); tol();
          vh::Line o = vh::O(fn("mulNInvP")); putV<3>(o, a3); putV<3>(o, a4); o.emit();
          vh::D(fn("mulNInvP") + k); }
        double ws = (double)w.norm();
        vh::P("structured_product_equals_dense", fn("mulNP") + k + ".N", (double)(a1 - NP * w).norm() / (ws * sc), 64 * eps());
        vh::P("structured_product_equals_dense", fn("mulNP") + k + ".NT", (double)(a2 - ~NP * w).norm() / (ws * sc), 64 * eps());
        vh::P("structured_product_equals_dense", fn("mulNP") + k + ".NInv", (double)(a3 - NIP * w).norm() / ws, 64 * eps());
        vh::P("structured_product_equals_dense", fn("mulNP") + k + ".NInvT", (double)(a4 - ~NIP * w).norm() / ws, 64 * eps());
        vh::P("convertAngVelInParentToBodyXYZDot_is_N_P", fn("mulNP") + k + ".conv", (double)(Rot::convertAngVelInParentToBodyXYZDot(cxy, sxy, oo, w) - a1).norm(), 0.0);

        // ---- conversions
        V3 qdB = Rot::convertAngVelInBodyFrameToBodyXYZDot(q, w);
        V3 wBack = Rot::convertBodyXYZDotToAngVelInBodyFrame(q, qdB);
        V3 wFromQd = Rot::convertBodyXYZDotToAngVelInBodyFrame(q, qd);
        V3 qddB = Rot::convertAngVelDotInBodyFrameToBodyXYZDotDot(q, w, wd);
        V3 qddP = Rot::convertAngAccInParentToBodyXYZDotDot(cxy, sxy, oo, qd, wd);
        { vh::Line in = vh::I(fn("wBtoQd")); putV<3>(in, q); putV<3>(in, w); in.emit(); tol(isF() ? cond : 1);
          vh::Line o = vh::O(fn("wBtoQd")); putV<3>(o, qdB); o.emit(); vh::D(fn("wBtoQd") + k); }
        { vh::Line in = vh::I(fn("qdToWB")); putV<3>(in, q); putV<3>(in, qd); in.emit(); tol();
          vh::Line o = vh::O(fn("qdToWB")); putV<3>(o, wFromQd); o.emit(); vh::D(fn("qdToWB") + k); }
        { vh::Line in = vh::I(fn("wdBtoQdd")); putV<3>(in, q); putV<3>(in, w); putV<3>(in, wd); in.emit(); tol(isF() ? cond : 1);
          vh::Line o = vh::O(fn("wdBtoQdd")); putV<3>(o, qddB); o.emit(); vh::D(fn("wdBtoQdd") + k); }
        { vh::Line in = vh::I(fn("aPtoQdd")); in.d(q[0]).d(q[1]); putV<3>(in, qd); putV<3>(in, wd); in.emit(); tol(isF() ? cond : 1);
          vh::Line o = vh::O(fn("aPtoQdd")); putV<3>(o, qddP); o.emit(); vh::D(fn("aPtoQdd") + k); }
        vh::P("conversions_are_inverse", fn("wBtoQd") + k + ".inv", (double)(wBack - w).norm() / (ws * sc), 64 * eps());

        // ---- 3-2-1
        V3 qd321 = Rot::convertAngVelToBodyFixed321Dot(q, w);
        V3 w321 = Rot::convertBodyFixed321DotToAngVel(q, qd);
        V3 qdd321 = Rot::convertAngVelDotToBodyFixed321DotDot(q, w, wd);
        { vh::Line in = vh::I(fn("w321")); putV<3>(in, q); putV<3>(in, w); in.emit(); tol(isF() ? cond : 1);
          vh::Line o = vh::O(fn("w321")); putV<3>(o, qd321); o.emit(); vh::D(fn("w321") + k); }
        { vh::Line in = vh::I(fn("qd321")); putV<3>(in, q); putV<3>(in, qd); in.emit(); tol();
          vh::Line o = vh::O(fn("qd321")); putV<3>(o, w321); o.emit(); vh::D(fn("qd321") + k); }
        { vh::Line in = vh::I(fn("wd321")); putV<3>(in, q); putV<3>(in, w); putV<3>(in, wd); in.emit(); tol(isF() ? cond : 1);
          vh::Line o = vh::O(fn("wd321")); putV<3>(o, qdd321); o.emit(); vh::D(fn("wd321") + k); }
        vh::P("conversions_are_inverse", fn("w321") + k + ".inv", (double)(Rot::convertBodyFixed321DotToAngVel(q, qd321) - w).norm() / (ws * sc), 64 * eps());

        if (isF() || cls != "generic") return;   // finite differences need h << distance to the singularity
        // ---- finite differences (double): the helpers are true time derivatives
        const double h = 1e-5;
        const double fdTol = 2e-8 * cond2 * cond;   // O(h^2) truncation with third derivatives ~ cond^3, plus rounding eps/h (measured <= 7.5e-9 at cond 1)
        {   // omega in the parent: qdot = N_P w,  Rdot = [w]x R
            V3 qp = q + c(h) * a1, qm = q - c(h) * a1;
            M33 Rd = (Rxyz(qp).asMat33() - Rxyz(qm).asMat33()) / c(2 * h);
            vh::P("qdot_is_derivative_parent", fn("mulNP") + k + ".fd", maxAbs(Rd - crossMat(w) * R.asMat33()) / (ws * sc), fdTol); }
        {   // omega in the body: qdot = N_B w,  Rdot = R [w]x
            V3 qp = q + c(h) * qdB, qm = q - c(h) * qdB;
            M33 Rd = (Rxyz(qp).asMat33() - Rxyz(qm).asMat33()) / c(2 * h);
            vh::P("qdot_is_derivative_body", fn("wBtoQd") + k + ".fd", maxAbs(Rd - R.asMat33() * crossMat(w)) / (ws * sc), fdTol); }
        {   // 3-2-1
            V3 qp = q + c(h) * qd321, qm = q - c(h) * qd321;
            Rot Rp(BodyRotationSequence, qp[0], ZAxis, qp[1], YAxis, qp[2], XAxis), Rm(BodyRotationSequence, qm[0], ZAxis, qm[1], YAxis, qm[2], XAxis);
            Rot R0(BodyRotationSequence, q[0], ZAxis, q[1], YAxis, q[2], XAxis);
            M33 Rd = (Rp.asMat33() - Rm.asMat33()) / c(2 * h);
            vh::P("qdot_is_derivative_321", fn("w321") + k + ".fd", maxAbs(Rd - R0.asMat33() * crossMat(w)) / (ws * sc), fdTol); }
        {   // NDot = d/dt N along qd
            double qs = (double)qd.norm();
            V3 qp = q + c(h) * qd, qm = q - c(h) * qd;
            M33 dB = (Rot::calcNForBodyXYZInBodyFrame(qp) - Rot::calcNForBodyXYZInBodyFrame(qm)) / c(2 * h);
            M33 dP = (Rot::calcNForBodyXYZInParentFrame(qp) - Rot::calcNForBodyXYZInParentFrame(qm)) / c(2 * h);
            vh::P("NDot_is_derivative", fn("NDotB") + k + ".fd", maxAbs(dB - NDB) / (qs * cond2), fdTol * qs * qs);
            vh::P("NDot_is_derivative", fn("NDotP") + k + ".fd", maxAbs(dP - NDP) / (qs * cond2), fdTol * qs * qs); }
        {   // qdotdot (body): d/dt [N_B(q(t)) w(t)],  q(t) = q + t qdot + .., w(t) = w + t wd
            V3 qp = q + c(h) * qdB, qm = q - c(h) * qdB;
            V3 fp = Rot::calcNForBodyXYZInBodyFrame(qp) * (w + c(h) * wd), fm = Rot::calcNForBodyXYZInBodyFrame(qm) * (w - c(h) * wd);
            V3 fd = (fp - fm) / c(2 * h);
            vh::P("qdotdot_is_derivative_body", fn("wdBtoQdd") + k + ".fd", (double)(fd - qddB).norm() / (std::max(1.0, (double)qddB.norm())), fdTol * 10);
            V3 qp3 = q + c(h) * qd321, qm3 = q - c(h) * qd321;
            V3 gp = Rot::convertAngVelToBodyFixed321Dot(qp3, w + c(h) * wd), gm = Rot::convertAngVelToBodyFixed321Dot(qm3, w - c(h) * wd);
            vh::P("qdotdot_is_derivative_321", fn("wd321") + k + ".fd", (double)((gp - gm) / c(2 * h) - qdd321).norm() / (std::max(1.0, (double)qdd321.norm())), fdTol * 10); }
        {   // qdotdot (parent): w = NInv_P qd, b = wd; d/dt [N_P(q(t)) w(t)]
            V3 wP = a3 * 0 + Rot::multiplyByBodyXYZ_NInv_P(cxy, sxy, qd);
            V3 qp = q + c(h) * qd, qm = q - c(h) * qd;
            V3 fp = Rot::calcNForBodyXYZInParentFrame(qp) * (wP + c(h) * wd), fm = Rot::calcNForBodyXYZInParentFrame(qm) * (wP - c(h) * wd);
            vh::P("qdotdot_is_derivative_parent", fn("aPtoQdd") + k + ".fd", (double)((fp - fm) / c(2 * h) - qddP).norm() / (std::max(1.0, (double)qddP.norm())), fdTol * 10); }
    }

    static void quatCase(vh::Rng& g, const std::string& cls) {
        V4 q;
        for (;;) { q = V4(c(g.range(-1, 1)), c(g.range(-1, 1)), c(g.range(-1, 1)), c(g.range(-1, 1))); double n = (double)q.norm(); if (n > 0.2 && n <= 1) break; }
        if (cls == "unit") q = q / q.norm(); else q = q * c(g.range(0.3, 3) / (double)q.norm());
        V3 w(c(g.signedMag(0.1, 10)), c(g.signedMag(0.1, 10)), c(g.signedMag(0.1, 10)));
        V3 b(c(g.signedMag(0.1, 10)), c(g.signedMag(0.1, 10)), c(g.signedMag(0.1, 10)));
        V4 qdIn(c(g.signedMag(0.1, 10)), c(g.signedMag(0.1, 10)), c(g.signedMag(0.1, 10)), c(g.signedMag(0.1, 10)));
        const std::string k = "." + cls;
        Mat<4, 3, P> N = Rot::calcUnnormalizedNForQuaternion(q), ND = Rot::calcUnnormalizedNDotForQuaternion(qdIn);
        Mat<3, 4, P> NI = Rot::calcUnnormalizedNInvForQuaternion(q);
        V4 qd = Rot::convertAngVelToQuaternionDot(q, w);
        V3 wq = Rot::convertQuaternionDotToAngVel(q, qdIn);
        V4 qdd = Rot::convertAngVelDotToQuaternionDotDot(q, w, b);
        { vh::Line in = vh::I(fn("NQ")); putV<4>(in, q); in.emit(); tol(); vh::Line o = vh::O(fn("NQ")); for (int i = 0; i < 4; ++i) for (int j = 0; j < 3; ++j) o.d((double)N(i, j)); o.emit(); vh::D(fn("NQ") + k); }
        { vh::Line in = vh::I(fn("NDotQ")); putV<4>(in, qdIn); in.emit(); tol(); vh::Line o = vh::O(fn("NDotQ")); for (int i = 0; i < 4; ++i) for (int j = 0; j < 3; ++j) o.d((double)ND(i, j)); o.emit(); vh::D(fn("NDotQ") + k); }
        { vh::Line in = vh::I(fn("NInvQ")); putV<4>(in, q); in.emit(); tol(); vh::Line o = vh::O(fn("NInvQ")); for (int i = 0; i < 3; ++i) for (int j = 0; j < 4; ++j) o.d((double)NI(i, j)); o.emit(); vh::D(fn("NInvQ") + k); }
        { vh::Line in = vh::I(fn("wToQdQ")); putV<4>(in, q); putV<3>(in, w); in.emit(); tol(); vh::Line o = vh::O(fn("wToQdQ")); putV<4>(o, qd); o.emit(); vh::D(fn("wToQdQ") + k); }
        { vh::Line in = vh::I(fn("qdQToW")); putV<4>(in, q); putV<4>(in, qdIn); in.emit(); tol(); vh::Line o = vh::O(fn("qdQToW")); putV<3>(o, wq); o.emit(); vh::D(fn("qdQToW") + k); }
        { vh::Line in = vh::I(fn("wdToQddQ")); putV<4>(in, q); putV<3>(in, w); putV<3>(in, b); in.emit(); tol(); vh::Line o = vh::O(fn("wdToQddQ")); putV<4>(o, qdd); o.emit(); vh::D(fn("wdToQddQ") + k); }
        double n2 = (double)q.normSqr(), ws = (double)w.norm();
        vh::D(fn("quat") + (n2 < 0.5 ? ".normsq_lt_half" : n2 > 2 ? ".normsq_gt_2" : ".normsq_near_1"));
        // algebraic form of the second-derivative helper, valid for any |q|: N(q) b - |w|^2/4 q
        { V4 want = N * b - P(0.25) * w.normSqr() * q;
          vh::P("qdotdot_quaternion_equals_Nb_minus_quarter_wsq_q", fn("wdToQddQ") + k + ".alg", (double)(qdd - want).norm() / std::max(1.0, (double)want.norm()), 64 * eps()); }
        Mat<3, 3, P> NIN = NI * N;
        vh::P("NInv_times_N_is_normsq_identity", fn("NInvQ") + k + ".NInvN", maxAbs(NIN - M33(c(n2))) / std::max(1.0, n2), 64 * eps());
        vh::P("conversions_are_inverse", fn("wToQdQ") + k + ".inv", (double)(Rot::convertQuaternionDotToAngVel(q, qd) - c(n2) * w).norm() / (ws * std::max(1.0, n2)), 64 * eps());
        vh::P("quaternion_rate_orthogonal_to_quaternion", fn("wToQdQ") + k + ".orth", std::fabs((double)dot(q, qd)) / (ws * std::max(1.0, n2)), 64 * eps());
        if (isF()) return;
        const double h = 1e-5, fdTol = 1e-7;
        {   // Rdot = [w]x R for R = (un-normalised) setRotationFromQuaternion(q)
            V4 qp = q + c(h) * qd, qm = q - c(h) * qd;
            M33 Rp = Rot(Quat(qp, true)).asMat33(), Rm = Rot(Quat(qm, true)).asMat33(), R0 = Rot(Quat(q, true)).asMat33();
            vh::P("qdot_is_derivative_quaternion", fn("wToQdQ") + k + ".fd", maxAbs((Rp - Rm) / c(2 * h) - crossMat(w) * R0) / (ws * std::max(1.0, n2)), fdTol * ws * ws); }
        {   // NDot(qd) = d/dt N(q + t qd)
            Mat<4, 3, P> d = (Rot::calcUnnormalizedNForQuaternion(q + c(h) * qdIn) - Rot::calcUnnormalizedNForQuaternion(q - c(h) * qdIn)) / c(2 * h);
            double wst = 0; for (int i = 0; i < 4; ++i) for (int j = 0; j < 3; ++j) wst = std::max(wst, std::fabs((double)d(i, j) - (double)ND(i, j)));
            vh::P("NDot_is_derivative", fn("NDotQ") + k + ".fd", wst / (double)qdIn.norm(), fdTol); }
        {   // qdotdot = d/dt [N(q(t)) w(t)]
            V4 fp = Rot::convertAngVelToQuaternionDot(q + c(h) * qd, w + c(h) * b), fm = Rot::convertAngVelToQuaternionDot(q - c(h) * qd, w - c(h) * b);
            vh::P("qdotdot_is_derivative_quaternion", fn("wdToQddQ") + k + ".fd", (double)((fp - fm) / c(2 * h) - qdd).norm() / std::max(1.0, (double)qdd.norm()), fdTol * ws * ws); }
    }
};

static void replay() {
    // pure functions of their I-record: nothing to re-generate beyond what the driver needs; echo the records so the
    // pipeline can pair them (the harness re-evaluates the matrix / conversion named by the record)
    char buf[1 << 16];
    while (std::fgets(buf, sizeof buf, stdin)) {
        std::istringstream is(buf); std::string k, fn; is >> k >> fn;
        if (k != "I") continue;
        std::vector<double> v; std::string t; while (is >> t) v.push_back(vh::unhex(t));
        bool F = !fn.empty() && fn.back() == 'F'; std::string b = F ? fn.substr(0, fn.size() - 1) : fn;
        if (F) continue;
        typedef Rotation R;
        vh::Line in = vh::I(fn); for (double x : v) in.d(x); in.emit();
        vh::Line o = vh::O(fn);
        auto M = [&](const Mat33& m) { for (int i = 0; i < 3; ++i) for (int j = 0; j < 3; ++j) o.d(m[i][j]); };
        auto V = [&](const Vec3& x) { for (int i = 0; i < 3; ++i) o.d(x[i]); };
        if (b == "NB" && v.size() == 3) M(R::calcNForBodyXYZInBodyFrame(Vec3(v[0], v[1], v[2])));
        else if (b == "NP" && v.size() == 3) M(R::calcNForBodyXYZInParentFrame(Vec3(v[0], v[1], v[2])));
        else if (b == "NInvB" && v.size() == 3) M(R::calcNInvForBodyXYZInBodyFrame(Vec3(v[0], v[1], v[2])));
        else if (b == "NInvP" && v.size() == 3) M(R::calcNInvForBodyXYZInParentFrame(Vec3(v[0], v[1], v[2])));
        else if (b == "NDotB" && v.size() == 6) M(R::calcNDotForBodyXYZInBodyFrame(Vec3(v[0], v[1], v[2]), Vec3(v[3], v[4], v[5])));
        else if (b == "NDotP" && v.size() == 6) M(R::calcNDotForBodyXYZInParentFrame(Vec3(v[0], v[1], v[2]), Vec3(v[3], v[4], v[5])));
        else if (b == "wBtoQd" && v.size() == 6) V(R::convertAngVelInBodyFrameToBodyXYZDot(Vec3(v[0], v[1], v[2]), Vec3(v[3], v[4], v[5])));
        else if (b == "qdToWB" && v.size() == 6) V(R::convertBodyXYZDotToAngVelInBodyFrame(Vec3(v[0], v[1], v[2]), Vec3(v[3], v[4], v[5])));
        else if (b == "wdBtoQdd" && v.size() == 9) V(R::convertAngVelDotInBodyFrameToBodyXYZDotDot(Vec3(v[0], v[1], v[2]), Vec3(v[3], v[4], v[5]), Vec3(v[6], v[7], v[8])));
        else if (b == "w321" && v.size() == 6) V(R::convertAngVelToBodyFixed321Dot(Vec3(v[0], v[1], v[2]), Vec3(v[3], v[4], v[5])));
        else if (b == "qd321" && v.size() == 6) V(R::convertBodyFixed321DotToAngVel(Vec3(v[0], v[1], v[2]), Vec3(v[3], v[4], v[5])));
        else if (b == "wd321" && v.size() == 9) V(R::convertAngVelDotToBodyFixed321DotDot(Vec3(v[0], v[1], v[2]), Vec3(v[3], v[4], v[5]), Vec3(v[6], v[7], v[8])));
        else if (b == "wToQdQ" && v.size() == 7) { Vec4 r = R::convertAngVelToQuaternionDot(Vec4(v[0], v[1], v[2], v[3]), Vec3(v[4], v[5], v[6])); for (int i = 0; i < 4; ++i) o.d(r[i]); }
        else if (b == "qdQToW" && v.size() == 8) V(R::convertQuaternionDotToAngVel(Vec4(v[0], v[1], v[2], v[3]), Vec4(v[4], v[5], v[6], v[7])));
        else if (b == "wdToQddQ" && v.size() == 10) { Vec4 r = R::convertAngVelDotToQuaternionDotDot(Vec4(v[0], v[1], v[2], v[3]), Vec3(v[4], v[5], v[6]), Vec3(v[7], v[8], v[9])); for (int i = 0; i < 4; ++i) o.d(r[i]); }
        else if (b == "mulNP" && v.size() == 5) { Vec2 cxy(std::cos(v[0]), std::cos(v[1])), sxy(std::sin(v[0]), std::sin(v[1])); Real oo = 1 / cxy[1]; Vec3 w(v[2], v[3], v[4]);
            V(R::multiplyByBodyXYZ_N_P(cxy, sxy, oo, w)); V(R::multiplyByBodyXYZ_NT_P(cxy, sxy, oo, w)); }
        else if (b == "mulNInvP" && v.size() == 5) { Vec2 cxy(std::cos(v[0]), std::cos(v[1])), sxy(std::sin(v[0]), std::sin(v[1])); Vec3 w(v[2], v[3], v[4]);
            V(R::multiplyByBodyXYZ_NInv_P(cxy, sxy, w)); V(R::multiplyByBodyXYZ_NInvT_P(cxy, sxy, w)); }
        else if (b == "aPtoQdd" && v.size() == 8) { Vec2 cxy(std::cos(v[0]), std::cos(v[1])), sxy(std::sin(v[0]), std::sin(v[1]));
            V(R::convertAngAccInParentToBodyXYZDotDot(cxy, sxy, 1 / cxy[1], Vec3(v[2], v[3], v[4]), Vec3(v[5], v[6], v[7]))); }
        else if ((b == "NQ" || b == "NDotQ") && v.size() == 4) { Mat43 m = b == "NQ" ? R::calcUnnormalizedNForQuaternion(Vec4(v[0], v[1], v[2], v[3])) : R::calcUnnormalizedNDotForQuaternion(Vec4(v[0], v[1], v[2], v[3]));
            for (int i = 0; i < 4; ++i) for (int j = 0; j < 3; ++j) o.d(m(i, j)); }
        else if (b == "NInvQ" && v.size() == 4) { Mat34 m = R::calcUnnormalizedNInvForQuaternion(Vec4(v[0], v[1], v[2], v[3])); for (int i = 0; i < 3; ++i) for (int j = 0; j < 4; ++j) o.d(m(i, j)); }
        else o.s("UNSUPPORTED");
        o.emit();
    }
}

int main(int argc, char** argv) {
    vh::Args args(argc, argv);
    if (args.mode == "replay") { replay(); return 0; }
    vh::Rng g(args.seed * 7919 + 28);
    for (long k = 0; k < args.n; ++k) {
        bool F = g.below(4) == 0;
        int s = g.below(10);
        // guaranteed shares: 50 % generic Euler, 10 % near-singular Euler, 20 % unit quaternions, 20 % un-normalised quaternions
        if (s <= 4) { if (F) H<float>::eulerCase(g, "generic", 0.2); else H<double>::eulerCase(g, "generic", 0.2); }
        else if (s == 5) { if (F) H<float>::eulerCase(g, "nearsingular", 0); else H<double>::eulerCase(g, "nearsingular", 0); }
        else if (s <= 7) { if (F) H<float>::quatCase(g, "unit"); else H<double>::quatCase(g, "unit"); }
        else { if (F) H<float>::quatCase(g, "unnormalised"); else H<double>::quatCase(g, "unnormalised"); }
    }
    return 0;
}
