// C08 correspondence harness (uses harness/ceq_tree.h, CEQ_TREE_VERSION 6).
// Constrained forward dynamics: realize(Acceleration) on random trees with 1..6 random constraints of the C07 types
// (incl. exact duplicates = redundant but consistent sets), random enable masks (Constraint::disable), random applied
// forces, random violated states and states projected onto the velocity manifold.
//
// Model-compared records (lean/Drivers/C08.lean running C08.loopFD / C08.power at Float):
//   I loopFD n m fullrank M(n*n) G(m*n) f(n) b(m)     O loopFD 1 udot(n) [lambda(m) when fullrank]   (leading 1 = comparison scale floor)
//       M = calcM, G = calcG (enabled rows only), f = f_applied - f_inertial (from calcResidualForceIgnoringConstraints
//       at udot=0), b = -calcConstraintAccelerationErrors(udot=0);  implementation: State::getUDot, getMultipliers
//   I power n m G lambda u                             O power 1 p        (calcConstraintPower)
// Implementation-only predicates (record `I chk <case#> <class>`):
//   newton     calcResidualForce(applied forces, udot, lambda) == 0                (M udot + ~G lambda + f_inertial = f_applied)
//              (input class zeroG = constraint Jacobian numerically zero: key zeroG.newton, finding F-C08-1)
//   udoterr    getUDotErr == 0 for consistent, well-posed sets (consistency decided independently by an SVD of G)
//   disabled   udot (and lambda when full rank) equal those of a twin system built WITHOUT the disabled constraints
//   power      on the velocity manifold, all enabled constraints workless: |calcConstraintPower| <= slack(|lambda|,|verr|)
// mode "testcc": the scenario of the baseline's always-failing TestCustomConstraints::testSpeedCoupler2 (10 gimbals,
//   SpeedCoupler 1*u0+2*u1+3*u2), integrated as in the test; the power predicate is evaluated at every step.
#include "ceq_tree.h"
using namespace SimTK;
using namespace ceq;

static double vmax(const Vector& v) { return maxAbs(v); }
static double mmax(const Matrix& A) { double m = 0; for (int i = 0; i < A.nrow(); ++i) for (int j = 0; j < A.ncol(); ++j) { double a = std::abs(A(i, j)); if (std::isnan(a)) return NAN; if (a > m) m = a; } return m; }

struct Spec { int type; int cls; uint64_t seed; bool enabled; int ref = -1;
              bool explicitWeld = false; int b1 = 0, b2 = 0; Transform fb, ff; };   // explicitWeld: a Weld with given bodies and frames   // ref: index of the Weld spec a derived constraint hangs on

// homogeneous linear speed coupler (workless): sum a_i u_i = 0
static bool addLinearSpeedCoupler(Model& M, vh::Rng& g, ConsInfo& ci) {
    ci = ConsInfo(); ci.type = cSpeedCoupler;
    int n = 2 + g.below(2); Array_<MobilizedBodyIndex> mb; Array_<MobilizerUIndex> ui;
    for (int i = 0; i < n; ++i) { int m = pickMobilizer(M, g); if (m < 0) return false; int k = g.below(nuOfType(M.mtype[m]));
        mb.push_back(M.bodies[m].getMobilizedBodyIndex()); ui.push_back(MobilizerUIndex(k)); ci.cmobs.push_back(m); ci.cu.push_back(k); }
    QuadFunction* f = new QuadFunction(g, n, true); f->c = 0; ci.fn = f; ci.nSpeedArgs = n;
    ci.c = Constraint::SpeedCoupler(M.matter, f, mb, ui);
    ci.cls = "mobility";
    return true;
}
static const int cLinearSpeedCoupler = 100;
// geometric (not duplicate) redundancy hung on a Weld between bodies (b1,b2) with frames (FB,FF):
//   cBallOnWeld     Ball(b1, origin of FB, b2, origin of FF): its 3 rows equal the Weld's translational rows
//   cPlaneOnWeld    PointInPlane(b1, random normal, h, b2, origin of FF): its row is a linear combination of those rows
//   cSecondWeld     Weld(b1, FB*X, b2, FF*X): 6 rows spanning the same row space through a different frame pair
static const int cBallOnWeld = 101, cPlaneOnWeld = 102, cSecondWeld = 103;
static Transform xfFromPar(const std::vector<double>& p, int o) {
    Mat33 m; for (int i = 0; i < 3; ++i) for (int j = 0; j < 3; ++j) m(i, j) = p[o + 3 * i + j];
    Rotation R(m, true); return Transform(R, Vec3(p[o + 9], p[o + 10], p[o + 11]));
}
static bool addDerived(Model& M, vh::Rng& g, int type, const ConsInfo& weld, ConsInfo& ci) {
    ci = ConsInfo(); const int b1 = weld.cbodies[0], b2 = weld.cbodies[1];
    const Transform FB = xfFromPar(weld.par, 0), FF = xfFromPar(weld.par, 12);
    ci.cbodies = {b1, b2}; ci.cls = weld.cls;
    if (type == cBallOnWeld) { ci.type = cBall; ci.c = Constraint::Ball(M.bodies[b1], FB.p(), M.bodies[b2], FF.p()); }   // the weld point on both bodies
    else if (type == cPlaneOnWeld) { ci.type = cPointInPlane; UnitVec3 nn = runit(g);   // height chosen so that the plane contains the weld point: satisfiable together with the Weld
        ci.c = Constraint::PointInPlane(M.bodies[b1], nn, dot(Vec3(nn), FB.p()), M.bodies[b2], FF.p()); }
    else { ci.type = cWeld; Transform X = rframe(g, 2); ci.c = Constraint::Weld(M.bodies[b1], FB * X, M.bodies[b2], FF * X); }
    return true;
}

static bool workless(int type) {
    switch (type) {
    case cConstantSpeed: case cConstantAcceleration: case cSpeedCoupler: case cPrescribedMotion: return false;
    default: return true;   // scleronomic holonomic, NoSlip1D, contact constraints, the linear homogeneous SpeedCoupler
    }
}

struct Built { std::unique_ptr<Model> M; std::vector<ConsInfo> cons; std::vector<int> specIx; };

// build the system; only specs with include[i] are added (twin system = without the disabled ones)
static Built build(uint64_t treeSeed, int nBodies, const std::vector<Spec>& specs, const std::vector<bool>& include,
                   uint64_t forceSeed, bool euler) {
    Built B; B.M.reset(new Model); Model& M = *B.M;
    vh::Rng gt(treeSeed);
    buildTree(M, gt, nBodies, fullPalette());
    for (size_t i = 0; i < specs.size(); ++i) {
        if (!include[i]) continue;
        vh::Rng gc(specs[i].seed);
        ConsInfo ci; bool ok;
        if (specs[i].explicitWeld) {
            ci = ConsInfo(); ci.type = cWeld; ci.cbodies = {specs[i].b1, specs[i].b2};
            ci.c = Constraint::Weld(M.bodies[specs[i].b1], specs[i].fb, M.bodies[specs[i].b2], specs[i].ff);
            pushX(ci.par, specs[i].fb); pushX(ci.par, specs[i].ff); ci.cls = pairClass(M, specs[i].b1, specs[i].b2); ok = true;
        }
        else if (specs[i].type >= cBallOnWeld) {
            // the Weld it hangs on must have been built (included) already
            int k = -1; for (size_t j = 0; j < B.specIx.size(); ++j) if (B.specIx[j] == specs[i].ref) k = (int)j;
            ok = k >= 0 && addDerived(M, gc, specs[i].type, B.cons[k], ci);
        }
        else if (specs[i].type == cLinearSpeedCoupler) ok = addLinearSpeedCoupler(M, gc, ci);
        else ok = addConstraint(M, gc, specs[i].type, specs[i].cls, ci);
        if (ok) { B.cons.push_back(ci); B.specIx.push_back((int)i); }
    }
    vh::Rng gf(forceSeed);
    Force::UniformGravity(M.forces, M.matter, rvec(gf, 5.0));
    for (int b = 1; b < M.nb(); ++b) {
        if (gf.coin()) Force::ConstantForce(M.forces, M.bodies[b], rvec(gf, 0.5), rvec(gf, 3.0));
        if (gf.below(3) == 0) Force::ConstantTorque(M.forces, M.bodies[b], rvec(gf, 3.0));
        int nu = nuOfType(M.mtype[b]);
        if (nu && gf.coin()) Force::MobilityConstantForce(M.forces, M.bodies[b], gf.below(nu), gf.range(-3.0, 3.0));
    }
    M.state = M.system.realizeTopology();
    if (euler || hasLineMobilizer(M)) M.matter.setUseEulerAngles(M.state, true);   // Line mobilizers: Euler only (see ceq_tree.h)
    M.system.realizeModel(M.state);
    return B;
}

struct Dyn { Vector udot, lambda, udoterr; bool ok = true; std::string exc; };
static Dyn accel(Model& M) {
    Dyn d;
    try {
        M.system.realize(M.state, Stage::Acceleration);
        d.udot = M.state.getUDot(); d.lambda = M.state.getMultipliers(); d.udoterr = M.state.getUDotErr();
    } catch (const std::exception& e) { d.ok = false; d.exc = e.what(); }
    return d;
}

static void emitMat(vh::Line& L, const Matrix& A) { for (int i = 0; i < A.nrow(); ++i) for (int j = 0; j < A.ncol(); ++j) L.d(A(i, j)); }
static void emitVec(vh::Line& L, const Vector& v) { for (int i = 0; i < v.size(); ++i) L.d(v[i]); }

// rank / conditioning of G by SVD (LAPACK; trusted): returns rank, sets wellposed (clear spectral gap) and consistent
static void analyse(const Matrix& G, const Vector& b, int& rank, bool& wellposed, bool& consistent) {
    const int m = G.nrow(), n = G.ncol();
    rank = 0; wellposed = true; consistent = true;
    if (m == 0 || n == 0) { wellposed = (m == 0); return; }
    FactorSVD svd(G, 1e-9);   // rcond for the least-squares solve below
    Vector sv; svd.getSingularValues(sv);
    const double s1 = sv.size() ? sv[0] : 0;
    if (!(s1 > 0)) { wellposed = false; return; }
    for (int i = 0; i < sv.size(); ++i) {
        const double r = sv[i] / s1;
        if (r > 1e-3) ++rank;
        else if (r > 1e-12) wellposed = false;    // ambiguous rank (the model's elimination works on G M^-1 ~G, i.e. with r^2): the QTZ conditioning decision is not modelled
    }
    if (std::getenv("CEQ_DEBUG_SV")) { std::cerr << "sv/s1:"; for (int i = 0; i < sv.size(); ++i) std::cerr << ' ' << sv[i] / s1; std::cerr << std::endl; }
    Vector x; svd.solve(b, x);
    Vector res = G * x - b;
    consistent = maxAbs(res) <= 1e-8 * std::max(1.0, maxAbs(b));
}

static void oneCase(uint64_t seed, long caseNo) {
    vh::Rng g(seed);
    const uint64_t treeSeed = g.next(), forceSeed = g.next(), stateSeed = g.next();
    const int nBodies = 2 + g.below(5);
    const bool euler = g.below(4) == 0;
    const int nc = 1 + g.below(6);
    std::vector<Spec> specs;
    for (int i = 0; i < nc; ++i) {
        Spec s; s.type = g.below(cNumCons + 1); if (s.type == cNumCons) s.type = cLinearSpeedCoupler;
        s.cls = g.below(4); s.seed = g.next(); s.enabled = g.below(4) != 0;
        specs.push_back(s);
        if (s.type == cWeld && s.cls != 3 && g.coin()) {     // geometric redundancy family
            const int w = (int)specs.size() - 1; specs[w].enabled = true;
            const int kinds[3] = {cBallOnWeld, cPlaneOnWeld, cSecondWeld};
            for (int kx = 0; kx < 3 && (int)specs.size() < 7; ++kx) if (g.coin()) {
                Spec d; d.type = kinds[kx]; d.cls = s.cls; d.seed = g.next(); d.enabled = g.below(4) != 0; d.ref = w; specs.push_back(d); }
        }
        if (g.below(5) == 0 && (int)specs.size() < 6) { Spec d = s; d.enabled = g.below(4) != 0; specs.push_back(d); ++i; }   // exact duplicate: redundant but consistent
    }
    // guaranteed share (1 in 6) of geometric redundancy ON the manifold: a Weld whose frames are computed so that it is
    // satisfied at the chosen q, plus constraints derived from it; nothing else, so that the set is consistent
    const bool assembledFamily = g.below(6) == 0;
    if (assembledFamily) {
        specs.clear();
        std::vector<Spec> none; std::vector<bool> noneInc;
        Built P0 = build(treeSeed, nBodies, none, noneInc, forceSeed, euler);
        {   vh::Rng gs(stateSeed); randomState(*P0.M, gs); }
        P0.M->system.realize(P0.M->state, Stage::Position);
        int b1, b2; pickPair(*P0.M, g, 3, b1, b2);
        const Transform X1 = P0.M->bodies[b1].getBodyTransform(P0.M->state), X2 = P0.M->bodies[b2].getBodyTransform(P0.M->state);
        Spec w; w.type = cWeld; w.cls = 3; w.seed = g.next(); w.enabled = true; w.explicitWeld = true; w.b1 = b1; w.b2 = b2;
        w.fb = rframe(g, 2); w.ff = ~X2 * X1 * w.fb;          // same frame in Ground at this q
        specs.push_back(w);
        const int kinds[3] = {cBallOnWeld, cPlaneOnWeld, cSecondWeld};
        for (int kx = 0; kx < 3; ++kx) if (kx == 0 || g.coin()) { Spec d; d.type = kinds[kx]; d.cls = 3; d.seed = g.next(); d.enabled = g.below(4) != 0; d.ref = 0; specs.push_back(d); }
    }
    bool anyEnabled = false; for (auto& s : specs) anyEnabled = anyEnabled || s.enabled;
    if (!anyEnabled) specs[0].enabled = true;
    std::vector<bool> all(specs.size(), true), onlyEnabled(specs.size());
    for (size_t i = 0; i < specs.size(); ++i) onlyEnabled[i] = specs[i].enabled;

    Built A = build(treeSeed, nBodies, specs, all, forceSeed, euler);
    Model& M = *A.M;
    bool anyDisabled = false;
    for (size_t k = 0; k < A.cons.size(); ++k) if (!specs[A.specIx[k]].enabled) { A.cons[k].c.disable(M.state); anyDisabled = true; }
    M.system.realizeModel(M.state);
    {   vh::Rng gs(stateSeed); randomState(M, gs); M.state.updTime() = gs.range(0.0, 2.0); }
    const bool wantManifold = assembledFamily || g.coin();
    std::string icls = "violated";
    if (wantManifold) {
        bool ok = true;
        try { M.system.project(M.state, 1e-11); } catch (const std::exception& e) { ok = false; if (std::getenv("CEQ_DEBUG") && assembledFamily) std::fprintf(stderr, "case %ld project threw: %.300s\n", caseNo, e.what()); }
        if (ok) {
            M.system.realize(M.state, Stage::Velocity);
            const double eq = maxAbs(M.state.getQErr()), eu = maxAbs(M.state.getUErr()), bq = maxAbs(M.state.getQ()), bu = maxAbs(M.state.getU());
            if (eq < 1e-9 && eu < 1e-9 && bq < 1e3 && bu < 1e3) icls = "onManifold";
            else if (std::getenv("CEQ_DEBUG") && assembledFamily) std::fprintf(stderr, "case %ld project ok but eq=%g eu=%g bq=%g bu=%g\n", caseNo, eq, eu, bq, bu);
        }
        if (icls != "onManifold") { vh::Rng gs(stateSeed); randomState(M, gs); M.state.updTime() = gs.range(0.0, 2.0); }
    }
    const State savedState = M.state;
    Dyn d = accel(M);
    vh::I("chk").i(caseNo).s(icls).emit();
    if (!d.ok) { std::printf("O chk 1\n"); vh::D("exception." + icls); return; }   // e.g. singular configuration reported by the library: nothing to check
    vh::O("chk").i(1).emit();
    const SimbodyMatterSubsystem& matter = M.matter;
    const State& s = M.state;
    const int nu = s.getNU();
    Matrix Mm, G; matter.calcM(s, Mm); matter.calcG(s, G);
    const int m = G.nrow();
    const Vector& mobF = M.system.getMobilityForces(s, Stage::Dynamics);
    const Vector_<SpatialVec>& bodyF = M.system.getRigidBodyForces(s, Stage::Dynamics);
    Vector zero(nu, 0.0), res0; matter.calcResidualForceIgnoringConstraints(s, mobF, bodyF, zero, res0);
    Vector feff = -res0;
    Vector a0; matter.calcConstraintAccelerationErrors(s, zero, a0);
    Vector b = -a0;
    int rank; bool wellposed, consistent; analyse(G, b, rank, wellposed, consistent);
    // degenerate input class: every enabled constraint acts between bodies without relative mobility, so that the
    // constraint Jacobian is zero up to roundoff (|G| <= 1e-10 on O(1) data); the SVD-relative analysis is meaningless there
    const bool zeroG = m > 0 && mmax(G) <= 1e-10;
    if (zeroG) { wellposed = false; rank = 0; }
    const bool fullrank = wellposed && rank == m;
    std::string tag = std::string(zeroG ? "zeroG" : wellposed ? (fullrank ? "fullrank" : "redundant") : "illcond") + (consistent ? "" : ".inconsistent") + (anyDisabled ? ".mask" : "");
    vh::D("chk." + icls + "." + tag + ".m" + std::to_string(std::min(m, 12)));
    tagBodies(M);
    for (size_t k = 0; k < A.cons.size(); ++k) if (specs[A.specIx[k]].type >= cBallOnWeld && specs[A.specIx[k]].enabled) vh::D("derivedRedundancy." + icls);
    if (assembledFamily) vh::D("assembledWeldFamily." + icls);
    for (auto& ci : A.cons) vh::D(std::string("type.") + (ci.type == cSpeedCoupler && ci.fn && ci.fn->c == 0 && ci.cq.empty() ? "SpeedCouplerLinear" : consName(ci.type)));
    const double fscale = std::max(1.0, std::max(vmax(feff), mmax(Mm) * vmax(d.udot)));
    const bool finite = !std::isnan(vmax(d.udot)) && !std::isnan(vmax(d.lambda));
    // ---- newton: M udot + ~G lambda + f_inertial = f_applied
    {
        Vector res; matter.calcResidualForce(s, mobF, bodyF, d.udot, d.lambda, res);
        vh::P("newton", zeroG ? std::string(mmax(G) == 0 ? "zeroG.exact.newton" : "zeroG.newton") : icls + ".newton", finite ? vmax(res) / fscale : NAN, 1e-9);
        if (std::getenv("CEQ_DEBUG") && (!finite || !(vmax(res) / fscale <= 1e-9))) {
            Vector Mu, Gtl; matter.multiplyByM(s, d.udot, Mu); matter.multiplyByGTranspose(s, d.lambda, Gtl);
            Vector r2 = Mu + Gtl - feff;
            std::fprintf(stderr, "case %ld nu=%d m=%d rank=%d wellposed=%d consistent=%d |res|=%g |Mu+Gtl-f|=%g |udot|=%g |lambda|=%g |udoterr|=%g |f|=%g |M|=%g\n",
                caseNo, nu, m, rank, (int)wellposed, (int)consistent, vmax(res), vmax(r2), vmax(d.udot), vmax(d.lambda), vmax(d.udoterr), vmax(feff), mmax(Mm));
            for (auto& ci : A.cons) std::fprintf(stderr, "  cons %s cls=%s\n", consName(ci.type), ci.cls.c_str());
            for (int i = 1; i < M.nb(); ++i) std::fprintf(stderr, " %d:%s<-%d", i, mobName(M.mtype[i]), M.parent[i]);
            {   Matrix MInv; matter.calcMInv(s, MInv); Matrix Amat = G * MInv * ~G;
                const double tol = m * SqrtEps * std::sqrt(SqrtEps);
                FactorQTZ qtz(Amat, tol); Vector ud0 = MInv * feff; Vector rhs = G * ud0 - b; Vector lam2; qtz.solve(rhs, lam2);
                FactorSVD svd(Amat); Vector sv; svd.getSingularValues(sv);
                std::cerr << "QTZ rank=" << qtz.getRank() << " rcondEst=" << qtz.getRCondEstimate() << " tol=" << tol << "\nsv(A)=" << sv << "\nlam2=" << lam2 << "\nrhs=" << rhs << "\ndiagA=" << Amat.diag() << std::endl; }
            std::fprintf(stderr, "\n"); std::cerr << "u=" << s.getU() << "\nq=" << s.getQ() << "\nudot=" << d.udot << "\nlambda=" << d.lambda << "\nres=" << res << std::endl;
        }
    }
    // ---- acceleration constraints satisfied (consistent, well-posed sets only)
    if (wellposed && consistent) {
        const double escale = std::max(1.0, std::max(vmax(b), mmax(G) * vmax(d.udot)));
        vh::P("udoterr", icls + "." + (fullrank ? "fullrank" : "redundant") + ".udoterr", vmax(d.udoterr) / escale, 1e-7);
    }
    // ---- disabled constraints have no effect: twin system without them
    if (anyDisabled) {
        Built Bt = build(treeSeed, nBodies, specs, onlyEnabled, forceSeed, euler);
        Model& N = *Bt.M;
        N.state.updTime() = savedState.getTime(); N.state.updQ() = savedState.getQ(); N.state.updU() = savedState.getU();
        Dyn e = accel(N);
        if (e.ok && wellposed && consistent) {
            const double us = std::max(1.0, vmax(d.udot));
            Vector du = d.udot - e.udot;
            vh::P("disabled_udot", icls + ".disabled.udot", vmax(du) / us, 1e-7);
            if (fullrank && d.lambda.size() == e.lambda.size()) {
                Vector dl = d.lambda - e.lambda;
                vh::P("disabled_lambda", icls + ".disabled.lambda", vmax(dl) / std::max(1.0, vmax(d.lambda)), 1e-7);
            } else if (d.lambda.size() != e.lambda.size()) vh::P("disabled_lambda", icls + ".disabled.lambda", NAN, 0);
        }
    }
    // ---- the model assembles the enabled rows itself: export G and b of ALL constraints (enabled in a copy of the state) + row mask
    if (anyDisabled && wellposed && consistent && finite && m > 0) {
        State sf = savedState;
        for (auto& ci : A.cons) ci.c.enable(sf);
        M.system.realize(sf, Stage::Velocity);
        Matrix Gf; matter.calcG(sf, Gf);
        Vector af; matter.calcConstraintAccelerationErrors(sf, zero, af);
        const int mf = Gf.nrow();
        std::vector<int> mask(mf, 0);
        for (size_t k = 0; k < A.cons.size(); ++k) {
            int mp, mv, ma; A.cons[k].c.getNumConstraintEquationsInUse(sf, mp, mv, ma);
            MultiplierIndex px, vx, ax; A.cons[k].c.getIndexOfMultipliersInUse(sf, px, vx, ax);
            const int en = specs[A.specIx[k]].enabled ? 1 : 0;
            for (int i = 0; i < mp; ++i) mask[(int)px + i] = en;
            for (int i = 0; i < mv; ++i) mask[(int)vx + i] = en;
            for (int i = 0; i < ma; ++i) mask[(int)ax + i] = en;
        }
        int nOn = 0; for (int x : mask) nOn += x;
        if (nOn == m) {      // sanity: the enabled rows are exactly the rows of the masked system
            vh::Line L = vh::I("loopFDmask"); L.i(nu).i(mf).i(fullrank ? 1 : 0);
            for (int x : mask) L.i(x);
            emitMat(L, Mm); emitMat(L, Gf); emitVec(L, feff); Vector bf = -af; emitVec(L, bf); L.emit();
            std::printf("T 1e-6 1e-9\n");
            vh::Line O = vh::O("loopFDmask"); O.d(1.0); emitVec(O, d.udot); if (fullrank) emitVec(O, d.lambda); O.emit();
            vh::D(std::string("loopFDmask.") + (fullrank ? "fullrank" : "redundant"));
        } else vh::P("mask_rows_match", icls + ".mask_rows_match", std::abs(nOn - m), 0);
    }
    // ---- power of workless constraints on the velocity manifold
    if (icls == "onManifold" && m > 0 && zeroG) vh::D("power.skipped.zeroG");   // garbage multipliers there: finding zeroG.newton
    if (icls == "onManifold" && m > 0 && finite && !zeroG) {
        bool allWorkless = true;
        for (size_t k = 0; k < A.cons.size(); ++k) {
            const ConsInfo& ci = A.cons[k];
            if (!specs[A.specIx[k]].enabled) continue;
            bool w = workless(ci.type) || (ci.type == cSpeedCoupler && ci.fn && ci.fn->c == 0 && ci.cq.empty() && ci.nSpeedArgs == ci.fn->n);
            if (ci.type == cConstantSpeed && ci.par[0] == 0) w = true;
            allWorkless = allWorkless && w;
        }
        if (allWorkless) {
            const double p = matter.calcConstraintPower(s);
            double l1 = 0; for (int i = 0; i < d.lambda.size(); ++i) l1 += std::abs(d.lambda[i]);
            const double verr = vmax(s.getUErr());
            const double slack = 2 * l1 * verr + 1e-11 * std::max(1.0, l1 * mmax(G) * vmax(s.getU()) * nu);
            vh::P("power_zero", std::string("onManifold.workless.power"), std::abs(p) / slack, 1.0);
            vh::D("power.evaluated");
        }
    }
    // ---- model records
    if (wellposed && consistent && finite && m > 0) {
        vh::Line L = vh::I("loopFD"); L.i(nu).i(m).i(fullrank ? 1 : 0);
        emitMat(L, Mm); emitMat(L, G); emitVec(L, feff); emitVec(L, b); L.emit();
        std::printf("T 1e-6 1e-9\n");
        vh::Line O = vh::O("loopFD"); O.d(1.0); emitVec(O, d.udot); if (fullrank) emitVec(O, d.lambda); O.emit();
        vh::D(std::string("loopFD.") + (fullrank ? "fullrank" : "redundant"));
        vh::Line L2 = vh::I("power"); L2.i(nu).i(m); emitMat(L2, G); emitVec(L2, d.lambda); emitVec(L2, s.getU()); L2.emit();
        std::printf("T 1e-9 1e-9\n");
        vh::O("power").d(1.0).d(matter.calcConstraintPower(s)).emit();
    }
}

// TestCustomConstraints::testSpeedCoupler2 replica
class CompoundFunction : public Function {
public:
    Real calcValue(const Vector& x) const override { return 1 * x[0] + 2 * x[1] + 3 * x[2]; }
    Real calcDerivative(const Array_<int>& d, const Vector& x) const override { if (d.size() == 1) return d[0] + 1; return 0; }
    int getArgumentSize() const override { return 3; }
    int getMaxDerivativeOrder() const override { return 2; }
};
static void testcc() {
    MultibodySystem system; SimbodyMatterSubsystem matter(system); GeneralForceSubsystem forces(system);
    Force::UniformGravity gravity(forces, matter, Vec3(0, -1, 0), 0);
    Body::Rigid body(MassProperties(1.0, Vec3(0), Inertia(1)));
    for (int i = 0; i < 10; ++i) { MobilizedBody& parent = matter.updMobilizedBody(MobilizedBodyIndex(matter.getNumBodies() - 1));
        MobilizedBody::Gimbal b(parent, Transform(Vec3(0)), body, Transform(Vec3(0.5, 0, 0))); }
    std::vector<MobilizedBodyIndex> bodies = {MobilizedBodyIndex(1), MobilizedBodyIndex(3), MobilizedBodyIndex(5)};
    std::vector<MobilizerUIndex> speeds = {MobilizerUIndex(0), MobilizerUIndex(0), MobilizerUIndex(1)};
    Constraint::SpeedCoupler coupler(matter, new CompoundFunction(), bodies, speeds);
    system.realizeTopology(); State state = system.getDefaultState();
    // Random's default seed is a process-wide counter (++nextSeed): in the test binary testSpeedCoupler2's createState constructs
    // the 5th Random object of the process (lines 221, 263, 328, 381, 421 of TestCustomConstraints.cpp), i.e. seed 5: variant 0
    // replays exactly the failing trajectory (gimbal close to its singularity at t=5.97, |lambda| ~ 7.7e3); variant 1 is another start
    for (int variant = 0; variant < 2; ++variant) {
        Random::Uniform random; random.setSeed(variant == 0 ? 5 : 7);
        for (int i = 0; i < state.getNY(); ++i) state.updY()[i] = random.getValue();
        system.realize(state, Stage::Velocity); system.project(state, 1e-12); system.realize(state, Stage::Acceleration);
        RungeKuttaMersonIntegrator integ(system); integ.setAccuracy(1e-6); integ.setReturnEveryInternalStep(true); integ.initialize(state);
        double worstRatio = 0, worstAbs = 0, worstTestRatio = 0, worstLam = 0; long steps = 0;
        while (integ.getTime() < 10.0) {
            integ.stepTo(10.0); const State& s = integ.getState(); system.realize(s, Stage::Acceleration);
            const double p = coupler.calcPower(s), lam = coupler.getMultipliersAsVector(s)[0], verr = coupler.getVelocityErrorsAsVector(s)[0];
            // slack: twice |lambda*verr| (what a workless constraint may legitimately show when verr is only within tolerance) plus
            // the rounding level of the sum -lambda*(1 u0 + 2 u1 + 3 u2): 256 eps |lambda| sum|c_i u_i|
            const Vector& uu = s.getU();
            const double sumcu = std::abs(uu[0]) + 2 * std::abs(uu[6]) + 3 * std::abs(uu[13]);   // body 1 u0, body 3 u0, body 5 u1
            const double slack = 2 * std::abs(lam) * std::abs(verr) + 256 * 2.2e-16 * std::max(1.0, std::abs(lam) * sumcu);
            worstRatio = std::max(worstRatio, std::abs(p) / slack); worstAbs = std::max(worstAbs, std::abs(p));
            worstTestRatio = std::max(worstTestRatio, std::abs(p) / (10 * integ.getConstraintToleranceInUse()));
            worstLam = std::max(worstLam, std::abs(lam)); ++steps;
        }
        vh::I("chk").i(variant).s("testcc").emit(); vh::O("chk").i(1).emit();
        vh::D("testcc.steps" + std::to_string(steps / 500 * 500));
        vh::P("power_zero", "testcc.workless.power", worstRatio, 1.0);
        // what the baseline test demands (|power| <= 10*constraint tolerance, independent of |lambda|): recorded, not a predicate
        std::printf("D obs.testcc.worst_abs_power_over_test_tol=%.3g.worst_lambda=%.3g\n", worstTestRatio, worstLam);
    }
}

// deterministic degenerate inputs (finding F-C08-1): constraints between bodies that have no relative mobility
static void degenerateOne(int which) {
    MultibodySystem sys; SimbodyMatterSubsystem matter(sys); GeneralForceSubsystem forces(sys);
    Force::UniformGravity(forces, matter, Vec3(1, -9.8, 0.5));
    Body::Rigid b(MassProperties(2, Vec3(0.1, 0.2, -0.1), Inertia(1, 2, 3)));
    Rotation R1; R1.setRotationFromAngleAboutNonUnitVector(0.7, Vec3(1, 2, 3));
    Rotation R2; R2.setRotationFromAngleAboutNonUnitVector(-1.1, Vec3(-1, 0.5, 2));
    if (which == 0) {       // Ball between a free body and a body welded to it: G is zero up to roundoff
        MobilizedBody::Free b1(matter.Ground(), Transform(R1, Vec3(0.1, 0.3, 0.2)), b, Transform(Vec3(0.2, -0.1, 0.4)));
        MobilizedBody::Weld b2(b1, Transform(R2, Vec3(0.3, 0.2, 0.5)), b, Transform(Vec3(-0.2, 0.3, 0.1)));
        Constraint::Ball ball(b1, Vec3(0.3, 0.1, 0.2), b2, Vec3(0.2, 0.4, -0.3));
    } else {                // ConstantOrientation between Ground and a body that can only translate: G is exactly zero
        MobilizedBody::Translation b1(matter.Ground(), Transform(R1, Vec3(0.1, 0.3, 0.2)), b, Transform(R2, Vec3(0.2, -0.1, 0.4)));
        Constraint::ConstantOrientation co(matter.Ground(), Rotation(), b1, R2);
    }
    State s = sys.realizeTopology(); sys.realizeModel(s);
    vh::Rng g(12345 + which);
    for (int i = 0; i < s.getNQ(); ++i) s.updQ()[i] = g.range(-1, 1);
    for (int i = 0; i < s.getNU(); ++i) s.updU()[i] = g.range(-1, 1);
    sys.realize(s, Stage::Position); matter.normalizeQuaternions(s);
    sys.realize(s, Stage::Acceleration);
    Vector res; matter.calcResidualForce(s, sys.getMobilityForces(s, Stage::Dynamics), sys.getRigidBodyForces(s, Stage::Dynamics), s.getUDot(), s.getMultipliers(), res);
    Vector zero(s.getNU(), 0.0), r0; matter.calcResidualForceIgnoringConstraints(s, sys.getMobilityForces(s, Stage::Dynamics), sys.getRigidBodyForces(s, Stage::Dynamics), zero, r0);
    vh::I("chk").i(which).s("degenerate").emit(); vh::O("chk").i(1).emit();
    vh::D(which == 0 ? "degenerate.roundoffG" : "degenerate.exactZeroG");
    const bool finite = !std::isnan(maxAbs(s.getUDot())) && !std::isnan(maxAbs(s.getMultipliers()));
    // roundoff-level G: known finding F-C08-1 (key zeroG.newton); exactly zero G: fixed in /repo (FactorQTZ zero-fills
    // the solution when rank==0) and must pass (key zeroG.exact.newton)
    vh::P("newton", which == 0 ? "zeroG.newton" : "zeroG.exact.newton", finite ? maxAbs(res) / std::max(1.0, maxAbs(r0)) : NAN, 1e-9);
}

int main(int argc, char** argv) {
    vh::Args a(argc, argv);
    if (a.mode == "replay") {
        // accepted inputs: a case file starting with "S <seed> <n>" (what this harness prints first), or a replay JSON written
        // by the pipeline (contains "seed": <s>): the whole run of that seed is regenerated (cases depend only on seed and index)
        static char buf[1 << 20]; unsigned long long seed = 1; long n = 0;
        while (std::fgets(buf, sizeof buf, stdin)) {
            if (buf[0] == 'S' && buf[1] == ' ') std::sscanf(buf + 1, "%llu %ld", &seed, &n);
            else if (const char* q = std::strstr(buf, "\"seed\":")) { std::sscanf(q + 7, "%llu", &seed); if (n == 0) n = 150; }
        }
        a.seed = seed; a.n = n; a.mode = "";
    }
    if (a.mode == "testcc") { testcc(); return 0; }
    if (a.mode == "degenerate") { degenerateOne(0); degenerateOne(1); return 0; }
    std::printf("S %llu %ld\n", (unsigned long long)a.seed, a.n);
    for (long k = 0; k < a.n; ++k) {
        try { oneCase(a.seed * 1000003ull + (uint64_t)k * 7919ull + 31, k); }
        catch (const std::exception& e) {
            vh::I("chk").i(k).s("exception").emit();
            std::string w = e.what(); for (auto& ch : w) if (ch == ' ' || ch == '\n') ch = '_';
            std::printf("O chk EXC:%s\n", w.substr(0, 200).c_str());
            vh::P("no_exception", "harness.exception", 1, 0);
        }
    }
    return 0;
}
