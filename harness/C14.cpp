// C14 correspondence harness: mobilizer reaction forces satisfy Newton-Euler for every body (public API only).
//   I react <caseSeed> <maxBodies> <flag> <tree export> presc[nb] a[6nb] b[6nb] Ftot[6(nb+1)] ftot[nu] udotP[nu]
//           pBM_G[3nb] pPF_G[3nb]
//        Ftot / ftot = applied forces MINUS the constraint forces reported by calcConstraintForcesFromMultipliers
//        (constraint forces act like applied forces with the opposite sign); presc = mobilizer acceleration is prescribed
//        (Motion), udotP = its prescribed accelerations (getUDot of those mobilities); pBM_G, pPF_G = outboard / inboard
//        frame origins re-expressed in Ground (from the body / parent origins)
//   O udot      getUDot                       O accel   A_GB of bodies 1..nb
//   O reactM    calcMobilizerReactionForces (on body, at M, in G)
//   O reactB    findMobilizerReactionOnBodyAtOriginInGround
//   O reactP    findMobilizerReactionOnParentAtOriginInGround
//   O reactPF   findMobilizerReactionOnParentAtFInGround
//   O freebody  calcMobilizerReactionForcesUsingFreebodyMethod
//   O tau       findMotionForces (prescribed-motion forces, u-space)
// P lines: Newton-Euler per body, equal-and-opposite parent reaction, the two routes agree, H' R = f.
#include "treedyn_gen.h"
static_assert(TREEDYN_GEN_VERSION == 12, "bump the version here when treedyn_gen.h changes");
using namespace SimTK;
using td::TreeCase;

static double sv6max(const SpatialVec& v) { double m = 0; for (int k = 0; k < 2; ++k) for (int j = 0; j < 3; ++j) m = std::max(m, std::fabs(v[k][j])); return m; }
static bool finiteSV(const SpatialVec& v) { for (int k = 0; k < 2; ++k) for (int j = 0; j < 3; ++j) if (!std::isfinite(v[k][j])) return false; return true; }

static long nCases = 0, nSkipExc = 0, nSkipIll = 0;
static void runCase(uint64_t caseSeed, int code, int flag) {
    td::Options opt; td::applyGenCode(code, opt); opt.zeroUProb = 0.15;
    opt.allowMassless = true; opt.allowPrescribed = true; opt.allowConstraint = true;
    ++nCases;
    std::unique_ptr<TreeCase> pc;
    // an exception here means a singular configuration (massless body / redundant constraint): not a case, but COUNTED
    try { pc = td::buildCase(caseSeed, opt); } catch (const std::exception& e) { ++nSkipExc; vh::D("skipped.exception.build"); return; }
    TreeCase& c = *pc; State& s = c.state; const SimbodyMatterSubsystem& matter = *c.matter;
    const int nu = c.nu, nb = c.nb;
    vh::Rng& g = c.g;
    const Vector f = td::rvector(g, nu) * 3.0;
    Vector_<SpatialVec> F(nb + 1);
    for (int i = 0; i <= nb; ++i) F[i] = g.below(4) ? SpatialVec(td::rvec(g, 2.0), td::rvec(g, 2.0)) : SpatialVec(Vec3(0), Vec3(0));
    c.discrete.setAllMobilityForces(s, f);
    c.discrete.setAllBodyForces(s, F);
    try { c.sys->realize(s, Stage::Acceleration); } catch (const std::exception& e) { ++nSkipExc; vh::D("skipped.exception.realize"); return; }

    // constraint forces (sign: they appear on the left-hand side, like the free-body method treats them)
    Vector_<SpatialVec> FC(nb + 1); Vector fC(nu);
    FC = SpatialVec(Vec3(0), Vec3(0)); fC = 0;
    if (matter.getNumConstraints() > 0)
        matter.calcConstraintForcesFromMultipliers(s, matter.getConstraintMultipliers(s), FC, fC);
    Vector tau; matter.findMotionForces(s, tau);
    const Vector udot = s.getUDot();
    Vector_<SpatialVec> RM, RFree;
    matter.calcMobilizerReactionForces(s, RM);
    matter.calcMobilizerReactionForcesUsingFreebodyMethod(s, RFree);
    // conditioning guard (massless bodies / redundant constraints): not compared, counted
    bool ok = true; double amax = 0;
    for (int i = 1; i <= nb; ++i) { ok = ok && finiteSV(RM[i]) && finiteSV(c.mobods[i].getBodyAcceleration(s)); amax = std::max(amax, sv6max(c.mobods[i].getBodyAcceleration(s))); }
    double lmax = 0;
    if (matter.getNumConstraints() > 0) lmax = td::vmaxabs(matter.getConstraintMultipliers(s));
    if (!ok || amax > 1e5 || lmax > 1e4) { ++nSkipIll; vh::D("skipped.illconditioned"); return; }   // e.g. a constraint between rigidly connected bodies

    vh::Line in = vh::I("react"); in.s(std::to_string(caseSeed)).i(code).i(flag);
    td::exportTree(c, in);
    std::vector<int> presc(nb + 1, 0);
    for (int i = 1; i <= nb; ++i) { presc[i] = c.mobods[i].getUDotMotionMethod(s) != Motion::Free && c.mobods[i].getNumU(s) > 0; in.i(presc[i]); }
    for (int i = 1; i <= nb; ++i) { const SpatialVec& a = matter.getMobilizerCoriolisAcceleration(s, MobilizedBodyIndex(i)); in.v(a[0], 3).v(a[1], 3); }
    for (int i = 1; i <= nb; ++i) { const SpatialVec& b = matter.getGyroscopicForce(s, MobilizedBodyIndex(i)); in.v(b[0], 3).v(b[1], 3); }
    for (int i = 0; i <= nb; ++i) { const SpatialVec Ft = F[i] - FC[i]; in.v(Ft[0], 3).v(Ft[1], 3); }
    { const Vector ft = f - fC; in.v(ft, nu); }
    in.v(udot, nu);
    std::vector<Vec3> pBM(nb + 1), pPF(nb + 1);
    for (int i = 1; i <= nb; ++i) { pBM[i] = c.mobods[i].getBodyRotation(s) * c.mobods[i].getOutboardFrame(s).p(); in.v(pBM[i], 3); }
    for (int i = 1; i <= nb; ++i) { pPF[i] = c.mobods[i].getParentMobilizedBody().getBodyRotation(s) * c.mobods[i].getInboardFrame(s).p(); in.v(pPF[i], 3); }
    in.emit();
    std::printf("T 1e-8 1e-10\n");

    vh::O("udot").v(udot, nu).emit();
    std::vector<SpatialVec> RB(nb + 1), RP(nb + 1), RPF(nb + 1);
    { vh::Line o = vh::O("accel"); for (int i = 1; i <= nb; ++i) { const SpatialVec& A = c.mobods[i].getBodyAcceleration(s); o.v(A[0], 3).v(A[1], 3); } o.emit(); }
    { vh::Line o = vh::O("reactM"); for (int i = 1; i <= nb; ++i) o.v(RM[i][0], 3).v(RM[i][1], 3); o.emit(); }
    { vh::Line o = vh::O("reactB"); for (int i = 1; i <= nb; ++i) { RB[i] = c.mobods[i].findMobilizerReactionOnBodyAtOriginInGround(s); o.v(RB[i][0], 3).v(RB[i][1], 3); } o.emit(); }
    { vh::Line o = vh::O("reactP"); for (int i = 1; i <= nb; ++i) { RP[i] = c.mobods[i].findMobilizerReactionOnParentAtOriginInGround(s); o.v(RP[i][0], 3).v(RP[i][1], 3); } o.emit(); }
    { vh::Line o = vh::O("reactPF"); for (int i = 1; i <= nb; ++i) { RPF[i] = c.mobods[i].findMobilizerReactionOnParentAtFInGround(s); o.v(RPF[i][0], 3).v(RPF[i][1], 3); } o.emit(); }
    { vh::Line o = vh::O("freebody"); for (int i = 1; i <= nb; ++i) o.v(RFree[i][0], 3).v(RFree[i][1], 3); o.emit(); }
    vh::O("tau").v(tau, nu).emit();
    // Ground (body 0): its "mobilizer" welds it to the universe; both routes and the isGround() branches of the per-body queries
    const MobilizedBody& ground = c.mobods[0];
    const SpatialVec G_P = ground.findMobilizerReactionOnParentAtOriginInGround(s), G_PF = ground.findMobilizerReactionOnParentAtFInGround(s);
    const SpatialVec G_B = ground.findMobilizerReactionOnBodyAtOriginInGround(s), G_M = ground.findMobilizerReactionOnBodyAtMInGround(s);
    vh::O("ground").v(RM[0][0], 3).v(RM[0][1], 3).v(RFree[0][0], 3).v(RFree[0][1], 3).v(G_B[0], 3).v(G_B[1], 3).v(G_M[0], 3).v(G_M[1], 3)
                   .v(G_P[0], 3).v(G_P[1], 3).v(G_PF[0], 3).v(G_PF[1], 3).emit();
    std::printf("O wf 1\n");
    td::emitTags(c);
    vh::D("constraint." + c.constraintTag);
    vh::D(std::string("massless.") + (c.nMassless ? "yes" : "no"));
    vh::D(std::string("prescribed.") + (c.nPrescribed ? "yes" : "no"));

    // ---- predicates on the implementation's own outputs
    const std::string key = "C14.tree";
    {   // Ground: sum of forces on Ground = applied + constraint + its own reaction + the reactions its children exert on it = 0
        SpatialVec tot = (F[0] - FC[0]) + RM[0];
        double sc = std::max(1.0, sv6max(RM[0]));
        for (int k = 1; k <= nb; ++k) if (c.parentOf[k] == 0) tot += c.mobods[k].findMobilizerReactionOnParentAtOriginInGround(s);
        vh::P("newton_euler_ground", key + ".ground", sv6max(tot) / sc, 1e-9);
        vh::P("ground_routes_and_queries_agree", key + ".ground_queries",
              std::max(std::max(sv6max(RM[0] - RFree[0]), sv6max(RM[0] - G_B)), std::max(std::max(sv6max(G_M - G_B), sv6max(G_P + G_B)), sv6max(G_PF + G_B))) / sc, 1e-9);
    }
    double fscale = 1;
    for (int i = 1; i <= nb; ++i) fscale = std::max(fscale, std::max(sv6max(RB[i]), sv6max(F[i] - FC[i])));
    double ne = 0, opp = 0, routes = 0, mshift = 0, proj = 0, neLP = 0, routesLP = 0; bool anyLP = false;
    for (int i = 1; i <= nb; ++i) {
        const MobilizedBody& mb = c.mobods[i];
        // the configuration served by RigidBodyNode_LoneParticle.cpp: forward Translation, identity frames, child of Ground, no children
        bool lone = c.tag[i].rfind("Translation.fwd.II", 0) == 0 && c.parentOf[i] == 0;
        for (int k = 1; k <= nb && lone; ++k) if (c.parentOf[k] == i) lone = false;
        anyLP = anyLP || lone;
        const SpatialVec& A = mb.getBodyAcceleration(s);
        const SpatialVec inertial = mb.getBodySpatialInertiaInGround(s) * A + matter.getGyroscopicForce(s, MobilizedBodyIndex(i));
        // sum of forces on B about Bo: applied + constraint + own reaction - children's reactions (shifted to Bo)
        SpatialVec total = (F[i] - FC[i]) + RB[i];
        for (int k = 1; k <= nb; ++k) if (c.parentOf[k] == i) {
            // reaction exerted on this body (the parent of k), reported at this body's origin
            total += RP[k];
        }
        (lone ? neLP : ne) = std::max(lone ? neLP : ne, sv6max(inertial - total));
        // equal and opposite: reaction on parent at F  = - (reaction on body at M) moved from Mo to Fo
        const Vec3 Mo = mb.getBodyOriginLocation(s) + pBM[i];
        const Vec3 Fo = mb.getParentMobilizedBody().getBodyOriginLocation(s) + pPF[i];
        const SpatialVec RMi = mb.findMobilizerReactionOnBodyAtMInGround(s);
        opp = std::max(opp, sv6max(RPF[i] + shiftForceFromTo(RMi, Mo, Fo)));
        (lone ? routesLP : routes) = std::max(lone ? routesLP : routes, sv6max(RM[i] - RFree[i]));
        mshift = std::max(mshift, sv6max(RM[i] - shiftForceBy(RB[i], pBM[i])));
        // H' R = f_applied - f_constraint - tau
        const int d = mb.getNumU(s);
        for (int k = 0; k < d; ++k) {
            const SpatialVec h = mb.getHCol(s, MobilizerUIndex(k));
            const int ux = (int)mb.getFirstUIndex(s) + k;
            const double hr = ~h[0] * RB[i][0] + ~h[1] * RB[i][1];
            proj = std::max(proj, std::fabs(hr - (f[ux] - fC[ux] - tau[ux])));
        }
    }
    vh::P("newton_euler_per_body", key + ".newton_euler", ne / fscale, 1e-7);
    vh::P("parent_reaction_equal_and_opposite", key + ".opposite", opp / fscale, 1e-10);
    vh::P("aba_route_equals_freebody_route", key + ".routes", routes / fscale, 1e-7);
    vh::P("reaction_at_M_is_shift_of_reaction_at_origin", key + ".mshift", mshift / fscale, 1e-12);
    vh::P("reaction_projects_to_mobility_force", key + ".project", proj / fscale, 1e-7);
    if (anyLP) {
        vh::D("loneparticle.present");
        vh::P("newton_euler_per_body", "C14.loneparticle.newton_euler", neLP / fscale, 1e-7);
        vh::P("aba_route_equals_freebody_route", "C14.loneparticle.routes", routesLP / fscale, 1e-7);
    }
}

int main(int argc, char** argv) {
    vh::Args args(argc, argv);
    if (args.mode == "replay") {
        static char buf[1 << 24];
        while (std::fgets(buf, sizeof buf, stdin)) {
            if (std::strncmp(buf, "I summary ", 10) == 0) { std::fputs(buf, stdout); std::printf("O summary 1\n"); continue; }
            if (std::strncmp(buf, "I react ", 8) != 0) continue;
            unsigned long long cs; int code, fl;
            if (std::sscanf(buf + 8, "%llu %d %d", &cs, &code, &fl) == 3) runCase(cs, code, fl);
        }
        return 0;
    }
    vh::Rng master(args.seed * 1000003ull + 1414);
    const bool thorough = args.n > 2000;
    for (long k = 0; k < args.n; ++k) {
        const uint64_t cs = master.next() >> 1;
        int maxB = 12;
        if (thorough && master.below(5) == 0) maxB = 40;
        const int fl = td::flagsForCase(k);           // guaranteed shares: lone particle, Weld, both, massless intermediate body
        runCase(cs, td::genCode(maxB, fl), fl);
    }
    // the share of generated cases that had to be dropped is itself a predicate (a regression that makes realize() throw on
    // valid trees would otherwise shrink the sample unnoticed)
    std::printf("I summary %ld %ld %ld\nO summary 1\n", nCases, nSkipExc, nSkipIll);
    vh::P("dropped_cases_fraction", "C14.skipped", (double)(nSkipExc + nSkipIll) / std::max(1L, nCases), 0.02);
    return 0;
}
