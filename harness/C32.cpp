// C32 correspondence harness: SimTK::String conversions, Serialize.h unformatted write/read, Xml (TinyXML) round trips.
// Model: lean/SimbodyModel/C32.lean, driver lean/Drivers/C32.lean.  Only the public API is used.
//
// Tokens: strings as s<hex bytes> (empty string = "s"); binary64 bit patterns as b<16 hex> (any NaN: "nan").
//   I cvtD|cvtF|cvtB|cvtI|cvtL|cvtC <str>      String(str).tryConvertTo<double|float|bool|int|long long|complex<double>>
//                                               -> O cvtX 0 | O cvtX 1 <value>
//   I rtD|rtF <bits> <str>                      str = String(value) as produced by the library
//                                               -> O rtD <accept> <value parsed back by the library>;  O rtD.fmt 1
//                                                  (the model parses str itself and checks that it denotes <bits>)
//   I unf F|A <d|f|i|b> <k> <str>               str read back with readUnformatted into a fixed aggregate of k scalars (F)
//                                               or an Array_/Vector_ of k-scalar elements (A) -> O unf 0 | O unf 1 [n] values
//   I xenc <keepQuotes> <condense> <str>        TinyXML EncodeString as seen in a written document -> O xenc <str>
//   I xdec <0 text keep|1 text condense|2 attribute> <raw>   raw character data parsed by Xml::Document -> O xdec 0|1 <str>
//   I xtree <condense> <tree tokens>            document built through the API, written to a string, re-read -> O xtree <tree tokens>
//   I xtreeF <condense> <tree tokens>           same through writeToFile/readFromFile (LoadFile normalises CR / CRLF to LF)
//   unf kinds: H Mat of complex (rows go through the Hermitian transpose: the text holds the conjugates), F fixed aggregate, A Array_/Vector_, S SymMat (full matrix + symmetry test), R RowVector_ (reads into a copy)
// P lines: acceptance == whole-string rule (finding F2 keys *.trailing_junk), round-trip equalities.
#include "SimTKcommon.h"
#include "hcommon.h"
#include <complex>
#include <cctype>
#include <unistd.h>
using namespace SimTK;

static std::string hx(const std::string& s) {
    static const char* d = "0123456789abcdef"; std::string o = "s";
    for (unsigned char c : s) { o += d[c >> 4]; o += d[c & 15]; }
    return o;
}
static std::string unhx(const std::string& t) {
    std::string o; for (size_t i = 1; i + 1 < t.size(); i += 2) o += (char)std::strtoul(t.substr(i, 2).c_str(), nullptr, 16);
    return o;
}
static std::string bitsTok(double x) { return std::isnan(x) ? std::string("nan") : "b" + vh::hex(x); }
static bool sameBits(double a, double b) { return (std::isnan(a) && std::isnan(b)) || vh::hex(a) == vh::hex(b); }
static std::string cleaned(const std::string& s) { return String(String::trimWhiteSpace(s)).toLower(); }

// the documented rule evaluated independently: generic template logic on the trimmed, lower-cased string
template <class T> static bool wholeStringRule(const std::string& s) {
    std::istringstream is(s); T v; is >> v;
    if (is.fail()) return false;
    if (is.eof()) return true;
    std::ws(is); return is.eof();
}
static void ruleP(const std::string& api, bool accepted, bool expected) {
    if (accepted && !expected) vh::P("accept_iff_whole_string", api + ".trailing_junk", 1, 0);
    else if (!accepted && expected) vh::P("accept_iff_whole_string", api + ".rejects_literal", 1, 0);
    else vh::P("accept_iff_whole_string", api + ".whole_string_rule", 0, 0);
}
static bool isSpecialReal(const std::string& c) {
    return c == "nan" || c == "inf" || c == "infinity" || c == "+inf" || c == "+infinity" || c == "-inf" || c == "-infinity";
}

static void cvtD(const std::string& s, const char* cls) {
    double v = 0; bool ok = String(s).tryConvertTo<double>(v);
    vh::I("cvtD").s(hx(s)).emit();
    if (ok) vh::O("cvtD").i(1).s(bitsTok(v)).emit(); else vh::O("cvtD").i(0).emit();
    vh::D(std::string("cvtD.") + cls + (ok ? ".accept" : ".reject"));
    std::string c = cleaned(s);
    ruleP("String.tryConvertToDouble", ok, isSpecialReal(c) || wholeStringRule<double>(c));
}
static void cvtF(const std::string& s, const char* cls) {
    float v = 0; bool ok = String(s).tryConvertTo<float>(v);
    vh::I("cvtF").s(hx(s)).emit();
    if (ok) vh::O("cvtF").i(1).s(bitsTok((double)v)).emit(); else vh::O("cvtF").i(0).emit();
    vh::D(std::string("cvtF.") + cls + (ok ? ".accept" : ".reject"));
    std::string c = cleaned(s);
    ruleP("String.tryConvertToFloat", ok, isSpecialReal(c) || wholeStringRule<float>(c));
}
static void cvtB(const std::string& s, const char* cls) {
    bool v = false; bool ok = String(s).tryConvertTo<bool>(v);
    vh::I("cvtB").s(hx(s)).emit();
    if (ok) vh::O("cvtB").i(1).i(v).emit(); else vh::O("cvtB").i(0).emit();
    vh::D(std::string("cvtB.") + cls + (ok ? ".accept" : ".reject"));
    std::string c = cleaned(s);
    ruleP("String.tryConvertToBool", ok, c == "true" || c == "false" || wholeStringRule<bool>(c));
}
static void cvtI(const std::string& s, const char* cls) {
    int v = 0; bool ok = String(s).tryConvertTo<int>(v);
    vh::I("cvtI").s(hx(s)).emit();
    if (ok) vh::O("cvtI").i(1).i(v).emit(); else vh::O("cvtI").i(0).emit();
    vh::D(std::string("cvtI.") + cls + (ok ? ".accept" : ".reject"));
    ruleP("String.tryConvertTo_int", ok, wholeStringRule<int>(s));
}
static void cvtL(const std::string& s, const char* cls) {
    long long v = 0; bool ok = String(s).tryConvertTo<long long>(v);
    vh::I("cvtL").s(hx(s)).emit();
    if (ok) vh::O("cvtL").i(1).i(v).emit(); else vh::O("cvtL").i(0).emit();
    vh::D(std::string("cvtL.") + cls + (ok ? ".accept" : ".reject"));
    ruleP("String.tryConvertTo_longlong", ok, wholeStringRule<long long>(s));
}
static void cvtC(const std::string& s, const char* cls) {
    std::complex<double> v; bool ok = String(s).tryConvertTo<std::complex<double> >(v);
    vh::I("cvtC").s(hx(s)).emit();
    if (ok) vh::O("cvtC").i(1).s(bitsTok(v.real())).s(bitsTok(v.imag())).emit(); else vh::O("cvtC").i(0).emit();
    vh::D(std::string("cvtC.") + cls + (ok ? ".accept" : ".reject"));
}
// value -> String -> value
static void rtD(double x, const char* cls) {
    String s(x); double w = 0; bool ok = s.tryConvertTo<double>(w);
    vh::I("rtD").s("b" + vh::hex(x)).s(hx(s)).emit();
    if (ok) vh::O("rtD").i(1).s(bitsTok(w)).emit(); else vh::O("rtD").i(0).emit();
    std::printf("O rtD.fmt 1\n");
    vh::D(std::string("rtD.") + cls);
    bool thrown = false; double w2 = 0; try { w2 = s.convertTo<double>(); } catch (const std::exception&) { thrown = true; }
    vh::P("roundtrip", "String.double.roundtrip", (ok && sameBits(x, w) && !thrown && sameBits(x, w2)) ? 0 : 1, 0);
}
static void rtF(float x, const char* cls) {
    String s(x); float w = 0; bool ok = s.tryConvertTo<float>(w);
    vh::I("rtF").s("b" + vh::hex((double)x)).s(hx(s)).emit();
    if (ok) vh::O("rtF").i(1).s(bitsTok((double)w)).emit(); else vh::O("rtF").i(0).emit();
    std::printf("O rtF.fmt 1\n");
    vh::D(std::string("rtF.") + cls);
    vh::P("roundtrip", "String.float.roundtrip", (ok && sameBits(x, w)) ? 0 : 1, 0);
}
static void rtI(long long x) {
    if (x >= INT32_MIN && x <= INT32_MAX) {
        String s((int)x); int w = 0; bool ok = s.tryConvertTo<int>(w);
        vh::I("cvtI").s(hx(s)).emit(); if (ok) vh::O("cvtI").i(1).i(w).emit(); else vh::O("cvtI").i(0).emit();
        vh::D("rtI.int");
        vh::P("roundtrip", "String.int.roundtrip", (ok && w == (int)x) ? 0 : 1, 0);
    } else {
        String s(x); long long w = 0; bool ok = s.tryConvertTo<long long>(w);
        vh::I("cvtL").s(hx(s)).emit(); if (ok) vh::O("cvtL").i(1).i(w).emit(); else vh::O("cvtL").i(0).emit();
        vh::D("rtI.longlong");
        vh::P("roundtrip", "String.longlong.roundtrip", (ok && w == x) ? 0 : 1, 0);
    }
}
static void rtB(bool b) {
    String s(b); bool w = !b; bool ok = s.tryConvertTo<bool>(w);
    vh::I("cvtB").s(hx(s)).emit(); if (ok) vh::O("cvtB").i(1).i(w).emit(); else vh::O("cvtB").i(0).emit();
    vh::D("rtB");
    vh::P("roundtrip", "String.bool.roundtrip", (ok && w == b) ? 0 : 1, 0);
}
static void rtC(std::complex<double> z) {
    String s(z); std::complex<double> w; bool ok = s.tryConvertTo<std::complex<double> >(w);
    vh::I("cvtC").s(hx(s)).emit();
    if (ok) vh::O("cvtC").i(1).s(bitsTok(w.real())).s(bitsTok(w.imag())).emit(); else vh::O("cvtC").i(0).emit();
    bool fin = std::isfinite(z.real()) && std::isfinite(z.imag());
    vh::D(fin ? "rtC.finite" : "rtC.nonfinite");
    vh::P("roundtrip", fin ? "String.complex.roundtrip" : "String.complex.nonfinite.roundtrip",
          (ok && sameBits(z.real(), w.real()) && sameBits(z.imag(), w.imag())) ? 0 : 1, 0);
}

// ------------------------------------------------------------------------------------------------ unformatted
template <class T> static std::string scalTok(const T& v);
template <> std::string scalTok<double>(const double& v) { return bitsTok(v); }
template <> std::string scalTok<float>(const float& v) { return bitsTok((double)v); }
template <> std::string scalTok<int>(const int& v) { return std::to_string(v); }
template <> std::string scalTok<bool>(const bool& v) { return v ? "1" : "0"; }
template <class T> static const char* tyCode();
template <> const char* tyCode<double>() { return "d"; }
template <> const char* tyCode<float>() { return "f"; }
template <> const char* tyCode<int>() { return "i"; }
template <> const char* tyCode<bool>() { return "b"; }

// fixed aggregate: AGG has `k` scalars of type T reachable through flat(AGG, vector<T>&)
template <class T> static void flat(const T& v, std::vector<T>& o) { o.push_back(v); }
template <class T> static void flat(const std::complex<T>& v, std::vector<T>& o) { o.push_back(v.real()); o.push_back(v.imag()); }
template <int M, class E, int S, class T> static void flat(const Vec<M, E, S>& v, std::vector<T>& o) { for (int i = 0; i < M; ++i) flat(v[i], o); }
template <int M, int N, class E, int CS, int RS, class T> static void flat(const Mat<M, N, E, CS, RS>& v, std::vector<T>& o) {
    for (int i = 0; i < M; ++i) for (int j = 0; j < N; ++j) flat(v(i, j), o); }
template <int M, class E, int RS, class T> static void flat(const SymMat<M, E, RS>& v, std::vector<T>& o) {
    for (int i = 0; i < M; ++i) for (int j = 0; j < M; ++j) flat(i >= j ? v(i, j) : v(j, i), o); }
template <int N, class E, int S, class T> static void flat(const Row<N, E, S>& v, std::vector<T>& o) { for (int i = 0; i < N; ++i) flat(v[i], o); }
template <class E, class T> static void flat(const RowVector_<E>& v, std::vector<T>& o) { for (int i = 0; i < v.size(); ++i) flat(v[i], o); }
template <class E, class T> static void flat(const Matrix_<E>& v, std::vector<T>& o) { for (int i = 0; i < v.nrow(); ++i) for (int j = 0; j < v.ncol(); ++j) flat(v(i, j), o); }
template <class E, class T> static void flat(const Array_<E>& v, std::vector<T>& o) { for (int i = 0; i < (int)v.size(); ++i) flat(v[i], o); }
template <class E, class T> static void flat(const Vector_<E>& v, std::vector<T>& o) { for (int i = 0; i < v.size(); ++i) flat(v[i], o); }

// the object that is read into starts out different from the value written (fixed shapes: sentinel contents; dynamic
// containers: empty), so a reader that stores nothing cannot pass
static void scramble(double& x) { x = 123.25; }
static void scramble(float& x) { x = 123.25f; }
static void scramble(int& x) { x = 77; }
static void scramble(bool& x) { x = !x; }
template <class T> static void scramble(std::complex<T>& z) { z = std::complex<T>(T(123.25), T(-7)); }
template <int M, class E, int S> static void scramble(Vec<M, E, S>& v) { for (int i = 0; i < M; ++i) scramble(v[i]); }
template <int N, class E, int S> static void scramble(Row<N, E, S>& v) { for (int i = 0; i < N; ++i) scramble(v[i]); }
template <int M, int N, class E, int CS, int RS> static void scramble(Mat<M, N, E, CS, RS>& v) { for (int i = 0; i < M; ++i) for (int j = 0; j < N; ++j) scramble(v(i, j)); }
template <int M, class E, int RS> static void scramble(SymMat<M, E, RS>& v) { for (int i = 0; i < M; ++i) for (int j = 0; j <= i; ++j) scramble(v(i, j)); }
template <class E> static void scramble(Array_<E>& v) { v.clear(); }
template <class E> static void scramble(Vector_<E>& v) { v.resize(0); }
template <class E> static void scramble(RowVector_<E>& v) { v.resize(0); }
template <class E> static void scramble(Matrix_<E>& v) { for (int i = 0; i < v.nrow(); ++i) for (int j = 0; j < v.ncol(); ++j) scramble(v(i, j)); }
// Matrix_ has no variable-size reader (readUnformatted(Matrix_&) is documented as not implemented): fillUnformatted
template <class A> static bool readAgg(std::istream& in, A& w) { return readUnformatted(in, w); }
template <class E> static bool readAgg(std::istream& in, Matrix_<E>& w) { return fillUnformatted(in, w); }

template <class T> static bool eqScal(const T& a, const T& b) { return a == b; }
template <> bool eqScal<double>(const double& a, const double& b) { return sameBits(a, b); }
template <> bool eqScal<float>(const float& a, const float& b) { return sameBits(a, b); }

// read `text` back into AGG (shape given by `proto`), print the record
template <class T, class AGG> static bool readBack(const std::string& text, const char* kind, int k, AGG& w, const char* tag) {
    std::istringstream in(text);
    bool ok = readAgg(in, w);
    vh::I("unf").s(kind).s(tyCode<T>()).i(k).s(hx(text)).emit();
    if (ok) {
        std::vector<T> f; flat(w, f);
        vh::Line o = vh::O("unf"); o.i(1);
        if (kind[0] == 'A' || kind[0] == 'R') o.i((long long)f.size() / (k ? k : 1));
        for (size_t q = 0; q < f.size(); ++q) { T x = f[q]; o.s(scalTok<T>(x)); }
        o.emit();
    } else vh::O("unf").i(0).emit();
    vh::D(std::string("unf.") + tag + (ok ? ".ok" : ".fail"));
    return ok;
}
template <class T, class AGG> static void unfRT(const AGG& v, const char* kind, int k, const char* tag, vh::Rng& g, bool mutate = true) {
    std::ostringstream o; writeUnformatted(o, v);
    AGG w(v); scramble(w);
    bool ok = readBack<T>(o.str(), kind, k, w, tag);
    std::vector<T> a, b; flat(v, a); if (ok) flat(w, b);
    bool same = ok && a.size() == b.size();
    for (size_t i = 0; same && i < a.size(); ++i) same = eqScal<T>(a[i], b[i]);
    vh::P("roundtrip", std::string("Serialize.unformatted.") + tag + ".roundtrip", same ? 0 : 1, 0);
    if (!same) {   // correspondence-only twin (the O-line comparison must survive a failing predicate)
        AGG w3(v); scramble(w3); readBack<T>(o.str(), kind, k, w3, (std::string(tag) + ".twin_without_predicates").c_str());
    }
    if (!mutate) return;
    // mutated texts (correspondence only): white-space variants, trailing blank, junk, missing token, punctuation
    std::string t = o.str(), m;
    switch (g.below(7)) {
        case 0: for (char c : t) { if (c == ' ') m += g.coin() ? "  \t" : "\n "; else m += c; } m = " \n" + m; break;
        case 1: m = t + " "; break;
        case 2: m = t + "\n\n"; break;
        case 3: m = t + " 1.5abc"; break;
        case 4: m = t.substr(0, t.size() > 2 ? t.size() - 2 : 0); break;
        case 5: m = t; for (char& c : m) if (c == ' ') c = ','; break;
        default: m = "[" + t + "]"; break;
    }
    AGG w2(v); scramble(w2);
    readBack<T>(m, kind, k, w2, (std::string(tag) + ".mutated").c_str());
}

// ------------------------------------------------------------------------------------------------ XML
static const char* XMLDECL = "<?xml version=\"1.0\" encoding=\"UTF-8\" ?>";
struct CondGuard {   // the condense flag is a process-wide static of TinyXML
    bool old; explicit CondGuard(bool c) : old(Xml::Document::isXmlWhiteSpaceCondensed()) { Xml::Document::setXmlCondenseWhiteSpace(c); }
    ~CondGuard() { Xml::Document::setXmlCondenseWhiteSpace(old); }
};
static void xenc(bool keepQuotes, bool cond, const std::string& s) {
    CondGuard cg(cond);
    Xml::Document doc; doc.setRootTag("r");
    std::string enc; bool found = false;
    String out;
    if (keepQuotes) {     // element text
        doc.getRootElement().setValue(s);
        doc.writeToString(out, true);
        size_t a = out.find("<r>"), b = out.rfind("</r>");
        if (a != std::string::npos && b != std::string::npos && b >= a + 3) { enc = out.substr(a + 3, b - a - 3); found = true; }
        else if (out.find("<r />") != std::string::npos) { enc = ""; found = true; }
    } else {              // attribute value
        doc.getRootElement().setAttributeValue("a", s);
        doc.writeToString(out, true);
        size_t a = out.find("<r a=");
        if (a != std::string::npos) { char q = out[a + 5]; size_t b = out.rfind(q); if (b > a + 5) { enc = out.substr(a + 6, b - a - 6); found = true; } }
    }
    vh::I("xenc").i(keepQuotes).i(cond).s(hx(s)).emit();
    if (found) vh::O("xenc").s(hx(enc)).emit(); else vh::O("xenc").s("NOTFOUND").emit();
    vh::D(std::string("xenc.") + (keepQuotes ? "text" : "attr") + (cond ? ".condense" : ".keep"));
    // escape_no_raw_specials on the implementation's output (strings without the "&#x" pass-through pattern)
    if (found && s.find("&#x") == std::string::npos) {
        bool raw = enc.find('<') != std::string::npos || enc.find('>') != std::string::npos ||
                   (!keepQuotes && (enc.find('"') != std::string::npos || enc.find('\'') != std::string::npos));
        vh::P("no_raw_specials", "Xml.encode.no_raw_markup_characters", raw ? 1 : 0, 0);
    }
}
static void xdec(int mode, const std::string& raw) {
    CondGuard cg(mode == 1);
    std::string docs = std::string(XMLDECL) + (mode == 2 ? "<r a=\"" + raw + "\" />" : "<r>" + raw + "</r>");
    bool ok = true; std::string val;
    try {
        Xml::Document d; d.readFromString(docs);
        Xml::Element r = d.getRootElement();
        if (mode == 2) val = r.getRequiredAttributeValue("a");
        else { if (!r.isValueElement()) ok = false; else val = r.getValue(); }
    } catch (const std::exception&) { ok = false; }
    vh::I("xdec").i(mode).s(hx(raw)).emit();
    if (ok) vh::O("xdec").i(1).s(hx(val)).emit(); else vh::O("xdec").i(0).emit();
    vh::D(std::string("xdec.mode") + std::to_string(mode) + (ok ? ".ok" : ".error"));
}

struct XNode { int kind; std::string tag, text; std::vector<std::pair<std::string, std::string> > attrs; std::vector<XNode> kids; };  // kind 0 element 1 comment
static void xser(const XNode& n, std::vector<std::string>& o) {
    if (n.kind == 1) { o.push_back("C"); o.push_back(hx(n.text)); return; }
    o.push_back("E"); o.push_back(n.tag); o.push_back(std::to_string(n.attrs.size()));
    for (auto& a : n.attrs) { o.push_back(a.first); o.push_back(hx(a.second)); }
    if (n.kids.empty()) { o.push_back("V"); o.push_back(hx(n.text)); }
    for (auto& k : n.kids) xser(k, o);
    o.push_back("X");
}
static Xml::Element xbuild(const XNode& n) {
    Xml::Element e(n.tag);
    for (auto& a : n.attrs) e.setAttributeValue(a.first, a.second);
    if (n.kids.empty()) e.setValue(n.text);
    for (auto& k : n.kids) { if (k.kind == 1) e.appendNode(Xml::Comment(k.text)); else e.appendNode(xbuild(k)); }
    return e;
}
static void xread(Xml::Element e, std::vector<std::string>& o) {
    o.push_back("E"); o.push_back(e.getElementTag());
    Array_<Xml::Attribute> as = e.getAllAttributes();
    o.push_back(std::to_string(as.size()));
    for (auto& a : as) { o.push_back(a.getName()); o.push_back(hx(a.getValue())); }
    bool anyChild = false;
    for (Xml::node_iterator p = e.node_begin(Xml::NodeType(Xml::ElementNode | Xml::CommentNode)); p != e.node_end(); ++p) anyChild = true;
    if (!anyChild) { o.push_back("V"); o.push_back(hx(e.isValueElement() ? std::string(e.getValue()) : std::string("?mixed"))); }
    else for (Xml::node_iterator p = e.node_begin(Xml::NodeType(Xml::ElementNode | Xml::CommentNode)); p != e.node_end(); ++p) {
        if (Xml::Comment::isA(*p)) { o.push_back("C"); o.push_back(hx(p->getNodeText())); }
        else xread(Xml::Element::getAs(*p), o);
    }
    o.push_back("X");
}
static bool treeHas(const XNode& n, const std::string& pat) {
    if (n.kind == 0) { if (n.kids.empty() && n.text.find(pat) != std::string::npos) return true;
        for (auto& a : n.attrs) if (a.second.find(pat) != std::string::npos) return true; }
    for (auto& k : n.kids) if (treeHas(k, pat)) return true;
    return false;
}
static bool commentHas(const XNode& n, const std::string& pat) {
    if (n.kind == 1) return n.text.find(pat) != std::string::npos;
    for (auto& k : n.kids) if (commentHas(k, pat)) return true;
    return false;
}
static long fileCounter = 0;
// via: 0 = writeToString/readFromString, 1 = writeToFile/readFromFile (scratch file under /tmp/agent-C32)
static void xtree(bool cond, const XNode& root, bool compact, int via = 0) {
    CondGuard cg(cond);
    std::vector<std::string> in, out; xser(root, in);
    bool ok = true;
    try {
        Xml::Document doc; doc.setRootTag(root.tag);
        Xml::Element r = doc.getRootElement();
        for (auto& a : root.attrs) r.setAttributeValue(a.first, a.second);
        if (root.kids.empty()) r.setValue(root.text);
        for (auto& k : root.kids) { if (k.kind == 1) r.appendNode(Xml::Comment(k.text)); else r.appendNode(xbuild(k)); }
        Xml::Document d2;
        if (via == 0) { String text; doc.writeToString(text, compact); d2.readFromString(text); }
        else {
            static bool made = false; if (!made) { int rc = std::system("mkdir -p /tmp/agent-C32"); (void)rc; made = true; }
            std::string path = "/tmp/agent-C32/x" + std::to_string((long)getpid()) + "_" + std::to_string(fileCounter++ % 4) + ".xml";
            doc.writeToFile(path); d2.readFromFile(path); std::remove(path.c_str());
        }
        xread(d2.getRootElement(), out);
    } catch (const std::exception& e) { ok = false; out.clear(); out.push_back(std::string("EXC")); std::fprintf(stderr, "xtree exception: %s\n", e.what()); }
    const char* fn = via ? "xtreeF" : "xtree";
    vh::Line i = vh::I(fn); i.i(cond); for (auto& t : in) i.s(t); i.emit();
    vh::Line o = vh::O(fn); for (auto& t : out) o.s(t); o.emit();
    bool hexref = treeHas(root, "&#x");
    // raw CR reaches the file in comments (never encoded) and, when white space is kept, in text and attribute values
    bool cr = via == 1 && ((!cond && treeHas(root, "\r")) || commentHas(root, "\r"));
    vh::D(std::string(fn) + "." + (cond ? "condense" : "keep") + (via ? ".file" : compact ? ".compact" : ".indented") + (hexref ? ".hexref" : "") + (cr ? ".cr" : ""));
    bool same = ok && in == out;
    const char* key = hexref ? "Xml.roundtrip.text_with_hex_char_reference"
                    : cr ? "Xml.file_roundtrip.carriage_return_becomes_newline"
                    : via ? "Xml.file_roundtrip.exact" : "Xml.roundtrip.exact";
    vh::P("roundtrip", key, same ? 0 : 1, 0);
    if (!same) {   // correspondence-only twin: the model predicts the exact outcome of these records too
        vh::Line i2 = vh::I(fn); i2.i(cond); for (auto& t : in) i2.s(t); i2.emit();
        vh::Line o2 = vh::O(fn); for (auto& t : out) o2.s(t); o2.emit();
        vh::D(std::string(fn) + ".twin_without_predicates");
    }
}

// ------------------------------------------------------------------------------------------------ generators
static std::string digits(vh::Rng& g, int lo, int hi) { int n = lo + g.below(hi - lo + 1); std::string s; for (int i = 0; i < n; ++i) s += (char)('0' + g.below(10)); return s; }
static std::string realLiteral(vh::Rng& g) {      // a syntactically valid decimal literal (value may overflow/underflow)
    std::string s;
    switch (g.below(4)) { case 0: s += '-'; break; case 1: s += '+'; break; default: break; }
    switch (g.below(5)) {
        case 0: s += digits(g, 1, 4); break;
        case 1: s += digits(g, 1, 3) + "." + digits(g, 0, 18); break;
        case 2: s += "." + digits(g, 1, 17); break;
        case 3: s += digits(g, 1, 20) + "."; break;
        default: s += digits(g, 1, 1) + "." + digits(g, 16, 16); break;
    }
    if (g.below(3) == 0) { s += g.coin() ? 'e' : 'E'; switch (g.below(3)) { case 0: s += '-'; break; case 1: s += '+'; break; default: break; }
        s += g.below(4) == 0 ? std::to_string(290 + g.below(40)) : digits(g, 1, 2); }
    return s;
}
static std::string padWS(vh::Rng& g, const std::string& s) {
    static const char* ws[] = {"", " ", "  ", "\t", "\n", " \r\n", "\v\f"};
    return std::string(ws[g.below(7)]) + s + ws[g.below(7)];
}
static std::string mutateReal(vh::Rng& g, const std::string& lit, std::string& cls) {
    static const char* junk[] = {"abc", "x", ".", "e", ",5", " 2", "f", "d", "e+", "..", "-", "+1", "(", "nan", "inf", "L", "%", "1.5abc"};
    switch (g.below(8)) {
        case 0: cls = "valid"; return lit;
        case 1: cls = "valid_padded"; return padWS(g, lit);
        case 2: cls = "trailing_junk"; return lit + junk[g.below(18)];
        case 3: cls = "trailing_junk_padded"; return padWS(g, lit + junk[g.below(18)]);
        case 4: cls = "inner_space"; { std::string s = lit; s.insert(1 + g.below((int)s.size()), " "); return s; }
        case 5: cls = "leading_junk"; return std::string(junk[g.below(18)]) + lit;
        case 6: cls = "truncated"; return lit.substr(0, g.below((int)lit.size() + 1));
        default: cls = "two_numbers"; return lit + " " + realLiteral(g);
    }
}
static const char* REAL_FIXED[] = {"", " ", "+", "-", ".", "e", "1e", "1e+", "1e-", ".e5", "1.e5", "1.5.3", "1e5e3", "1e5.3", "0x10", "0x1p3", "1e400", "-1e400",
    "1e-400", "-1e-400", "1e308", "1.7976931348623157e308", "1.7976931348623158e308", "1.7976931348623159e308", "4.9e-324", "2.4703282292062327e-324",
    "2.4703282292062328e-324", "2.2250738585072011e-308", "2.2250738585072014e-308", "007.50", "-0", "-0.0", "+0", "1.5abc", "1.5 abc", "1,5", "1.5 2",
    "NaN", "nan", "NAN", " nan ", "-nan", "+nan", "nan(1)", "nanx", "Inf", "inf", "-Inf", "+inf", "INFINITY", "-infinity", "+Infinity", "infinit", "in f",
    "infx", "inf 1", "3.4028235e38", "3.4028236e38", "3.4028234663852886e38", "3.4028235677973366e38", "1e39", "1e-46", "7e-46", "1.4e-45", "1.17549435e-38",
    "0.1", "0.30000000000000004", "123456789012345678901234567890", "0.000000000000000000000000000001", "9007199254740993", "9007199254740992.5",
    "1.00000000000000011102230246251565404236316680908203125", "1.00000000000000011102230246251565404236316680908203126", "16777217", "16777217.0000001"};
static const char* BOOL_FIXED[] = {"true", "false", "TRUE", "False", " true ", "\ttRuE\n", "1", "0", "2", "01", "00", "+1", "-0", "-1", "1abc", "0x", "1.0", "1 ", " 0",
    "truex", "tru", "t", "f", "yes", "no", "", " ", "true false", "1 0", "10", "99999999999999999999", "1e0"};
static const char* INT_FIXED[] = {"0", "-0", "+7", "-7", " 12 ", "12 3", "1.5", "15abc", "abc", "", " ", "+", "-", "2147483647", "2147483648", "-2147483648", "-2147483649",
    "99999999999", "9223372036854775807", "9223372036854775808", "-9223372036854775808", "-9223372036854775809", "0x1f", "007", "1e3", "1,000", "\t42\n", "4 2", "--1", "+-1"};
static const char* CX_FIXED[] = {"(1,2)", "(1.5,-2)", " ( 1 , 2 ) ", "(1)", "1", "1.5", "(1,2", "(1,2)x", "(1 2)", "1,2", "(NaN,1)", "(1,Inf)", "(,)", "()", "(1,2) ", "((1,2))", "(1e400,0)"};

static double randomDouble(vh::Rng& g, std::string& cls) {
    switch (g.below(12)) {
        case 0: cls = "nan"; return NaN;
        case 1: cls = "inf"; return g.coin() ? Infinity : -Infinity;
        case 2: cls = "zero"; return g.coin() ? 0.0 : -0.0;
        case 3: cls = "subnormal"; { uint64_t u = g.next() & 0x000FFFFFFFFFFFFFull; if (g.coin()) u &= 0xFFF; if (!u) u = 1; double x; std::memcpy(&x, &u, 8); return g.coin() ? x : -x; }
        case 4: cls = "extreme"; { static const double e[] = {1.7976931348623157e308, 2.2250738585072014e-308, 4.9406564584124654e-324, 2.2250738585072009e-308}; double x = e[g.below(4)]; return g.coin() ? x : -x; }
        case 5: cls = "smallint"; return g.smallInt(-1000, 1000);
        case 6: cls = "decimal"; return g.smallInt(-100000, 100000) / 1000.0;
        case 7: case 8: cls = "bits"; { uint64_t u = g.next(); double x; std::memcpy(&x, &u, 8); if (std::isnan(x)) { cls = "nan_payload"; } return x; }
        default: cls = "scaled"; return g.signedMag(1e-3, 1e3);
    }
}
static float randomFloat(vh::Rng& g, std::string& cls) {
    switch (g.below(8)) {
        case 0: cls = "nan"; return std::numeric_limits<float>::quiet_NaN();
        case 1: cls = "inf"; return g.coin() ? std::numeric_limits<float>::infinity() : -std::numeric_limits<float>::infinity();
        case 2: cls = "zero"; return g.coin() ? 0.0f : -0.0f;
        case 3: cls = "subnormal"; { uint32_t u = (uint32_t)g.next() & 0x007FFFFFu; if (!u) u = 1; float x; std::memcpy(&x, &u, 4); return x; }
        case 4: cls = "extreme"; { static const float e[] = {3.40282347e38f, 1.17549435e-38f, 1.40129846e-45f}; return e[g.below(3)]; }
        case 5: case 6: cls = "bits"; { uint32_t u = (uint32_t)g.next(); float x; std::memcpy(&x, &u, 4); return x; }
        default: cls = "scaled"; return (float)g.signedMag(1e-3, 1e3);
    }
}
static std::string randomText(vh::Rng& g, int maxLen, bool normalizedWS, bool allowQuoteLt) {
    static const char* special[] = {"&", "<", ">", "\"", "'", "&amp;", "&lt;", "&#", "#", "x", ";", "&;", "&&", "<<", "]]>", "\t", "\n", "\r", "\x01", "\x1f", "\x7f",
                                    "\xc3\xa9", "\xe2\x82\xac", "&quot;", "&apos;", "&gt;", "&#65;", "& ", "a&b", "<!--", "-->", "/>", "</", "="};
    int n = g.below(maxLen + 1); std::string s;
    for (int i = 0; i < n; ++i) {
        int k = g.below(10);
        if (k < 4) s += (char)('a' + g.below(26));
        else if (k < 5) s += (char)('0' + g.below(10));
        else if (k < 6) s += ' ';
        else if (k < 7) s += (char)(33 + g.below(94));
        else s += special[g.below(34)];
    }
    if (!allowQuoteLt) { std::string t; for (char c : s) if (c != '"' && c != '<') t += c; s = t; }
    if (normalizedWS) {   // the documented condensed form: no leading/trailing white space, single blanks
        std::string t; bool pend = false;
        for (char c : s) { if (c == ' ' || c == '\t' || c == '\n' || c == '\r') { pend = !t.empty(); } else { if (pend) t += ' '; pend = false; t += c; } }
        s = t;
    }
    return s;
}
static bool blank(const std::string& s) { for (unsigned char c : s) if (!std::isspace(c)) return false; return true; }
static std::string safeName(vh::Rng& g) { std::string s; s += (char)('a' + g.below(26)); int n = g.below(6); for (int i = 0; i < n; ++i) s += (char)("abcXYZ019_-."[g.below(12)]); return s; }
static XNode randomTree(vh::Rng& g, int depth, bool cond, bool hexref) {
    XNode n; n.kind = 0; n.tag = safeName(g);
    int na = g.below(4);
    for (int i = 0; i < na; ++i) { std::string nm = safeName(g) + std::to_string(i); std::string v = randomText(g, 12, false, true);
        switch (g.below(8)) { case 0: v += "\""; break; case 1: v += "'"; break; case 2: v = "'" + v + "\""; break; case 3: v += "\"q\" 'p'"; break; default: break; }
        // only well-formed references are planted in trees: a dangling "&#x" makes GetEntity search the rest of the *document* for ';'
        // (it can swallow following attributes), which the per-value model cannot predict; dangling forms are covered by xenc/xdec
        { size_t p; while ((p = v.find("&#x")) != std::string::npos) v.erase(p, 1); }
        if (hexref && g.below(3) == 0) v += "&#x41;";
        n.attrs.push_back({nm, v}); }
    int nk = depth > 0 ? g.below(4) : 0;
    if (nk == 0) {
        std::string t = randomText(g, 16, cond, true);
        { size_t p; while ((p = t.find("&#x")) != std::string::npos) t.erase(p, 1); }
        if (hexref && g.coin()) t += std::string("&#x42;z");
        if (blank(t)) t = t.empty() || g.coin() ? "" : "v";     // white-space-only values are dropped by TinyXML (TiXmlText::Blank): not generated here
        n.text = t;
    }
    for (int i = 0; i < nk; ++i) {
        if (g.below(5) == 0) { XNode c; c.kind = 1; std::string t = randomText(g, 10, false, true);
            size_t p; while ((p = t.find("--")) != std::string::npos) t.erase(p, 1);
            if (!t.empty() && t.back() == '-') t += ' ';
            c.text = t; n.kids.push_back(c); }
        else n.kids.push_back(randomTree(g, depth - 1, cond, hexref));
    }
    bool anyElt = false; for (auto& k : n.kids) if (k.kind == 0) anyElt = true;
    if (!n.kids.empty() && !anyElt) n.kids.push_back(randomTree(g, 0, cond, hexref));   // comment-only content reads back as a value element
    return n;
}

// ------------------------------------------------------------------------------------------------ replay
static XNode parseTree(const std::vector<std::string>& t, size_t& i) {
    XNode n; n.kind = 0; ++i; n.tag = t[i++]; int na = std::atoi(t[i++].c_str());
    for (int k = 0; k < na; ++k) { std::string nm = t[i++]; n.attrs.push_back({nm, unhx(t[i++])}); }
    while (i < t.size() && t[i] != "X") {
        if (t[i] == "V") { n.text = unhx(t[i + 1]); i += 2; }
        else if (t[i] == "C") { XNode c; c.kind = 1; c.text = unhx(t[i + 1]); i += 2; n.kids.push_back(c); }
        else n.kids.push_back(parseTree(t, i));
    }
    ++i; return n;
}
static void replay() {
    std::string line; vh::Rng g(1);
    while (std::getline(std::cin, line)) {
        std::istringstream is(line); std::string k, fn; is >> k >> fn; if (k != "I") continue;
        std::vector<std::string> t; std::string s; while (is >> s) t.push_back(s);
        if (fn == "cvtD" && t.size() == 1) cvtD(unhx(t[0]), "replay");
        else if (fn == "cvtF" && t.size() == 1) cvtF(unhx(t[0]), "replay");
        else if (fn == "cvtB" && t.size() == 1) cvtB(unhx(t[0]), "replay");
        else if (fn == "cvtI" && t.size() == 1) cvtI(unhx(t[0]), "replay");
        else if (fn == "cvtL" && t.size() == 1) cvtL(unhx(t[0]), "replay");
        else if (fn == "cvtC" && t.size() == 1) cvtC(unhx(t[0]), "replay");
        else if (fn == "rtD" && t.size() == 2) rtD(vh::unhex(t[0].substr(1)), "replay");
        else if (fn == "rtF" && t.size() == 2) rtF((float)vh::unhex(t[0].substr(1)), "replay");
        else if (fn == "xenc" && t.size() == 3) xenc(t[0] == "1", t[1] == "1", unhx(t[2]));
        else if (fn == "xdec" && t.size() == 2) xdec(std::atoi(t[0].c_str()), unhx(t[1]));
        else if (fn == "xtree" && t.size() >= 4) { size_t i = 1; XNode r = parseTree(t, i); xtree(t[0] == "1", r, true); }
        else if (fn == "xtreeF" && t.size() >= 4) { size_t i = 1; XNode r = parseTree(t, i); xtree(t[0] == "1", r, true, 1); }
        else if (fn == "unf" && t.size() == 4) {
            std::string text = unhx(t[3]); int kk = std::atoi(t[1 + 1].c_str());
            if (t[0] == "F" && t[1] == "d") { if (kk == 1) { double w; readBack<double>(text, "F", 1, w, "replay"); } else if (kk == 2) { std::complex<double> w; readBack<double>(text, "F", 2, w, "replay"); }
                else if (kk == 3) { Vec3 w; readBack<double>(text, "F", 3, w, "replay"); } else if (kk == 9) { Mat33 w; readBack<double>(text, "F", 9, w, "replay"); } }
            else if (t[0] == "A" && t[1] == "d") { if (kk == 1) { Array_<double> w; readBack<double>(text, "A", 1, w, "replay"); } else if (kk == 3) { Array_<Vec3> w; readBack<double>(text, "A", 3, w, "replay"); } }
        }
    }
}

int main(int argc, char** argv) {
    vh::Args args(argc, argv);
    if (args.mode == "replay") { replay(); return 0; }
    vh::Rng g(args.seed * 7919 + 32);
    std::string cls;
    // ---- fixed literal tables (every run)
    for (const char* s : REAL_FIXED) { cvtD(s, "fixed"); cvtF(s, "fixed"); }
    for (const char* s : BOOL_FIXED) cvtB(s, "fixed");
    for (const char* s : INT_FIXED) { cvtI(s, "fixed"); cvtL(s, "fixed"); }
    for (const char* s : CX_FIXED) cvtC(s, "fixed");
    rtB(true); rtB(false);
    for (double x : {0.0, -0.0, (double)Infinity, -(double)Infinity, (double)NaN, 4.9406564584124654e-324, 1.7976931348623157e308, 2.2250738585072014e-308, 0.1, 1.0 / 3, 5e-324, 1e23, 9007199254740993.0}) rtD(x, "fixed");
    for (float x : {0.0f, -0.0f, 3.40282347e38f, 1.40129846e-45f, 0.1f, 1.0f / 3, 16777216.0f}) rtF(x, "fixed");
    rtC({1.5, -2}); rtC({NaN, 1}); rtC({1, -Infinity}); rtC({0.1, 1e-320});
    // F2 witnesses named in the property
    cvtD("1.5abc", "F2"); cvtF("1.5abc", "F2"); cvtB("1abc", "F2"); cvtI("15abc", "F2");
    // XML fixed cases
    for (const char* s : {"", "plain", "a<b>&c\"d'e", "&#x41;", "x&#x41;y", "&#x", "&#x4", "&#x41", "a&#xZZ;b", "&#x<b>;", "&amp;", "&#65;", " lead", "trail ", "a  b", "\ttab\n", "\x01\x02", "caf\xc3\xa9", "a;b", "&#x41;&#x42;<", "&"})
        for (int kq = 0; kq < 2; ++kq) for (int c = 0; c < 2; ++c) xenc(kq, c, s);
    for (const char* s : {"", "plain", "a &amp; b", "&lt;&gt;&quot;&apos;", "&#65;&#x42;&#x63;", "&foo;", "a&b", "&", "&#", "&#x", "&#x;", "&#;", "&#xZ;", "&#12", "&#x41", " a  b ", "\n a \t b \n", "&#x20;a&#x20;", "&#x09;", "  ", "&#233;", "&#x20AC;", "&#x1F600;", "&amp;amp;", "x&#x3C;y"})
        for (int m = 0; m < 3; ++m) xdec(m, s);
    {   // the hex-reference pass-through finding, as a document round trip
        XNode r; r.kind = 0; r.tag = "root"; XNode c; c.kind = 0; c.tag = "t"; c.text = "A&#x42;C"; r.kids.push_back(c);
        xtree(false, r, true); xtree(true, r, false);
        XNode r2; r2.kind = 0; r2.tag = "root"; r2.attrs.push_back({"a", "v=&#x41;"}); r2.text = "plain"; xtree(false, r2, true);
        // attribute values with a double quote, a single quote, both; through strings and files, both white-space modes
        XNode r3; r3.kind = 0; r3.tag = "root"; r3.attrs.push_back({"dq", "say \"hi\""}); r3.attrs.push_back({"sq", "it's"});
        r3.attrs.push_back({"both", "\"a\" and 'b'"}); r3.attrs.push_back({"both2", "'\""}); r3.text = "t \"q\" 'p'";
        for (int c2 = 0; c2 < 2; ++c2) { xtree(c2, r3, true); xtree(c2, r3, false); xtree(c2, r3, false, 1); }
        // carriage returns through a file (finding) and through a string
        XNode r4; r4.kind = 0; r4.tag = "root"; r4.attrs.push_back({"a", "x\ry"}); XNode c4; c4.kind = 0; c4.tag = "t"; c4.text = "a\rb\r\nc"; r4.kids.push_back(c4);
        xtree(false, r4, true); xtree(false, r4, false, 1); xtree(true, r4, false, 1);
    }
    {   // shapes whose reader is defective, every run: RowVector_ (reads into a copy) and SymMat with an infinite entry
        RowVector rv(3); rv[0] = 1.5; rv[1] = -2; rv[2] = 0.25; unfRT<double>(rv, "R", 1, "RowVector", g, false);
        SymMat33 sm(1, 2, 3, 4, 5, 6); unfRT<double>(sm, "S", 9, "SymMat33", g, false);
        SymMat33 si(1, 2, Infinity, 4, 5, 6); unfRT<double>(si, "S", 9, "SymMat33.infinite", g, false);
        SymMat33 sn(1, NaN, 3, 4, 5, NaN); unfRT<double>(sn, "S", 9, "SymMat33", g, false);
        SymMat33 sh(1, -1.7976931348623157e308, 3, 4, 1e308, 1.7976931348623157e308); unfRT<double>(sh, "S", 9, "SymMat33.huge", g, false);
    }
    // ---- random records
    for (long k = 0; k < args.n; ++k) {
        int stream = g.below(24);
        if (stream <= 3) { std::string s = mutateReal(g, realLiteral(g), cls); cvtD(s, cls.c_str()); if (g.coin()) cvtF(s, cls.c_str()); }
        else if (stream == 4) { static const char* sp[] = {"nan", "inf", "infinity", "-inf", "-infinity", "+inf", "+infinity", "NaN", "Inf", "-Inf", "iNfInItY"};
            std::string s = sp[g.below(11)]; for (char& c : s) if (g.below(4) == 0) c = (char)std::toupper(c);
            switch (g.below(4)) { case 0: break; case 1: s = padWS(g, s); break; case 2: s += "x"; break; default: s = "-" + s; }
            cvtD(s, "special"); cvtF(s, "special"); }
        else if (stream == 5) { std::string s = g.coin() ? digits(g, 1, 11) : (g.coin() ? "-" : "+") + digits(g, 1, 20);
            switch (g.below(5)) { case 0: case 1: break; case 2: s = padWS(g, s); break; case 3: s += "abc"; break; default: s += " 7"; }
            cvtI(s, "random"); cvtL(s, "random"); cvtB(s, "random"); }
        else if (stream == 6) { static const char* b[] = {"true", "false", "1", "0", "TRUE", "False", "2", "truee", "1x", "0 ", " 1"}; cvtB(padWS(g, b[g.below(11)]), "random"); }
        else if (stream <= 9) { double x = randomDouble(g, cls); rtD(x, cls.c_str()); }
        else if (stream == 10) { float x = randomFloat(g, cls); rtF(x, cls.c_str()); }
        else if (stream == 11) { rtI(g.coin() ? (long long)(int32_t)g.next() : (long long)g.next()); if (g.coin()) { std::string c1, c2; rtC({randomDouble(g, c1), randomDouble(g, c2)}); } }
        else if (stream <= 15) {
            std::string c;
            switch (g.below(22)) {
                case 0: unfRT<double>(randomDouble(g, c), "F", 1, "double", g); break;
                case 1: unfRT<float>(randomFloat(g, c), "F", 1, "float", g); break;
                case 2: unfRT<double>(std::complex<double>(randomDouble(g, c), randomDouble(g, c)), "F", 2, "complex", g); break;
                case 3: unfRT<double>(Vec3(randomDouble(g, c), randomDouble(g, c), randomDouble(g, c)), "F", 3, "Vec3", g); break;
                case 4: { Mat33 m; for (int i = 0; i < 3; ++i) for (int j = 0; j < 3; ++j) m(i, j) = randomDouble(g, c); unfRT<double>(m, "F", 9, "Mat33", g); break; }
                case 5: { Mat<2, 3> m; for (int i = 0; i < 2; ++i) for (int j = 0; j < 3; ++j) m(i, j) = randomDouble(g, c); unfRT<double>(m, "F", 6, "Mat23", g); break; }
                case 6: { Vector v(g.below(6)); for (int i = 0; i < v.size(); ++i) v[i] = randomDouble(g, c); unfRT<double>(v, "A", 1, "Vector", g); break; }
                case 7: { Array_<double> a; int n = g.below(6); for (int i = 0; i < n; ++i) a.push_back(randomDouble(g, c)); unfRT<double>(a, "A", 1, "Array_double", g); break; }
                case 8: { Array_<Vec3> a; int n = g.below(4); for (int i = 0; i < n; ++i) a.push_back(Vec3(randomDouble(g, c), randomDouble(g, c), randomDouble(g, c))); unfRT<double>(a, "A", 3, "Array_Vec3", g); break; }
                case 9: { Array_<int> a; int n = g.below(6); for (int i = 0; i < n; ++i) a.push_back((int)(int32_t)g.next() >> g.below(31)); unfRT<int>(a, "A", 1, "Array_int", g); break; }
                case 10: { Vec<2, float> v(randomFloat(g, c), randomFloat(g, c)); unfRT<float>(v, "F", 2, "Vec2f", g); break; }
                case 11: { RowVector v(1 + g.below(5)); for (int i = 0; i < v.size(); ++i) v[i] = randomDouble(g, c); unfRT<double>(v, "R", 1, "RowVector", g, false); break; }
                case 12: { SymMat33 m; bool fin = true, huge = false; for (int i = 0; i < 3; ++i) for (int j = 0; j <= i; ++j) { double x = g.below(4) ? g.signedMag(1e-3, 1e3) : randomDouble(g, c); m(i, j) = x; if (std::isinf(x)) fin = false; if (i != j && std::isfinite(x) && std::fabs(x) > 8.9e307) huge = true; }
                           unfRT<double>(m, "S", 9, !fin ? "SymMat33.infinite" : huge ? "SymMat33.huge" : "SymMat33", g, false); break; }
                case 13: { Matrix m(1 + g.below(3), 1 + g.below(4)); for (int i = 0; i < m.nrow(); ++i) for (int j = 0; j < m.ncol(); ++j) m(i, j) = randomDouble(g, c); unfRT<double>(m, "F", m.nrow() * m.ncol(), "Matrix", g); break; }
                case 14: { Row<3> r(randomDouble(g, c), randomDouble(g, c), randomDouble(g, c)); unfRT<double>(r, "F", 3, "Row3", g); break; }
                case 15: { Vector_<Vec3> v(g.below(4)); for (int i = 0; i < v.size(); ++i) v[i] = Vec3(randomDouble(g, c), randomDouble(g, c), randomDouble(g, c)); unfRT<double>(v, "A", 3, "Vector_Vec3", g); break; }
                case 16: { Array_<float> a; int n = g.below(6); for (int i = 0; i < n; ++i) a.push_back(randomFloat(g, c)); unfRT<float>(a, "A", 1, "Array_float", g); break; }
                case 17: unfRT<int>((int)(int32_t)g.next() >> g.below(31), "F", 1, "int", g); break;
                case 18: unfRT<bool>(g.coin(), "F", 1, "bool", g); break;
                case 19: { Array_<bool> a; int n = g.below(6); for (int i = 0; i < n; ++i) a.push_back(g.coin()); unfRT<bool>(a, "A", 1, "Array_bool", g); break; }
                case 20: { Mat<2, 2, std::complex<double> > m; for (int i = 0; i < 2; ++i) for (int j = 0; j < 2; ++j) m(i, j) = std::complex<double>(randomDouble(g, c), randomDouble(g, c)); unfRT<double>(m, "H", 8, "Mat22complex", g, false); break; }
                default: { Vec<2, std::complex<double> > v(std::complex<double>(randomDouble(g, c), randomDouble(g, c)), std::complex<double>(randomDouble(g, c), randomDouble(g, c))); unfRT<double>(v, "F", 4, "Vec2complex", g); break; }
            }
        }
        else if (stream <= 17) xenc(g.coin(), g.coin(), randomText(g, 20, false, true));
        else if (stream == 18) { int m = g.below(3); xdec(m, randomText(g, 16, false, false)); }
        else { bool cond = g.coin(); bool hexref = g.below(8) == 0; xtree(cond, randomTree(g, 3, cond, hexref), g.coin(), g.below(3) == 0 ? 1 : 0); }
    }
    return 0;
}
