// C41 correspondence harness: Function_ objects, smooth steps (Scalar.h), Spline_ / SplineFitter / GCVSPLUtil::splder.
// All tokens are hex doubles (integers travel as exactly representable doubles).
//   I stepUp x                     -> O stepUp s ds d2s d3s sd dsd d2sd d3sd
//   I stepAny y0 yr x0 ooxr x      -> O stepAny y dy d2y d3y
//   I fstep y0 y1 x0 x1 x          -> O fstep v d1 d2 d3           (Function_<Real>::Step, Function_<Vec3>::Step per component)
//   I fconst v                     -> O fconst v 0
//   I flin n c[n+1] x[n] j         -> O flin value d/dxj d2/dxj2
//   I fpoly nc c[nc] x order       -> O fpoly d_order               (order 0 = calcValue)
//   I fsin a w p t order           -> O fsin d_order
//   I splder m n ider t x[n] c[n]  -> O splder value                (Spline_::calcValue / calcDerivative)
// P lines: the property's own predicates evaluated on the implementation's outputs (see notes/C41.md).
#include "SimTKcommon.h"
#include "SimTKmath.h"
#include "hcommon.h"
#include <algorithm>
using namespace SimTK;

static double relTo(double a, double b, double scale) { return std::fabs(a - b) / std::max(scale, 1e-300); }

// ------------------------------------------------------------------ stepUp & co
static void stepUpCase(double x, const char* tag, vh::Rng* g) {
    vh::I("stepUp").d(x).emit();
    double s = stepUp(x), ds = dstepUp(x), d2 = d2stepUp(x), d3 = d3stepUp(x);
    vh::O("stepUp").d(s).d(ds).d(d2).d(d3).d(stepDown(x)).d(dstepDown(x)).d(d2stepDown(x)).d(d3stepDown(x)).emit();
    vh::D(std::string("stepUp.") + tag);
    std::string key = std::string("stepUp.") + tag;
    vh::P("step_range", key + ".range", std::max(-s, s - 1.0), 2e-14);   // exact in the model (theorem stepUp_range); rounding of 7 flops with terms up to 15
    vh::P("step_monotone_deriv", key + ".dnonneg", -ds, 0.0);
    vh::P("stepDown_mirror", key + ".mirror", std::fabs(stepDown(x) + s - 1.0), 4e-16);
    if (x == 0.0 || x == 1.0) {
        vh::P("step_ends", key + ".ends", std::fabs(s - x) + std::fabs(ds) + std::fabs(d2), 0.0);
    }
    if (g) {
        // monotone: a second point above x
        double x2 = x + (1.0 - x) * g->unit();
        vh::P("step_monotone", key + ".monotone", s - stepUp(x2), 2e-14);
        // derivatives against central differences (h^2 f'''/6 <= 1e-8*360/6)
        const double h = 1e-4;
        if (x >= h && x <= 1 - h) {
            vh::P("dstepUp_fd", key + ".fd1", std::fabs((stepUp(x + h) - stepUp(x - h)) / (2 * h) - ds), 1e-5);
            vh::P("d2stepUp_fd", key + ".fd2", std::fabs((dstepUp(x + h) - dstepUp(x - h)) / (2 * h) - d2), 1e-5);
            vh::P("d3stepUp_fd", key + ".fd3", std::fabs((d2stepUp(x + h) - d2stepUp(x - h)) / (2 * h) - d3), 1e-5);
        }
    }
}

static void stepAnyCase(double y0, double yr, double x0, double x1, double u, const char* tag) {
    double ooxr = 1 / (x1 - x0);
    double x = (u == 0 ? x0 : (u == 1 ? x1 : x0 + u * (x1 - x0)));
    // keep xadj inside the documented range
    double xadj = (x - x0) * ooxr;
    if (!(xadj >= 0 && xadj <= 1)) x = x0;
    vh::I("stepAny").d(y0).d(yr).d(x0).d(ooxr).d(x).emit();
    double y = stepAny(y0, yr, x0, ooxr, x), dy = dstepAny(yr, x0, ooxr, x), d2y = d2stepAny(yr, x0, ooxr, x),
           d3y = d3stepAny(yr, x0, ooxr, x);
    vh::O("stepAny").d(y).d(dy).d(d2y).d(d3y).emit();
    vh::D(std::string("stepAny.") + tag);
    std::string key = std::string("stepAny.") + tag;
    double ys = std::fabs(y0) + std::fabs(yr);
    // between the end values
    double lo = std::min(y0, y0 + yr), hi = std::max(y0, y0 + yr);
    vh::P("stepAny_range", key + ".range", std::max(lo - y, y - hi) / ys, 2e-14);
    if (u == 0) vh::P("stepAny_ends", key + ".end0", std::fabs(y - y0) / ys + std::fabs(dy) + std::fabs(d2y), 0.0);
    if (u == 1) vh::P("stepAny_ends", key + ".end1",
                      std::fabs(y - (y0 + yr)) / ys + std::fabs(dy * (x1 - x0)) / ys + std::fabs(d2y * (x1 - x0) * (x1 - x0)) / ys, 1e-13);
    double xr = x1 - x0, h = 1e-4 * std::fabs(xr);
    if (u > 2e-4 && u < 1 - 2e-4) {
        double s1 = std::fabs(yr / xr), s2 = std::fabs(yr / (xr * xr)), s3 = std::fabs(yr / (xr * xr * xr));
        vh::P("dstepAny_fd", key + ".fd1", std::fabs((stepAny(y0, yr, x0, ooxr, x + h) - stepAny(y0, yr, x0, ooxr, x - h)) / (2 * h) - dy) / s1, 1e-5);
        vh::P("d2stepAny_fd", key + ".fd2", std::fabs((dstepAny(yr, x0, ooxr, x + h) - dstepAny(yr, x0, ooxr, x - h)) / (2 * h) - d2y) / s2, 1e-5);
        vh::P("d3stepAny_fd", key + ".fd3", std::fabs((d2stepAny(yr, x0, ooxr, x + h) - d2stepAny(yr, x0, ooxr, x - h)) / (2 * h) - d3y) / s3, 1e-5);
    }
}

// ------------------------------------------------------------------ Function_::Step
static Array_<int> comps(int order, int which = 0) { return Array_<int>(order, which); }

static void fstepRecord(double y0, double y1, double x0, double x1, double x, double v, double d1, double d2, double d3,
                        const std::string& tag, int zone, const Function_<Real>* f) {
    vh::I("fstep").d(y0).d(y1).d(x0).d(x1).d(x).emit();
    vh::O("fstep").d(v).d(d1).d(d2).d(d3).emit();
    vh::D("fstep." + tag);
    std::string key = "fstep." + tag;
    double ys = std::max(std::fabs(y0) + std::fabs(y1), 1e-300), xr = x1 - x0;
    if (zone < 0) vh::P("step_outside", key + ".before", std::fabs(v - y0) + std::fabs(d1) + std::fabs(d2) + std::fabs(d3), 0.0);
    if (zone > 0) vh::P("step_outside", key + ".after", std::fabs(v - y1) + std::fabs(d1) + std::fabs(d2) + std::fabs(d3), 0.0);
    vh::P("step_between", key + ".between", std::max(std::min(y0, y1) - v, v - std::max(y0, y1)) / ys, 2e-14);
    // monotone in the direction of (y1-y0)*(x1-x0):  d1 * sign >= 0
    vh::P("step_monotone", key + ".monotone", -d1 * (y1 - y0) * xr, 0.0);
    if (zone == 0 && f) {
        double u = (x - x0) / xr;
        double h = 1e-4 * std::fabs(xr), yr = y1 - y0;
        Vector a(1), b(1);
        if (u > 2e-4 && u < 1 - 2e-4) {
            a[0] = x + h; b[0] = x - h;
            double s1 = std::max(std::fabs(yr / xr), 1e-300), s2 = s1 / std::fabs(xr), s3 = s2 / std::fabs(xr);
            vh::P("step_d1_fd", key + ".fd1", std::fabs((f->calcValue(a) - f->calcValue(b)) / (2 * h) - d1) / s1, 1e-5);
            vh::P("step_d2_fd", key + ".fd2", std::fabs((f->calcDerivative(comps(1), a) - f->calcDerivative(comps(1), b)) / (2 * h) - d2) / s2, 1e-5);
            vh::P("step_d3_fd", key + ".fd3", std::fabs((f->calcDerivative(comps(2), a) - f->calcDerivative(comps(2), b)) / (2 * h) - d3) / s3, 1e-5);
        }
        // C2 join with the constants: just inside either end value, first and second derivative are small
        // |s(u)| <= 10u^3, |s'(u)| <= 30u^2, |s''(u)| <= 60u for u in [0,1]
        double w = std::min(u, 1 - u);
        double yend = (u < 0.5 ? y0 : y1);
        double yra = std::max(std::fabs(yr), 1e-300);
        vh::P("step_C2_value", key + ".c2v", std::fabs(v - yend) / yra - 10 * w * w * w, 1e-12);
        vh::P("step_C2_d1", key + ".c2d1", std::fabs(d1 * xr) / yra - 30 * w * w, 1e-12);
        vh::P("step_C2_d2", key + ".c2d2", std::fabs(d2 * xr * xr) / yra - 60 * w, 1e-12);
    }
}

static double pickX(vh::Rng& g, double x0, double x1, int& zone) {
    double xr = x1 - x0;
    int k = g.below(12);
    zone = 0;
    switch (k) {
    case 0: zone = -1; return x0;
    case 1: zone = 1; return x1;
    case 2: zone = -1; return x0 - xr * g.range(0, 3);
    case 3: zone = 1; return x1 + xr * g.range(0, 3);
    case 4: { double x = x0 + xr * g.range(0, 1e-3); double u = (x - x0) / xr; zone = (u > 0 && u < 1) ? 0 : (u <= 0 ? -1 : 1); return x; }
    case 5: { double x = x1 - xr * g.range(0, 1e-3); double u = (x - x0) / xr; zone = (u > 0 && u < 1) ? 0 : (u <= 0 ? -1 : 1); return x; }
    default: {
        double x = x0 + xr * g.range(0.001, 0.999);
        return x; }
    }
}
// decide the zone exactly as the documentation states it: (x-x0)*sign(x1-x0) <= 0 -> y0 ; (x-x1)*sign(x1-x0) >= 0 -> y1
static int zoneOf(double x0, double x1, double x) {
    double sg = (x1 > x0) ? 1 : -1;
    if ((x - x0) * sg <= 0) return -1;
    if ((x - x1) * sg >= 0) return 1;
    return 0;
}

static void fstepCase(vh::Rng& g) {
    double y0 = g.signedMag(0.1, 10), y1 = g.signedMag(0.1, 10);
    double x0 = g.signedMag(0.1, 10), x1 = x0 + g.signedMag(0.05, 5);
    if (g.below(8) == 0) y1 = y0;          // degenerate: no change in value
    Function_<Real>::Step f(y0, y1, x0, x1);
    int zone; double x = pickX(g, x0, x1, zone); zone = zoneOf(x0, x1, x);
    Vector xv(1, x);
    double v = f.calcValue(xv), d1 = f.calcDerivative(comps(1), xv), d2 = f.calcDerivative(comps(2), xv),
           d3 = f.calcDerivative(std::vector<int>(3, 0), xv);
    fstepRecord(y0, y1, x0, x1, x, v, d1, d2, d3, std::string("real.") + (zone < 0 ? "before" : zone > 0 ? "after" : "inside"), zone, &f);
}
static void fstep3Case(vh::Rng& g) {
    Vec3 y0(g.signedMag(0.1, 10), g.signedMag(0.1, 10), g.signedMag(0.1, 10)), y1(g.signedMag(0.1, 10), g.signedMag(0.1, 10), g.signedMag(0.1, 10));
    double x0 = g.signedMag(0.1, 10), x1 = x0 + g.signedMag(0.05, 5);
    Function_<Vec3>::Step f(y0, y1, x0, x1);
    int zone; double x = pickX(g, x0, x1, zone); zone = zoneOf(x0, x1, x);
    Vector xv(1, x);
    Vec3 v = f.calcValue(xv), d1 = f.calcDerivative(comps(1), xv), d2 = f.calcDerivative(comps(2), xv), d3 = f.calcDerivative(comps(3), xv);
    for (int i = 0; i < 3; ++i)
        fstepRecord(y0[i], y1[i], x0, x1, x, v[i], d1[i], d2[i], d3[i], std::string("vec3.") + (zone < 0 ? "before" : zone > 0 ? "after" : "inside"), zone, nullptr);
}

// ------------------------------------------------------------------ Constant, Linear, Polynomial, Sinusoid
static void fconstCase(vh::Rng& g) {
    double v = g.signedMag(0.1, 10); int nargs = 1 + g.below(4);
    Function_<Real>::Constant f(v, nargs);
    Vector x(nargs); for (int i = 0; i < nargs; ++i) x[i] = g.signedMag(0.1, 10);
    vh::I("fconst").d(v).emit();
    double val = f.calcValue(x), d = f.calcDerivative(comps(1 + g.below(3), g.below(nargs)), x);
    vh::O("fconst").d(val).d(d).emit();
    vh::D("fconst");
    vh::P("const_value", "fconst.value", std::fabs(val - v) + std::fabs(d), 0.0);
}
static void flinCase(vh::Rng& g) {
    int n = 1 + g.below(6);
    Vector c(n + 1), x(n);
    bool ints = g.below(4) == 0;
    for (int i = 0; i <= n; ++i) c[i] = ints ? g.smallInt(-9, 9) : g.signedMag(0.1, 10);
    for (int i = 0; i < n; ++i) x[i] = ints ? g.smallInt(-9, 9) : g.signedMag(0.1, 10);
    int j = g.below(n);
    Function_<Real>::Linear f(c);
    vh::Line in = vh::I("flin"); in.d(n); in.v(c, n + 1); in.v(x, n); in.d(j); in.emit();
    Array_<int> two(2, j); if (n > 1 && g.coin()) two[1] = (j + 1) % n;
    double val = f.calcValue(x), d1 = f.calcDerivative(comps(1, j), x), d2 = f.calcDerivative(two, x);
    vh::O("flin").d(val).d(d1).d(d2).emit();
    vh::D(ints ? "flin.ints" : "flin.generic");
    std::string key = ints ? "flin.ints" : "flin.generic";
    // exactly affine in every argument: f(x + t e_j) - f(x) = t * d1  (difference quotient, no truncation error)
    double t = g.signedMag(0.5, 2); if (ints) t = g.smallInt(1, 5);
    Vector x2(x); x2[j] += t;
    double sc = 0; for (int i = 0; i < n; ++i) sc += std::fabs(x2[i] * c[i]) + std::fabs(x[i] * c[i]); sc += 2 * std::fabs(c[n]);
    vh::P("linear_deriv", key + ".affine", std::fabs((f.calcValue(x2) - val) - t * d1) / std::max(sc, 1e-300), ints ? 0.0 : 1e-14);
    vh::P("linear_deriv2", key + ".second", std::fabs(d2), 0.0);
    vh::P("linear_coeff", key + ".coeff", std::fabs(d1 - c[j]), 0.0);
}
static void fpolyCase(vh::Rng& g) {
    int nc = 1 + g.below(9);
    bool ints = g.below(4) == 0;
    Vector c(nc); for (int i = 0; i < nc; ++i) c[i] = ints ? g.smallInt(-5, 5) : g.signedMag(0.1, 10);
    double x = ints ? g.smallInt(-3, 3) : g.signedMag(0.1, 2);
    Function_<Real>::Polynomial f(c);
    Vector xv(1, x), xa(1), xb(1);
    double h = 1e-4; xa[0] = x + h; xb[0] = x - h;
    int maxOrder = nc + 1;
    std::vector<double> d(maxOrder + 2), da(maxOrder + 2), db(maxOrder + 2);
    for (int k = 0; k <= maxOrder + 1; ++k) {
        d[k] = k ? f.calcDerivative(comps(k), xv) : f.calcValue(xv);
        da[k] = k ? f.calcDerivative(comps(k), xa) : f.calcValue(xa);
        db[k] = k ? f.calcDerivative(comps(k), xb) : f.calcValue(xb);
    }
    // magnitude scale of the k-th derivative: sum |c_i| ff(n-i,k) |x|^(n-i-k)
    for (int k = 0; k <= maxOrder; ++k) {
        vh::Line in = vh::I("fpoly"); in.d(nc); in.v(c, nc); in.d(x); in.d(k); in.emit();
        vh::O("fpoly").d(d[k]).emit();
        std::string key = std::string("fpoly.") + (ints ? "ints" : "generic") + (k >= nc ? ".beyond" : "");
        vh::D(key);
        if (k >= nc) vh::P("poly_deriv_beyond_degree", key + ".zero", std::fabs(d[k]), 0.0);
        // d[k+1] is the derivative of d[k]: central difference of the implementation's own k-th derivative
        double sc = 0;   // bound on |d^(k+3)| for the truncation term and on |d^(k)| for rounding
        for (int i = 0; i < nc; ++i) {
            int p = nc - 1 - i; if (p < k + 1) continue;
            double ff = 1; for (int j = 0; j < k + 1; ++j) ff *= (p - j);
            sc += std::fabs(c[i]) * ff * std::pow(std::fabs(x) + 1, p - k - 1);
        }
        double fd = (da[k] - db[k]) / (2 * h);
        vh::P("poly_deriv_fd", key + ".fd", std::fabs(fd - d[k + 1]) / std::max(sc, 1.0), 1e-5);
    }
}
static void fsinCase(vh::Rng& g) {
    double a = g.signedMag(0.1, 10), w = g.signedMag(0.2, 5), p = g.range(-3.2, 3.2), t = g.signedMag(0.01, 10);
    Function_<Real>::Sinusoid f(a, w, p);
    int maxOrder = 4 + g.below(8);
    Vector tv(1, t), ta(1), tb(1);
    double h = 1e-4 / std::fabs(w); ta[0] = t + h; tb[0] = t - h;
    std::vector<double> d(maxOrder + 3);
    for (int k = 0; k <= maxOrder + 2; ++k) d[k] = k ? f.calcDerivative(comps(k), tv) : f.calcValue(tv);
    for (int k = 0; k <= maxOrder; ++k) {
        vh::I("fsin").d(a).d(w).d(p).d(t).d(k).emit();
        vh::O("fsin").d(d[k]).emit();
        std::string key = std::string("fsin.") + (k < 4 ? "low" : "high");
        vh::D(key);
        double sc = std::fabs(a) * std::pow(std::fabs(w), k + 1);
        double fa = k ? f.calcDerivative(comps(k), ta) : f.calcValue(ta), fb = k ? f.calcDerivative(comps(k), tb) : f.calcValue(tb);
        vh::P("sin_deriv_fd", key + ".fd", std::fabs((fa - fb) / (2 * h) - d[k + 1]) / sc, 1e-5);
        // true derivatives of a sin(wt+p) satisfy f^(k+2) = -w^2 f^(k)
        vh::P("sin_deriv_ode", key + ".ode", std::fabs(d[k + 2] + w * w * d[k]) / (sc * std::fabs(w)), 1e-13);
    }
    // calcDerivative with an empty index list is the value
    vh::P("sin_order0", "fsin.order0", std::fabs(f.calcDerivative(Array_<int>(), tv) - d[0]), 0.0);
}

// ------------------------------------------------------------------ splines
template <int K> struct SplineY { typedef Vec<K> T; };
static void emitSplder(int m, int n, int ider, double t, const Vector& x, const std::vector<double>& c, double val, const std::string& tag) {
    vh::Line in = vh::I("splder"); in.d(m).d(n).d(ider).d(t); in.v(x, n); in.v(c, n); in.emit();
    vh::O("splder").d(val).emit();
    vh::D(tag);
}

// Exact d-th derivative at t of the polynomial through (nodes[j], vals[j]) (Newton form, shifted to a Taylor expansion at t, in
// long double).  *cond receives sum_j |l_j^(d)(t)| |vals[j]|, the natural scale of the rounding error of the result.
static double polyDerivAt(const std::vector<double>& nodes, const std::vector<double>& vals, double t, int d, double* cond) {
    const int n = (int)nodes.size();
    auto taylor = [&](const std::vector<long double>& v) {
        std::vector<long double> a(v);                       // divided differences
        for (int k = 1; k < n; ++k) for (int j = n - 1; j >= k; --j) a[j] = (a[j] - a[j - 1]) / ((long double)nodes[j] - nodes[j - k]);
        std::vector<long double> p(n, 0.0L); p[0] = a[n - 1];   // p(u), u = x - t
        for (int k = n - 2; k >= 0; --k) {                  // p = p*(u + (t - x_k)) + a_k
            long double s = (long double)t - nodes[k];
            for (int i = n - 1; i >= 1; --i) p[i] = p[i] * s + p[i - 1];
            p[0] = p[0] * s + a[k];
        }
        return p;
    };
    std::vector<long double> v(vals.begin(), vals.end());
    long double fact = 1; for (int i = 2; i <= d; ++i) fact *= i;
    double r = d < n ? (double)(taylor(v)[d] * fact) : 0.0;
    if (cond) {
        long double c = 0;
        for (int j = 0; j < n; ++j) { std::vector<long double> e(n, 0.0L); e[j] = 1; c += (d < n ? fabsl(taylor(e)[d] * fact) : 0.0L) * fabsl(v[j]); }
        *cond = (double)c;
    }
    return r;
}
static std::vector<double> insideNodes(double a, double b, int count) {      // `count` points strictly inside (a,b)
    std::vector<double> v; for (int j = 0; j < count; ++j) v.push_back(a + (b - a) * (j + 0.5) / count); return v;
}

static int g_splineJudged = 0, g_bicubicJudged = 0, g_funcJudged = 0;

static void splineCase(vh::Rng& g, bool big, int forceMode = -1, int forceLayout = -1) {
    int degree = 1 + 2 * g.below(4);                  // 1,3,5,7
    int m = (degree + 1) / 2;
    // fit mode: 0 interpolating (p = 0), 1 fixed smoothing parameter p > 0, 2 GCV, 3 known error variance, 4 known residual dof
    int mode = forceMode >= 0 ? forceMode : (g.below(2) == 0 ? 0 : 1 + g.below(4));
    static const char* modeName[] = {"interp", "smooth", "gcv", "errvar", "dof"};
    int n = 2 * m + (mode >= 2 ? 2 : 0) + g.below(big ? 40 : 14);
    // knot layout: 0 uniform, 1 random spacing, 2 one long LAST interval after short ones, 3 one long FIRST interval, 4 spacing
    // growing geometrically, 5 shrinking geometrically.  GCVSPLUtil::splder seeds search_ with the interval a *uniform* grid
    // would give, ceil(n (t-x0)/(xn-x0)); layouts 2..5 make that hint wrong by many intervals in either direction, so every
    // branch of search_ (hint right, off by one, bisection below / above the hint) is exercised.
    static const char* layoutName[] = {"uniform", "random", "longlast", "longfirst", "growing", "shrinking"};
    int layout = forceLayout >= 0 ? forceLayout : (g.below(3) == 0 ? 2 + g.below(4) : g.below(4) == 0 ? 0 : 1);
    Vector x(n), y(n);
    double xx = g.signedMag(0.1, 5), geo = layout == 4 ? 0.05 : 2.0, ratio = g.range(1.3, 1.8);
    for (int i = 0; i < n; ++i) {
        x[i] = xx;
        double h = layout == 0 ? 0.5 : layout == 1 ? g.range(0.2, 1.0) : layout == 2 ? (i == n - 2 ? g.range(3, 20) : g.range(0.05, 0.3))
                 : layout == 3 ? (i == 0 ? g.range(3, 20) : g.range(0.05, 0.3)) : geo;
        if (layout == 4) geo = std::min(geo * ratio, 5.0); if (layout == 5) geo = std::max(geo / ratio, 0.02);
        xx += h;
    }
    double wv = g.range(0.3, 2), noise = mode == 0 ? 0 : g.range(0.01, 0.2);
    bool wiggly = mode == 0 || g.coin();
    for (int i = 0; i < n; ++i) y[i] = wiggly ? g.signedMag(0.1, 3) : 2 * std::sin(wv * x[i]) + noise * g.range(-1, 1);
    bool vec3 = g.below(4) == 0;
    std::string tag = "spline.deg" + std::to_string(degree) + "." + modeName[mode] + "." + layoutName[layout] + (vec3 ? ".vec3" : ".real");
    std::string key = std::string("spline.") + modeName[mode] + ".deg" + std::to_string(degree);
    Vector_<Vec3> y3(n);
    for (int i = 0; i < n; ++i) y3[i] = Vec3(y[i], wiggly ? g.signedMag(0.1, 3) : std::cos(wv * x[i]) + noise * g.range(-1, 1), g.signedMag(0.1, 3));
    Spline_<Real> sp; Spline_<Vec3> sp3;
    double par = mode == 1 ? std::exp(g.range(std::log(1e-4), std::log(10.0))) : mode == 3 ? noise * noise / 3 + 1e-6 : mode == 4 ? g.range(0.5, n - m - 0.5) : 0;
    if (vec3) {
        SplineFitter<Vec3> f = mode <= 1 ? SplineFitter<Vec3>::fitForSmoothingParameter(degree, x, y3, par) : mode == 2 ? SplineFitter<Vec3>::fitFromGCV(degree, x, y3)
                             : mode == 3 ? SplineFitter<Vec3>::fitFromErrorVariance(degree, x, y3, par) : SplineFitter<Vec3>::fitFromDOF(degree, x, y3, par);
        sp3 = f.getSpline();
    } else {
        SplineFitter<Real> f = mode <= 1 ? SplineFitter<Real>::fitForSmoothingParameter(degree, x, y, par) : mode == 2 ? SplineFitter<Real>::fitFromGCV(degree, x, y)
                             : mode == 3 ? SplineFitter<Real>::fitFromErrorVariance(degree, x, y, par) : SplineFitter<Real>::fitFromDOF(degree, x, y, par);
        sp = f.getSpline();
    }
    int ncomp = vec3 ? 3 : 1;
    auto val = [&](int comp, int order, double t) -> double {
        if (vec3) return order ? sp3.calcDerivative(order, t)[comp] : sp3.calcValue(t)[comp];
        if (order == 0) return sp.calcValue(t);
        return (order & 1) ? sp.calcDerivative(order, t) : sp.calcDerivative(comps(order), Vector(1, t));   // both signatures
    };
    double ysc = 0; for (int i = 0; i < n; ++i) for (int cmp = 0; cmp < ncomp; ++cmp) ysc = std::max(ysc, std::fabs(vec3 ? y3[i][cmp] : y[i]));
    // correspondence records: a few evaluation points (knots, interior), every derivative order 0..2m
    std::vector<std::vector<double> > coef(ncomp, std::vector<double>(n));
    bool finite = true;
    for (int cmp = 0; cmp < ncomp; ++cmp)
        for (int i = 0; i < n; ++i) { coef[cmp][i] = vec3 ? sp3.getControlPointValues()[i][cmp] : sp.getControlPointValues()[i]; finite = finite && std::isfinite(coef[cmp][i]); }
    // evaluation points: always one early in the LAST interval and one late in the FIRST (where the uniform-grid hint is worst
    // for layouts 2..5), then random ones (a knot, the first/last knot, interior).  Only inside [x0, xn]: GCVSPLUtil::splder
    // asserts t within the knot range, so evaluation outside is not a legal call.
    int npts = 4;
    for (int r = 0; r < npts; ++r) {
        int i = g.below(n - 1);
        int kind = r == 0 ? 5 : r == 1 ? 6 : g.below(5);
        double t = (kind == 0) ? x[i] : (kind == 1) ? x[0] : (kind == 2) ? x[n - 1]
                 : (kind == 5) ? x[n - 2] + (x[n - 1] - x[n - 2]) * (g.coin() ? g.range(1e-6, 0.05) : g.range(0.05, 0.5))
                 : (kind == 6) ? x[1] - (x[1] - x[0]) * (g.coin() ? g.range(1e-6, 0.05) : g.range(0.05, 0.5))
                 : x[i] + (x[i + 1] - x[i]) * g.range(0.01, 0.99);
        int cmp = g.below(ncomp);
        for (int ider = 0; ider <= 2 * m; ++ider)
            emitSplder(m, n, ider, t, x, coef[cmp], val(cmp, ider, t), tag + (kind <= 2 ? ".knot" : kind == 5 ? ".lastearly" : kind == 6 ? ".firstlate" : ".interior"));
    }
    // ---- property predicates, attached to one more record (value at the first knot)
    emitSplder(m, n, 0, x[0], x, coef[0], val(0, 0, x[0]), tag + ".pred");
    vh::P("spline_fit_finite", key + ".finite", finite ? 0 : 1, 0);
    if (!finite) return;
    ++g_splineJudged;
    // (1) an interpolating spline passes through every control point
    if (mode == 0) {
        double worst = 0;
        for (int i = 0; i < n; ++i) for (int cmp = 0; cmp < ncomp; ++cmp)
            worst = std::max(worst, std::fabs(val(cmp, 0, x[i]) - (vec3 ? y3[i][cmp] : y[i])));
        // strongly graded knots (mesh ratio up to 400:1) make the degree-7 fit ill-conditioned: measured max 9e-10 over 8000 cases
        vh::P("spline_through_points", key + ".interp", worst / ysc, layout >= 2 ? 1e-7 : 1e-9);
    }
    // (2) "reports the true derivatives of its value", with no allowance taken from the implementation's own derivatives
    //     (round 2): on one knot interval the order-k output is sampled at degree+1 interior nodes; the
    //     polynomial through those samples is differentiated exactly and compared with the reported derivative, both as a chain
    //     (order k -> k+1) and from the value alone (order 0 -> d).  One more node checks the samples lie on a polynomial of
    //     that degree at all.  Errors are relative to cond = sum |l_j^(d)(t)| |sample_j| (the rounding scale of the reference).
    double worstChain = 0, worstFromValue = 0, worstPoly = 0;
    for (int r = 0; r < 4; ++r) {
        int i = r == 0 ? n - 2 : r == 1 ? 0 : g.below(n - 1);     // the last and the first interval always, then random ones
        double a = x[i], b = x[i + 1];
        std::vector<double> nodes = insideNodes(a, b, degree + 1);
        double t = a + (b - a) * g.range(0.05, 0.95), extra = a + (b - a) * g.range(0.02, 0.98);
        for (int cmp = 0; cmp < ncomp; ++cmp) {
            std::vector<std::vector<double> > samp(degree + 1, std::vector<double>(nodes.size()));
            for (int k = 0; k <= degree; ++k) for (size_t j = 0; j < nodes.size(); ++j) samp[k][j] = val(cmp, k, nodes[j]);
            for (int k = 0; k < degree; ++k) {
                double cond, ref = polyDerivAt(nodes, samp[k], t, 1, &cond);
                worstChain = std::max(worstChain, std::fabs(ref - val(cmp, k + 1, t)) / std::max(cond, 1e-300));
                double c0, r0 = polyDerivAt(nodes, samp[k], extra, 0, &c0);
                worstPoly = std::max(worstPoly, std::fabs(r0 - val(cmp, k, extra)) / std::max(c0, 1e-300));
            }
            for (int d = 1; d <= degree; ++d) {
                double cond, ref = polyDerivAt(nodes, samp[0], t, d, &cond);
                worstFromValue = std::max(worstFromValue, std::fabs(ref - val(cmp, d, t)) / std::max(cond, 1e-300));
            }
        }
    }
    // (measured maxima over 8000 cases: 2e-14 / 2e-14 / 4e-14 relative to cond; continuity 3e-14)
    vh::P("spline_deriv_chain", key + ".chain", worstChain, 1e-12);
    vh::P("spline_deriv_of_value", key + ".fromvalue", worstFromValue, 1e-12);
    vh::P("spline_piecewise_polynomial", key + ".poly", worstPoly, 1e-12);
    // (3) continuity of value and derivatives up to degree-1 across interior knots: the one-sided limits are obtained by
    //     extrapolating the polynomial through degree+1 samples strictly inside the interval on either side (exact for a
    //     piecewise polynomial; no Lipschitz allowance)
    double worstJump = 0;
    for (int i = 1; i + 1 < n; ++i) {
        std::vector<double> nl = insideNodes(x[i - 1], x[i], degree + 1), nr = insideNodes(x[i], x[i + 1], degree + 1);
        for (int cmp = 0; cmp < ncomp; ++cmp)
            for (int k = 0; k <= degree - 1; ++k) {
                std::vector<double> vl, vr; for (double u : nl) vl.push_back(val(cmp, k, u)); for (double u : nr) vr.push_back(val(cmp, k, u));
                double cl, cr, el = polyDerivAt(nl, vl, x[i], 0, &cl), er = polyDerivAt(nr, vr, x[i], 0, &cr), at = val(cmp, k, x[i]);
                double sc = std::max(cl + cr, 1e-300);
                worstJump = std::max(worstJump, std::max(std::fabs(el - er), std::max(std::fabs(at - el), std::fabs(at - er))) / sc);
            }
    }
    vh::P("spline_continuity", key + ".cont", worstJump, 1e-12);
    // (4) derivatives of order > degree vanish
    double hi = 0;
    for (int cmp = 0; cmp < ncomp; ++cmp) hi = std::max(hi, std::fabs(val(cmp, degree + 1, x[0] + 0.3 * (x[1] - x[0]))));
    vh::P("spline_high_order_zero", key + ".high", hi, 0.0);
}

// ------------------------------------------------------------------ bicubic surface / function (two arguments, mixed partials)
// P-only (no model): BicubicFunction is the library's Function with a genuinely multi-argument derivative.
static void bicubicCase(vh::Rng& g) {
    int nx = 4 + g.below(4), ny = 4 + g.below(4);
    bool regular = g.below(3) == 0, smooth = g.below(3) == 0;
    Vector x(nx), y(ny); Matrix f(nx, ny);
    double x0 = g.signedMag(0.1, 3), y0 = g.signedMag(0.1, 3), hx = g.range(0.3, 1), hy = g.range(0.3, 1);
    for (int i = 0; i < nx; ++i) x[i] = regular ? x0 + i * hx : i == 0 ? x0 : x[i - 1] + g.range(0.3, 1.0);   // regular: the grid the constructor itself builds
    for (int j = 0; j < ny; ++j) y[j] = regular ? y0 + j * hy : j == 0 ? y0 : y[j - 1] + g.range(0.3, 1.0);
    double a = g.range(0.3, 1.5), b = g.range(0.3, 1.5), fsc = 0;
    for (int i = 0; i < nx; ++i) for (int j = 0; j < ny; ++j) { f(i, j) = std::sin(a * x[i]) * std::cos(b * y[j]) + 0.3 * g.range(-1, 1); fsc = std::max(fsc, std::fabs(f(i, j))); }
    double smoothness = smooth ? g.range(0.05, 0.8) : 0;
    BicubicSurface surf = regular ? BicubicSurface(Vec2(x0, y0), Vec2(hx, hy), f, smoothness) : BicubicSurface(x, y, f, smoothness);
    BicubicFunction fn(surf);
    std::string tag = std::string("bicubic.") + (regular ? "regular" : "irregular") + (smooth ? ".smooth" : ".interp");
    std::string key = std::string("bicubic.") + (smooth ? "smooth" : "interp");
    vh::I("ponly").d(1).emit(); vh::O("ponly").d(1).emit(); vh::D(tag); ++g_bicubicJudged;
    auto F = [&](std::initializer_list<int> c, double X, double Y) -> double {
        Vector xy(2); xy[0] = X; xy[1] = Y; Array_<int> cc; for (int v : c) cc.push_back(v);
        return cc.empty() ? fn.calcValue(xy) : fn.calcDerivative(cc, xy);
    };
    if (!smooth) {
        double worst = 0; for (int i = 0; i < nx; ++i) for (int j = 0; j < ny; ++j) worst = std::max(worst, std::fabs(F({}, x[i], y[j]) - f(i, j)));
        vh::P("bicubic_through_points", key + ".interp", worst / fsc, 1e-13);
    }
    // inside one patch the surface is a polynomial of degree <= 3 in each argument: every partial derivative up to total order 3
    // is compared with the exact derivative of the tensor-product polynomial through 4x4 *values* in the patch
    int pi = g.below(nx - 1), pj = g.below(ny - 1);
    std::vector<double> xn = insideNodes(x[pi], x[pi + 1], 4), yn = insideNodes(y[pj], y[pj + 1], 4);
    double X = x[pi] + (x[pi + 1] - x[pi]) * g.range(0.05, 0.95), Y = y[pj] + (y[pj + 1] - y[pj]) * g.range(0.05, 0.95);
    auto tensorDeriv = [&](int p, int q, double* cond) {
        std::vector<double> col(4), ccol(4);
        for (int i = 0; i < 4; ++i) { std::vector<double> row(4); for (int j = 0; j < 4; ++j) row[j] = F({}, xn[i], yn[j]); col[i] = polyDerivAt(yn, row, Y, q, &ccol[i]); }
        double c1, r = polyDerivAt(xn, col, X, p, &c1), c2; polyDerivAt(xn, ccol, X, p, &c2);
        *cond = c1 + c2; return r;
    };
    static const std::initializer_list<int> lists[] = {{0}, {1}, {0, 0}, {0, 1}, {1, 0}, {1, 1}, {0, 0, 0}, {0, 0, 1}, {0, 1, 0}, {1, 0, 0}, {0, 1, 1}, {1, 0, 1}, {1, 1, 0}, {1, 1, 1}};
    double worstD = 0, worstSym = 0;
    for (auto& L : lists) {
        int p = 0, q = 0; for (int v : L) (v == 0 ? p : q)++;
        double cond, ref = tensorDeriv(p, q, &cond), got = F(L, X, Y);
        worstD = std::max(worstD, std::fabs(ref - got) / std::max(cond, 1e-300));
        std::vector<int> sorted(L); std::sort(sorted.begin(), sorted.end());
        Array_<int> sc; for (int v : sorted) sc.push_back(v); Vector xy(2); xy[0] = X; xy[1] = Y;
        worstSym = std::max(worstSym, std::fabs(fn.calcDerivative(sc, xy) - got) / std::max(cond, 1e-300));
    }
    vh::P("bicubic_deriv_of_value", key + ".deriv", worstD, 1e-12);
    vh::P("bicubic_mixed_partials_symmetric", key + ".symmetric", worstSym, 1e-14);
    // the header promises continuity up to the second derivative: one-sided limits across an interior grid line x = x[i]
    if (nx > 2) {
        int i = 1 + g.below(nx - 2);
        std::vector<double> nl = insideNodes(x[i - 1], x[i], 4), nr = insideNodes(x[i], x[i + 1], 4);
        double worst = 0;
        static const std::initializer_list<int> cl[] = {{}, {0}, {1}, {0, 0}, {0, 1}, {1, 1}};
        for (auto& L : cl) {
            std::vector<double> vl, vr; for (double u : nl) vl.push_back(F(L, u, Y)); for (double u : nr) vr.push_back(F(L, u, Y));
            double c1, c2, el = polyDerivAt(nl, vl, x[i], 0, &c1), er = polyDerivAt(nr, vr, x[i], 0, &c2), at = F(L, x[i], Y);
            worst = std::max(worst, std::max(std::fabs(el - er), std::max(std::fabs(at - el), std::fabs(at - er))) / std::max(c1 + c2, 1e-300));
        }
        vh::P("bicubic_C2_across_gridline", key + ".cont", worst, 1e-12);
    }
    vh::P("bicubic_order4_zero", key + ".high", std::fabs(F({0, 0, 1, 1}, X, Y)) + std::fabs(F({0, 0, 0, 0}, X, Y)), 0.0);   // documented: 4 or more entries give 0
}

// ------------------------------------------------------------------ replay
static void replay() {
    static char buf[1 << 20];
    while (std::fgets(buf, sizeof buf, stdin)) {
        std::istringstream is(buf); std::string k, fn; is >> k >> fn;
        if (k != "I") continue;
        std::vector<double> v; std::string t; while (is >> t) v.push_back(vh::unhex(t));
        if (fn == "stepUp" && v.size() == 1) stepUpCase(v[0], "replay", nullptr);
        else if (fn == "stepAny" && v.size() == 5) {
            vh::I("stepAny").v(v, 5).emit();
            vh::O("stepAny").d(stepAny(v[0], v[1], v[2], v[3], v[4])).d(dstepAny(v[1], v[2], v[3], v[4])).d(d2stepAny(v[1], v[2], v[3], v[4])).d(d3stepAny(v[1], v[2], v[3], v[4])).emit();
        } else if (fn == "fstep" && v.size() == 5) {
            Function_<Real>::Step f(v[0], v[1], v[2], v[3]); Vector xv(1, v[4]);
            int zone = zoneOf(v[2], v[3], v[4]);
            fstepRecord(v[0], v[1], v[2], v[3], v[4], f.calcValue(xv), f.calcDerivative(comps(1), xv), f.calcDerivative(comps(2), xv),
                        f.calcDerivative(comps(3), xv), "replay", zone, &f);
        } else if (fn == "fconst" && v.size() == 1) {
            Function_<Real>::Constant f(v[0], 1); Vector x(1, 0.5);
            vh::I("fconst").d(v[0]).emit(); vh::O("fconst").d(f.calcValue(x)).d(f.calcDerivative(comps(1), x)).emit();
        } else if (fn == "flin" && v.size() >= 1) {
            int n = (int)v[0]; if ((int)v.size() != 2 * n + 3) continue;
            Vector c(n + 1), x(n); for (int i = 0; i <= n; ++i) c[i] = v[1 + i]; for (int i = 0; i < n; ++i) x[i] = v[2 + n + i];
            int j = (int)v[2 * n + 2];
            Function_<Real>::Linear f(c);
            vh::Line in = vh::I("flin"); in.v(v, (int)v.size()); in.emit();
            vh::O("flin").d(f.calcValue(x)).d(f.calcDerivative(comps(1, j), x)).d(f.calcDerivative(comps(2, j), x)).emit();
        } else if (fn == "fpoly" && v.size() >= 1) {
            int nc = (int)v[0]; if ((int)v.size() != nc + 3) continue;
            Vector c(nc); for (int i = 0; i < nc; ++i) c[i] = v[1 + i];
            Function_<Real>::Polynomial f(c); Vector xv(1, v[nc + 1]); int k = (int)v[nc + 2];
            vh::Line in = vh::I("fpoly"); in.v(v, (int)v.size()); in.emit();
            vh::O("fpoly").d(k ? f.calcDerivative(comps(k), xv) : f.calcValue(xv)).emit();
        } else if (fn == "fsin" && v.size() == 5) {
            Function_<Real>::Sinusoid f(v[0], v[1], v[2]); Vector tv(1, v[3]); int k = (int)v[4];
            vh::I("fsin").v(v, 5).emit();
            vh::O("fsin").d(k ? f.calcDerivative(comps(k), tv) : f.calcValue(tv)).emit();
        } else if (fn == "splder" && v.size() >= 4) {
            int m = (int)v[0], n = (int)v[1], ider = (int)v[2]; double t = v[3];
            if ((int)v.size() != 4 + 2 * n) continue;
            Vector x(n), c(n); for (int i = 0; i < n; ++i) { x[i] = v[4 + i]; c[i] = v[4 + n + i]; }
            Spline_<Real> sp(2 * m - 1, x, c);
            vh::Line in = vh::I("splder"); in.v(v, (int)v.size()); in.emit();
            vh::O("splder").d(ider ? sp.calcDerivative(ider, t) : sp.calcValue(t)).emit();
        }
    }
}

int main(int argc, char** argv) {
    vh::Args args(argc, argv);
    if (args.mode == "replay") { replay(); return 0; }
    vh::Rng g(args.seed * 7919 + 41);
    bool big = args.n > 2000;
    // fixed end-point cases first
    stepUpCase(0.0, "end", nullptr); stepUpCase(1.0, "end", nullptr); stepUpCase(0.5, "mid", &g);
    for (long k = 0; k < args.n; ++k) {
        int stream = g.below(16);
        if (stream <= 13) ++g_funcJudged;
        if (stream <= 1) stepUpCase(g.unit(), "generic", &g);
        else if (stream == 2) stepUpCase(g.coin() ? g.range(0, 1e-6) : 1 - g.range(0, 1e-6), "nearend", &g);
        else if (stream <= 4) {
            double x0 = g.signedMag(0.1, 10), x1 = x0 + g.signedMag(0.05, 5);
            int e = g.below(6);
            stepAnyCase(g.signedMag(0.1, 10), g.signedMag(0.1, 10), x0, x1, e == 0 ? 0.0 : e == 1 ? 1.0 : g.unit(), e == 0 ? "end0" : e == 1 ? "end1" : "generic");
        }
        else if (stream <= 6) fstepCase(g);
        else if (stream == 7) fstep3Case(g);
        else if (stream == 8) { if (g.coin()) fconstCase(g); else flinCase(g); }
        else if (stream == 9) flinCase(g);
        else if (stream <= 11) fpolyCase(g);
        else if (stream <= 13) fsinCase(g);
        else if (stream == 14) splineCase(g, big);
        else if (g.below(3) == 0) bicubicCase(g);
        else splineCase(g, big);
    }
    // guaranteed shares: every fit mode at least once, two bicubic surfaces
    for (int mode = 0; mode < 5; ++mode) splineCase(g, big, mode);
    for (int layout = 2; layout <= 5; ++layout) { splineCase(g, big, 0, layout); splineCase(g, big, -1, layout); }
    bicubicCase(g); bicubicCase(g);
    // coverage floor (X1): cases that reached the result predicates
    vh::I("ponly").d(2).emit(); vh::O("ponly").d(2).emit(); vh::D("floor");
    double n = (double)args.n;
    vh::P("coverage_floor", "c41.floor.spline_judged", std::max(0.0, 13 + 0.06 * n - g_splineJudged), 0);
    vh::P("coverage_floor", "c41.floor.bicubic_judged", std::max(0.0, 2 + 0.01 * n - g_bicubicJudged), 0);
    vh::P("coverage_floor", "c41.floor.function_records", std::max(0.0, 0.6 * n - g_funcJudged), 0);
    return 0;
}
