// C05 correspondence harness: every built-in mobilizer realises its DOCUMENTED parameterisation.
//   I mob <type> <rev> <euler> <axisX> par[8] X_PF[12] X_BM[12] q[7] u[6] station[3] udot[6] vq[7] vu[6]
//   O X_FM  (getMobilizerTransform)  /  O V_FM (getMobilizerVelocity)   -- answered by the Lean driver from docX_FM
// P lines (implementation only):
//   rev_inverse_X / rev_inverse_V : the twin model with the opposite direction has X_FM^-1 and the reversed velocity
//   fit_q : setQToFitTransform(X_FM(q)) reproduces X_FM(q);   fit_u : setUToFitVelocity(V_FM(q,u)) reproduces V_FM
//   orthonormal : R_FM^T R_FM = I, det = +1
// D tag: type x inboard/outboard frame class x direction x quaternion/Euler
#include "mobilizer_common.h"
using namespace SimTK;
using namespace mob;

static void runCase(const Case& c) {
    std::vector<Case> cs(1, c);
    std::unique_ptr<Sys> S = build(cs, c.euler);
    setQU(*S, cs);
    S->system.realize(S->state, Stage::Velocity);
    const MobilizedBody& m = S->mobods[0];
    const Transform X_FM = m.getMobilizerTransform(S->state);
    const SpatialVec V_FM = m.getMobilizerVelocity(S->state);

    putCase(modelled(c.type) ? "mob" : "mobP", c);
    if (modelled(c.type)) { outX("X_FM", X_FM); outSV("V_FM", V_FM); }
    // fit to an ARBITRARY (generally not representable) target velocity: the model predicts the projection chosen
    if (hasFitU(c.type)) {
        State sf = S->state;
        for (int k = 0; k < m.getNumU(sf); ++k) m.setOneU(sf, k, 0.0);
        m.setUToFitVelocity(sf, SpatialVec(Vec3(c.udot[0], c.udot[1], c.udot[2]), Vec3(c.udot[3], c.udot[4], c.udot[5])));
        vh::Line l = vh::O("fitU"); for (int k = 0; k < m.getNumU(sf); ++k) l.d(m.getOneU(sf, k)); l.emit();
    }
    if (!c.rev && hasFitQtrans(c.type)) {
        State sf = S->system.getDefaultState();
        S->matter.setUseEulerAngles(sf, c.euler);
        S->system.realizeModel(sf);
        m.setQToFitTranslation(sf, c.station);
        const int nq = m.getNumQ(sf);
        int first = 0, cnt = 3;
        switch (c.type) { case SLIDER: first = 0; cnt = 1; break; case TRANSLATION: first = 0; break; case CYLINDER: first = 1; cnt = 1; break;
                          case PLANAR: first = 1; cnt = 2; break; default: first = nq - 3; }
        vh::Line l = vh::O("fitQt"); for (int k = 0; k < cnt; ++k) l.d(m.getOneQ(sf, first + k)); l.emit();
    }
    vh::D(c.tag());
    if (!c.optTag().empty()) vh::D(c.optTag());
    const std::string key = std::string("C05.") + typeName[c.type] + (c.rev ? ".rev" : ".fwd") + (c.euler ? ".euler" : ".quat");
    // fit predicates: key = call site . input class (direction / option are in the D tag)
    std::string cls;
    if (c.type == BENDSTRETCH) cls = c.q[1] < 0 ? ".negstretch" : ".posstretch";
    if (c.type == ELLIPSOID) cls = (c.par[0] == c.par[1] && c.par[1] == c.par[2]) ? ".sphere" : ".nonsphere";
    if (c.type == SPHERICAL) cls = (c.par[2] < 0 || c.par[3] < 0 || c.par[4] < 0) ? ".negated" : ".plain";
    const std::string fkey = std::string("C05.") + typeName[c.type] + cls;
    // setUToFitLinearVelocity on a REVERSED mobilizer assumes zero angular velocity (source TODO in RigidBodyNode.h):
    // reversed types that have both rotational and translational speeds form their own input class for fit_v
    const bool revRot = c.rev && (c.type == PLANAR || c.type == BUSHING || c.type == FREE || c.type == FREELINE || c.type == CANTILEVER);
    const std::string vkey = revRot ? std::string("C05.reversedRotating") : fkey;

    // rotation part is a proper rotation
    { Mat33 R = X_FM.R(); double e = maxAbs(~R * R - Mat33(1));
      double det = dot(Vec3(R[0][0], R[0][1], R[0][2]), cross(Vec3(R[1][0], R[1][1], R[1][2]), Vec3(R[2][0], R[2][1], R[2][2])));
      vh::P("orthonormal", key + ".orthonormal", std::max(e, std::abs(det - 1)), 1e-12); }

    // reversed mobilizer == inverse relative motion for the same coordinates
    if (c.type != WELD) {
        std::unique_ptr<Sys> T = build(cs, c.euler, /*flipDir=*/true);
        setQU(*T, cs);
        T->system.realize(T->state, Stage::Velocity);
        const Transform Xt = T->mobods[0].getMobilizerTransform(T->state);
        const SpatialVec Vt = T->mobods[0].getMobilizerVelocity(T->state);
        vh::P("rev_inverse_X", key + ".rev_inverse_X", xfDiff(Xt, Transform(~X_FM)), 1e-12);
        // velocity of F in M expressed in M:  -R^T (w, v + p x w) ... = ~R * (-w, w x p - v)
        const SpatialVec Vrev = ~X_FM.R() * SpatialVec(-V_FM[0], V_FM[0] % X_FM.p() - V_FM[1]);
        vh::P("rev_inverse_V", key + ".rev_inverse_V", svDiff(Vt, Vrev), 1e-12);
    }

    // fitting to a representable pose / velocity (one produced by the mobilizer itself) reproduces it
    if (c.nq() > 0) {
        State s2 = S->system.getDefaultState();
        S->matter.setUseEulerAngles(s2, c.euler);
        S->system.realizeModel(s2);
        m.setQToFitTransform(s2, X_FM);
        S->system.realize(s2, Stage::Position);
        vh::P("fit_q", fkey + ".fit_q", xfDiff(m.getMobilizerTransform(s2), X_FM), 1e-9);
        // rotation alone
        State s4 = S->system.getDefaultState();
        S->matter.setUseEulerAngles(s4, c.euler);
        S->system.realizeModel(s4);
        m.setQToFitRotation(s4, X_FM.R());
        S->system.realize(s4, Stage::Position);
        vh::P("fit_R", fkey + ".fit_R", maxAbs(Mat33(m.getMobilizerTransform(s4).R()) - Mat33(X_FM.R())), 1e-9);
        // velocity fit at the target configuration
        State s3 = S->state;
        for (int k = 0; k < m.getNumU(s3); ++k) m.setOneU(s3, k, 0.0);
        m.setUToFitVelocity(s3, V_FM);
        S->system.realize(s3, Stage::Velocity);
        vh::P("fit_u", fkey + ".fit_u", svDiff(m.getMobilizerVelocity(s3), V_FM), 1e-9);
        // the three partial entry points, applied to the mobilizer's own current pose / velocity: the requested part
        // must be reproduced (angular velocity by setUToFitAngularVelocity, linear by setUToFitLinearVelocity, origin
        // offset by setQToFitTranslation)
        { State s5 = S->state; m.setUToFitAngularVelocity(s5, V_FM[0]); S->system.realize(s5, Stage::Velocity);
          vh::P("fit_w", fkey + ".fit_w", maxAbs(m.getMobilizerVelocity(s5)[0] - V_FM[0]) / std::max(1.0, maxAbs(V_FM[0])), 1e-9); }
        { State s5 = S->state; m.setUToFitLinearVelocity(s5, V_FM[1]); S->system.realize(s5, Stage::Velocity);
          vh::P("fit_v", vkey + ".fit_v", maxAbs(m.getMobilizerVelocity(s5)[1] - V_FM[1]) / std::max(1.0, maxAbs(V_FM[1])), 1e-9); }
        { State s5 = S->state; m.setQToFitTranslation(s5, X_FM.p()); S->system.realize(s5, Stage::Position);
          vh::P("fit_p", fkey + ".fit_p", maxAbs(m.getMobilizerTransform(s5).p() - X_FM.p()) / std::max(1.0, maxAbs(X_FM.p())), 1e-9); }
    }
}

static void replay() {
    std::string line;
    char buf[1 << 14];
    while (std::fgets(buf, sizeof buf, stdin)) {
        std::istringstream is(buf); std::string k, fn; is >> k >> fn;
        if (k != "I" || (fn != "mob" && fn != "mobP")) continue;
        Case c; if (getCase(is, c)) runCase(c);
    }
}

int main(int argc, char** argv) {
    vh::Args args(argc, argv);
    if (args.mode == "replay") { replay(); return 0; }
    vh::Rng g(args.seed * 7919 + 5);
    // systematic sweep: type x frame pair x direction x option, then random repeats until n cases
    long made = 0;
    for (int round = 0; made < args.n; ++round)
        for (int t = 0; t < NTYPES && made < args.n; ++t)
            for (int fp = 0; fp < 9 && made < args.n; ++fp) {
                if (round == 0 || g.below(3) == 0) {
                    bool rev = (round + fp + t) & 1, euler = ((round + fp / 3 + t / 2) & 1);
                    if (round > 0) { rev = g.coin(); euler = g.coin(); }
                    runCase(randomCase(g, t, fp / 3, fp % 3, rev, euler)); ++made;
                    if (round == 0 && made < args.n) { runCase(randomCase(g, t, fp / 3, fp % 3, !rev, !euler)); ++made; }
                }
            }
    return 0;
}
