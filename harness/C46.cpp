// C46 correspondence harness: bitwise determinism and isolation of simulations inside one process
// (and across process histories), force evaluation single-threaded.
//
//   I repeat <model> <integ> <param> <variant>          run the simulation, do <variant> in between, run it again
//        variant 0: nothing in between         1: two unrelated simulations (other models, other integrators)
//        variant 2: geometry queries, un-seeded Random numbers, an optimizer run, XML parsing, a polynomial solve,
//                   MultibodyGraphMaker, plus an unrelated simulation
//   O repeat <same:0|1>
//   I interleave <nOps> <op>* <m0> <k0> <m1> <k1> <m2> <k2> <param>      op = instance id 0..2; one operation =
//        advance that instance's TimeStepper to its next report time; every instance is first run ALONE (fresh
//        objects) for as many operations as the schedule contains, then all three are run interleaved
//   O interleave <count0> <count1> <count2> <match0> <match1> <match2>
//   I fork <model> <integ> <param>        two fresh child processes forked from the still pristine harness process:
//        child A runs the simulation first thing; child B first does variant 1 + variant 2, then the simulation
//   O fork <same:0|1>
//   I aux <which> <param>               which 0: Assembler with a custom AssemblyCondition that uses the DEFAULT calcGoal()
//        (the shared `static Vector err`), 1: IPOPT (InteriorPoint) optimizer, 2: CMA-ES with a fixed seed; the call is made,
//        then another instance of the same kind with other data plus variant-2 work, then the call is repeated
//   O aux <same:0|1>
//   P bitwise_equal <key> <#differing samples> 0       key = <kind>.<model name>.<integrator name>[.v<variant>]
//   P progressed   <key>.progressed <0|1> 0             1 = no compared sample of the scenario got past t = 0 (nothing was simulated)
//   P dead_share   scenarios.dead_share <fraction> 0.05  (after the last record; measured 0.0009) fraction of scenarios in which a simulation
//                                                       threw or could not be built: a floor against "everything dies => all equal"
// A "sample" is the time, the full continuous state y=(q,u,z) and the accelerations udot (a cache-dependent result,
// realized through Acceleration stage) at a report instant, compared bit for bit, plus the integrator's step statistics.
#include "Simbody.h"
#include "hcommon.h"
#include <unistd.h>
#include <sys/wait.h>
#include <memory>
using namespace SimTK;

static const char* MODEL_NAME[] = {"pendulum", "freetree", "rodloop", "compliantContact", "huntCrossley"};
static const char* INTEG_NAME[] = {"RKMerson", "RKFeldberg", "RK3", "RK2", "Verlet", "ExplicitEuler", "CPodes", "SemiExplicitEuler2"};
static const int NMODEL = 5, NINTEG = 8;

// ------------------------------------------------------------------------------------------------ a simulation
struct Sim {
    MultibodySystem system;
    SimbodyMatterSubsystem matter;
    GeneralForceSubsystem forces;
    std::unique_ptr<ContactTrackerSubsystem> tracker;
    std::unique_ptr<CompliantContactSubsystem> compliant;
    std::unique_ptr<GeneralContactSubsystem> general;
    std::unique_ptr<Integrator> integ;
    std::unique_ptr<TimeStepper> ts;
    int nextReport = 1;
    double dt = 0.05;
    bool dead = false;          // an exception ended this simulation (part of its observable trajectory)
    Sim() : matter(system), forces(system) {}
};

static std::unique_ptr<Sim> buildSim(int model, int integ, uint64_t param) {
    std::unique_ptr<Sim> sp(new Sim());
    Sim& s = *sp;
    vh::Rng r(param * 1000003ull + model * 101 + 7);
    s.forces.setNumberOfThreads(1);                      // the property is about single-threaded force evaluation
    Force::Gravity gravity(s.forces, s.matter, Vec3(0, -9.8, 0));
    MobilizedBody& ground = s.matter.updGround();
    auto bodyOf = [&](double m) { return Body::Rigid(MassProperties(m, Vec3(r.range(-.05, .05), r.range(-.05, .05), 0), UnitInertia::sphere(0.1) * m)); };
    if (model == 0) {                                   // pendulum chain with damping
        MobilizedBodyIndex parent = ground.getMobilizedBodyIndex();
        for (int i = 0; i < 4; ++i) {
            MobilizedBody::Pin p(s.matter.updMobilizedBody(parent), Transform(Vec3(0, i ? -r.range(.3, .6) : 0, 0)), bodyOf(r.range(.5, 2)), Transform(Vec3(0, r.range(.2, .4), 0)));
            Force::MobilityLinearDamper(s.forces, p, MobilizerUIndex(0), r.range(.01, .1));
            parent = p.getMobilizedBodyIndex();
        }
    } else if (model == 1) {                            // free body + ball + gimbal children, springs
        MobilizedBody::Free f(ground, Transform(), bodyOf(2), Transform());
        MobilizedBody::Ball b(f, Transform(Vec3(.3, 0, 0)), bodyOf(1), Transform(Vec3(0, .3, 0)));
        MobilizedBody::Gimbal g(f, Transform(Vec3(-.3, 0, 0)), bodyOf(.7), Transform(Vec3(0, .25, 0)));
        Force::TwoPointLinearSpring(s.forces, ground, Vec3(0, 1, 0), f, Vec3(0), r.range(20, 60), 1.0);
        Force::TwoPointLinearDamper(s.forces, ground, Vec3(0, 1, 0), f, Vec3(0), r.range(.5, 2));
        Force::TwoPointLinearSpring(s.forces, b, Vec3(0), g, Vec3(0), r.range(5, 20), 0.5);
        Force::GlobalDamper(s.forces, s.matter, 0.05);
    } else if (model == 2) {                            // three pins closed by a rod constraint
        MobilizedBody::Pin a(ground, Transform(Vec3(0)), bodyOf(1), Transform(Vec3(0, .5, 0)));
        MobilizedBody::Pin b(a, Transform(Vec3(0, -.5, 0)), bodyOf(1), Transform(Vec3(0, .5, 0)));
        MobilizedBody::Pin c(ground, Transform(Vec3(1, 0, 0)), bodyOf(1.5), Transform(Vec3(0, .6, 0)));
        Constraint::Rod(b, Vec3(0, -.5, 0), c, Vec3(0, -.6, 0), r.range(.9, 1.2));
        Force::MobilityLinearDamper(s.forces, a, MobilizerUIndex(0), .05);
    } else if (model == 3) {                            // compliant contact: spheres on a half space (+ sphere/sphere)
        s.tracker.reset(new ContactTrackerSubsystem(s.system));
        s.compliant.reset(new CompliantContactSubsystem(s.system, *s.tracker));
        s.compliant->setTransitionVelocity(1e-2);
        ground.updBody().addContactSurface(Transform(Rotation(-Pi / 2, ZAxis), Vec3(0)),
                                           ContactSurface(ContactGeometry::HalfSpace(), ContactMaterial(1e6, .3, .5, .3, .1)));
        for (int i = 0; i < 2; ++i) {
            Body::Rigid ball(MassProperties(1 + i, Vec3(0), UnitInertia::sphere(.2) * (1 + i)));
            ball.addContactSurface(Transform(), ContactSurface(ContactGeometry::Sphere(.2), ContactMaterial(1e6, .3, .5, .3, .1)));
            MobilizedBody::Free f(ground, Transform(Vec3(0, .25 + .45 * i + r.range(0, .02), 0)), ball, Transform());
        }
    } else {                                            // older contact path: GeneralContactSubsystem + HuntCrossleyForce
        s.general.reset(new GeneralContactSubsystem(s.system));
        ContactSetIndex set = s.general->createContactSet();
        MobilizedBody::Translation sph(ground, Transform(Vec3(0, .35 + r.range(0, .02), 0)), bodyOf(1), Transform());
        MobilizedBody::Translation sph2(ground, Transform(Vec3(.05, .9, 0)), bodyOf(1.5), Transform());
        s.general->addBody(set, sph, ContactGeometry::Sphere(.3), Transform());
        s.general->addBody(set, sph2, ContactGeometry::Sphere(.25), Transform());
        s.general->addBody(set, ground, ContactGeometry::HalfSpace(), Transform(Rotation(-0.5 * Pi, ZAxis), Vec3(0)));
        HuntCrossleyForce hc(s.forces, *s.general, set);
        for (int i = 0; i < 3; ++i) hc.setBodyParameters(ContactSurfaceIndex(i), 1e5, .5, .5, .3, .1);
        hc.setTransitionVelocity(1e-2);
    }
    State state = s.system.realizeTopology();
    // initial conditions from the parameter stream
    for (int i = 0; i < state.getNQ(); ++i) if (model != 3 && model != 4 && model != 1) state.updQ()[i] = r.range(-.4, .4);
    for (int i = 0; i < state.getNU(); ++i) state.updU()[i] = r.range(-.5, .5);
    if (std::getenv("VERIF_C46_SELFTEST") && state.getNU() > 0) {   // sensitivity self-test only: inject process-history dependence
        Random::Uniform unseeded(-.5, .5); state.updU()[0] = unseeded.getValue();      // (un-seeded Random draws from the global seed counter)
    }
    s.system.realizeModel(state);
    if (model == 2) {                                   // start on the constraint manifold
        s.system.realize(state, Stage::Position);
        s.system.project(state, 1e-8);
    }
    Integrator* ig = nullptr;
    switch (integ) {
    case 0: ig = new RungeKuttaMersonIntegrator(s.system); break;
    case 1: ig = new RungeKuttaFeldbergIntegrator(s.system); break;
    case 2: ig = new RungeKutta3Integrator(s.system); break;
    case 3: ig = new RungeKutta2Integrator(s.system); break;
    case 4: ig = new VerletIntegrator(s.system); break;
    case 5: ig = new ExplicitEulerIntegrator(s.system); break;
    case 6: ig = new CPodesIntegrator(s.system); break;
    default: ig = new SemiExplicitEuler2Integrator(s.system); break;
    }
    ig->setAccuracy(integ == 5 || integ == 3 ? 1e-2 : 1e-4);
    s.integ.reset(ig);
    s.ts.reset(new TimeStepper(s.system, *s.integ));
    s.ts->initialize(state);
    return sp;
}

typedef std::vector<uint64_t> Sample;
static long g_scenarios = 0, g_deadScenarios = 0;       // floor against vacuous equality (review item X1)
static bool g_curDead = false, g_curProgress = false;
static Sample sampleOf(const Sim& s) {
    const State& st = s.integ->getState();
    Sample v;
    uint64_t u; double t = st.getTime(); std::memcpy(&u, &t, 8); v.push_back(u);
    if (t > 0) g_curProgress = true;
    const Vector& y = st.getY();
    for (int i = 0; i < y.size(); ++i) { double d = y[i]; std::memcpy(&u, &d, 8); v.push_back(u); }
    if (!s.dead) {
        try {                                            // cache-dependent result: accelerations (incl. contact forces' effect)
            s.system.realize(st, Stage::Acceleration);
            const Vector& ud = st.getUDot();
            for (int i = 0; i < ud.size(); ++i) { double d = ud[i]; std::memcpy(&u, &d, 8); v.push_back(u); }
        } catch (const std::exception&) { v.push_back(0xACCull); }
    }
    return v;
}
// one operation: advance to the next report instant; returns the sample there
static Sample stepOnce(Sim& s) {
    if (!s.dead) {
        try { s.ts->stepTo(s.dt * s.nextReport); }
        catch (const std::exception&) { s.dead = true; g_curDead = true; }   // e.g. Integrator::StepFailed: must happen identically in every run
    }
    ++s.nextReport;
    Sample v = sampleOf(s);
    v.push_back(s.dead ? 0xDEADull : 0);
    v.push_back((uint64_t)s.integ->getNumStepsTaken());
    v.push_back((uint64_t)s.integ->getNumStepsAttempted());
    return v;
}
// construction failures (e.g. an initial projection that does not converge) are deterministic outcomes too
static std::unique_ptr<Sim> buildSimSafe(int model, int integ, uint64_t param) {
    try { return buildSim(model, integ, param); } catch (const std::exception&) { g_curDead = true; return nullptr; }
}
static const Sample kBuildFailed = {0xBADull};
static std::vector<Sample> runAlone(int model, int integ, uint64_t param, int nOps) {
    std::unique_ptr<Sim> s = buildSimSafe(model, integ, param);
    std::vector<Sample> out;
    out.push_back(s ? sampleOf(*s) : kBuildFailed);
    for (int k = 0; k < nOps; ++k) out.push_back(s ? stepOnce(*s) : kBuildFailed);
    return out;
}
static int differing(const std::vector<Sample>& a, const std::vector<Sample>& b) {
    int d = (int)std::max(a.size(), b.size()) - (int)std::min(a.size(), b.size());
    for (size_t i = 0; i < std::min(a.size(), b.size()); ++i) if (a[i] != b[i]) ++d;
    return d;
}

// ------------------------------------------------------------------------------------------------ unrelated activity
static double sink = 0;
static void unrelatedSims(uint64_t param) {
    std::vector<Sample> a = runAlone((int)(param % NMODEL), (int)((param / 5) % NINTEG), param + 17, 6);
    std::vector<Sample> b = runAlone((int)((param + 3) % NMODEL), (int)((param / 3 + 2) % NINTEG), param + 29, 6);
    sink += (double)(a.back().back() + b.back().back());
}
namespace {
struct Quad : public OptimizerSystem {
    Quad() : OptimizerSystem(3) {}
    int objectiveFunc(const Vector& x, bool, Real& f) const override { f = 0; for (int i = 0; i < 3; ++i) f += (x[i] - i) * (x[i] - i) * (i + 1); return 0; }
    int gradientFunc(const Vector& x, bool, Vector& g) const override { for (int i = 0; i < 3; ++i) g[i] = 2 * (i + 1) * (x[i] - i); return 0; }
};
}
// ---- users of classified statics outside simulation (review item M2): Assembler with the default calcGoal() (shared
// `static Vector err`), IPOPT (TaggedObject::unique_tag_, RegisteredOption::next_counter_), c-cmaes (static buffers)
namespace {
struct StationGoal : public AssemblyCondition {         // implements calcErrors only -> AssemblyCondition::calcGoal() default
    const SimbodyMatterSubsystem& matter; MobilizedBodyIndex mb; Vec3 station, target; int nerr;
    StationGoal(const SimbodyMatterSubsystem& m, MobilizedBodyIndex b, const Vec3& st, const Vec3& tg, int n)
    :   AssemblyCondition("stationGoal"), matter(m), mb(b), station(st), target(tg), nerr(n) {}
    int calcErrors(const State& s, Vector& err) const override {
        const Vec3 p = matter.getMobilizedBody(mb).findStationLocationInGround(s, station);
        err.resize(nerr); for (int i = 0; i < nerr; ++i) err[i] = p[i % 3] - target[i % 3]; return 0; }
    int getNumErrors(const State&) const override { return nerr; }
};
struct Quad4 : public OptimizerSystem {
    double c[4];
    explicit Quad4(uint64_t p) : OptimizerSystem(4) { vh::Rng r(p * 31 + 5); for (double& x : c) x = r.range(-1, 1);
        Vector lo(4, -2.0), hi(4, 2.0); setParameterLimits(lo, hi); }
    int objectiveFunc(const Vector& x, bool, Real& f) const override { f = 0; for (int i = 0; i < 4; ++i) f += (i + 1) * (x[i] - c[i]) * (x[i] - c[i]); f += .1 * x[0] * x[1]; return 0; }
    int gradientFunc(const Vector& x, bool, Vector& g) const override { for (int i = 0; i < 4; ++i) g[i] = 2 * (i + 1) * (x[i] - c[i]); g[0] += .1 * x[1]; g[1] += .1 * x[0]; return 0; }
};
}
static std::vector<uint64_t> bitsOf(const Vector& v, double extra) {
    std::vector<uint64_t> out; uint64_t u;
    for (int i = 0; i < v.size(); ++i) { double d = v[i]; std::memcpy(&u, &d, 8); out.push_back(u); }
    std::memcpy(&u, &extra, 8); out.push_back(u); return out;
}
static std::vector<uint64_t> runAux(int which, uint64_t p) {
    try {
        if (which == 0) {
            MultibodySystem sys; SimbodyMatterSubsystem matter(sys); vh::Rng r(p * 77 + 1);
            Body::Rigid body(MassProperties(1, Vec3(0), UnitInertia(1)));
            MobilizedBody::Pin a(matter.Ground(), Transform(), body, Transform(Vec3(0, .5, 0)));
            MobilizedBody::Pin b(a, Transform(Vec3(0, -.5, 0)), body, Transform(Vec3(0, .5, 0)));
            MobilizedBody::Pin c(b, Transform(Vec3(0, -.5, 0)), body, Transform(Vec3(0, .5, 0)));
            State st = sys.realizeTopology(); sys.realizeModel(st);
            for (int i = 0; i < st.getNQ(); ++i) st.updQ()[i] = r.range(-.5, .5);
            Assembler asmb(sys);
            asmb.adoptAssemblyGoal(new StationGoal(matter, c, Vec3(0, -.5, 0), Vec3(r.range(.4, .9), -r.range(.4, .9), 0), 2 + (int)(p % 3)), 1);
            Real g = asmb.assemble(st);
            return bitsOf(st.getQ(), g);
        }
        Quad4 q(p); Vector x(4, 0.25);
        Optimizer opt(q, which == 1 ? InteriorPoint : CMAES);
        opt.setDiagnosticsLevel(0); opt.setConvergenceTolerance(1e-6); opt.setMaxIterations(which == 1 ? 200 : 60);
        if (which == 1) opt.useNumericalGradient(false);
        else { opt.setAdvancedIntOption("seed", 11 + (int)(p % 5)); opt.setAdvancedRealOption("init_stepsize", 0.5);
               opt.setAdvancedRealOption("maxTimeFractionForEigendecomposition", 1); }
        Real f = opt.optimize(x);
        return bitsOf(x, f);
    } catch (const std::exception&) { return std::vector<uint64_t>{0xE0Cull}; }
}

static void unrelatedLibraryCalls(uint64_t param) {
    // geometry queries
    ContactGeometry::Ellipsoid ell(Vec3(1, 2, 3));
    bool inside; UnitVec3 nrm;
    Vec3 np = ell.findNearestPoint(Vec3(2 + (param % 7) * .1, 1, .5), inside, nrm); sink += np[0];
    ContactGeometry::Sphere sp(1.5); Real dist;
    if (sp.intersectsRay(Vec3(3, .1, .2), UnitVec3(-1, 0, 0), dist, nrm)) sink += dist;
    ContactGeometry::Torus tor(2, .5); sink += tor.calcSurfaceValue(Vec3(1, 1, .2));
    // un-seeded random numbers (consume the process-wide seed counter)
    Random::Uniform ru(0, 1); Random::Gaussian rg(0, 1);
    for (int i = 0; i < 5; ++i) sink += ru.getValue() + rg.getValue();
    // optimizer
    Quad q; Optimizer opt(q, LBFGS); opt.useNumericalGradient(false); Vector x(3, 0.5);
    try { sink += opt.optimize(x); } catch (...) {}
    // XML
    Xml::Document doc; doc.setRootTag("root"); doc.getRootElement().insertNodeAfter(doc.getRootElement().node_end(), Xml::Element("a", "1.5"));
    String txt; doc.writeToString(txt); Xml::Document d2; d2.readFromString(txt); sink += (double)txt.size();
    // polynomial roots
    Vec<4, Real> co(1, -6, 11, -6 + (double)(param % 3)); Vec<3, Complex> roots; PolynomialRootFinder::findRoots(co, roots); sink += roots[0].real();
    // graph maker
    MultibodyGraphMaker mgm; mgm.addJointType("pin", 1); mgm.addBody("ground", 0, false); mgm.addBody("a", 1, false); mgm.addBody("b", 1, false);
    mgm.addJoint("j0", "pin", "ground", "a", false); mgm.addJoint("j1", "pin", "a", "b", false); mgm.addJoint("j2", "pin", "b", "ground", false);
    mgm.generateGraph(); sink += mgm.getNumMobilizers();
    // the process-wide XML option, toggled and restored
    bool cw = Xml::Document::isXmlWhiteSpaceCondensed(); Xml::Document::setXmlCondenseWhiteSpace(!cw);
    { Xml::Document d3; d3.readFromString("<r> a   b </r>"); sink += (double)d3.getRootElement().getValue().size(); }
    Xml::Document::setXmlCondenseWhiteSpace(cw);
    // Assembler (default calcGoal), IPOPT, CMA-ES
    for (int w = 0; w < 3; ++w) sink += (double)runAux(w, param + 100 + w).size();
    unrelatedSims(param + 5);
}

// ------------------------------------------------------------------------------------------------ scenarios
static const int NOPS = 10;
static std::string keyOf(const char* kind, int m, int k) { return std::string(kind) + "." + MODEL_NAME[m] + "." + INTEG_NAME[k]; }

static void beginScenario() { g_curDead = false; g_curProgress = false; }
static void endScenario(const std::string& key) {
    ++g_scenarios; if (g_curDead) { ++g_deadScenarios; vh::D("obs.simulationDiedOrBuildFailed"); }
    vh::P("progressed", key + ".progressed", g_curProgress ? 0 : 1, 0);
}
static void doRepeat(int m, int k, uint64_t p, int v) {
    vh::I("repeat").i(m).i(k).i((long long)p).i(v).emit();
    beginScenario();
    std::vector<Sample> a = runAlone(m, k, p, NOPS);
    bool deadA = g_curDead, progA = g_curProgress;
    if (v == 1) unrelatedSims(p);
    if (v == 2) unrelatedLibraryCalls(p);
    g_curDead = deadA; g_curProgress = progA;            // only the compared simulation counts, not the unrelated ones
    std::vector<Sample> b = runAlone(m, k, p, NOPS);
    int d = differing(a, b);
    if (std::getenv("VERIF_C46_DEBUG")) {
        int changed = 0; for (size_t i = 1; i < a.size(); ++i) if (a[i] != a[i - 1]) ++changed;
        double y1; std::memcpy(&y1, &a.back()[1], 8);
        std::fprintf(stderr, "dbg %s %s samples=%zu changing=%d steps=%llu y[0]=%g\n", MODEL_NAME[m], INTEG_NAME[k], a.size(), changed,
                     (unsigned long long)a.back()[a.back().size() - 2], y1);
    }
    std::printf("O repeat %d\n", d == 0 ? 1 : 0);
    vh::D(keyOf("repeat", m, k) + ".v" + std::to_string(v));
    vh::P("bitwise_equal", keyOf("repeat", m, k) + ".v" + std::to_string(v), d, 0);
    endScenario(keyOf("repeat", m, k) + ".v" + std::to_string(v));
}

static void doInterleave(const std::vector<int>& sched, const int m[3], const int k[3], uint64_t p) {
    vh::Line in = vh::I("interleave"); in.i((long long)sched.size());
    for (int o : sched) in.i(o);
    for (int i = 0; i < 3; ++i) in.i(m[i]).i(k[i]);
    in.i((long long)p); in.emit();
    int cnt[3] = {0, 0, 0};
    for (int o : sched) ++cnt[o];
    beginScenario();
    std::vector<Sample> alone[3];
    for (int i = 0; i < 3; ++i) alone[i] = runAlone(m[i], k[i], p + i, cnt[i]);
    std::unique_ptr<Sim> sims[3];
    std::vector<Sample> inter[3];
    for (int i = 0; i < 3; ++i) { sims[i] = buildSimSafe(m[i], k[i], p + i); inter[i].push_back(sims[i] ? sampleOf(*sims[i]) : kBuildFailed); }
    for (int o : sched) inter[o].push_back(sims[o] ? stepOnce(*sims[o]) : kBuildFailed);
    int d[3];
    for (int i = 0; i < 3; ++i) d[i] = differing(alone[i], inter[i]);
    std::printf("O interleave %d %d %d %d %d %d\n", (int)inter[0].size() - 1, (int)inter[1].size() - 1, (int)inter[2].size() - 1, d[0] == 0, d[1] == 0, d[2] == 0);
    for (int i = 0; i < 3; ++i) { vh::D(keyOf("interleave", m[i], k[i])); vh::P("bitwise_equal", keyOf("interleave", m[i], k[i]), d[i], 0); }
    endScenario(std::string("interleave"));
}

static const char* AUX_NAME[] = {"assemblerDefaultGoal", "ipopt", "cmaesSeeded"};
static void doAux(int which, uint64_t p) {
    vh::I("aux").i(which).i((long long)p).emit();
    std::vector<uint64_t> a = runAux(which, p);
    sink += (double)runAux(which, p + 1).size();          // another instance of the same kind, other data
    unrelatedLibraryCalls(p);
    std::vector<uint64_t> b = runAux(which, p);
    int d = (a == b) ? 0 : 1;
    std::printf("O aux %d\n", d == 0 ? 1 : 0);
    vh::D(std::string("aux.") + AUX_NAME[which] + (a.size() == 1 ? ".threw" : ".ok"));
    vh::P("bitwise_equal", std::string("aux.") + AUX_NAME[which], d, 0);
}

// child: optionally do unrelated things, then run the simulation; write all samples to fd
static void childRun(int fd, int m, int k, uint64_t p, bool busyBefore) {
    if (busyBefore) { unrelatedSims(p); unrelatedLibraryCalls(p + 1); }
    g_curDead = false; g_curProgress = false;
    std::vector<Sample> a = runAlone(m, k, p, NOPS);
    std::vector<uint64_t> flat;
    for (auto& s : a) { flat.push_back(s.size()); flat.insert(flat.end(), s.begin(), s.end()); }
    flat.push_back(g_curDead ? 1 : 0); flat.push_back(g_curProgress ? 1 : 0);      // trailing flags for the parent's bookkeeping
    size_t off = 0, bytes = flat.size() * 8;
    while (off < bytes) { ssize_t w = write(fd, (const char*)flat.data() + off, bytes - off); if (w <= 0) break; off += (size_t)w; }
    close(fd);
    _exit(0);
}
static bool forkRun(int m, int k, uint64_t p, bool busyBefore, std::vector<uint64_t>& out) {
    int fds[2]; if (pipe(fds) != 0) return false;
    std::fflush(stdout);
    pid_t pid = fork();
    if (pid < 0) return false;
    if (pid == 0) { close(fds[0]); childRun(fds[1], m, k, p, busyBefore); }
    close(fds[1]);
    char buf[65536]; ssize_t n; std::string acc;
    while ((n = read(fds[0], buf, sizeof buf)) > 0) acc.append(buf, (size_t)n);
    close(fds[0]);
    int status = 0; waitpid(pid, &status, 0);
    out.resize(acc.size() / 8); std::memcpy(out.data(), acc.data(), out.size() * 8);
    return WIFEXITED(status) && WEXITSTATUS(status) == 0 && !out.empty();
}
struct ForkResult { int m, k; uint64_t p; bool ok; int diff; bool dead, progress; };
static ForkResult doForkCompute(int m, int k, uint64_t p) {       // must be called while this process is still pristine
    std::vector<uint64_t> a, b;
    bool ok = forkRun(m, k, p, false, a) && forkRun(m, k, p, true, b);
    int d = 0;
    if (ok) { d = (int)(a.size() > b.size() ? a.size() - b.size() : b.size() - a.size()); for (size_t i = 0; i < std::min(a.size(), b.size()); ++i) if (a[i] != b[i]) ++d; }
    bool dead = ok && a.size() >= 2 && a[a.size() - 2] != 0, prog = ok && a.size() >= 2 && a[a.size() - 1] != 0;
    return ForkResult{m, k, p, ok, ok ? d : 1, dead, prog};
}
static void emitFork(const ForkResult& f) {
    vh::I("fork").i(f.m).i(f.k).i((long long)f.p).emit();
    std::printf("O fork %d\n", f.ok && f.diff == 0 ? 1 : 0);
    vh::D(keyOf("fork", f.m, f.k));
    vh::P("bitwise_equal", keyOf("fork", f.m, f.k), f.diff, 0);
    g_curDead = f.dead; g_curProgress = f.progress; endScenario(keyOf("fork", f.m, f.k));
}

static void replay() {
    // forks first (pristine process), then everything else in input order
    std::vector<std::string> lines; std::string line; int ch;
    while (true) { line.clear(); while ((ch = std::getchar()) != EOF && ch != '\n') line.push_back((char)ch); if (!line.empty()) lines.push_back(line); if (ch == EOF) break; }
    std::vector<ForkResult> forks;
    for (auto& l : lines) { std::istringstream is(l); std::string k, fn; is >> k >> fn; if (k == "I" && fn == "fork") { int m, kk; long long p; if (is >> m >> kk >> p && m >= 0 && m < NMODEL && kk >= 0 && kk < NINTEG) forks.push_back(doForkCompute(m, kk, (uint64_t)p)); } }
    size_t fi = 0;
    for (auto& l : lines) {
        std::istringstream is(l); std::string k, fn; is >> k >> fn;
        if (k != "I") continue;
        if (fn == "fork") { int m, kk; long long p; if (is >> m >> kk >> p && m >= 0 && m < NMODEL && kk >= 0 && kk < NINTEG && fi < forks.size()) emitFork(forks[fi++]); }
        else if (fn == "repeat") { int m, kk, v; long long p; if (is >> m >> kk >> p >> v && m >= 0 && m < NMODEL && kk >= 0 && kk < NINTEG && v >= 0 && v <= 2) doRepeat(m, kk, (uint64_t)p, v); }
        else if (fn == "aux") { int w; long long p; if (is >> w >> p && w >= 0 && w < 3) doAux(w, (uint64_t)p); }
        else if (fn == "interleave") {
            long long n; if (!(is >> n) || n < 0 || n > 1000) continue;
            std::vector<int> sched((size_t)n); bool ok = true;
            for (auto& o : sched) { ok = ok && (is >> o) && o >= 0 && o < 3; }
            int m[3], kk[3]; long long p;
            for (int i = 0; i < 3 && ok; ++i) ok = ok && (is >> m[i] >> kk[i]) && m[i] >= 0 && m[i] < NMODEL && kk[i] >= 0 && kk[i] < NINTEG;
            if (ok && (is >> p)) doInterleave(sched, m, kk, (uint64_t)p);
        }
    }
}

int main(int argc, char** argv) {
    // OpenBLAS starts a thread pool when it is loaded (pure overhead here, and the property is about single-threaded
    // evaluation): re-exec once with the pool disabled
    if (!std::getenv("OPENBLAS_NUM_THREADS")) { setenv("OPENBLAS_NUM_THREADS", "1", 1); execv("/proc/self/exe", argv); }
    vh::Args args(argc, argv);
    if (args.mode == "replay") { replay(); return 0; }
    vh::Rng r(args.seed * 7919 + 46);
    const long n = args.n;                      // number of scenarios of each kind (repeat / interleave); forks = n/4+2
    // 1. fork scenarios while the process is pristine
    std::vector<ForkResult> forks;
    long nf = n / 4 + 2;
    for (long i = 0; i < nf; ++i) forks.push_back(doForkCompute((int)((args.seed + i) % NMODEL), r.below(NINTEG), r.next() % 1000));
    for (auto& f : forks) emitFork(f);
    // 2. repeat scenarios: cover every model x integrator pair in turn
    for (long i = 0; i < n; ++i) {
        long idx = (long)((args.seed * 13 + i) % (NMODEL * NINTEG));
        doRepeat((int)(idx % NMODEL), (int)(idx / NMODEL), r.next() % 1000, (int)(i % 3));
    }
    // 3. interleavings
    for (long i = 0; i < n; ++i) {
        int m[3], k[3];
        for (int j = 0; j < 3; ++j) { m[j] = r.below(NMODEL); k[j] = r.below(NINTEG); }
        if (i % 3 == 0) { m[1] = m[0]; k[1] = k[0]; }       // two instances of the SAME model and integrator type
        std::vector<int> sched(6 + r.below(14));
        for (auto& o : sched) o = r.below(3);
        doInterleave(sched, m, k, r.next() % 1000);
    }
    // 4. the classified statics outside simulation: Assembler default goal, IPOPT, seeded CMA-ES
    for (long i = 0; i < n / 4 + 3; ++i) doAux((int)(i % 3), r.next() % 1000);
    // 5. floor: most scenarios must really have simulated something to the end
    if (g_scenarios > 0) vh::P("dead_share", "scenarios.dead_share", (double)g_deadScenarios / (double)g_scenarios, 0.05);
    return sink == 12345.678 ? 1 : 0;
}
