// C04 correspondence harness: Jacobian operators of SimbodyMatterSubsystem on random trees (public API only).
//
// One record per random tree (every random choice of a case derives from its own caseSeed, so a record can be
// regenerated from its first two tokens: this is what --mode replay does):
//
//   I jac caseSeed nbMax nb nu nt ncols <body>*nb u[nu] v[nu] udot[nu] F[6(nb+1)] <task>*nt fS[3nt] FA[6nt] cols[ncols]
//     <body> = id parent u0 d  l[3] R[9] H[6d] a[6]     (l = p_PB_G from body origins, R = R_GB, H = getHCol,
//                                                         a = getMobilizerCoriolisAcceleration)
//     <task> = body p_B[3]
//   O Ju / Vstate / JtF / JSu / JStf / JFu / JFtF / A / bias / biasS / biasF / Jcols / JSrows / JFrows
//     what the implementation returned (see lean/Drivers/C04.lean for the layout)
//   D ...   mobilizer type x direction x frame kinds, Euler/quaternion, body count
//   P ...   the property's own predicates on the implementation's outputs
#include "Simbody.h"
#include "hcommon.h"
#include <algorithm>
#include <iostream>
#include <memory>
using namespace SimTK;

static const char* TYPE_NAMES[] = {"Pin", "Slider", "Universal", "Cylinder", "BendStretch", "Planar", "Gimbal",
    "Bushing", "Ball", "Translation", "Free", "Weld", "Screw", "LineOrientation", "FreeLine", "Ellipsoid",
    "SphericalCoords", "CantileverFreeBeam", "FunctionBased"};
static const int NTYPES = 19;

static Vec3 rv(vh::Rng& r, double s = 1) { return Vec3(r.range(-s, s), r.range(-s, s), r.range(-s, s)); }
static Transform rX(vh::Rng& r, int kind) {
    if (kind == 0) return Transform();
    if (kind == 1) return Transform(rv(r));
    Rotation R; R.setRotationToBodyFixedXYZ(rv(r, 2.0));
    return Transform(R, rv(r));
}

struct Built {
    MultibodySystem sys;
    SimbodyMatterSubsystem matter;
    GeneralForceSubsystem forces;
    Force::DiscreteForces* discrete = nullptr;
    std::vector<MobilizedBody> bodies;     // [0] = Ground
    std::vector<int> type;                 // per body (Ground: -1)
    std::vector<std::string> tag;
    bool fbNonDiagonal = false;            // a FunctionBased mobilizer whose rotation function k is not a function of q_k alone
    bool fbConstantRotation = false;       // a FunctionBased mobilizer with a nonzero Constant rotation function
    bool reversedLine = false;
    std::vector<int> cls;                  // per body (incl. Ground): bit 1 nondiagonal FunctionBased, 2 constant-offset FunctionBased,
                                           // 4 reversed Line*, on the body itself or on any inboard body (set in addOne)
    int special = 0;                       // 0 random tree; 1 lone particles after quaternion-slot mobilizers; 2 Weld structures; 3 mixed Ball/Free/Pin orders
    std::vector<int> particles;            // bodies built as RBNodeLoneParticle (Translation on Ground, forward, identity frames, leaf)
    std::vector<int> leafWelds;
    bool avoidKnown = false;               // this tree stays out of the three input classes with known defects
    bool euler = false;             // a reversed LineOrientation / FreeLine mobilizer
    Built() : matter(sys), forces(sys) {}
};

static MobilizedBody addBody(Built& B, vh::Rng& r, MobilizedBody& parent, int type, const Body& body,
                             const Transform& XPF, const Transform& XBM, MobilizedBody::Direction dir) {
    typedef MobilizedBody MB;
    switch (type) {
    case 0: return MB::Pin(parent, XPF, body, XBM, dir);
    case 1: return MB::Slider(parent, XPF, body, XBM, dir);
    case 2: return MB::Universal(parent, XPF, body, XBM, dir);
    case 3: return MB::Cylinder(parent, XPF, body, XBM, dir);
    case 4: return MB::BendStretch(parent, XPF, body, XBM, dir);
    case 5: return MB::Planar(parent, XPF, body, XBM, dir);
    case 6: return MB::Gimbal(parent, XPF, body, XBM, dir);
    case 7: return MB::Bushing(parent, XPF, body, XBM, dir);
    case 8: return MB::Ball(parent, XPF, body, XBM, dir);
    case 9: return MB::Translation(parent, XPF, body, XBM, dir);
    case 10: return MB::Free(parent, XPF, body, XBM, dir);
    case 11: return MB::Weld(parent, XPF, body, XBM);
    case 12: return MB::Screw(parent, XPF, body, XBM, r.signedMag(0.2, 1.5), dir);
    case 13: return MB::LineOrientation(parent, XPF, body, XBM, dir);
    case 14: return MB::FreeLine(parent, XPF, body, XBM, dir);
    case 15: return MB::Ellipsoid(parent, XPF, body, XBM, Vec3(r.range(0.3, 1.5), r.range(0.3, 1.5), r.range(0.3, 1.5)), dir);
    case 16: return MB::SphericalCoords(parent, XPF, body, XBM, dir);
    case 17: return MB::CantileverFreeBeam(parent, XPF, body, XBM, r.range(0.5, 2.0), dir);
    default: {
        // FunctionBased (a Custom mobilizer): 2 or 3 mobilities, linear functions of the coordinates.
        // "regular": rotation k is Linear(q_k) or the constant 0 (the only use for which the pinned tree is right,
        // see notes/C04.md); otherwise arbitrary assignments, flagged so the predicate key names the class.
        int nm = 2 + r.below(2);
        bool regular = r.coin() || B.avoidKnown;
        std::vector<const Function*> fn; std::vector<std::vector<int> > idx;
        for (int k = 0; k < 6; ++k) {
            int kind = r.below(3);
            if (k >= 3) kind = 2;                            // translations: generic linear maps, so that H has full rank
            if (regular && k < 3) kind = (k < nm && r.below(4) != 0) ? 1 : 3;
            if (kind == 3) { fn.push_back(new Function::Constant(0, 0)); idx.push_back(std::vector<int>()); }
            else if (kind == 0) { fn.push_back(new Function::Constant(r.signedMag(0.1, 0.5), 0)); idx.push_back(std::vector<int>());
                                  if (k < 3) B.fbConstantRotation = true; }
            else if (kind == 1) {
                Vector c(2); c[0] = r.signedMag(0.3, 1.2); c[1] = r.range(-0.3, 0.3);
                fn.push_back(new Function::Linear(c)); idx.push_back(std::vector<int>(1, k % nm));
                if (k < 3 && k % nm != k) B.fbNonDiagonal = true;
            } else {
                if (k < 3) B.fbNonDiagonal = true;
                Vector c(nm + 1); for (int i = 0; i <= nm; ++i) c[i] = r.signedMag(0.2, 1.0);
                fn.push_back(new Function::Linear(c));
                std::vector<int> all; for (int i = 0; i < nm; ++i) all.push_back(i);
                idx.push_back(all);
            }
        }
        return MB::FunctionBased(parent, XPF, body, XBM, nm, fn, idx, dir);
    }
    }
}

// one body; `forced` >= 0 fixes the mobilizer type, fkF/mkF >= 0 the frame kinds, revF: -1 random, 0 forward
static int addOne(Built& B, vh::Rng& r, int p, int forcedType, int fkF, int mkF, int revF) {
    // valid mass properties from a point-mass cloud
    Real m = 0; Vec3 com(0); Inertia I(0);
    for (int k = 0; k < 4; ++k) { Vec3 x = rv(r, 0.6); Real mk = r.range(0.1, 1.0); m += mk; com += mk * x; I += Inertia(x, mk); }
    com /= m;
    Body::Rigid body(MassProperties(m, com, I));
    int fk = fkF >= 0 ? fkF : r.below(3), mk = mkF >= 0 ? mkF : r.below(3);
    Transform XPF = rX(r, fk), XBM = rX(r, mk);
    int type = forcedType >= 0 ? forcedType : r.below(NTYPES);
    bool rev = (revF < 0 ? r.coin() : revF != 0) && type != 11;
    if (B.avoidKnown && !B.euler && (type == 13 || type == 14)) rev = false;
    const bool o1 = B.fbNonDiagonal, o2 = B.fbConstantRotation;
    B.fbNonDiagonal = B.fbConstantRotation = false;
    MobilizedBody mb = addBody(B, r, B.bodies[p], type, body, XPF, XBM, rev ? MobilizedBody::Reverse : MobilizedBody::Forward);
    B.bodies.push_back(mb); B.type.push_back(type);
    if (B.cls.empty()) B.cls.push_back(0);            // Ground
    B.cls.push_back(B.cls[p] | (B.fbNonDiagonal ? 1 : 0) | (B.fbConstantRotation ? 2 : 0) | ((rev && (type == 13 || type == 14)) ? 4 : 0));
    B.fbNonDiagonal |= o1; B.fbConstantRotation |= o2;
    if (rev && (type == 13 || type == 14)) B.reversedLine = true;
    B.tag.push_back(std::string("mob.") + TYPE_NAMES[type] + (rev ? ".rev" : ".fwd") + ".F" + std::to_string(fk) + "M" + std::to_string(mk));
    return (int)B.bodies.size() - 1;
}

static void buildTree(Built& B, vh::Rng& r, int nb) {
    B.bodies.push_back(B.matter.Ground()); B.type.push_back(-1); B.tag.push_back("ground");
    if (B.special == 1) {
        // RBNodeLoneParticle (RigidBodyNode_LoneParticle.cpp has its own operator code): Translation on Ground, forward,
        // identity frames, no children -- created AFTER mobilizers that own a quaternion slot, so that (in quaternion
        // mode) its q index differs from its u index; then possibly one more ordinary body after the particles.
        static const int QUATISH[] = {8, 10, 15, 13, 14, 17, 0, 6, 2};   // Ball Free Ellipsoid LineOrientation FreeLine CantileverFreeBeam | Pin Gimbal Universal
        const int npart = 1 + r.below(std::min(3, std::max(1, nb - 1)));
        const int tail = (nb - npart >= 2 && r.coin()) ? 1 : 0;
        const int nfirst = std::max(1, nb - npart - tail);
        for (int i = 0; i < nfirst; ++i)
            addOne(B, r, r.below((int)B.bodies.size()), i == 0 ? QUATISH[r.below(6)] : QUATISH[r.below(9)], -1, -1, -1);
        for (int i = 0; i < npart; ++i) B.particles.push_back(addOne(B, r, 0, 9, 0, 0, 0));
        for (int i = 0; i < tail; ++i) addOne(B, r, r.below(nfirst + 1), -1, -1, -1, -1);
    } else if (B.special == 2) {
        // Weld nodes (RigidBodyNode_Weld.cpp: own operator code): Weld to Ground with children, Weld chains under mobile
        // parents, leaf Welds with offset frames
        const int nmob = std::max(1, nb / 2);
        int g = addOne(B, r, 0, 11, -1, -1, 0);                              // Weld to Ground
        std::vector<int> mobile;
        for (int i = 0; i < nmob; ++i) mobile.push_back(addOne(B, r, (i == 0 || r.coin()) ? g : mobile[r.below((int)mobile.size())], -1, -1, -1, -1));
        int left = nb - 1 - nmob;
        while (left > 0) {
            int par = mobile[r.below((int)mobile.size())];
            int chain = 1 + r.below(std::min(left, 3));
            for (int c = 0; c < chain; ++c) par = addOne(B, r, par, 11, 1 + r.below(2), 1 + r.below(2), 0);   // offset frames
            B.leafWelds.push_back(par);
            if (r.below(3) == 0 && left - chain > 0) { mobile.push_back(addOne(B, r, par, -1, -1, -1, -1)); B.leafWelds.pop_back(); ++chain; }   // a mobile body outboard of a Weld chain
            left -= chain;
        }
    } else if (B.special == 3) {
        // mixed orders of mobilizers with and without a quaternion slot: q index != u index for most bodies
        static const int MIX[] = {8, 10, 0, 1, 2, 0, 8, 9, 3};
        int style = r.below(3);
        for (int i = 0; i < nb; ++i) {
            int p = style == 0 ? (int)B.bodies.size() - 1 : style == 1 ? (i < 2 ? 0 : 1 + r.below(2)) : r.below((int)B.bodies.size());
            addOne(B, r, p, MIX[r.below(9)], -1, -1, -1);
        }
    } else {
        int style = r.below(3);   // 0 chain, 1 star-ish, 2 random
        for (int i = 0; i < nb; ++i) {
            int p;
            if (style == 0) p = (int)B.bodies.size() - 1;
            else if (style == 1) p = (i < 2) ? 0 : 1 + r.below(2);
            else p = r.below((int)B.bodies.size());
            addOne(B, r, p, -1, -1, -1, -1);
        }
    }
    B.discrete = new Force::DiscreteForces(B.forces, B.matter);
}

static double maxAbs(const Vector& v) { double m = 0; for (int i = 0; i < v.size(); ++i) m = std::max(m, std::abs(v[i])); return m; }
static double maxAbsSV(const Vector_<SpatialVec>& v) { double m = 0; for (int i = 0; i < v.size(); ++i) for (int k = 0; k < 2; ++k) for (int j = 0; j < 3; ++j) m = std::max(m, std::abs(v[i][k][j])); return m; }
struct Err { double e = 0, s = 0; void add(double diff, double mag) { if (!(diff <= e)) e = diff; if (mag > s) s = mag; }
             void v3(const Vec3& a, const Vec3& b) { for (int i = 0; i < 3; ++i) add(std::abs(a[i] - b[i]), std::max(std::abs(a[i]), std::abs(b[i]))); }
             void sv(const SpatialVec& a, const SpatialVec& b) { v3(a[0], b[0]); v3(a[1], b[1]); }
             double rel() const { return e / std::max(s, 1.0); } };

static void runCase(uint64_t caseSeed, int nbMax) {
    vh::Rng r(caseSeed);
    int nbMin = nbMax > 12 ? 13 : 1;
    int nb = nbMin + r.below(nbMax - nbMin + 1);
    Built B;
    const bool euler = B.euler = r.below(3) == 0;
    B.avoidKnown = r.below(10) < 6;
    // a guaranteed share of structured trees for the special-cased node classes (see notes/C04.md, coverage)
    { int sp = r.below(10); B.special = sp < 2 ? 1 : sp < 4 ? 2 : sp < 5 ? 3 : 0; }
    if (B.special && nb < 3) nb = 3;
    buildTree(B, r, nb);
    nb = (int)B.bodies.size() - 1;
    MultibodySystem& sys = B.sys; SimbodyMatterSubsystem& matter = B.matter;
    State s = sys.realizeTopology();
    matter.setUseEulerAngles(s, euler);
    sys.realizeModel(s);
    const int nu = s.getNU(), nq = s.getNQ();
    // coordinates: quaternions normalised, angles away from the Euler / spherical singularities
    Vector q(nq);
    for (int i = 1; i <= nb; ++i) {
        const MobilizedBody& mb = B.bodies[i];
        int q0 = mb.getFirstQIndex(s), n = mb.getNumQ(s), k = 0;
        if (matter.isUsingQuaternion(s, mb.getMobilizedBodyIndex())) {
            Vec4 e(r.range(-1, 1), r.range(-1, 1), r.range(-1, 1), r.range(-1, 1));
            if (e.norm() < 0.1) e = Vec4(1, 0, 0, 0);
            e /= e.norm();
            for (; k < 4; ++k) q[q0 + k] = e[k];
        }
        for (; k < n; ++k) q[q0 + k] = r.range(-1.2, 1.2);
        if (B.type[i] == 4) q[q0 + 1] = r.range(0.4, 1.5);                                        // BendStretch: stretch > 0
        if (B.type[i] == 16) { q[q0 + 1] = r.range(0.3, 1.2); q[q0 + 2] = r.range(0.4, 1.5); }    // SphericalCoords
    }
    s.updQ() = q;
    Vector u(nu), v(nu), udot(nu);
    for (int i = 0; i < nu; ++i) { u[i] = r.range(-1, 1); v[i] = r.range(-1, 1); udot[i] = r.range(-2, 2); }
    s.updU() = u;
    // applied forces (only matter for the realized accelerations)
    Vector mobF(nu); for (int i = 0; i < nu; ++i) mobF[i] = r.range(-3, 3);
    B.discrete->setAllMobilityForces(s, mobF);
    for (int i = 1; i <= nb; ++i) B.discrete->setOneBodyForce(s, B.bodies[i], SpatialVec(rv(r, 2), rv(r, 2)));
    sys.realize(s, Stage::Velocity);

    const int nB = nb + 1;   // including Ground
    Vector_<SpatialVec> F(nB); for (int i = 0; i < nB; ++i) F[i] = SpatialVec(rv(r), rv(r));
    int nt = r.below(12) == 0 ? 0 : 1 + r.below(5);
    if (B.special == 1 || B.special == 2) nt = std::max(nt, 2);
    Array_<MobilizedBodyIndex> tb; Array_<Vec3> tp;
    for (int t = 0; t < nt; ++t) {
        int b;
        if (t > 0 && r.below(3) == 0) b = (int)tb[r.below(t)];         // repeated body
        else if (r.below(15) == 0) b = 0;                               // Ground task
        else b = 1 + r.below(nb);
        if (t < (int)B.particles.size() && r.below(4) != 0) b = B.particles[t];          // tasks on lone particles
        if (t < (int)B.leafWelds.size() && r.below(3) != 0) b = B.leafWelds[t];          // tasks on leaf Welds
        tb.push_back(MobilizedBodyIndex(b)); tp.push_back(rv(r));
    }
    Vector_<Vec3> fS(nt); Vector_<SpatialVec> FA(nt);
    for (int t = 0; t < nt; ++t) { fS[t] = rv(r); FA[t] = SpatialVec(rv(r), rv(r)); }
    std::vector<int> cols;
    if (nu <= 24) for (int j = 0; j < nu; ++j) cols.push_back(j);
    else for (int k = 0; k < 8; ++k) cols.push_back(r.below(nu));

    // ------------------------------------------------------------------ input record
    vh::Line in = vh::I("jac");
    in.s(std::to_string((unsigned long long)caseSeed)).i(nbMax).i(nb).i(nu).i(nt).i((long long)cols.size());
    for (int i = 1; i <= nb; ++i) {
        const MobilizedBody& mb = B.bodies[i];
        const MobilizedBody& par = mb.getParentMobilizedBody();
        int d = mb.getNumU(s);
        in.i((int)mb.getMobilizedBodyIndex()).i((int)par.getMobilizedBodyIndex()).i(d ? (int)mb.getFirstUIndex(s) : 0).i(d);
        Vec3 l = mb.getBodyOriginLocation(s) - par.getBodyOriginLocation(s);
        in.v(l, 3);
        const Rotation& R = mb.getBodyRotation(s);
        for (int a = 0; a < 3; ++a) for (int b = 0; b < 3; ++b) in.d(R.asMat33()(a, b));
        for (int k = 0; k < d; ++k) { SpatialVec h = mb.getHCol(s, MobilizerUIndex(k)); in.v(h[0], 3).v(h[1], 3); }
        const SpatialVec& a = matter.getMobilizerCoriolisAcceleration(s, mb.getMobilizedBodyIndex());
        in.v(a[0], 3).v(a[1], 3);
    }
    in.v(u, nu).v(v, nu).v(udot, nu);
    for (int i = 0; i < nB; ++i) in.v(F[i][0], 3).v(F[i][1], 3);
    for (int t = 0; t < nt; ++t) { in.i((int)tb[t]); in.v(tp[t], 3); }
    for (int t = 0; t < nt; ++t) in.v(fS[t], 3);
    for (int t = 0; t < nt; ++t) in.v(FA[t][0], 3).v(FA[t][1], 3);
    for (int j : cols) in.i(j);
    in.emit();

    // ------------------------------------------------------------------ implementation outputs
    auto putSVs = [](vh::Line& L, const Vector_<SpatialVec>& X) { for (int i = 0; i < X.size(); ++i) L.v(X[i][0], 3).v(X[i][1], 3); };
    Vector_<SpatialVec> Jv, Ju, A, bias, JFv, biasF; Vector JtF, JStf, JFtF, biasVec, biasSVec; Vector_<Vec3> JSv, biasS;
    matter.multiplyBySystemJacobian(s, v, Jv);
    matter.multiplyBySystemJacobian(s, u, Ju);
    matter.multiplyBySystemJacobianTranspose(s, F, JtF);
    matter.multiplyByStationJacobian(s, tb, tp, v, JSv);
    matter.multiplyByStationJacobianTranspose(s, tb, tp, fS, JStf);
    matter.multiplyByFrameJacobian(s, tb, tp, v, JFv);
    matter.multiplyByFrameJacobianTranspose(s, tb, tp, FA, JFtF);
    matter.calcBodyAccelerationFromUDot(s, udot, A);
    matter.calcBiasForSystemJacobian(s, bias);
    matter.calcBiasForSystemJacobian(s, biasVec);
    matter.calcBiasForStationJacobian(s, tb, tp, biasS);
    matter.calcBiasForStationJacobian(s, tb, tp, biasSVec);
    matter.calcBiasForFrameJacobian(s, tb, tp, biasF);
    Matrix_<SpatialVec> Jsv; Matrix Jm; Matrix_<Vec3> JS3; Matrix JSm; Matrix_<SpatialVec> JFsv; Matrix JFm;
    matter.calcSystemJacobian(s, Jsv); matter.calcSystemJacobian(s, Jm);
    matter.calcStationJacobian(s, tb, tp, JS3); matter.calcStationJacobian(s, tb, tp, JSm);
    matter.calcFrameJacobian(s, tb, tp, JFsv); matter.calcFrameJacobian(s, tb, tp, JFm);

    { vh::Line L = vh::O("Ju"); putSVs(L, Jv); L.emit(); }
    { vh::Line L = vh::O("Vstate"); for (int i = 0; i < nB; ++i) { const SpatialVec& V = B.bodies[i].getBodyVelocity(s); L.v(V[0], 3).v(V[1], 3); } L.emit(); }
    { vh::Line L = vh::O("JtF"); L.v(JtF, nu); L.emit(); }
    { vh::Line L = vh::O("JSu"); for (int t = 0; t < nt; ++t) L.v(JSv[t], 3); L.emit(); }
    { vh::Line L = vh::O("JStf"); L.v(JStf, nu); L.emit(); }
    { vh::Line L = vh::O("JFu"); putSVs(L, JFv); L.emit(); }
    { vh::Line L = vh::O("JFtF"); L.v(JFtF, nu); L.emit(); }
    { vh::Line L = vh::O("A"); putSVs(L, A); L.emit(); }
    { vh::Line L = vh::O("bias"); putSVs(L, bias); L.emit(); }
    { vh::Line L = vh::O("biasS"); for (int t = 0; t < nt; ++t) L.v(biasS[t], 3); L.emit(); }
    { vh::Line L = vh::O("biasF"); putSVs(L, biasF); L.emit(); }
    { vh::Line L = vh::O("Jcols"); for (int j : cols) for (int i = 0; i < nB; ++i) L.v(Jsv(i, j)[0], 3).v(Jsv(i, j)[1], 3); L.emit(); }
    { vh::Line L = vh::O("JSrows"); for (int t = 0; t < nt; ++t) for (int i = 0; i < 3; ++i) for (int j : cols) L.d(JS3(t, j)[i]); L.emit(); }
    { vh::Line L = vh::O("JFrows"); for (int t = 0; t < nt; ++t) for (int i = 0; i < 6; ++i) for (int j : cols) L.d(JFsv(t, j)[i / 3][i % 3]); L.emit(); }

    // ------------------------------------------------------------------ distribution
    vh::D(euler ? "angles.euler" : "angles.quaternion");
    vh::D("nb." + std::to_string(nb <= 3 ? nb : nb <= 6 ? 6 : nb <= 12 ? 12 : nb <= 24 ? 24 : 40));
    vh::D("nt." + std::to_string(nt));
    for (int i = 1; i <= nb; ++i) vh::D(B.tag[i]);
    {   // special-cased node classes and index layouts
        bool anyQneU = false, particleQneU = false;
        for (int i = 1; i <= nb; ++i) if (B.bodies[i].getNumU(s) > 0 && (int)B.bodies[i].getFirstQIndex(s) != (int)B.bodies[i].getFirstUIndex(s)) anyQneU = true;
        for (int i : B.particles) if ((int)B.bodies[i].getFirstQIndex(s) != (int)B.bodies[i].getFirstUIndex(s)) particleQneU = true;
        if (anyQneU) vh::D("class.qIndexNeUIndex");
        if (!B.particles.empty()) {
            vh::D(std::string("class.loneParticle.afterQuatSlot.") + (euler ? "euler" : "quaternion"));
            if (particleQneU) vh::D("class.loneParticle.qIndexNeUIndex");
            bool tasked = false; for (int t = 0; t < nt; ++t) for (int i : B.particles) if ((int)tb[t] == i) tasked = true;
            if (tasked) vh::D("class.loneParticle.hasTask");
        }
        if (B.special == 2) { vh::D("class.weld.structures"); bool tasked = false; for (int t = 0; t < nt; ++t) for (int i : B.leafWelds) if ((int)tb[t] == i) tasked = true; if (tasked) vh::D("class.weld.leafHasTask"); }
        if (B.special == 3) vh::D("class.mixedQuatOrders");
    }
    if (B.fbNonDiagonal) vh::D("class.FunctionBased.nondiagonalRotations");
    if (B.fbConstantRotation) vh::D("class.FunctionBased.constantRotationOffset");
    if (B.reversedLine && !euler) vh::D("class.reversedLine.quaternion");

    // ------------------------------------------------------------------ predicates on the implementation alone
    const double TOL = 1e-10;
    {   // J*u reproduces the velocities the state reports (bodies, stations, frames)
        Err e; for (int i = 0; i < nB; ++i) e.sv(Ju[i], B.bodies[i].getBodyVelocity(s));
        vh::P("Ju_eq_bodyVelocity", "sysJ.vel", e.rel(), TOL);
        Vector_<Vec3> JSu; Vector_<SpatialVec> JFu;
        matter.multiplyByStationJacobian(s, tb, tp, u, JSu); matter.multiplyByFrameJacobian(s, tb, tp, u, JFu);
        Err es, ef;
        for (int t = 0; t < nt; ++t) {
            const MobilizedBody& mb = B.bodies[(int)tb[t]];
            Vec3 vS = mb.findStationVelocityInGround(s, tp[t]);
            es.v3(JSu[t], vS);
            ef.sv(JFu[t], SpatialVec(mb.getBodyAngularVelocity(s), vS));
            if (t == 0) {   // single-task signatures
                es.v3(matter.multiplyByStationJacobian(s, tb[0], tp[0], u), vS);
                ef.sv(matter.multiplyByFrameJacobian(s, tb[0], tp[0], u), SpatialVec(mb.getBodyAngularVelocity(s), vS));
            }
        }
        vh::P("JSu_eq_stationVelocity", "stationJ.vel", es.rel(), TOL);
        vh::P("JFu_eq_frameVelocity", "frameJ.vel", ef.rel(), TOL);
    }
    {   // transposes are adjoints: <F, J v> = <~J F, v>
        double lhs = 0, sc = 0;
        for (int i = 0; i < nB; ++i) for (int k = 0; k < 2; ++k) { lhs += dot(F[i][k], Jv[i][k]); sc += std::abs(dot(F[i][k], Jv[i][k])); }
        double rhs = 0; for (int j = 0; j < nu; ++j) { rhs += JtF[j] * v[j]; sc += std::abs(JtF[j] * v[j]); }
        vh::P("adjoint_system", "sysJ.adjoint", std::abs(lhs - rhs) / std::max(sc, 1.0), TOL);
        lhs = rhs = sc = 0;
        for (int t = 0; t < nt; ++t) { lhs += dot(fS[t], JSv[t]); sc += std::abs(dot(fS[t], JSv[t])); }
        for (int j = 0; j < nu; ++j) { rhs += JStf[j] * v[j]; sc += std::abs(JStf[j] * v[j]); }
        vh::P("adjoint_station", "stationJ.adjoint", std::abs(lhs - rhs) / std::max(sc, 1.0), TOL);
        lhs = rhs = sc = 0;
        for (int t = 0; t < nt; ++t) for (int k = 0; k < 2; ++k) { lhs += dot(FA[t][k], JFv[t][k]); sc += std::abs(dot(FA[t][k], JFv[t][k])); }
        for (int j = 0; j < nu; ++j) { rhs += JFtF[j] * v[j]; sc += std::abs(JFtF[j] * v[j]); }
        vh::P("adjoint_frame", "frameJ.adjoint", std::abs(lhs - rhs) / std::max(sc, 1.0), TOL);
    }
    {   // explicit matrices: columns = operator on unit vectors; both storage signatures agree; M*v = operator(v)
        Err ec, eo, em;
        Vector ej(nu, Real(0)); Vector_<SpatialVec> col; Vector_<Vec3> cS; Vector_<SpatialVec> cF;
        bool shapeOK = Jsv.nrow() == nB && Jsv.ncol() == nu && Jm.nrow() == 6 * nB && Jm.ncol() == nu &&
                       JS3.nrow() == nt && JS3.ncol() == nu && JSm.nrow() == 3 * nt && JSm.ncol() == nu &&
                       JFsv.nrow() == nt && JFsv.ncol() == nu && JFm.nrow() == 6 * nt && JFm.ncol() == nu;
        vh::P("matrix_shapes", "calcJ.shape", shapeOK ? 0 : 1, 0);
        if (shapeOK) {
            Err ecS, ecF;
            for (int j = 0; j < nu; ++j) {
                ej[j] = 1;
                matter.multiplyBySystemJacobian(s, ej, col);
                matter.multiplyByStationJacobian(s, tb, tp, ej, cS);
                matter.multiplyByFrameJacobian(s, tb, tp, ej, cF);
                ej[j] = 0;
                for (int i = 0; i < nB; ++i) {
                    ec.sv(Jsv(i, j), col[i]);
                    for (int k = 0; k < 6; ++k) eo.add(std::abs(Jm(6 * i + k, j) - Jsv(i, j)[k / 3][k % 3]), std::abs(Jm(6 * i + k, j)));
                }
                for (int t = 0; t < nt; ++t) {
                    ecS.v3(JS3(t, j), cS[t]); ecF.sv(JFsv(t, j), cF[t]);
                    for (int k = 0; k < 3; ++k) eo.add(std::abs(JSm(3 * t + k, j) - JS3(t, j)[k]), std::abs(JSm(3 * t + k, j)));
                    for (int k = 0; k < 6; ++k) eo.add(std::abs(JFm(6 * t + k, j) - JFsv(t, j)[k / 3][k % 3]), std::abs(JFm(6 * t + k, j)));
                }
            }
            vh::P("columns_system", "calcJ.sys.columns", ec.rel(), TOL);
            vh::P("columns_station", "calcJ.station.columns", ecS.rel(), TOL);
            vh::P("columns_frame", "calcJ.frame.columns", ecF.rel(), TOL);
            vh::P("matrix_signatures_agree", "calcJ.signatures", eo.rel(), TOL);
            // matrix-vector products against the operators (and transposes)
            Vector Jmv = Jm * v; for (int i = 0; i < nB; ++i) for (int k = 0; k < 6; ++k) em.add(std::abs(Jmv[6 * i + k] - Jv[i][k / 3][k % 3]), std::abs(Jmv[6 * i + k]));
            if (nt > 0) {
                Vector JSmv = JSm * v, JFmv = JFm * v;
                for (int t = 0; t < nt; ++t) { for (int k = 0; k < 3; ++k) em.add(std::abs(JSmv[3 * t + k] - JSv[t][k]), std::abs(JSmv[3 * t + k]));
                                               for (int k = 0; k < 6; ++k) em.add(std::abs(JFmv[6 * t + k] - JFv[t][k / 3][k % 3]), std::abs(JFmv[6 * t + k])); }
                Vector fSflat(3 * nt), FAflat(6 * nt);
                for (int t = 0; t < nt; ++t) { for (int k = 0; k < 3; ++k) fSflat[3 * t + k] = fS[t][k]; for (int k = 0; k < 6; ++k) FAflat[6 * t + k] = FA[t][k / 3][k % 3]; }
                Vector a1 = ~JSm * fSflat, a2 = ~JFm * FAflat;
                for (int j = 0; j < nu; ++j) { em.add(std::abs(a1[j] - JStf[j]), std::abs(a1[j])); em.add(std::abs(a2[j] - JFtF[j]), std::abs(a2[j])); }
            }
            Vector Fflat(6 * nB); for (int i = 0; i < nB; ++i) for (int k = 0; k < 6; ++k) Fflat[6 * i + k] = F[i][k / 3][k % 3];
            Vector a0 = ~Jm * Fflat; for (int j = 0; j < nu; ++j) em.add(std::abs(a0[j] - JtF[j]), std::abs(a0[j]));
            vh::P("matrix_times_vector", "calcJ.matvec", em.rel(), 100 * TOL);
        }
    }
    {   // bias terms at operator level:  A(udot) = J*udot + JDot*u
        Vector_<SpatialVec> Jud, A0; matter.multiplyBySystemJacobian(s, udot, Jud);
        Err e, e0, ev;
        for (int i = 0; i < nB; ++i) { e.sv(A[i], Jud[i] + bias[i]); for (int k = 0; k < 6; ++k) ev.add(std::abs(biasVec[6 * i + k] - bias[i][k / 3][k % 3]), std::abs(biasVec[6 * i + k])); }
        matter.calcBodyAccelerationFromUDot(s, Vector(), A0);     // zero-length udot means udot = 0
        for (int i = 0; i < nB; ++i) e0.sv(A0[i], bias[i]);
        for (int t = 0; t < nt; ++t) for (int k = 0; k < 3; ++k) ev.add(std::abs(biasSVec[3 * t + k] - biasS[t][k]), std::abs(biasS[t][k]));
        vh::P("A_eq_Judot_plus_bias", "sysJ.bias", e.rel(), TOL);
        vh::P("A_zero_udot_eq_bias", "sysJ.bias0", e0.rel(), TOL);
        vh::P("bias_signatures_agree", "bias.signatures", ev.rel(), TOL);
    }
    {   // JDot*u really is the time derivative of J along the motion: central difference of J(q(t)) u
        const double h = 1e-5;
        const Vector qdot = s.getQDot();
        State sp = s, sm = s;
        sp.updQ() = s.getQ() + h * qdot; sm.updQ() = s.getQ() - h * qdot;
        sys.realize(sp, Stage::Position); sys.realize(sm, Stage::Position);
        Vector_<SpatialVec> Jp, Jmn; matter.multiplyBySystemJacobian(sp, u, Jp); matter.multiplyBySystemJacobian(sm, u, Jmn);
        // Per BODY class: the bias of a body depends only on its inboard path, so a body is judged under a known-defect key
        // only if a mobilizer of that class lies on its own path to Ground (see notes/C04.md); every other body of every
        // tree is judged under the plain key.
        Err e0, e1, e2, e4; int n1 = 0, n2 = 0, n4 = 0;
        for (int i = 0; i < nB; ++i) {
            const int c = B.cls.empty() ? 0 : B.cls[i];
            const SpatialVec fd = (Jp[i] - Jmn[i]) / (2 * h);
            if (c & 1) { e1.sv(fd, bias[i]); ++n1; }
            else if (c & 2) { e2.sv(fd, bias[i]); ++n2; }
            else if ((c & 4) && !euler) { e4.sv(fd, bias[i]); ++n4; }
            else e0.sv(fd, bias[i]);
        }
        vh::P("bias_eq_dJdt_u_central_difference", "sysJ.bias.fd", e0.rel(), 2e-6);
        if (n1) vh::P("bias_eq_dJdt_u_central_difference", "sysJ.bias.fd.FunctionBased.nondiagonalRotations", e1.rel(), 2e-6);
        if (n2) vh::P("bias_eq_dJdt_u_central_difference", "sysJ.bias.fd.FunctionBased.constantRotationOffset", e2.rel(), 2e-6);
        if (n4) vh::P("bias_eq_dJdt_u_central_difference", "sysJ.bias.fd.reversedLine.quaternion", e4.rel(), 2e-6);
    }
    {   // bias terms against the accelerations the state reports after realize(Acceleration) with its udot
        sys.realize(s, Stage::Acceleration);
        const Vector& ud = s.getUDot();
        Vector_<SpatialVec> Jud, Ar, JFud; Vector_<Vec3> JSud;
        matter.multiplyBySystemJacobian(s, ud, Jud);
        matter.calcBodyAccelerationFromUDot(s, ud, Ar);
        matter.multiplyByStationJacobian(s, tb, tp, ud, JSud);
        matter.multiplyByFrameJacobian(s, tb, tp, ud, JFud);
        Err e, es, ef;
        for (int i = 0; i < nB; ++i) { e.sv(B.bodies[i].getBodyAcceleration(s), Jud[i] + bias[i]); e.sv(B.bodies[i].getBodyAcceleration(s), Ar[i]); }
        for (int t = 0; t < nt; ++t) {
            const MobilizedBody& mb = B.bodies[(int)tb[t]];
            Vec3 aS = mb.findStationAccelerationInGround(s, tp[t]);
            es.v3(aS, JSud[t] + biasS[t]);
            ef.sv(SpatialVec(mb.getBodyAngularAcceleration(s), aS), JFud[t] + biasF[t]);
            if (t == 0) {
                es.v3(aS, JSud[0] + matter.calcBiasForStationJacobian(s, tb[0], tp[0]));
                ef.sv(SpatialVec(mb.getBodyAngularAcceleration(s), aS), JFud[0] + matter.calcBiasForFrameJacobian(s, tb[0], tp[0]));
            }
        }
        double as = std::max(1.0, maxAbs(ud));
        vh::P("realized_A_eq_Judot_plus_bias", "sysJ.bias.realized", e.rel(), TOL * as);
        vh::P("realized_station_acc", "stationJ.bias.realized", es.rel(), TOL * as);
        vh::P("realized_frame_acc", "frameJ.bias.realized", ef.rel(), TOL * as);
    }
}

int main(int argc, char** argv) {
    vh::Args a(argc, argv);
    try {
        if (a.mode == "replay") {
            std::string line;
            while (std::getline(std::cin, line)) {
                std::istringstream is(line); std::string k, fn; is >> k >> fn;
                if (k != "I" || fn != "jac") continue;
                unsigned long long cs; int nbMax; is >> cs >> nbMax;
                runCase(cs, nbMax);
            }
            return 0;
        }
        int nbMax = a.mode == "big" ? 40 : 12;
        long n = a.mode == "big" ? std::max<long>(1, a.n / 10) : a.n;
        vh::Rng top(a.seed * 1000003ull + (a.mode == "big" ? 7777 : 4242));
        for (long c = 0; c < n; ++c) runCase(top.next() >> 1, nbMax);
    } catch (const std::exception& e) {
        std::printf("O jac EXC:%s\n", e.what());
        std::fprintf(stderr, "exception: %s\n", e.what());
        return 3;
    }
    return 0;
}
