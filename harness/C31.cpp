// C31 correspondence harness: SimTK::Random::Uniform / Gaussian (public API) and, when the library exports
// them, the SFMT entry points themselves (looked up with dlsym, so the harness keeps compiling and running if a
// refactor hides them).  Model: lean/SimbodyModel/C31.lean, driver lean/Drivers/C31.lean.
//
// Records (seeds and counts decimal, doubles as 16-hex-digit bit patterns, raw SFMT words decimal):
//   I U   seed min max skip n          Uniform(min,max); setSeed(seed); skip draws; n x getValue       -> O U  <n doubles>
//   I UI  seed min max skip n          same with getIntValue                                            -> O UI <n ints>
//   I G   seed mean sd skip n          Gaussian(mean,sd)                                                -> O G  <n doubles>  (libm: T line)
//   I FA  seed min max len show        Uniform fillArray(len); last `show` entries                      -> O FA …
//   I FAG seed mean sd len show        Gaussian fillArray
//   I RS  seedA k seedB n              Uniform(0,1): k draws, setSeed(seedB), n draws: last pre + n post
//   I RSG seedA k seedB n              Gaussian(0,1) likewise (k odd leaves a cached second value that setSeed must drop)
//   I IL  seedA seedB n mask           two Uniform(0,1) objects drawn from alternately according to the bits of mask
//   I SM  seed min max k which min2 max2 n   k draws, setMin and/or setMax (which=0 both,1 min,2 max), n draws
//   I S32 seed skip n / I S64 seed skip n    init_gen_rand + gen_rand32 / gen_rand64                    (direct, optional)
//   I SF64 seed size reps show / I SF32 …    repeated fill_array64/32(size); last `show` words         (direct, optional)
//   I SMIX seed k size n               k*N64 gen_rand64 draws, one fill_array64(size), n gen_rand64    (direct, optional)
//   I KAT                              first five gen_rand32 after init_gen_rand(1234)                  (direct, optional)
//   I KATP                             Uniform(0,1), seed 1234, first 3 values (public API known answer)
//   I REF seed n                       library words 0-2, 622-625, n-2, n-1 of gen_rand32, a checksum of all n, and Uniform(0,1) draw n/2;
//                                      P: the library equals an independent SFMT-19937 written from the recurrence (32/64-bit, fill, public stream)
//   I STI seed a b n                   integer mode on [a,b): bucket counts + draws outside; P chi-square
//   I STU seed min max n / I STG seed mean sd n     sample mean and variance of n values
//   I F8 raw min max mode              the value getValue()/getIntValue() returns when the raw word drawn is `raw`
//                                      (through the SIMBODY_VERIF injection hook when the library has it; otherwise the
//                                      harness evaluates the two formulas of Random.cpp/SFMT.h itself: D F8.arith)
// P lines: range predicates (key Random.Uniform.get[Int]Value.{ge_min,le_max,returns_max}), determinism, fillArray ==
// getValue sequence, independence of objects, published SFMT known answer, mean/variance z-scores.
#include "SimTKcommon.h"
#include "hcommon.h"
#include <dlfcn.h>
#include <memory>
using namespace SimTK;
using vh::hex;

// ---------------------------------------------------------------------------------------------------------------
// optional direct access to SFMT.cpp's exported functions (Itanium-mangled names) and to the injection hook
namespace direct {
struct SFMTData;
typedef SFMTData* (*create_t)();
typedef void (*delete_t)(SFMTData*);
typedef void (*init_t)(uint32_t, SFMTData*);
typedef uint32_t (*g32_t)(SFMTData*);
typedef uint64_t (*g64_t)(SFMTData*);
typedef void (*f32_t)(uint32_t*, int, SFMTData*);
typedef void (*f64_t)(uint64_t*, int, SFMTData*);
typedef int (*min_t)();
static create_t create; static delete_t destroy; static init_t init; static g32_t g32; static g64_t g64;
static f32_t f32; static f64_t f64; static min_t min32, min64;
static bool ok = false;
static uint64_t** forceRaw = nullptr;   // &SimTK_verif_forceRaw when the hook is compiled in
static void load() {
    create = (create_t)dlsym(RTLD_DEFAULT, "_ZN10SimTK_SFMT14createSFMTDataEv");
    destroy = (delete_t)dlsym(RTLD_DEFAULT, "_ZN10SimTK_SFMT14deleteSFMTDataEPNS_8SFMTDataE");
    init = (init_t)dlsym(RTLD_DEFAULT, "_ZN10SimTK_SFMT13init_gen_randEjRNS_8SFMTDataE");
    g32 = (g32_t)dlsym(RTLD_DEFAULT, "_ZN10SimTK_SFMT10gen_rand32ERNS_8SFMTDataE");
    g64 = (g64_t)dlsym(RTLD_DEFAULT, "_ZN10SimTK_SFMT10gen_rand64ERNS_8SFMTDataE");
    f32 = (f32_t)dlsym(RTLD_DEFAULT, "_ZN10SimTK_SFMT12fill_array32EPjiRNS_8SFMTDataE");
    f64 = (f64_t)dlsym(RTLD_DEFAULT, "_ZN10SimTK_SFMT12fill_array64EPmiRNS_8SFMTDataE");
    min32 = (min_t)dlsym(RTLD_DEFAULT, "_ZN10SimTK_SFMT20get_min_array_size32Ev");
    min64 = (min_t)dlsym(RTLD_DEFAULT, "_ZN10SimTK_SFMT20get_min_array_size64Ev");
    ok = create && destroy && init && g32 && g64 && f32 && f64 && min32 && min64;
    forceRaw = (uint64_t**)dlsym(RTLD_DEFAULT, "SimTK_verif_forceRaw");
}
struct Gen {
    SFMTData* d;
    explicit Gen(uint32_t seed) : d(create()) { init(seed, d); }
    ~Gen() { destroy(d); }
};
}

static const int N32 = 624, N64 = 312;

// ---------------------------------------------------------------------------------------------------------------
static std::string rangeClass(double mn, double mx) {
    if (mn == 0 && mx == 1) return "unit";
    double r = mx - mn, m = std::max(std::fabs(mn), std::fabs(mx));
    if (r <= 16 * m * 2.220446049250313e-16) return "tiny";
    if (mx <= 0) return "negative";
    if (mn < 0) return "straddle";
    return "positive";
}
// range predicates.  The value of the `returns_max` predicate (finding F8) is the number of draws equal to max in the
// record, except for tiny ranges (a few ulps wide, where rounding must land on max) where it is the *fraction* of such draws:
// on the unchanged tree it is <= 1 in every class, so a cap of 1 on the known-finding entry still flags a regression that
// returns max systematically.  Returns true when max was hit (the caller then repeats the record without P lines so that the
// O-line comparison with the model is never lost on exactly these records).
static bool rangePreds(const char* fn, const std::vector<double>& v, double mn, double mx) {
    double below = 0, above = 0, atmax = 0;
    for (double x : v) { if (!(x >= mn)) below++; if (x > mx) above++; if (x == mx) atmax++; }
    std::string k = std::string("Random.Uniform.") + fn;
    vh::P("ge_min", k + ".ge_min", below, 0);
    vh::P("le_max", k + ".le_max", above, 0);
    bool tiny = rangeClass(mn, mx) == "tiny";
    vh::P("lt_max", k + ".returns_max", tiny && !v.empty() ? atmax / (double)v.size() : atmax, 0);      // finding F8 when it fails
    if (atmax > 0) vh::D(std::string("returns_max.") + fn + "." + rangeClass(mn, mx));
    return atmax > 0;
}
static void seedAndSkip(Random& r, int seed, long skip) { r.setSeed(seed); for (long i = 0; i < skip; ++i) r.getValue(); }

static void caseU(int seed, double mn, double mx, long skip, int n) {
    Random::Uniform u(mn, mx); seedAndSkip(u, seed, skip);
    std::vector<double> v(n); for (auto& x : v) x = u.getValue();
    vh::I("U").i(seed).d(mn).d(mx).i(skip).i(n).emit();
    vh::Line o = vh::O("U"); for (double x : v) o.d(x); o.emit();
    vh::D("U." + rangeClass(mn, mx) + (skip + n > 1024 ? ".refill" : ""));
    bool hit = rangePreds("getValue", v, mn, mx);
    // determinism: a second object and the same object reseeded give the identical sequence
    Random::Uniform u2(mn, mx); seedAndSkip(u2, seed, skip); seedAndSkip(u, seed, skip);
    double diff = 0; for (double x : v) { double a = u2.getValue(), b = u.getValue(); if (hex(a) != hex(x) || hex(b) != hex(x)) diff++; }
    vh::P("deterministic", "Random.Uniform.getValue.same_seed_same_sequence", diff, 0);
    if (hit) {   // correspondence-only twin of a record whose F8 predicate failed
        vh::I("U").i(seed).d(mn).d(mx).i(skip).i(n).emit();
        vh::Line o2 = vh::O("U"); for (double x : v) o2.d(x); o2.emit();
        vh::D("U.twin_without_predicates");
    }
}
static void caseUI(int seed, double mn, double mx, long skip, int n, const char* cls) {
    Random::Uniform u(mn, mx); seedAndSkip(u, seed, skip);
    std::vector<double> v(n); for (auto& x : v) x = (double)u.getIntValue();
    vh::I("UI").i(seed).d(mn).d(mx).i(skip).i(n).emit();
    vh::Line o = vh::O("UI"); for (double x : v) o.i((long long)x); o.emit();
    vh::D(std::string("UI.") + cls);
    bool hit = rangePreds("getIntValue", v, mn, mx);
    Random::Uniform u2(mn, mx); seedAndSkip(u2, seed, skip);
    double diff = 0; for (double x : v) if ((double)u2.getIntValue() != x) diff++;
    vh::P("deterministic", "Random.Uniform.getIntValue.same_seed_same_sequence", diff, 0);
    if (hit) {
        vh::I("UI").i(seed).d(mn).d(mx).i(skip).i(n).emit();
        vh::Line o2 = vh::O("UI"); for (double x : v) o2.i((long long)x); o2.emit();
        vh::D("UI.twin_without_predicates");
    }
}
static void caseG(int seed, double m, double s, long skip, int n) {
    Random::Gaussian g(m, s); seedAndSkip(g, seed, skip);
    std::vector<double> v(n); for (auto& x : v) x = g.getValue();
    vh::I("G").i(seed).d(m).d(s).i(skip).i(n).emit();
    std::printf("T 1e-13 1e-15\n");
    vh::Line o = vh::O("G"); for (double x : v) o.d(x); o.emit();
    vh::D(std::string("G") + (skip % 2 ? ".odd_skip" : ".even_skip"));
    Random::Gaussian g2(m, s); seedAndSkip(g2, seed, skip); seedAndSkip(g, seed, skip);
    double diff = 0, nonfinite = 0;
    for (double x : v) { double a = g2.getValue(), b = g.getValue(); if (hex(a) != hex(x) || hex(b) != hex(x)) diff++; if (!std::isfinite(x)) nonfinite++; }
    vh::P("deterministic", "Random.Gaussian.getValue.same_seed_same_sequence", diff, 0);
    vh::P("finite", "Random.Gaussian.getValue.finite", nonfinite, 0);
}
static void caseFA(int seed, double mn, double mx, int len, int show) {
    Random::Uniform u(mn, mx); u.setSeed(seed);
    std::vector<double> a(len + 1); u.fillArray(a.data(), len);
    vh::I("FA").i(seed).d(mn).d(mx).i(len).i(show).emit();
    vh::Line o = vh::O("FA"); for (int i = len - show; i < len; ++i) o.d(a[i]); o.emit();
    vh::D("FA");
    Random::Uniform u2(mn, mx); u2.setSeed(seed);
    double diff = 0; for (int i = 0; i < len; ++i) if (hex(u2.getValue()) != hex(a[i])) diff++;
    vh::P("fill_equals_getValue", "Random.fillArray.equals_getValue_sequence", diff, 0);
    a.resize(len); rangePreds("getValue", a, mn, mx);
}
static void caseFAG(int seed, double m, double s, int len, int show) {
    Random::Gaussian g(m, s); g.setSeed(seed);
    std::vector<double> a(len + 1); g.fillArray(a.data(), len);
    vh::I("FAG").i(seed).d(m).d(s).i(len).i(show).emit();
    std::printf("T 1e-13 1e-15\n");
    vh::Line o = vh::O("FAG"); for (int i = len - show; i < len; ++i) o.d(a[i]); o.emit();
    vh::D("FAG");
    Random::Gaussian g2(m, s); g2.setSeed(seed);
    double diff = 0; for (int i = 0; i < len; ++i) if (hex(g2.getValue()) != hex(a[i])) diff++;
    vh::P("fill_equals_getValue", "Random.fillArray.equals_getValue_sequence", diff, 0);
}
static void caseRS(int seedA, int k, int seedB, int n) {
    Random::Uniform u; u.setSeed(seedA);
    double last = 0; for (int i = 0; i < k; ++i) last = u.getValue();
    u.setSeed(seedB);
    std::vector<double> v(n); for (auto& x : v) x = u.getValue();
    vh::I("RS").i(seedA).i(k).i(seedB).i(n).emit();
    vh::Line o = vh::O("RS"); if (k > 0) o.d(last); for (double x : v) o.d(x); o.emit();
    vh::D("RS");
    Random::Uniform f; f.setSeed(seedB);
    double diff = 0; for (double x : v) if (hex(f.getValue()) != hex(x)) diff++;
    vh::P("reseed_equals_fresh", "Random.Uniform.setSeed.midstream_equals_fresh", diff, 0);
}
static void caseRSG(int seedA, int k, int seedB, int n) {
    Random::Gaussian g; g.setSeed(seedA);
    double last = 0; for (int i = 0; i < k; ++i) last = g.getValue();
    g.setSeed(seedB);
    std::vector<double> v(n); for (auto& x : v) x = g.getValue();
    vh::I("RSG").i(seedA).i(k).i(seedB).i(n).emit();
    std::printf("T 1e-13 1e-15\n");
    vh::Line o = vh::O("RSG"); if (k > 0) o.d(last); for (double x : v) o.d(x); o.emit();
    vh::D(std::string("RSG") + (k % 2 ? ".cached_value_pending" : ".no_cached_value"));
    Random::Gaussian f; f.setSeed(seedB);
    double diff = 0; for (double x : v) if (hex(f.getValue()) != hex(x)) diff++;
    vh::P("reseed_equals_fresh", "Random.Gaussian.setSeed.midstream_equals_fresh", diff, 0);
}
static void caseIL(int seedA, int seedB, int n, unsigned long long mask) {
    Random::Uniform a, b; a.setSeed(seedA); b.setSeed(seedB);
    std::vector<double> v(n); std::vector<int> who(n);
    for (int j = 0; j < n; ++j) { who[j] = (mask >> j) & 1; v[j] = who[j] ? a.getValue() : b.getValue(); }
    vh::I("IL").i(seedA).i(seedB).i(n).s(std::to_string(mask)).emit();
    vh::Line o = vh::O("IL"); for (double x : v) o.d(x); o.emit();
    vh::D("IL");
    Random::Uniform a2, b2; a2.setSeed(seedA); b2.setSeed(seedB);   // each object alone
    double diff = 0;
    for (int j = 0; j < n; ++j) if (who[j] && hex(a2.getValue()) != hex(v[j])) diff++;
    for (int j = 0; j < n; ++j) if (!who[j] && hex(b2.getValue()) != hex(v[j])) diff++;
    vh::P("independent_objects", "Random.Uniform.interleaved_objects_independent", diff, 0);
}
static void caseSM(int seed, double mn, double mx, int k, int which, double mn2, double mx2, int n) {
    Random::Uniform u(mn, mx); u.setSeed(seed);
    double last = 0; for (int i = 0; i < k; ++i) last = u.getValue();
    if (which == 0 || which == 1) u.setMin(mn2);
    if (which == 0 || which == 2) u.setMax(mx2);
    std::vector<double> v(n); for (auto& x : v) x = u.getValue();
    vh::I("SM").i(seed).d(mn).d(mx).i(k).i(which).d(mn2).d(mx2).i(n).emit();
    vh::Line o = vh::O("SM"); if (k > 0) o.d(last); for (double x : v) o.d(x); o.emit();
    vh::D("SM.which" + std::to_string(which));
    rangePreds("getValue", v, u.getMin(), u.getMax());
    double bad = 0;
    if ((which == 0 || which == 1) ? u.getMin() != mn2 : u.getMin() != mn) bad++;
    if ((which == 0 || which == 2) ? u.getMax() != mx2 : u.getMax() != mx) bad++;
    vh::P("getters", "Random.Uniform.setMinMax.getters", bad, 0);
}
static void caseS32(uint32_t seed, int skip, int n) {
    direct::Gen g(seed); for (int i = 0; i < skip; ++i) direct::g32(g.d);
    vh::I("S32").i((int)seed).i(skip).i(n).emit();
    vh::Line o = vh::O("S32"); for (int i = 0; i < n; ++i) o.i(direct::g32(g.d)); o.emit();
    vh::D("S32");
}
static void caseS64(uint32_t seed, int skip, int n) {
    direct::Gen g(seed); for (int i = 0; i < skip; ++i) direct::g64(g.d);
    vh::I("S64").i((int)seed).i(skip).i(n).emit();
    vh::Line o = vh::O("S64"); for (int i = 0; i < n; ++i) o.s(std::to_string(direct::g64(g.d))); o.emit();
    vh::D("S64");
}
static void caseSF64(uint32_t seed, int size, int reps, int show) {
    direct::Gen g(seed); std::vector<uint64_t> a(size + 2);
    for (int r = 0; r < reps; ++r) direct::f64((uint64_t*)a.data(), size, g.d);
    vh::I("SF64").i((int)seed).i(size).i(reps).i(show).emit();
    vh::Line o = vh::O("SF64"); for (int i = size - show; i < size; ++i) o.s(std::to_string(a[i])); o.emit();
    vh::D(size < 2 * N64 ? "SF64.size_lt_2N" : "SF64.size_ge_2N");
    // reference property of SFMT: block generation equals sequential generation
    direct::Gen h(seed); double diff = 0;
    for (long i = 0; i < (long)size * (reps - 1); ++i) direct::g64(h.d);
    for (int i = 0; i < size; ++i) if (direct::g64(h.d) != a[i]) diff++;
    vh::P("fill_equals_sequential", "SFMT.fill_array64.equals_gen_rand64_sequence", diff, 0);
}
static void caseSF32(uint32_t seed, int size, int reps, int show) {
    direct::Gen g(seed); std::vector<uint32_t> a(size + 4);
    for (int r = 0; r < reps; ++r) direct::f32(a.data(), size, g.d);
    vh::I("SF32").i((int)seed).i(size).i(reps).i(show).emit();
    vh::Line o = vh::O("SF32"); for (int i = size - show; i < size; ++i) o.i(a[i]); o.emit();
    vh::D(size < 2 * N32 ? "SF32.size_lt_2N" : "SF32.size_ge_2N");
    direct::Gen h(seed); double diff = 0;
    for (long i = 0; i < (long)size * (reps - 1); ++i) direct::g32(h.d);
    for (int i = 0; i < size; ++i) if (direct::g32(h.d) != a[i]) diff++;
    vh::P("fill_equals_sequential", "SFMT.fill_array32.equals_gen_rand32_sequence", diff, 0);
}
static void caseSMIX(uint32_t seed, int k, int size, int n) {
    direct::Gen g(seed); for (long i = 0; i < (long)k * N64; ++i) direct::g64(g.d);
    std::vector<uint64_t> a(size + 2); direct::f64((uint64_t*)a.data(), size, g.d);
    vh::I("SMIX").i((int)seed).i(k).i(size).i(n).emit();
    vh::Line o = vh::O("SMIX"); o.s(std::to_string(a[size - 2])).s(std::to_string(a[size - 1]));
    for (int i = 0; i < n; ++i) o.s(std::to_string(direct::g64(g.d))); o.emit();
    vh::D("SMIX");
}
static const uint32_t KAT[5] = {3440181298u, 1564997079u, 1510669302u, 2930277156u, 1452439940u};  // SFMT.19937.out.txt, init_gen_rand(1234)
static void caseKAT() {
    direct::Gen g(1234); uint32_t v[5]; double diff = 0;
    for (int i = 0; i < 5; ++i) { v[i] = direct::g32(g.d); if (v[i] != KAT[i]) diff++; }
    vh::I("KAT").emit();
    vh::Line o = vh::O("KAT"); for (int i = 0; i < 5; ++i) o.i(v[i]); o.emit();
    vh::D("KAT.direct");
    vh::P("reference_output", "SFMT.gen_rand32.seed1234.published_reference", diff, 0);
}
static double res53(uint64_t v) { return v * (1.0 / 18446744073709551616.0L); }   // SFMT.h to_res53, verbatim
static void caseKATP() {
    Random::Uniform u; u.setSeed(1234);
    double v[3]; for (double& x : v) x = u.getValue();
    vh::I("KATP").emit();
    vh::Line o = vh::O("KATP"); for (double x : v) o.d(x); o.emit();
    vh::D("KAT.public");
    // the first two doubles are the published 32-bit words 0..3 paired little-endian and scaled by 2^-64
    double e0 = res53(((uint64_t)KAT[1] << 32) | KAT[0]), e1 = res53(((uint64_t)KAT[3] << 32) | KAT[2]);
    vh::P("reference_output", "Random.Uniform.seed1234.published_reference", (v[0] != e0) + (v[1] != e1), 0);
}
// ---------------------------------------------------------------------------------------------------------------
// SFMT-19937 written independently from the defining recurrence of Saito & Matsumoto (MCQMC 2006), not from /repo:
//   w_n = w_{n-N} ^ (w_{n-N} <<128 8) ^ ((w_{n-N+122} >>32 11) & MSK) ^ (w_{n-2} >>128 8) ^ (w_{n-1} <<32 18),   N = 156,
// 128-bit words held in unsigned __int128 (lane k = bits 32k..32k+31), seeding by the MT19937 LCG 1812433253 and the
// period certification with parity vector (1, 0, 0, 0x13c9e684).  Used as the reference the library is compared with over
// thousands of words (the published SFMT.19937.out.txt prefix known with certainty is only five words long).
namespace ref {
typedef unsigned __int128 u128;
static u128 pack(uint32_t a, uint32_t b, uint32_t c, uint32_t d) { return (u128)a | ((u128)b << 32) | ((u128)c << 64) | ((u128)d << 96); }
static uint32_t lane(u128 x, int k) { return (uint32_t)(x >> (32 * k)); }
static u128 shr32(u128 x, int s) { return pack(lane(x, 0) >> s, lane(x, 1) >> s, lane(x, 2) >> s, lane(x, 3) >> s); }
static u128 shl32(u128 x, int s) { return pack(lane(x, 0) << s, lane(x, 1) << s, lane(x, 2) << s, lane(x, 3) << s); }
struct Sfmt {
    enum { N = 156 };
    u128 w[N]; int pos;      // pos: index of the next 32-bit word inside the current block (4N = block used up)
    explicit Sfmt(uint32_t seed) {
        uint32_t s[4 * N]; s[0] = seed;
        for (int i = 1; i < 4 * N; ++i) s[i] = 1812433253u * (s[i - 1] ^ (s[i - 1] >> 30)) + (uint32_t)i;
        const uint32_t parity[4] = {0x00000001u, 0u, 0u, 0x13c9e684u};
        uint32_t acc = 0; for (int k = 0; k < 4; ++k) acc ^= s[k] & parity[k];
        if ((__builtin_popcount(acc) & 1) == 0) s[0] ^= 1u;     // lowest set bit of the parity vector: bit 0 of word 0
        for (int i = 0; i < N; ++i) w[i] = pack(s[4 * i], s[4 * i + 1], s[4 * i + 2], s[4 * i + 3]);
        pos = 4 * N;
    }
    void block() {
        const u128 MSK = pack(0xdfffffefu, 0xddfecb7fu, 0xbffaffffu, 0xbffffff6u);
        for (int i = 0; i < N; ++i) {
            u128 a = w[i], b = w[(i + 122) % N], c = w[(i + N - 2) % N], d = w[(i + N - 1) % N];
            w[i] = a ^ (a << 8) ^ (shr32(b, 11) & MSK) ^ (c >> 8) ^ shl32(d, 18);
        }
        pos = 0;
    }
    uint32_t next32() { if (pos >= 4 * N) block(); uint32_t r = lane(w[pos / 4], pos % 4); ++pos; return r; }
    uint64_t next64() { uint64_t lo = next32(); uint64_t hi = next32(); return lo | (hi << 32); }
};
}
// library against the independent reference: n 32-bit words, n/2 64-bit words, one fill_array32 block, and the public
// Uniform(0,1) stream (n/2 draws, crossing several 1024-word buffer refills).  The O line shows words of the *library*.
static void caseREF(uint32_t seed, int n) {
    vh::I("REF").i((int)seed).i(n).emit();
    vh::Line o = vh::O("REF");
    double d32 = 0, d64 = 0, dfill = 0, dpub = 0;
    if (direct::ok) {
        direct::Gen g(seed); ref::Sfmt r(seed); uint32_t x = 0;
        for (int i = 0; i < n; ++i) { uint32_t a = direct::g32(g.d), b = r.next32(); x ^= a * (uint32_t)(2 * i + 1); if (a != b) d32++;
            if (i < 3 || (i >= 622 && i < 626) || i >= n - 2) o.i(a); }
        o.i(x);
        direct::Gen g2(seed); ref::Sfmt r2(seed);
        for (int i = 0; i < n / 2; ++i) if (direct::g64(g2.d) != r2.next64()) d64++;
        direct::Gen g3(seed); ref::Sfmt r3(seed); int size = 4 * (N32 / 4 + 217); std::vector<uint32_t> a(size + 4);
        direct::f32(a.data(), size, g3.d); for (int i = 0; i < size; ++i) if (a[i] != r3.next32()) dfill++;
        direct::f32(a.data(), size, g3.d); for (int i = 0; i < size; ++i) if (a[i] != r3.next32()) dfill++;
    } else o.s("direct_unavailable");
    Random::Uniform u; u.setSeed((int)seed); ref::Sfmt rp(seed);
    for (int i = 0; i < n / 2; ++i) { double got = u.getValue(), want = res53(rp.next64()); if (hex(got) != hex(want)) dpub++; if (i == n / 2 - 1) o.d(got); }
    o.emit();
    vh::D(direct::ok ? "REF.direct_and_public" : "REF.public_only");
    if (direct::ok) {
        vh::P("reference_output", "SFMT.gen_rand32.equals_independent_reference", d32, 0);
        vh::P("reference_output", "SFMT.gen_rand64.equals_independent_reference", d64, 0);
        vh::P("reference_output", "SFMT.fill_array32.equals_independent_reference", dfill, 0);
    }
    vh::P("reference_output", "Random.Uniform.stream.equals_independent_reference", dpub, 0);
}
static void stats(const std::vector<double>& v, double& mean, double& var) {
    double s = 0; for (double x : v) s += x; mean = s / (double)v.size();
    double ss = 0; for (double x : v) ss += (x - mean) * (x - mean); var = ss / ((double)v.size() - 1);
}
static void caseSTU(int seed, double mn, double mx, int n) {
    Random::Uniform u(mn, mx); u.setSeed(seed);
    std::vector<double> v(n); for (auto& x : v) x = u.getValue();
    double m, var; stats(v, m, var);
    vh::I("STU").i(seed).d(mn).d(mx).i(n).emit();
    vh::O("STU").d(m).d(var).emit();
    vh::D("STU." + rangeClass(mn, mx));
    // z-scores on the normalised variable (x-min)/(max-min) in [0,1]: no overflow/underflow whatever the scale of the range
    double r = mx - mn, su = 0; std::vector<double> w(n);
    for (int i = 0; i < n; ++i) { w[i] = (v[i] - mn) / r; su += w[i]; }
    double mu = su / n, ssu = 0; for (double x : w) ssu += (x - mu) * (x - mu);
    double vu = ssu / (n - 1.0);
    bool tiny = rangeClass(mn, mx) == "tiny";      // a range of a few ulps is a lattice of 2-17 points: its moments are not 1/2, 1/12
    if (!tiny) {
        vh::P("mean_z", "Random.Uniform.stats.mean", std::fabs(mu - 0.5) / std::sqrt(1.0 / 12 / n), 5);
        vh::P("var_z", "Random.Uniform.stats.variance", std::fabs(vu - 1.0 / 12) / (1.0 / 12 * std::sqrt(0.8 / n)), 5);   // kurtosis 1.8
    }
}
// integer mode on [a,b): bucket counts (exact, compared with the model) and a chi-square predicate against the uniform law
static void caseSTI(int seed, int a, int b, int n) {
    Random::Uniform u(a, b); u.setSeed(seed);
    std::vector<long long> cnt(b - a, 0); double outside = 0;
    for (int i = 0; i < n; ++i) { int x = u.getIntValue(); if (x >= a && x < b) cnt[x - a]++; else outside++; }
    vh::I("STI").i(seed).i(a).i(b).i(n).emit();
    vh::Line o = vh::O("STI"); for (auto c : cnt) o.i(c); o.i((long long)outside); o.emit();
    vh::D("STI.buckets" + std::to_string(b - a));
    double e = (double)n / (b - a), chi = 0; for (auto c : cnt) chi += (c - e) * (c - e) / e;
    // P(chi2_df > bound) ~ 6e-7 (the 5-sigma level): df 1: 25.0, 2: 28.7, 3: 31.8, 5: 37.3, 9: 46.5
    int df = b - a - 1; double bound = df <= 1 ? 25.0 : df == 2 ? 28.7 : df == 3 ? 31.8 : df <= 5 ? 37.3 : 46.5;
    vh::P("chi2", "Random.Uniform.getIntValue.stats.bucket_chi2", chi, bound);
    vh::P("in_buckets", "Random.Uniform.getIntValue.stats.outside_range", outside, 0);
}
static void caseSTG(int seed, double mu, double sd, int n) {
    Random::Gaussian g(mu, sd); g.setSeed(seed);
    std::vector<double> v(n); for (auto& x : v) x = g.getValue();
    double m, var; stats(v, m, var);
    vh::I("STG").i(seed).d(mu).d(sd).i(n).emit();
    std::printf("T 1e-11 1e-13\n");
    vh::O("STG").d(m).d(var).emit();
    vh::D("STG");
    vh::P("mean_z", "Random.Gaussian.stats.mean", std::fabs(m - mu) / (sd / std::sqrt((double)n)), 5);
    vh::P("var_z", "Random.Gaussian.stats.variance", std::fabs(var - sd * sd) / (sd * sd * std::sqrt(2.0 / n)), 5);   // kurtosis 3
}
// F8: what does getValue / getIntValue return when the raw word is `raw`?
static void caseF8(uint64_t raw, double mn, double mx, int mode) {
    double val; bool injected = false;
    if (direct::forceRaw) {
        Random::Uniform u(mn, mx); u.setSeed(1);
        *direct::forceRaw = &raw;
        val = mode ? (double)u.getIntValue() : u.getValue();
        *direct::forceRaw = nullptr;
        injected = true;
    } else {
        double range = mx - mn;                        // UniformImpl: range(max-min)
        val = mn + res53(raw) * range;                  // UniformImpl::getValue: min+getNextRandom()*range
        if (mode) val = (double)(int)std::floor(val);   // Uniform::getIntValue
    }
    vh::I("F8").s(std::to_string(raw)).d(mn).d(mx).i(mode).emit();
    if (mode) vh::O("F8").i((long long)val).emit(); else vh::O("F8").d(val).emit();
    vh::D(std::string(injected ? "F8.injected" : "F8.arith") + (val == mx ? ".returns_max" : val > mx ? ".above_max" : ".in_range"));
    if (injected) {   // only a value really returned by the library is judged
        std::string k = std::string("Random.Uniform.") + (mode ? "getIntValue" : "getValue") + ".injected_raw";
        vh::P("ge_min", k + ".ge_min", val >= mn ? 0 : 1, 0);
        vh::P("lt_max", k + ".returns_max", val == mx ? 1 : 0, 0);
        vh::P("le_max", k + ".above_max", val > mx ? 1 : 0, 0);
    }
}

// ---------------------------------------------------------------------------------------------------------------
static void replay() {
    char buf[1 << 16];
    while (std::fgets(buf, sizeof buf, stdin)) {
        std::istringstream is(buf); std::string k, fn; is >> k >> fn;
        if (k != "I") continue;
        std::vector<std::string> t; std::string s; while (is >> s) t.push_back(s);
        auto I = [&](int i) { return std::atoi(t[i].c_str()); };
        auto L = [&](int i) { return std::atol(t[i].c_str()); };
        auto Dd = [&](int i) { return vh::unhex(t[i]); };
        if (fn == "U" && t.size() == 5) caseU(I(0), Dd(1), Dd(2), L(3), I(4));
        else if (fn == "UI" && t.size() == 5) caseUI(I(0), Dd(1), Dd(2), L(3), I(4), "replay");
        else if (fn == "G" && t.size() == 5) caseG(I(0), Dd(1), Dd(2), L(3), I(4));
        else if (fn == "FA" && t.size() == 5) caseFA(I(0), Dd(1), Dd(2), I(3), I(4));
        else if (fn == "FAG" && t.size() == 5) caseFAG(I(0), Dd(1), Dd(2), I(3), I(4));
        else if (fn == "RS" && t.size() == 4) caseRS(I(0), I(1), I(2), I(3));
        else if (fn == "RSG" && t.size() == 4) caseRSG(I(0), I(1), I(2), I(3));
        else if (fn == "IL" && t.size() == 4) caseIL(I(0), I(1), I(2), std::strtoull(t[3].c_str(), nullptr, 10));
        else if (fn == "SM" && t.size() == 8) caseSM(I(0), Dd(1), Dd(2), I(3), I(4), Dd(5), Dd(6), I(7));
        else if (fn == "KATP") caseKATP();
        else if (fn == "STU" && t.size() == 4) caseSTU(I(0), Dd(1), Dd(2), I(3));
        else if (fn == "STG" && t.size() == 4) caseSTG(I(0), Dd(1), Dd(2), I(3));
        else if (fn == "STI" && t.size() == 4) caseSTI(I(0), I(1), I(2), I(3));
        else if (fn == "REF" && t.size() == 2) caseREF((uint32_t)I(0), I(1));
        else if (fn == "F8" && t.size() == 4) caseF8(std::strtoull(t[0].c_str(), nullptr, 10), Dd(1), Dd(2), I(3));
        else if (direct::ok) {
            if (fn == "S32" && t.size() == 3) caseS32((uint32_t)I(0), I(1), I(2));
            else if (fn == "S64" && t.size() == 3) caseS64((uint32_t)I(0), I(1), I(2));
            else if (fn == "SF64" && t.size() == 4) caseSF64((uint32_t)I(0), I(1), I(2), I(3));
            else if (fn == "SF32" && t.size() == 4) caseSF32((uint32_t)I(0), I(1), I(2), I(3));
            else if (fn == "SMIX" && t.size() == 4) caseSMIX((uint32_t)I(0), I(1), I(2), I(3));
            else if (fn == "KAT") caseKAT();
        }
    }
}

static int pickSeed(vh::Rng& g) {
    switch (g.below(8)) {
        case 0: return 0;
        case 1: return 1;
        case 2: return -1;                       // 2^32-1 as uint32_t
        case 3: return INT32_MIN;
        case 4: return INT32_MAX;
        case 5: return g.below(100);
        default: return (int)(uint32_t)g.next();
    }
}
static long pickSkip(vh::Rng& g, bool big) {
    switch (g.below(6)) {
        case 0: return 0;
        case 1: return 1020 + g.below(8);        // straddles the first buffer refill
        case 2: return 2040 + g.below(16);       // second refill
        case 3: return g.below(5000);
        case 4: return big ? 10000 + g.below(40000) : g.below(300);
        default: return g.below(64);
    }
}
static void pickRange(vh::Rng& g, double& mn, double& mx) {
    switch (g.below(8)) {
        case 0: mn = 0; mx = 1; break;
        case 1: mn = g.range(-100, 100); mx = mn + g.range(1e-3, 100); break;
        case 2: mx = -g.range(1e-3, 1e3); mn = mx - g.range(1e-6, 1e3); break;                 // negative
        case 3: mn = g.signedMag(1e-300, 1e-290); mx = mn + g.range(1e-300, 1e-290); break;     // tiny magnitudes
        case 4: mn = g.signedMag(1e10, 1e12); mx = mn + g.range(1, 1e6); break;                 // large offset, small range
        case 5: mn = -g.range(1, 1e6); mx = g.range(1, 1e6); break;                             // straddles zero
        case 6: mn = g.signedMag(0.5, 2); mx = mn + g.range(1e-9, 1e-6); break;                 // narrow
        default: mn = std::ldexp(g.signedMag(1, 2), g.below(200) - 100); mx = mn + std::fabs(mn) * g.range(0.01, 4); break;
    }
}

int main(int argc, char** argv) {
    vh::Args args(argc, argv);
    direct::load();
    if (args.mode == "replay") { replay(); return 0; }
    vh::Rng g(args.seed * 7919 + 31);
    const bool big = args.n > 5000;
    // ---- fixed records
    caseKATP();
    if (direct::ok) caseKAT(); else vh::D("sfmt_direct.unavailable");
    vh::D(direct::forceRaw ? "hook.forceRaw.present" : "hook.forceRaw.absent");
    for (int s : {0, 1, -1}) { caseU(s, 0, 1, 0, 16); caseU(s, 0, 1, 1016, 16); }
    caseREF(1234u, 6000); caseREF(4321u, 2600); caseREF((uint32_t)g.next(), big ? 200000 : 6000);
    // F8 boundary raws: u = 1.0 exactly (raw >= 2^64-2^10) and u = 1-2^-53
    const uint64_t rawOne = ~0ull, rawEdge = 0xFFFFFFFFFFFFFC00ull, rawBelow = 0xFFFFFFFFFFFFFBFFull, rawU53 = 0xFFFFFFFFFFFFF800ull;
    caseF8(rawOne, 0, 1, 0); caseF8(rawEdge, 0, 1, 0); caseF8(rawBelow, 0, 1, 0);
    caseF8(rawU53, 1, 2, 0); caseF8(rawOne, 0, 10, 1); caseF8(rawU53, 1000000000, 1000000001, 1);
    caseF8(rawOne, -1, std::ldexp(1.0, -30) * (1 + std::ldexp(1.0, -23) + std::ldexp(1.0, -52)), 0);   // fl(max-min) rounds up: value > max
    caseF8(0, 0, 1, 0); caseF8(1, -3, 5, 0); caseF8(0x8000000000000400ull, 0, 1, 0); caseF8(0x8000000000000c00ull, 0, 1, 0);
    // ---- tiny ranges (property quantifier: "ranges (including negative and tiny)")
    {
        double one = 1.0, up = std::nextafter(1.0, 2.0);
        caseU(pickSeed(g), one, up, 0, 32);                                   // range = 1 ulp
        double m = -g.range(1, 1000); caseU(pickSeed(g), m, std::nextafter(std::nextafter(m, 0.0), 0.0), 3, 32);   // negative, 2 ulps
    }
    // ---- integer mode witness reachable through the public API: Uniform(2^30, 2^30+1), search the stream of seed 1
    {
        const double mn = 1073741824.0, mx = 1073741825.0;
        Random::Uniform u(mn, mx); u.setSeed(1);
        long idx = -1; const long budget = big ? 400000000L : 60000000L;
        for (long i = 0; i < budget; ++i) if (u.getIntValue() == (int)mx) { idx = i; break; }
        if (idx >= 0) caseUI(1, mn, mx, idx > 2 ? idx - 2 : 0, 4, "bigmin_unit_range.witness_search");
        else vh::D("UI.bigmin_unit_range.no_witness_within_budget");
    }
    // ---- random records
    for (long k = 0; k < args.n; ++k) {
        int stream = g.below(big ? 40 : 20);
        double mn, mx; pickRange(g, mn, mx);
        int seed = pickSeed(g);
        if (stream <= 3) caseU(seed, mn, mx, pickSkip(g, big), 1 + g.below(24));
        else if (stream == 4) caseU(seed, 0, 1, pickSkip(g, big), 1 + g.below(24));
        else if (stream <= 6) {
            double a, b;
            switch (g.below(4)) {
                case 0: a = 0; b = 1 + g.below(1000); break;
                case 1: a = g.below(2001) - 1000; b = a + 1 + g.below(50); break;
                case 2: a = g.below(2000001) - 1000000; b = a + 1; break;                       // single admissible integer
                default: a = -1 - g.below(100000); b = -a + g.below(3); break;
            }
            caseUI(seed, a, b, pickSkip(g, false), 1 + g.below(24), b - a == 1 ? "unit_range" : a < 0 ? "negative_min" : "generic");
        }
        else if (stream <= 9) caseG(seed, g.coin() ? 0.0 : g.signedMag(0.01, 100), g.coin() ? 1.0 : g.range(1e-3, 100), pickSkip(g, false), 1 + g.below(24));
        else if (stream == 10) caseFA(seed, mn, mx, 1 + g.below(big ? 3000 : 1500), 1 + g.below(1));
        else if (stream == 11) caseFAG(seed, g.signedMag(0.01, 100), g.range(1e-3, 100), 1 + g.below(600), 1);
        else if (stream == 12) caseRS(seed, 1 + g.below(1100), pickSeed(g), 1 + g.below(12));
        else if (stream == 13) caseRSG(seed, 1 + g.below(40), pickSeed(g), 1 + g.below(12));
        else if (stream == 14) { int n = 2 + g.below(58); caseIL(seed, g.coin() ? seed : pickSeed(g), n, g.next() & ((1ull << n) - 1)); }
        else if (stream == 15) { double mn2, mx2; pickRange(g, mn2, mx2); int which = g.below(3);
            if (which == 1 && !(mn2 < mx)) mn2 = mx - 1; if (which == 2 && !(mx2 > mn)) mx2 = mn + 1;
            caseSM(seed, mn, mx, 1 + g.below(1100), which, mn2, mx2, 1 + g.below(12)); }
        else if (!direct::ok) caseU(seed, 0, 1, pickSkip(g, big), 1 + g.below(24));
        else if (stream == 16) caseS32((uint32_t)seed, g.below(3) == 0 ? 620 + g.below(8) : g.below(2000), 1 + g.below(16));
        else if (stream == 17) caseS64((uint32_t)seed, g.below(3) == 0 ? 308 + g.below(8) : g.below(1000), 1 + g.below(12));
        else if (stream == 18) { int size = 2 * (N64 / 2 + (g.coin() ? g.below(N64 / 2) : g.below(1000))); caseSF64((uint32_t)seed, size, 1 + g.below(3), 1 + g.below(8)); }
        else if (stream == 19) { if (g.coin()) { int size = 4 * (N32 / 4 + (g.coin() ? g.below(N32 / 4) : g.below(1000))); caseSF32((uint32_t)seed, size, 1 + g.below(3), 1 + g.below(8)); }
                                 else caseSMIX((uint32_t)seed, g.below(4), 2 * (N64 / 2 + g.below(600)), 1 + g.below(8)); }
        else caseU(seed, mn, mx, pickSkip(g, big), 1 + g.below(24));
    }
    // ---- statistics (measured numbers; 5-sigma predicates)
    const int ns = 100000;
    caseSTU((int)(args.seed * 31 + 1), 0, 1, ns);
    { double mn, mx; pickRange(g, mn, mx); caseSTU((int)(args.seed * 31 + 2), mn, mx, ns); }
    caseSTG((int)(args.seed * 31 + 3), 0, 1, ns);
    caseSTG((int)(args.seed * 31 + 4), g.signedMag(0.1, 10), g.range(0.1, 10), ns);
    caseSTI((int)(args.seed * 31 + 5), 0, 3, ns); caseSTI((int)(args.seed * 31 + 6), -2, 1, ns);
    caseSTI((int)(args.seed * 31 + 7), 0, 2, ns); caseSTI((int)(args.seed * 31 + 8), -5, 5, big ? 10 * ns : ns);
    return 0;
}
